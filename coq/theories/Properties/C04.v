(* C04 -- Aggregated message types are delivered as one complete batch per round.
   Only statements; every proof is [exact] of a lemma of Node/AggregateProofs.v
   or Node/C04CheckProofs.v.  Model: Node/Instance.v (aggregate, dispatch, step). *)
From Coq Require Import List Arith Permutation.
Import ListNotations.
From Onet Require Node.Dispatch Node.DispatchProofs.
From Onet Require Import Base.Corr Node.Instance Node.Obs Node.VerifyProofs Node.AggregateProofs
  Corr.C04 Node.C04CheckProofs Node.Pipeline Node.PipelineProofs Node.PipelineC04Proofs
  Node.Channel Node.ChannelProofs.

(* POSITIVE THEOREMS: UNDER ROUND-SEPARATED ARRIVAL FROM CHILDREN (each round =
   one message from every child, rounds one after the other, every message
   passes the C02 sender check).  What the pinned code does outside these
   hypotheses is at the end of this file (three known findings).

   The property, at the level of TreeNodeInstance.aggregate, for every node
   (any number n >= 1 of children with ids [cs]), every registration table,
   every number of rounds and every arrival order inside each round: if the
   arrival sequence of an aggregated type is a concatenation of rounds -- each
   round one message from every child, rounds arriving one after the other --
   then (1) the outcomes are, round by round, n-1 times "wait" followed by the
   batch, i.e. nothing of that type is delivered before the last message of a
   round has arrived; (2) the batches are exactly the rounds, in order, each
   holding exactly the messages of its round (in arrival order); (3) nothing of
   the type is left waiting and the queues of all other types are untouched. *)
Theorem c04_batches : forall me r ty cs rounds q,
  1 <= n_nch me -> length cs = n_nch me ->
  Forall (is_round me r ty cs) rounds ->
  qget q ty = [] ->
  outs_of (agg_run me r q (concat rounds)) = flat_map round_outs rounds /\
  map fst (fst (agg_run me r q (concat rounds))) = concat rounds /\
  qget (snd (agg_run me r q (concat rounds))) ty = [] /\
  forall ty', ty' <> ty -> qget (snd (agg_run me r q (concat rounds))) ty' = qget q ty'.
Proof. exact batches_are_rounds. Qed.
Print Assumptions c04_batches.

(* Every batch that comes out is one of the rounds and holds one message per
   child: nothing lost, duplicated or mixed between rounds. *)
Theorem c04_batches_partition : forall me r ty cs rounds q,
  1 <= n_nch me -> length cs = n_nch me ->
  Forall (is_round me r ty cs) rounds -> qget q ty = [] ->
  forall b, In (ABatch b) (outs_of (agg_run me r q (concat rounds))) ->
    In b rounds /\ Permutation (map p_from b) (map Some cs).
Proof. exact batches_partition. Qed.
Print Assumptions c04_batches_partition.

(* What the code really implements (completion by COUNT): the same conclusion
   for any groups of exactly n child messages, whoever sent them. *)
Theorem c04_rounds_by_count : forall me r ty rounds q,
  1 <= n_nch me ->
  Forall (fun rd => length rd = n_nch me /\ Forall (collects me r ty) rd) rounds ->
  qget q ty = [] ->
  exists q',
    outs_of (agg_run me r q (concat rounds)) = flat_map round_outs rounds /\
    map fst (fst (agg_run me r q (concat rounds))) = concat rounds /\
    snd (agg_run me r q (concat rounds)) = q' /\
    qget q' ty = [] /\ forall ty', ty' <> ty -> qget q' ty' = qget q ty'.
Proof. exact rounds_by_count. Qed.
Print Assumptions c04_rounds_by_count.

(* Down to the protocol: one round of messages that pass the sender check
   reaches the handler / channel (kind k, slice form) as exactly ONE batch
   holding exactly the round's elements, with the last arrival and not before. *)
Theorem c04_round_delivered : forall f2 f3 ns me r ty k rd es q,
  1 <= n_nch me -> length rd = n_nch me ->
  Forall (collects me r ty) rd -> Forall (fun m => p_from m <> None) rd ->
  lookup r ty = Some (k, true) ->
  Forall2 (fun m e => verify f2 ns m = VOk e) rd es ->
  qget q ty = [] ->
  exists q',
    steps f2 f3 ns me r q rd =
      (repeat ([], SWait) (length rd - 1) ++
       [([{| d_type := ty; d_kind := k; d_agg := true; d_batch := es |}], SOk)], q') /\
    qget q' ty = [] /\ forall ty', ty' <> ty -> qget q' ty' = qget q ty'.
Proof. exact round_delivered. Qed.
Print Assumptions c04_round_delivered.

(* Messages from the parent (of an aggregated type: a batch of one) and
   messages of non-aggregated types are delivered one by one, immediately,
   unchanged, and leave every queue alone. *)
Theorem c04_bypass : forall f2 f3 ns me r q m k e,
  verify f2 ns m = VOk e ->
  (from_parent me m = true -> lookup r (p_type m) = Some (k, true) ->
   step f2 f3 ns me r q m =
     (q, ([{| d_type := p_type m; d_kind := k; d_agg := true; d_batch := [e] |}], SOk))) /\
  (p_from m <> None -> lookup r (p_type m) = Some (k, false) ->
   step f2 f3 ns me r q m =
     (q, ([{| d_type := p_type m; d_kind := k; d_agg := false; d_batch := [e] |}], SOk))).
Proof. exact bypass_delivered. Qed.
Print Assumptions c04_bypass.

(* Batches of different types never mix: interleave anything with the messages
   of type ty -- what happens to them is what happens when they arrive alone. *)
Theorem c04_types_independent : forall me r ty l q1 q2,
  qget q1 ty = qget q2 ty ->
  filter (of_type ty) (fst (agg_run me r q1 l)) =
  fst (agg_run me r q2 (filter (fun m => p_type m =? ty) l)) /\
  qget (snd (agg_run me r q1 l)) ty =
  qget (snd (agg_run me r q2 (filter (fun m => p_type m =? ty) l))) ty.
Proof. exact types_independent. Qed.
Print Assumptions c04_types_independent.

(* Batches of different runs never mix: with several instances on one server
   and any interleaving, the messages of instance i fare as if they were alone
   (as long as the process lives). *)
Theorem c04_instances_independent : forall f c i l s1 s2,
  sget s1 i = sget s2 i ->
  existsb is_crash (run_from f c s1 l) = false ->
  map snd (filter (fun p => for_inst i (fst p)) (combine l (run_from f c s1 l))) =
  run_from f c s2 (filter (for_inst i) l).
Proof. exact instances_independent. Qed.
Print Assumptions c04_instances_independent.

(* ---- OUTSIDE THE HYPOTHESES: three known findings ---------------------------
   The theorems above are stated under round-separated arrival from children that
   pass the sender check.  The property text is not: "all arrival orders and
   interleavings of the children's messages ... several consecutive rounds",
   "exactly those messages, one per child", "rounds ... never mix".  On inputs
   outside the hypotheses the pinned code deviates from the text; each witness
   below is the model's own run (agree = true) judged by the checker's literal
   reading of the text (Corr/C04.v text_step). *)

(* (i) children pipeline rounds: a batch with two messages of one child, none of
   the other (aggregate() completes by COUNT) *)
Theorem c04_rounds_mix_refuted :
  let c := wit_case two_children [wit_msg 1 1 11; wit_msg 1 1 12; wit_msg 2 2 21; wit_msg 2 2 22] in
  agree c = true /\ in_scope c = false /\ check c = [4] /\
  k_obs c = [D 0 2 true [E (OPos 1) 11; E (OPos 1) 12]; D 0 2 true [E (OPos 2) 21; E (OPos 2) 22]].
Proof. exact rounds_mix_refuted. Qed.
Print Assumptions c04_rounds_mix_refuted.

(* (ii) an authenticated tree member that is not a child takes a child's place *)
Theorem c04_nonchild_refuted :
  let c := wit_case wit_tree [wit_msg 1 1 11; wit_msg 4 4 41; wit_msg 2 2 21; wit_msg 3 3 31] in
  agree c = true /\ in_scope c = false /\ check c = [4] /\
  k_obs c = [D 0 2 true [E (OPos 1) 11; E (OPos 4) 41; E (OPos 2) 21]].
Proof. exact nonchild_refuted. Qed.
Print Assumptions c04_nonchild_refuted.

(* (iii) one element that fails the sender check poisons the batch: it is dropped
   whole (C02 holds) and the round never completes although every child sent *)
Theorem c04_poisoned_batch_refuted :
  let c := wit_case two_children [wit_msg 2 1 11; wit_msg 2 2 21; wit_msg 1 1 12] in
  agree c = true /\ in_scope c = false /\ check c = [1] /\ k_obs c = [].
Proof. exact poisoned_refuted. Qed.
Print Assumptions c04_poisoned_batch_refuted.

(* the literal reading is satisfiable: keeping pipelined rounds apart passes *)
Example c04_text_reading_satisfiable :
  check (C two_children [0] [wit_msg 1 1 11; wit_msg 1 1 12; wit_msg 2 2 21; wit_msg 2 2 22]
           [D 0 2 true [E (OPos 1) 11; E (OPos 2) 21]; D 0 2 true [E (OPos 2) 22; E (OPos 1) 12]] FAlive) = [].
Proof. exact text_reading_satisfiable. Qed.
Print Assumptions c04_text_reading_satisfiable.

(* the same two behaviours at the level of aggregate(): completion by count
   pairs a fast child's two messages ... *)
Example c04_unseparated_example :
  outs_of (agg_run root2 regs_agg [] [cm 1 2 11; cm 1 2 12; cm 2 2 21; cm 2 2 22]) =
    [AWait; ABatch [cm 1 2 11; cm 1 2 12]; AWait; ABatch [cm 2 2 21; cm 2 2 22]].
Proof. exact unseparated_example. Qed.
Print Assumptions c04_unseparated_example.

(* ... and a tree member that is not a child takes a child's place. *)
Example c04_nonchild_example :
  outs_of (agg_run root2 regs_agg [] [cm 1 2 11; cm 7 2 71; cm 2 2 21]) =
    [AWait; ABatch [cm 1 2 11; cm 7 2 71]; AWait].
Proof. exact nonchild_example. Qed.
Print Assumptions c04_nonchild_example.

(* The hypotheses of c04_batches are satisfiable, and its conclusion on them. *)
Example c04_round_example :
  is_round root2 regs_agg 2 [1; 2] [cm 2 2 21; cm 1 2 11] /\ length [1; 2] = n_nch root2.
Proof. exact is_round_example. Qed.
Print Assumptions c04_round_example.

Example c04_separated_example :
  outs_of (agg_run root2 regs_agg [] [cm 1 2 11; cm 2 2 21; cm 2 2 22; cm 1 2 12]) =
    [AWait; ABatch [cm 1 2 11; cm 2 2 21]; AWait; ABatch [cm 2 2 22; cm 1 2 12]].
Proof. exact separated_example. Qed.
Print Assumptions c04_separated_example.

(* The checker evaluated on every observation: when it reports nothing for a
   scenario within the hypotheses, the deliveries observed are, one by one, the
   deliveries the property's reading of the input expects (batches compared as
   sets of (node, message) pairs), and the instance was alive at the end. *)
Theorem c04_check_sound : forall c exp,
  in_scope c = true ->
  spec_run (nodes (k_tree c)) (k_insts c) [] (k_msgs c) = Some exp ->
  check c = [] ->
  k_final c = FAlive /\ Forall2 (fun d o => deliv_equiv d o = true) exp (k_obs c).
Proof. exact check_sound. Qed.
Print Assumptions c04_check_sound.

(* THE MODEL MEETS THE PROPERTY'S READING, for every tree, instance table and
   history within the hypotheses (decided by spec_run from the INPUT alone:
   authenticated tree members as senders; per instance and aggregated type the
   children answer round after round, each child once per round; anything from
   the parent, single types and unregistered types in between), and for every
   variant f of the code: the model's deliveries are exactly the expected ones
   -- one batch per round holding exactly that round's messages, with the last
   arrival and not before; parent / single messages one by one at once; batches
   of different types, rounds and instances never mixed -- and nothing crashes. *)
Theorem c04_model_meets_spec : forall f c exp,
  spec_run (nodes (k_tree c)) (k_insts c) [] (k_msgs c) = Some exp ->
  project (k_msgs c) (run f (config_of c) (k_msgs c)) = exp /\
  crashed (run f (config_of c) (k_msgs c)) = false /\
  bad_config (run f (config_of c) (k_msgs c)) = false.
Proof. exact model_meets_spec. Qed.
Print Assumptions c04_model_meets_spec.

(* ... so an implementation run that agrees with the model on such a scenario
   shows exactly the expected deliveries and a live instance. *)
Theorem c04_agree_in_scope : forall c exp,
  spec_run (nodes (k_tree c)) (k_insts c) [] (k_msgs c) = Some exp ->
  agree c = true ->
  list_eqb odeliv_eqb exp (k_obs c) = true /\ k_final c = FAlive.
Proof. exact agree_in_scope. Qed.
Print Assumptions c04_agree_in_scope.

(* C04 scenarios never contain the inputs of defects F02/F03: on histories whose
   sender tokens all name nodes of the tree, every variant of the code (pinned,
   repaired) runs identically. *)
Theorem c04_variants_agree : forall f f' c l,
  (forall x, In x l -> exists id, w_from (i_wire x) = Some id /\
                        exists n, In n (nodes (c_tree c)) /\ n_id n = id) ->
  run f c l = run f' c l.
Proof. exact variants_agree. Qed.
Print Assumptions c04_variants_agree.

(* ---- linked with the C05 model: every interleaving -------------------------
   Node/Pipeline.v runs the C05 reader/queue transition system (Node/Dispatch.v)
   and the aggregation semantics above as one system (any number of instances;
   feeders, readers and closes in any order). *)

(* Once instance i's dispatch queue is drained, its log is the sequential
   semantics on exactly the sequence it accepted (before that: on the started
   prefix, c02_log_is_sequential). *)
Theorem c04_log_is_sequential : forall f c tbl n acts st i ci,
  prun f c tbl (pinit n) acts = Some st -> nth_error (p_sys st) i = Some ci ->
  Dispatch.queue ci = [] ->
  ilog i (p_log st) = run f c (accepted_inj tbl i ci).
Proof. exact pipeline_quiescent. Qed.
Print Assumptions c04_log_is_sequential.

(* C04 for the combined system.  If the sequence instance i ACCEPTED is within
   the property's hypotheses (children answer round after round ...; decided by
   spec_run from the input alone, [exp] = the deliveries it is due), then in
   every reachable state, under every interleaving and for both code variants,
   what the instance's handlers and channels have received is a prefix of
   [exp] -- never a batch before the last child's message of its round was
   dispatched, never a batch twice or mixed -- *)
Theorem c04_holds_under_every_interleaving : forall f t insts tbl n acts st i ci exp,
  prun f (cfg_of t insts) tbl (pinit n) acts = Some st -> nth_error (p_sys st) i = Some ci ->
  spec_run (nodes t) insts [] (accepted_inj tbl i ci) = Some exp ->
  exists later, exp = received tbl i ci st ++ later.
Proof. exact pipeline_batches_prefix. Qed.
Print Assumptions c04_holds_under_every_interleaving.

(* ... and exactly [exp] -- one complete batch per round -- once the dispatch
   queue is drained. *)
Theorem c04_complete_at_quiescence : forall f t insts tbl n acts st i ci exp,
  prun f (cfg_of t insts) tbl (pinit n) acts = Some st -> nth_error (p_sys st) i = Some ci ->
  Dispatch.queue ci = [] ->
  spec_run (nodes t) insts [] (accepted_inj tbl i ci) = Some exp ->
  received tbl i ci st = exp.
Proof. exact pipeline_batches_quiescent. Qed.
Print Assumptions c04_complete_at_quiescence.

(* the same for whatever prefix has been started, with no crash *)
Theorem c04_started_prefix_delivered : forall f t insts tbl n acts st i ci exp,
  prun f (cfg_of t insts) tbl (pinit n) acts = Some st -> nth_error (p_sys st) i = Some ci ->
  spec_run (nodes t) insts [] (started_inj tbl i ci) = Some exp ->
  received tbl i ci st = exp /\ existsb is_crash (ilog i (p_log st)) = false.
Proof. exact pipeline_batches. Qed.
Print Assumptions c04_started_prefix_delivered.

(* ---- channels of any capacity, a reader that is behind ----------------------
   Node/Channel.v models what lies between a delivery and the protocol reading
   its channel: the aggregated branch of dispatchChannel BLOCKS in the send, the
   non-aggregated branch refuses when the channel is full (documented), handlers
   are called directly; dispatch goroutine and reader interleave arbitrarily. *)

(* For every capacity, every delivery sequence [ds] of an instance and every
   interleaving: of an aggregated channel type, what has been dispatched is what
   the protocol has read ++ what sits in the channel ++ the batch being sent --
   no batch lost, none reordered, however far the reader is behind. *)
Theorem c04_batches_never_lost : forall cap ds acts st ty,
  (forall d, In d ds -> is_chan d = true -> d_type d = ty -> d_agg d = true) ->
  crun false cap (cinit ds) acts = Some st ->
  chan ty (c_done st) = chan ty (c_read st) ++ c_buf st ty ++ pend ty st /\
  ds = c_done st ++ c_todo st.
Proof. exact (fun cap ds acts st ty => batches_never_lost false cap ds acts st ty eq_refl). Qed.
Print Assumptions c04_batches_never_lost.

(* ... hence once everything is dispatched and the channel drained the protocol
   has read exactly the batches, in order (one per round by c04_batches). *)
Theorem c04_all_batches_received : forall cap ds acts st ty,
  (forall d, In d ds -> is_chan d = true -> d_type d = ty -> d_agg d = true) ->
  crun false cap (cinit ds) acts = Some st ->
  c_todo st = [] -> c_pending st = None -> c_buf st ty = [] ->
  chan ty (c_read st) = chan ty ds.
Proof. exact (fun cap ds acts st ty => all_batches_received false cap ds acts st ty eq_refl). Qed.
Print Assumptions c04_all_batches_received.

(* the only deliveries ever refused are non-aggregated ones to a full channel *)
Theorem c04_only_singles_refused : forall cap ds acts st d,
  crun false cap (cinit ds) acts = Some st -> In d (c_dropped st) ->
  is_chan d = true /\ d_agg d = false.
Proof. exact (fun cap ds acts st d => only_singles_refused_blocking false cap ds acts st d eq_refl). Qed.
Print Assumptions c04_only_singles_refused.

(* a waiting send is completed by the next read of that channel *)
Theorem c04_waiting_send_completes : forall ts cap st d,
  c_pending st = Some d ->
  exists st', cstep ts cap st (CRead (d_type d)) = Some st' /\ c_pending st' = None.
Proof. exact waiting_send_completes. Qed.
Print Assumptions c04_waiting_send_completes.

(* what the blocking send is for: the variant that only TRIES to send loses
   every batch that finds the channel full (capacity 1, three rounds, one read) *)
Theorem c04_trysend_loses_batches_refuted :
  exists cap ds acts st,
    crun true cap (cinit ds) acts = Some st /\ c_todo st = [] /\ c_pending st = None /\
    c_buf st 8 = [] /\ chan 8 (c_read st) <> chan 8 ds /\ c_dropped st = [batch 8 2; batch 8 3].
Proof. exact trysend_loses_batches. Qed.
Print Assumptions c04_trysend_loses_batches_refuted.
