(* C20 -- Address parsing is total and self-consistent.
   Only statements; every proof is [exact] of a lemma of Addr/*Proofs.v.

   Model: Addr/Address.v (network/address.go, struct.go GlobalBind, tcp.go
   getListenAddress, websocket_client.go getWSHostPort) on top of Addr/GoStr.v and
   Addr/GoNet.v (fragments of Go's strings, strconv, unicode, net).  Independent
   parse: Addr/Grammar.v.  [pinned] is the code as it is, [documented] the code as
   documented; [mode_of] maps a model variant to the grammar mode it implements
   (mode_of pinned = lenient brackets, strings.ToLower folding, 254 before a
   trailing dot; mode_of documented = strict brackets, ASCII folding, 253). *)
From Coq Require Import String Ascii NArith ZArith Bool List.
From Onet Require Import Base.HexC20 Addr.GoStr Addr.GoNet Addr.Address Addr.Grammar
  Addr.GoStrProofs Addr.GoNetProofs Addr.ParseIPProofs Addr.AddressProofs Corr.C20 Addr.CheckProofs.
Import ListNotations.
Local Open Scope list_scope.

(* Totality: for every byte string and every variant, no Address method,
   GlobalBind, getListenAddress or getWSHostPort reaches a Crash branch (index out
   of range), provided the resolver never answers an empty list without error. *)
Theorem c20_total : forall v lk a l u g,
  (forall h, lk h <> Some []) ->
  valid v a <> Crash /\ conn_type v a <> Crash /\ network_address v a <> Crash /\
  host v a <> Crash /\ port v a <> Crash /\ is_hostname v a <> Crash /\
  resolve v lk a <> Crash /\ network_address_resolved v lk a <> Crash /\ public v lk a <> Crash /\
  global_bind l <> Crash /\ get_listen_address v a l <> Crash /\ get_ws_host_port v a u g <> WCrash.
Proof. exact total. Qed.
Print Assumptions c20_total.

Example c20_total_needs_resolver_contract :
  resolve pinned (fun _ => Some []) (B "tcp://localhost:80") = Crash.
Proof. exact resolve_crash_on_empty_answer. Qed.
Print Assumptions c20_total_needs_resolver_contract.

(* Valid() is exactly the independent grammar, for the pinned code (lenient mode)
   and for the documented behaviour (documented mode) alike. *)
Theorem c20_valid_iff_grammar : forall v a,
  valid v a = Ok true <-> AddressG (mode_of v) a.
Proof. exact valid_iff_grammar. Qed.
Print Assumptions c20_valid_iff_grammar.

Theorem c20_valid_is_boolean : forall v a, exists b, valid v a = Ok b.
Proof. exact valid_bool. Qed.
Print Assumptions c20_valid_is_boolean.

(* the library fragments underneath, each against its own declarative reading *)
Theorem c20_hostname_iff_grammar : forall v h,
  valid_hostname v h = Ok true <-> HostNameG (mode_of v) h.
Proof. exact valid_hostname_iff. Qed.
Print Assumptions c20_hostname_iff_grammar.

Theorem c20_hostname_regex_language : forall s, regex_hostname s = true <-> RegexLang s.
Proof. exact regex_hostname_iff. Qed.
Print Assumptions c20_hostname_regex_language.

Theorem c20_parse_ip_iff_grammar : forall s, parse_ip_ok s = true <-> IPv4 s \/ IPv6 s.
Proof. exact parse_ip_ok_iff. Qed.
Print Assumptions c20_parse_ip_iff_grammar.

Theorem c20_port_iff_grammar : forall p,
  (exists z, atoi p = Some z /\ (0 <= z <= 65535)%Z) <-> PortG p.
Proof. exact atoi_port. Qed.
Print Assumptions c20_port_iff_grammar.

(* Accessors: on a valid address they return the parts of the grammar ... *)
Theorem c20_accessors_valid : forall v a ty hp h p,
  AddressParts (mode_of v) a ty hp h p ->
  valid v a = Ok true /\ conn_type v a = Ok ty /\ network_address v a = Ok hp /\
  host v a = Ok h /\ port v a = Ok p.
Proof. exact accessors_valid. Qed.
Print Assumptions c20_accessors_valid.

(* ... and on an invalid one the documented empty values. *)
Theorem c20_accessors_invalid : forall v lk a, valid v a = Ok false ->
  conn_type v a = Ok t_wrong /\ network_address v a = Ok [] /\ host v a = Ok [] /\ port v a = Ok [] /\
  resolve v lk a = Ok [] /\ network_address_resolved v lk a = Ok [] /\ public v lk a = Ok false.
Proof. exact accessors_invalid. Qed.
Print Assumptions c20_accessors_invalid.

(* Re-assembly: type + "://" + JoinHostPort(Host(), Port()) is the address again
   whenever brackets are used only around hosts with a colon (documented mode) ... *)
Theorem c20_reassemble : forall v a,
  strict_brackets v = true -> valid v a = Ok true -> reassemble v a = Ok a.
Proof. exact reassemble_documented. Qed.
Print Assumptions c20_reassemble.

(* ... and in general the valid addresses that do not re-assemble are exactly the
   bracketed hosts without colon (F24). *)
Theorem c20_bracket_exception : forall v a, valid v a = Ok true ->
  (reassemble v a <> Ok a <->
   exists ty h p, a = ty ++ sep ++ c_lbr :: h ++ c_rbr :: c_colon :: p /\ ~ In c_colon h /\
                  host v a = Ok h /\ port v a = Ok p /\ conn_type v a = Ok ty).
Proof. exact bracket_exception. Qed.
Print Assumptions c20_bracket_exception.

Example c20_bracket_exception_witness :
  valid pinned (B "tcp://[localhost]:80") = Ok true /\
  reassemble pinned (B "tcp://[localhost]:80") = Ok (B "tcp://localhost:80").
Proof. exact bracket_exception_witness. Qed.
Print Assumptions c20_bracket_exception_witness.

(* Websocket address from the server address: an error, or host:(port+1) computed
   modulo 2^16; with the repair (fix_f23) port+1 <= 65535, so nothing wraps. *)
Theorem c20_ws_port : forall v a g r, get_ws_host_port v a [] g = WOk r ->
  exists h ps n, host v a = Ok h /\ port v a = Ok ps /\ parse_uint16 ps = Some n /\
    r = join_host_port (if g then B "0.0.0.0" else h) (format_uint ((n + 1) mod 65536)) /\
    (fix_f23 v = true -> (n + 1 <= 65535)%N /\ ((n + 1) mod 65536 = n + 1)%N).
Proof. exact ws_addr_spec. Qed.
Print Assumptions c20_ws_port.

(* F23: the pinned code does wrap. *)
Theorem c20_ws_wrap_refuted :
  exists a, valid pinned a = Ok true /\ port pinned a = Ok (B "65535") /\
            get_ws_host_port pinned a [] false = WOk (B "127.0.0.1:0").
Proof. exact ws_wrap_refuted. Qed.
Print Assumptions c20_ws_wrap_refuted.

Example c20_ws_fixed_on_witness :
  get_ws_host_port (with_f23 true) (B "tcp://127.0.0.1:65535") [] false = WErr /\
  get_ws_host_port (with_f23 true) (B "tcp://127.0.0.1:65534") [] false = WOk (B "127.0.0.1:65535").
Proof. exact ws_fixed_on_witness. Qed.
Print Assumptions c20_ws_fixed_on_witness.

(* URL branch (modelled URL shape only): the result is the URL's host name (0.0.0.0 when
   global) joined with the URL's port (<= 65535), or with the scheme's port if it has none. *)
Theorem c20_ws_url_port : forall v a u0 u g r, get_ws_host_port v a (u0 :: u) g = WOk r ->
  exists scheme uh hn ps n,
    url_parse (u0 :: u) = UOk scheme uh /\ url_split_host_port uh = (hn, ps) /\
    (match ps with [] => scheme_to_port scheme = Some n | _ => parse_uint16 ps = Some n end) /\
    (n <= 65535)%N /\ r = join_host_port (if g then B "0.0.0.0" else hn) (format_uint n).
Proof. exact ws_url_spec. Qed.
Print Assumptions c20_ws_url_port.

(* Listen address: an error or the string prescribed by one of the three rules. *)
Theorem c20_listen : forall v a l r, get_listen_address v a l = Ok r ->
  exists na hp p, network_address v a = Ok na /\ split_host_port na = Ok (hp, p) /\
    ((l = [] /\ r = c_colon :: p) \/
     (l <> [] /\ ~ In c_colon l /\ p <> [] /\ r = l ++ c_colon :: p) \/
     (l <> [] /\ exists hl pl, split_host_port l = Ok (hl, pl) /\ hl <> [] /\ pl <> [] /\ r = l)).
Proof. exact listen_spec. Qed.
Print Assumptions c20_listen.

(* ... which SplitHostPort accepts again, unless the listen address is a colon-free
   string with a bracket in it (finding N3). *)
Theorem c20_listen_usable : forall v a l r,
  valid v a = Ok true -> get_listen_address v a l = Ok r ->
  ((~ In c_lbr l /\ ~ In c_rbr l) \/ In c_colon l) ->
  exists h' p', split_host_port r = Ok (h', p') /\ p' <> [].
Proof. exact listen_usable. Qed.
Print Assumptions c20_listen_usable.

Theorem c20_listen_bracket_refuted :
  exists a l r, valid pinned a = Ok true /\ get_listen_address pinned a l = Ok r /\
                split_host_port r = Err.
Proof. exact listen_bracket_refuted. Qed.
Print Assumptions c20_listen_bracket_refuted.

(* The documented grammar against the grammar the pinned code implements, for ASCII
   addresses: everything documented is accepted ... *)
Theorem c20_documented_implies_pinned : forall a, all is_ascii a ->
  valid documented a = Ok true -> valid pinned a = Ok true.
Proof. exact documented_implies_pinned. Qed.
Print Assumptions c20_documented_implies_pinned.

(* ... and what the pinned code accepts beyond it has one of two shapes: brackets
   around a colon-free host (F24) or a 254-byte name before a trailing dot (N1). *)
Theorem c20_pinned_exceptions : forall a ty hp h p, all is_ascii a ->
  AddressParts (mode_of pinned) a ty hp h p ->
  AddressParts (mode_of documented) a ty hp h p \/ BracketNoColon hp h p \/ Dot254 h.
Proof. exact pinned_exceptions. Qed.
Print Assumptions c20_pinned_exceptions.

Theorem c20_len254_refuted :
  exists a, valid pinned a = Ok true /\ valid documented a = Ok false /\
            length host254dot = 255 /\ a = B "tcp://" ++ host254dot ++ B ":80".
Proof. exact len254_refuted. Qed.
Print Assumptions c20_len254_refuted.

(* N2: with non-ASCII bytes the two differ in both directions. *)
Theorem c20_unicode_fold_refuted :
  (exists a, valid pinned a = Ok true /\ valid documented a = Ok false /\
             a = B "tcp://" ++ kelvin ++ B ".com:80") /\
  (exists a, valid pinned a = Ok false /\ valid documented a = Ok true /\
             a = B "tcp://" ++ repeat (chr 255) 22 ++ B ":80").
Proof. exact unicode_fold_refuted. Qed.
Print Assumptions c20_unicode_fold_refuted.

(* The checker run on the implementation's observations: clause 1 is raised exactly
   when the observed Valid() differs from membership in the documented grammar. *)
Theorem c20_check_clause1 : forall a o, o_panic o = false ->
  (~ In 1 (check_addr a o) <-> (o_valid o = true <-> AddressG Documented a)).
Proof. exact check_clause1. Qed.
Print Assumptions c20_check_clause1.

(* Satisfiability of the hypotheses used above. *)
Example c20_grammar_inhabited :
  AddressG Documented (B "tls://[2001:db8::1.2.3.4]:7770") /\ AddressG Documented (B "tcp://EPFL.ch.:+80") /\
  AddressG Documented (B "local://:0") /\ AddressG Lenient (B "tcp://[localhost]:80") /\
  ~ AddressG Documented (B "tcp://[localhost]:80") /\ ~ AddressG Lenient (B "tcp://1.2.3.4:65536").
Proof. exact grammar_inhabited. Qed.
Print Assumptions c20_grammar_inhabited.

Example c20_parts_inhabited :
  exists ty hp h p, AddressParts (mode_of pinned) (B "tcp://[::1]:2000") ty hp h p /\
                    host pinned (B "tcp://[::1]:2000") = Ok h /\ h = B "::1" /\ p = B "2000".
Proof. exact parts_inhabited. Qed.
Print Assumptions c20_parts_inhabited.

Example c20_invalid_inhabited : valid pinned (B "tls://1000.0.0.4:2000") = Ok false /\ valid pinned [] = Ok false.
Proof. exact invalid_inhabited. Qed.
Print Assumptions c20_invalid_inhabited.

Example c20_listen_inhabited :
  get_listen_address pinned (B "tcp://1.2.3.4:1234") [] = Ok (B ":1234") /\
  get_listen_address pinned (B "tcp://1.2.3.4:1234") (B "4.3.2.1") = Ok (B "4.3.2.1:1234") /\
  get_listen_address pinned (B "tcp://1.2.3.4:1234") (B "4.3.2.1:4321") = Ok (B "4.3.2.1:4321") /\
  get_listen_address pinned (B "tcp://1.2.3.4:1234") (B "::1") = Err.
Proof. exact listen_inhabited. Qed.
Print Assumptions c20_listen_inhabited.

Example c20_ws_inhabited :
  get_ws_host_port pinned (B "tcp://8.8.8.8:7770") [] false = WOk (B "8.8.8.8:7771") /\
  get_ws_host_port pinned (B "tcp://8.8.8.8:7770") [] true = WOk (B "0.0.0.0:7771") /\
  get_ws_host_port pinned (B "tcp://8.8.8.8:7770") (B "https://example.com/path") false = WOk (B "example.com:443") /\
  get_ws_host_port pinned (B "tcp://8.8.8.8:7770") (B "http://[::1]:8080") false = WOk (B "[::1]:8080") /\
  get_ws_host_port pinned (B "tcp://8.8.8.8:7770") (B "http://h:65536") false = WErr.
Proof. exact ws_inhabited. Qed.
Print Assumptions c20_ws_inhabited.

(* With the repair of N3 (variant fix_n3) the bracket exception of c20_listen_usable is gone. *)
Theorem c20_listen_usable_fixed : forall v a l r, fix_n3 v = true ->
  valid v a = Ok true -> get_listen_address v a l = Ok r ->
  exists h' p', split_host_port r = Ok (h', p') /\ p' <> [].
Proof. exact listen_usable_fixed. Qed.
Print Assumptions c20_listen_usable_fixed.
