(* C11 -- Finished instances stay finished; trees outlive them as long as needed.
   Statements only; proofs in Overlay/DoneProofs.v. [run fx init acts] ranges over
   every interleaving of message threads, local runs, done-declarations, tree
   requests/responses and timer goroutines of one server. [good fx] = the
   repairs F12, F13 and F27 are in place (all three are in /repo). *)
From Coq Require Import List Arith.
Import ListNotations.
From Onet Require Import Overlay.Done Overlay.DoneProofs Overlay.DoneRelease.

(* after Done, the token stays done: never listed again, its constructor is never
   called again, no message is handed to it -- for the pinned and the repaired code *)
Theorem c11_done_is_final : forall fx acts s s' k,
  run fx s acts = Some s' -> inst s k = IDone ->
  inst s' k = IDone /\ created s' k = created s k /\ ndelivered s' k = ndelivered s k.
Proof. intros fx acts. exact (run_done_final fx acts). Qed.
Print Assumptions c11_done_is_final.

Theorem c11_others_unaffected : forall fx s k s' k',
  step fx s (Done k) = Some s' -> k' <> k ->
  inst s' k' = inst s k' /\ created s' k' = created s k' /\ ndelivered s' k' = ndelivered s k'.
Proof. exact done_local. Qed.
Print Assumptions c11_others_unaffected.

(* the tree of a run is stored for as long as an instance there uses it *)
Theorem c11_tree_while_used : forall fx acts s k,
  good fx -> run fx init acts = Some s -> inst s k = IActive -> trees s (tree_of k) = TPresent.
Proof. exact tree_while_used. Qed.
Print Assumptions c11_tree_while_used.

(* ... and for the grace period after the last one finished: the last Done on a tree, in any
   reachable state, schedules a removal c, and for as long as that removal stays scheduled
   (not cancelled by a new user of the tree, not carried out by its timer) -- whatever else
   happens on the server -- the tree is stored and a peer asking for it gets it *)
Theorem c11_tree_during_grace : forall fx acts s k s1,
  good fx -> run fx init acts = Some s -> step fx s (Done k) = Some s1 -> in_use s1 (tree_of k) = false ->
  exists c, cancel s1 (tree_of k) = Some c /\
    forall acts2 s2, run fx s1 acts2 = Some s2 -> cancel s2 (tree_of k) = Some c ->
      trees s2 (tree_of k) = TPresent /\
      forall s3, step fx s2 (ReqTree (tree_of k)) = Some s3 -> hd_error (answers s3) = Some (tree_of k, true).
Proof. exact tree_during_grace. Qed.
Print Assumptions c11_tree_during_grace.

(* released afterwards, in two steps: the last Done on a tree schedules the removal ... *)
Theorem c11_done_schedules_removal : forall fx s k s',
  step fx s (Done k) = Some s' -> in_use s' (tree_of k) = false ->
  exists c, cancel s' (tree_of k) = Some c /\
            (cancel s (tree_of k) = Some c \/ find_timer c (timers s') = Some (mkTimer c (tree_of k) Armed)).
Proof. exact done_schedules_removal. Qed.
Print Assumptions c11_done_schedules_removal.

(* ... and a scheduled removal's timer can fire and then deletes the tree *)
Theorem c11_timer_releases : forall fx s c i,
  f12 fx = true -> find_timer c (timers s) = Some (mkTimer c i Armed) -> cancel s i = Some c ->
  exists s1 s2, step fx s (TimerFire c) = Some s1 /\ step fx s1 (TimerDelete c) = Some s2 /\
                trees s2 i = TAbsent /\ cancel s2 i = None.
Proof. exact timer_releases. Qed.
Print Assumptions c11_timer_releases.

(* "... and is released afterwards", for every run of the repaired code in which tree i came
   into the store only through runs (no bare RegisterTree of it by a service and no tree response
   for it - the parked messages a response serves are not part of this model): once every timer
   goroutine has run to completion, no message thread that found the tree is still in flight
   and no instance on it is listed, the tree is no longer stored *)
Theorem c11_released_afterwards : forall fx acts s i,
  good fx -> f28 fx = true -> run fx init acts = Some s ->
  Forall (fun a => a <> LocalTree i /\ a <> TreeArrive i) acts ->
  timers s = [] -> (forall k, In k (hits s) -> tree_of k <> i) -> in_use s i = false ->
  trees s i <> TPresent.
Proof. exact released_afterwards. Qed.
Print Assumptions c11_released_afterwards.

Example c11_released_example :
  exists s, run all_fixed init [LocalCreate ka; LocalSet ka; MsgLookup kb; MsgDeliver kb; Done ka; Done kb;
                                MsgLookup ka; MsgDeliver ka; TimerCancel 0; TimerFire 1; TimerDelete 1] = Some s /\
            timers s = [] /\ hits s = [] /\ in_use s 0 = false /\ trees s 0 = TAbsent.
Proof. exact released_example. Qed.
Print Assumptions c11_released_example.

(* the pinned code: one witness schedule per missing repair *)
Theorem c11_timer_race_refuted :
  exists acts s, run (mkFixes false true true true) init acts = Some s /\
                 inst s kb = IActive /\ trees s (tree_of kb) = TAbsent.
Proof. exact timer_race_refuted. Qed.
Print Assumptions c11_timer_race_refuted.

Theorem c11_register_overwrite_refuted :
  exists acts s, run (mkFixes true false true true) init acts = Some s /\
                 inst s kb = IActive /\ trees s (tree_of kb) = TRequested.
Proof. exact register_overwrite_refuted. Qed.
Print Assumptions c11_register_overwrite_refuted.

Theorem c11_remove_after_lookup_refuted :
  exists acts s, run (mkFixes true true false true) init acts = Some s /\
                 inst s kb = IActive /\ trees s (tree_of kb) = TAbsent.
Proof. exact remove_after_lookup_refuted. Qed.
Print Assumptions c11_remove_after_lookup_refuted.

Theorem c11_remove_after_lookup_repaired :
  exists s, run all_fixed init [LocalCreate ka; LocalSet ka; MsgLookup kb; Done ka; MsgDeliver kb; TimerFire 0; TimerDelete 0] = Some s /\
            inst s kb = IActive /\ trees s (tree_of kb) = TPresent /\ cancel s (tree_of kb) = None /\ timers s = [].
Proof. exact remove_after_lookup_repaired. Qed.
Print Assumptions c11_remove_after_lookup_repaired.

Example c11_rearm_on_released_tree :
  exists s c, run all_fixed init [LocalCreate ka; LocalSet ka; Done ka; MsgLookup ka; LocalCreate kb; LocalSet kb;
                                  Done kb; TimerFire 1; TimerDelete 1; MsgDeliver ka] = Some s /\
              cancel s 0 = Some c /\ trees s 0 = TAbsent /\ in_use s 0 = false.
Proof. exact rearm_on_released_tree. Qed.
Print Assumptions c11_rearm_on_released_tree.

Theorem c11_late_message_leak_refuted :
  exists acts s, run (mkFixes true true true false) init acts = Some s /\
                 inst s ka = IDone /\ in_use s 0 = false /\ hits s = [] /\
                 trees s 0 = TPresent /\ cancel s 0 = None /\
                 (forall c, step (mkFixes true true true false) s (TimerFire c) = None).
Proof. exact late_message_leak_refuted. Qed.
Print Assumptions c11_late_message_leak_refuted.

Theorem c11_late_message_rearms :
  exists s c, run all_fixed init [LocalCreate ka; LocalSet ka; Done ka; MsgLookup ka; MsgDeliver ka] = Some s /\
              cancel s 0 = Some c /\ find_timer c (timers s) = Some (mkTimer c 0 Armed).
Proof. exact late_message_rearms. Qed.
Print Assumptions c11_late_message_rearms.

Example c11_reachable_example :
  exists s, run all_fixed init [LocalCreate ka; LocalSet ka; LocalCreate (1, 1); LocalSet (1, 1);
                                MsgLookup kb; MsgDeliver kb; Done (1, 1); Done ka] = Some s /\
            inst s kb = IActive /\ inst s ka = IDone /\ cancel s 1 = Some 0 /\ cancel s 0 = None.
Proof. exact fixed_example. Qed.
Print Assumptions c11_reachable_example.

(* known finding C11-N2 (why c11_released_afterwards excludes tree responses) *)
Example c11_late_response_stays :
  exists s, run all_fixed init [MsgLookup ka; MissCheck 0; LocalCreate kb; LocalSet kb; MsgLookup ka; MsgDeliver ka;
                                Done kb; Done ka; TimerFire 0; TimerDelete 0; MissRegister 0; TreeArrive 0] = Some s /\
            trees s 0 = TPresent /\ in_use s 0 = false /\ cancel s 0 = None /\ timers s = [] /\ hits s = [].
Proof. exact late_response_stays. Qed.
Print Assumptions c11_late_response_stays.
