From Coq Require Import List QArith.
Import ListNotations.
From Onet Require Import Stats.Welford.
Example c19_placeholder : qsum [1; 2] == 3.
Proof. reflexivity. Qed.
Print Assumptions c19_placeholder.
