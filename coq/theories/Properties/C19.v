(* C19 -- Simulation statistics equal the statistics of the recorded measures.
   Only statements; every proof is [exact] of a lemma of Stats/WelfordProofs.v,
   Stats/BucketsProofs.v or Stats/CheckProofs.v.
   Model: Stats/Welford.v (Value: Store / Collect / AverageValue over exact
   rationals) and Stats/Buckets.v (Stats, BucketStats, Monitor.update,
   AverageStats as a state machine).  Flags: (fix_f21, fix_f22) of [collect],
   record [fixes] of [mstep]; [pinned] = the tree as it was pinned, [all_fixed] =
   with the repairs F21, F22, C19-N1, C19-N2, C19-N3.  All five repairs are fix:
   commits of /repo and every code_fixed_* flag of Corr/C19.v is true: the
   correspondence compares /repo with [all_fixed], the positive theorems below
   speak about the code as it is now, the *_refuted ones about the pinned tree
   (their witnesses stay in the harness corpus as regression inputs). *)
From Coq Require Import List QArith ZArith String Permutation.
Import ListNotations.
From Onet Require Import Base.Corr Stats.Welford Stats.WelfordProofs Stats.Buckets
  Stats.BucketsProofs Corr.C19 Stats.CheckProofs.
Local Open Scope string_scope.
Local Open Scope list_scope.

(* ---- what "the statistics of the recorded values" are ---------------------- *)

(* [exact l]: count, a least and a greatest member, the sum, sum/n, and the
   sample variance sum (x - mean)^2 / (n-1) (square of the reported deviation);
   one value has an undefined deviation *)
Theorem c19_exact_is_the_statistics : forall x r, let l := x :: r in
  s_n (exact l) = List.length l /\
  (In (s_min (exact l)) l /\ forall y, In y l -> s_min (exact l) <= y) /\
  (In (s_max (exact l)) l /\ forall y, In y l -> y <= s_max (exact l)) /\
  s_sum (exact l) == qsum l /\
  s_avg (exact l) == qsum l / qofnat (List.length l) /\
  match r with
  | [] => s_dev (exact l) = DNaN
  | _ => exists v, s_dev (exact l) = DSq v /\
                   v == qss_to (qsum l / qofnat (List.length l)) l / qofnat (List.length l - 1)
  end.
Proof. exact exact_spec. Qed.
Print Assumptions c19_exact_is_the_statistics.

(* ---- the streaming recurrence computes them --------------------------------- *)

(* With F21+F22 repaired: whatever the Value went through before (any earlier
   read-outs, any accumulator contents), Collect leaves exactly the statistics
   of the stored values -- for every list of rationals. *)
Theorem c19_welford : forall t,
  snap_eq (snapshot (collect true true t)) (exact (vstore t)).
Proof. exact collect_exact. Qed.
Print Assumptions c19_welford.

(* The pinned code, first read-out of a fresh Value: count, min, sum, mean and
   deviation are exact for every list; the maximum is max(0, values). *)
Theorem c19_pinned_first_readout : forall x xs,
  let t := collect false false (with_store value0 (x :: xs)) in
  let e := exact (x :: xs) in
  vn t = s_n e /\ vmin t = s_min e /\ vsum t == s_sum e /\ newM t == s_avg e /\
  dev_eq (vdev t) (s_dev e) /\
  vmax t = qmaxl 0 (x :: xs).
Proof. exact collect_pinned_first. Qed.
Print Assumptions c19_pinned_first_readout.

(* ... so outside defect F22 (some value is non-negative) the maximum is right *)
Theorem c19_pinned_first_max : forall x xs,
  (exists y, In y (x :: xs) /\ 0 <= y) ->
  vmax (collect false false (with_store value0 (x :: xs))) == s_max (exact (x :: xs)).
Proof. exact collect_pinned_first_max. Qed.
Print Assumptions c19_pinned_first_max.

Example c19_pinned_first_max_satisfiable : exists y, In y [-3; 0; -1] /\ 0 <= y.
Proof. exists 0. split; [right; left; reflexivity|apply Qle_refl]. Qed.
Print Assumptions c19_pinned_first_max_satisfiable.

(* F22 *)
Theorem c19_negative_max_refuted :
  exists l, l = [-5; -2] /\ vmax (collect false false (with_store value0 l)) == 0 /\
            s_max (exact l) == -2 /\
            ~ snap_eq (snapshot (collect false false (with_store value0 l))) (exact l).
Proof. exact negative_max_refuted. Qed.
Print Assumptions c19_negative_max_refuted.

(* ---- read-outs ------------------------------------------------------------------ *)

(* repaired Collect: any number of earlier read-outs is one read-out *)
Theorem c19_collect_idempotent : forall t k,
  Nat.iter (S k) (collect true true) t = collect true true t.
Proof. exact collect_fixed_iter. Qed.
Print Assumptions c19_collect_idempotent.

(* Repaired state machine (result sets, buckets, averaging): what ANY operation
   reports after a history equals what it reports after the same history with
   every read-out operation (Collect, String, WriteHeader, WriteValues, bucket
   Get -- any number, any position, any result set) removed. *)
Theorem c19_readouts_idempotent : forall st ops fin,
  final_out all_fixed st ops fin = final_out all_fixed st (strip_readouts ops) fin.
Proof. exact readouts_irrelevant. Qed.
Print Assumptions c19_readouts_idempotent.

(* in every WELL-FORMED state [wf m] (alive, result sets unlocked with sorted
   keys, every bucket bound to its own existing result set) a write reports
   exactly the statistics of the values stored for every measure of that result
   set, and every measure with stored values is reported.  That every state
   reachable by any history is well-formed is c19_wf_reachable below;
   c19_values_report_exact_reachable is the composition. *)
Theorem c19_values_report_exact : forall fx m i s,
  fx21 fx = true -> fx22 fx = true -> wf m -> nth_error (objs m) i = Some s ->
  exists m' rows, mstep fx m (OValues i) = (m', OutValues (map snd (statics s)) rows) /\
    map fst rows = map fst (vals s) /\
    (forall k sn, In (k, sn) rows -> snap_eq sn (exact (store_at m i k))) /\
    (forall k, store_at m i k <> [] -> exists sn, In (k, sn) rows) /\
    (forall k, store_at m' i k = store_at m i k).
Proof. exact values_report_exact. Qed.
Print Assumptions c19_values_report_exact.

(* [wf] is preserved by EVERY operation of the history language (ONew,
   OSetBucket well- or malformed, OWire, OMeasure, ODirect, OCollect, OString,
   OHeader, OValues, OGet, OAverage, OWireErr), hence holds after any history *)
Theorem c19_wf_step : forall o m, wf m -> wf (fst (mstep all_fixed m o)).
Proof. exact wf_step. Qed.
Print Assumptions c19_wf_step.

Theorem c19_wf_reachable : forall st ops, wf (fst (mrun all_fixed (init_state st) ops)).
Proof. exact wf_reachable. Qed.
Print Assumptions c19_wf_reachable.

(* after ANY history (set-up, measures, direct updates, new result sets,
   averages, read-outs, undecodable messages) a write of any result set reports
   exactly the statistics of the values stored for each of its measures *)
Theorem c19_values_report_exact_reachable : forall st ops i s,
  let m := fst (mrun all_fixed (init_state st) ops) in
  nth_error (objs m) i = Some s ->
  exists m' rows, mstep all_fixed m (OValues i) = (m', OutValues (map snd (statics s)) rows) /\
    map fst rows = map fst (vals s) /\
    (forall k sn, In (k, sn) rows -> snap_eq sn (exact (store_at m i k))) /\
    (forall k, store_at m i k <> [] -> exists sn, In (k, sn) rows) /\
    (forall k, store_at m' i k = store_at m i k).
Proof. exact values_report_exact_reachable. Qed.
Print Assumptions c19_values_report_exact_reachable.

(* F21: the pinned code counts stored values once per read-out *)
Theorem c19_double_collect_refuted :
  exists t, t = with_store value0 [1; 2; 3; 6] /\
    vn (collect false false t) = 4%nat /\
    vn (collect false false (collect false false (collect false false t))) = 12%nat /\
    ~ snap_eq (snapshot (collect false false (collect false false t))) (exact (vstore t)).
Proof. exact double_collect_refuted. Qed.
Print Assumptions c19_double_collect_refuted.

Theorem c19_single_value_reread_refuted :
  vdev (collect false false (with_store value0 [4])) = DNaN /\
  vdev (collect false false (collect false false (with_store value0 [4]))) = DSq 0.
Proof. exact single_value_reread_refuted. Qed.
Print Assumptions c19_single_value_reread_refuted.

(* F21 on the state machine: the driver's log line (String) before the write *)
Theorem c19_readouts_idempotent_refuted :
  exists st ops fin,
    ops = [OMeasure "round" 1 (-1); OMeasure "round" 2 (-1); OMeasure "round" 3 (-1);
           OMeasure "round" 6 (-1); OString 0] /\ fin = OValues 0 /\
    final_out pinned st ops fin <> final_out pinned st (strip_readouts ops) fin.
Proof. exact readouts_irrelevant_refuted. Qed.
Print Assumptions c19_readouts_idempotent_refuted.

(* exact description of the defect: after k+1 read-outs the pinned accumulators
   hold the statistics of the stored list repeated k+1 times (the sum alone is
   reset) *)
Theorem c19_pinned_repeated_readouts : forall x xs k,
  let l := x :: xs in
  let t := Nat.iter (S k) (collect false false) (with_store value0 l) in
  vn t = (S k * List.length l)%nat /\
  newM t == qmean (reps (S k) l) /\
  newS t == qss (reps (S k) l) /\
  vsum t == qsum l /\
  vstore t = l.
Proof. exact collect_pinned_repeated. Qed.
Print Assumptions c19_pinned_repeated_readouts.

(* ---- arrival order, partition over connections ------------------------------------ *)

Theorem c19_statistics_of_multiset : forall a b, Permutation a b -> snap_eq (exact a) (exact b).
Proof. exact exact_perm. Qed.
Print Assumptions c19_statistics_of_multiset.

(* any interleaving of the per-connection streams, compared with any other
   arrangement of the same values *)
Theorem c19_order_partition_invariant : forall conns arrival other t t',
  interleaving conns arrival -> Permutation other (List.concat conns) ->
  vstore t = arrival -> vstore t' = other ->
  snap_eq (snapshot (collect true true t)) (snapshot (collect true true t')).
Proof. exact order_partition_invariant. Qed.
Print Assumptions c19_order_partition_invariant.

Example c19_order_partition_satisfiable : interleaving [[1; 2]; [3]] [1; 3; 2].
Proof. exact interleaving_example. Qed.
Print Assumptions c19_order_partition_satisfiable.

(* the pinned code too, on its first read-out *)
Theorem c19_order_invariant_pinned_first : forall a b, Permutation a b ->
  snap_eq (snapshot (collect false false (with_store value0 a)))
          (snapshot (collect false false (with_store value0 b))).
Proof. exact order_invariant_pinned_first. Qed.
Print Assumptions c19_order_invariant_pinned_first.

(* at the monitor: two runs receiving the same measures in different orders
   (any scheduling of the reporting connections) hold, in the global result
   set (i = 0) and in every bucket (i = j+1), permutations of the same values,
   hence the same exact statistics *)
Theorem c19_arrival_order_irrelevant : forall fx st bs ms ms',
  NoDup (map fst bs) ->
  (forall b, In b bs -> snd (parse_rules (snd b)) = true) ->
  Permutation ms ms' ->
  let m := fst (mrun fx (init_state st) (setups bs ++ mops ms)) in
  let m' := fst (mrun fx (init_state st) (setups bs ++ mops ms')) in
  forall i k, (i <= List.length bs)%nat ->
    Permutation (store_at m i k) (store_at m' i k) /\
    snap_eq (exact (store_at m i k)) (exact (store_at m' i k)).
Proof. exact arrival_order_irrelevant. Qed.
Print Assumptions c19_arrival_order_irrelevant.

(* ---- averaging ------------------------------------------------------------------------ *)

Theorem c19_average_is_union : forall vs,
  snap_eq (snapshot (collect true true (average_value vs)))
          (exact (List.concat (map vstore vs))).
Proof. exact average_is_union. Qed.
Print Assumptions c19_average_is_union.

Theorem c19_average_ignores_readouts : forall f21 f22 vs,
  average_value (map (collect f21 f22) vs) = average_value vs.
Proof. exact average_ignores_readouts. Qed.
Print Assumptions c19_average_ignores_readouts.

(* AverageStats over result sets that all carry the measures of the first one
   (no set locked): no failure, and the new result set holds per measure the
   averaged Value of exactly the sources' Values for that measure *)
Theorem c19_average_stats_union : forall fx m i0 srcs s0,
  dead m = None -> (forall s, In s (objs m) -> locked s = false) ->
  nth_error (objs m) i0 = Some s0 ->
  (forall i, In i srcs -> (i < List.length (objs m))%nat) ->
  (forall k i, In k (map fst (vals s0)) -> In i (i0 :: srcs) ->
     exists s, nth_error (objs m) i = Some s /\ vals_find (vals s) k <> None) ->
  mstep fx m (OAverage (i0 :: srcs)) =
    (with_objs m (objs m ++
       [mkStats (statics s0)
          (map (fun k => (k, average_value (found_values (objs m) (i0 :: srcs) k))) (map fst (vals s0)))
          false]), OutNone).
Proof. exact average_stats_union. Qed.
Print Assumptions c19_average_stats_union.

(* END TO END: any history [ops] leads to m; result sets i0 :: srcs over the same
   measures (each carries every measure of i0) are averaged; any further
   read-outs [ros] of anything follow; the averaged set (index a) is written:
   every written measure has exactly the statistics of the union
   (concatenation in source order; any other arrangement by
   c19_statistics_of_multiset) of the values the sources held for it, and every
   measure of i0 is written. *)
Theorem c19_average_end_to_end : forall st ops i0 srcs ros,
  let m := fst (mrun all_fixed (init_state st) ops) in
  let a := List.length (objs m) in
  (forall i, In i (i0 :: srcs) -> (i < a)%nat) ->
  (forall k i, has_measure m i0 k -> In i srcs -> has_measure m i k) ->
  Forall (fun o => is_readout o = true) ros ->
  let m2 := fst (mrun all_fixed m (OAverage (i0 :: srcs) :: ros)) in
  exists m3 stt rows, mstep all_fixed m2 (OValues a) = (m3, OutValues stt rows) /\
    (forall k sn, In (k, sn) rows ->
       snap_eq sn (exact (List.concat (map (fun i => store_at m i k) (i0 :: srcs))))) /\
    (forall k, has_measure m i0 k -> exists sn, In (k, sn) rows).
Proof. exact average_end_to_end. Qed.
Print Assumptions c19_average_end_to_end.

Example c19_average_end_to_end_satisfiable :
  let ops := [OSetBucket 0 ["0:2"]; OMeasure "a" 1 0; ONew; ODirect 2 "a" 2; OValues 2;
              ONew; ODirect 3 "a" 6; ODirect 3 "b" 7] in
  let m := fst (mrun all_fixed (init_state []) ops) in
  (forall i, In i [2%nat; 3%nat; 1%nat] -> (i < List.length (objs m))%nat) /\
  (forall k i, has_measure m 2 k -> In i [3%nat; 1%nat] -> has_measure m i k).
Proof. exact average_end_to_end_satisfiable. Qed.
Print Assumptions c19_average_end_to_end_satisfiable.

Example c19_average_example :
  let ops := [ONew; ODirect 1 "a" 1; ODirect 1 "a" 2; OValues 1; ONew; ODirect 2 "a" 6;
              OAverage [1%nat; 2%nat]; OValues 3] in
  final_out all_fixed [] ops (OValues 3) = OutValues [] [("a", exact [1; 2; 6])].
Proof. exact average_stats_union_example. Qed.
Print Assumptions c19_average_example.

(* ---- buckets ----------------------------------------------------------------------------- *)

Theorem c19_rules_match_spec : forall rr h, rules_match rr h = true <-> names_host rr h.
Proof. exact rules_match_spec. Qed.
Print Assumptions c19_rules_match_spec.

(* After any set-up with well-formed rules and pairwise different indices, and
   any list of measures: the global result set holds every measure, bucket j
   exactly those whose host its ranges name -- in arrival order, whatever the
   fix flags. *)
Theorem c19_buckets_exact : forall fx st bs ms,
  NoDup (map fst bs) ->
  (forall b, In b bs -> snd (parse_rules (snd b)) = true) ->
  let m := fst (mrun fx (init_state st) (setups bs ++ mops ms)) in
  wf m /\
  (forall k, store_at m 0 k = recorded k (fun _ => true) ms) /\
  (forall j idx rules, nth_error bs j = Some (idx, rules) -> forall k,
     store_at m (S j) k = recorded k (rules_match (fst (parse_rules rules))) ms).
Proof. exact buckets_exact. Qed.
Print Assumptions c19_buckets_exact.

Example c19_buckets_exact_satisfiable :
  let bs := [(0, ["10:20"]); (1, ["15:20"]); (2, ["5:10"; "20:25"])]%Z in
  NoDup (map fst bs) /\ (forall b, In b bs -> snd (parse_rules (snd b)) = true).
Proof. exact buckets_exact_satisfiable. Qed.
Print Assumptions c19_buckets_exact_satisfiable.

(* ---- robustness: found while stating the invariants -------------------------------------- *)

(* with the four repairs no sequence of operations crashes or blocks *)
Theorem c19_fixed_never_fails : forall st ops,
  dead (fst (mrun all_fixed (init_state st) ops)) = None.
Proof. exact fixed_never_fails. Qed.
Print Assumptions c19_fixed_never_fails.

(* C19-N1: malformed bucket specification + a measure from a host of one of its
   well-formed ranges: nil dereference in BucketStats.Update *)
Theorem c19_malformed_rule_crash_refuted :
  exists ops, ops = [OSetBucket 0 ["5:7"; ":3"]; OMeasure "a" 1 6] /\
    dead (fst (mrun pinned (init_state []) ops)) = Some FCrash /\
    dead (fst (mrun (mkFix false false true false false) (init_state []) ops)) = None.
Proof. exact malformed_rule_crash_witness. Qed.
Print Assumptions c19_malformed_rule_crash_refuted.

(* C19-N2: AverageStats leaves a source without the measure locked *)
Theorem c19_average_lock_leak_refuted :
  exists ops, ops = [ONew; ODirect 1 "a" 1; ONew; ODirect 2 "b" 2; OAverage [1%nat; 2%nat]; OValues 2] /\
    dead (fst (mrun pinned (init_state []) ops)) = Some FDeadlock /\
    dead (fst (mrun (mkFix false false false true false) (init_state []) ops)) = None.
Proof. exact average_lock_leak_witness. Qed.
Print Assumptions c19_average_lock_leak_refuted.

(* C19-N3: a message that fails to decode (truncated by a dying host, wrong
   type, garbage) is forwarded half-filled by the pinned handleConnection: a
   measure nobody recorded is reported *)
Theorem c19_undecodable_message_refuted :
  exists ops, ops = [OWire "a" 1 2; OWireErr "" 0 0] /\
    out_keys (final_out pinned [] ops (OValues 0)) = [""; "a"] /\
    out_keys (final_out (mkFix false false false false true) [] ops (OValues 0)) = ["a"].
Proof. exact undecodable_message_witness. Qed.
Print Assumptions c19_undecodable_message_refuted.

Theorem c19_undecodable_message_ignored : forall fx m k x h,
  fxN3 fx = true -> fst (mstep fx m (OWireErr k x h)) = m.
Proof. exact undecodable_message_ignored. Qed.
Print Assumptions c19_undecodable_message_ignored.

(* ---- the checker used on observations ---------------------------------------------------- *)

(* no clause for a reported measure iff count, min, max are exactly the expected
   ones and sum / mean / deviation^2 lie within the stated relative tolerances *)
Theorem c19_checker_meaning : forall e o,
  let mag := mag_of e in
  let nq := qofnat (Nat.max 1 (s_n e)) in
  snap_diff e o = [] <->
  (s_n e = o_n o /\
   reported_num (o_min o) (s_min e) 0 /\
   reported_num (o_max o) (s_max e) 0 /\
   reported_num (o_sum o) (s_sum e) (eps * mag * nq) /\
   reported_num (o_avg o) (s_avg e) (eps * mag) /\
   reported_var (o_dev o) (s_dev e) mag).
Proof. exact snap_diff_nil_iff. Qed.
Print Assumptions c19_checker_meaning.

Theorem c19_checker_exact_clauses : forall bits e,
  reported_num bits e 0 <-> exists q, decode bits = FNum q /\ q == e.
Proof. exact reported_num_exact. Qed.
Print Assumptions c19_checker_exact_clauses.

(* per result set: the checker reports nothing iff the reported rows are, in
   order, exactly the recorded measure names (sorted), each accepted by the
   per-measure comparison against the exact statistics of its recorded values
   ([cnt] = true: count-only comparison, used where the harness cannot know the
   recorded values: CPU times sent by TimeMeasure.Record) *)
Theorem c19_checker_rows : forall cnt kc r o,
  rows_check cnt kc (keys_of r) r o = [] <-> Forall2 (row_ok cnt r) (keys_of r) o.
Proof. exact rows_check_keys_of. Qed.
Print Assumptions c19_checker_rows.

(* the routing predicate of the checker's book-keeping = "host named by a range" *)
Theorem c19_checker_routing : forall rr h,
  in_ranges rr h = true <-> ((0 <= h)%Z /\ exists lo hi, In (lo, hi) rr /\ (lo <= h < hi)%Z).
Proof. exact in_ranges_spec. Qed.
Print Assumptions c19_checker_routing.

(* the deviation tolerance rejects a wrong variance formula even for data with a
   large offset and a small spread (1000000, 1000001, 1000003): population
   instead of sample deviation, and the 0.1 % error n vs n-1 makes for n = 500 *)
Example c19_checker_tolerance_example :
  let e := exact [QB 4696837146684686336; QB 4696837155274620928; QB 4696837172454490112] in
  let o d := mkO 3 4696837146684686336 4696837172454490112 4696837158137932459 4703696870881361920 d in
  snap_diff e (o 4609558181236713650%N) = [] /\
  snap_diff e (o 4608295794776921307%N) = [6]%nat /\
  snap_diff e (o 4609551298431524565%N) = [6]%nat.
Proof. exact deviation_tolerance_examples. Qed.
Print Assumptions c19_checker_tolerance_example.

(* ---- read-outs concurrent with the recording ------------------------------------------------ *)
(* Update and every read-out hold the Stats mutex for their whole body, so an
   execution with reader goroutines is an interleaving, operation by operation,
   of the recording operations with the readers' read-outs. *)

(* read-outs never change what is recorded *)
Theorem c19_readouts_keep_recorded : forall st ops i k,
  store_at (fst (mrun all_fixed (init_state st) ops)) i k =
  store_at (fst (mrun all_fixed (init_state st) (strip_readouts ops))) i k.
Proof. exact readouts_keep_recorded. Qed.
Print Assumptions c19_readouts_keep_recorded.

(* after any prefix, recording operations [ups] interleaved in any way with any
   read-outs [ros] of reader threads: whatever is read or written afterwards is
   what it would be had no reader run *)
Theorem c19_concurrent_readers_irrelevant : forall st pre ups ros merged fin,
  interleave2 ups ros merged ->
  (forall o, In o ups -> is_readout o = false) -> (forall o, In o ros -> is_readout o = true) ->
  final_out all_fixed st (pre ++ merged) fin = final_out all_fixed st (pre ++ ups) fin.
Proof. exact concurrent_readers_irrelevant. Qed.
Print Assumptions c19_concurrent_readers_irrelevant.

Example c19_concurrent_readers_satisfiable :
  interleave2 [OMeasure "a" 1 0; OMeasure "a" 2 0] [OString 0; OCollect 0; OValues 0]
              [OString 0; OMeasure "a" 1 0; OCollect 0; OValues 0; OMeasure "a" 2 0].
Proof. exact concurrent_readers_example. Qed.
Print Assumptions c19_concurrent_readers_satisfiable.
