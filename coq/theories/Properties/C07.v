From Coq Require Import List Arith.
Import ListNotations.
From Onet Require Import Overlay.Robust Overlay.RobustProofs.

Theorem c07_init_clean : leaked init = [].
Proof. exact init_clean. Qed.
Print Assumptions c07_init_clean.
