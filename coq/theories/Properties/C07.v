(* C07 -- No peer input can crash, wedge or silence a server.
   Statements only; proofs in Overlay/RobustProofs.v (model: Overlay/Robust.v) and
   Overlay/RobustCheckProofs.v (checker of Corr/C07.v).

   [trace fx s ops] / [run fx s ops]: the results / the final state of a finite history
   [ops] of envelopes handed to Overlay.Process (any of the seven registered message
   types, every field optional / arbitrary) and local calls, started in state [s].
   [all_fixed] = the model with the repairs F05 F06 F07 F08 F26 F70 F71 F72;
   [only n] = all repairs but Fn; [only 71] = the code as it is now (F71 is a recorded,
   unrepaired finding); [none_fixed] = the code as pinned.
   [base_fixed fx] = fx has F26 and F72; [crash_fixed fx] = fx has F05 F06 F07 F08 F70.
   [Inv s] = no overlay mutex is left locked and every listed instance has its tree. *)
From Coq Require Import List Arith Bool.
Import ListNotations.
From Onet Require Import Base.Corr Overlay.Robust Overlay.RobustProofs Corr.C07 Overlay.RobustCheckProofs.

(* no crash, no wedge, no mutex left locked, lock discipline: for every finite history from
   every state satisfying the invariant (in particular every reachable state) *)
Theorem c07_no_crash_no_leak : forall ops s,
  Inv s ->
  Forall (fun r => r_out r = Ok /\ leaked (r_state r) = [] /\ disciplined (r_events r) = true)
         (trace all_fixed s ops) /\
  Inv (run all_fixed s ops).
Proof. exact trace_safe. Qed.
Print Assumptions c07_no_crash_no_leak.

Theorem c07_reachable_inv : forall ops, Inv (run all_fixed init ops).
Proof. exact reachable_inv. Qed.
Print Assumptions c07_reachable_inv.

(* the same for the code as it is now *)
Theorem c07_current_code_safe : forall ops s,
  Inv s ->
  Forall (fun r => r_out r = Ok /\ leaked (r_state r) = [] /\ disciplined (r_events r) = true)
         (trace (only 71) s ops) /\
  Inv (run (only 71) s ops).
Proof. exact current_code_safe. Qed.
Print Assumptions c07_current_code_safe.

Theorem c07_current_code_flags : base_fixed (only 71) /\ crash_fixed (only 71).
Proof. exact (conj current_base current_crash). Qed.
Print Assumptions c07_current_code_flags.

(* one step: outcome, invariant, every table access under its mutex, stored trees untouched *)
Theorem c07_lock_discipline : forall s o,
  Inv s ->
  r_out (step all_fixed s o) = Ok /\
  Inv (r_state (step all_fixed s o)) /\
  disciplined (r_events (step all_fixed s o)) = true /\
  (forall id t, ~ p_tree (touches o) id -> lookup id (store s) = Some (Have t) ->
                lookup id (store (r_state (step all_fixed s o))) = Some (Have t)).
Proof. exact step_safe. Qed.
Print Assumptions c07_lock_discipline.

(* whatever peers send, a tree the server has keeps its content *)
Theorem c07_known_tree_stays : forall ops s id t,
  Inv s ->
  (forall o, In o ops -> ~ p_tree (touches o) id) ->
  lookup id (store s) = Some (Have t) ->
  lookup id (store (run all_fixed s ops)) = Some (Have t).
Proof. exact known_tree_stays. Qed.
Print Assumptions c07_known_tree_stays.

Theorem c07_known_tree_stays_gen : forall fx ops s id t,
  base_fixed fx -> crash_fixed fx -> Inv s ->
  (forall o, In o ops -> ~ p_tree (touches o) id) ->
  lookup id (store s) = Some (Have t) ->
  lookup id (store (run fx s ops)) = Some (Have t).
Proof. exact known_tree_stays_gen. Qed.
Print Assumptions c07_known_tree_stays_gen.

(* the next legitimate operation is served, in every state satisfying the invariant, by
   every variant with F26, F72 and the crash / leak repairs (the current code included) *)
Theorem c07_still_serves_tree_request : forall fx, base_fixed fx -> crash_fixed fx -> forall s p nf id ver t,
  Inv s -> lookup id (store s) = Some (Have t) -> reachable p = true ->
  let r := step fx s (Recv p false nf (MReqTree id ver)) in
  r_out r = Ok /\
  In (ESend p (if ver =? 0 then RTreeMarshal (t_id t) (ro_id (t_roster t)) (root_node t)
               else RRespTree (t_id t) (ro_id (t_roster t)) (root_node t))) (r_events r).
Proof. exact serves_tree_request. Qed.
Print Assumptions c07_still_serves_tree_request.

Theorem c07_still_serves_roster_request : forall fx, base_fixed fx -> crash_fixed fx -> forall s p nf rid i t,
  Inv s -> In (i, Have t) (store s) -> ro_id (t_roster t) = rid -> reachable p = true ->
  let r := step fx s (Recv p false nf (MReqRoster rid)) in
  r_out r = Ok /\ In (ESend p (RRoster rid)) (r_events r).
Proof. exact serves_roster_request. Qed.
Print Assumptions c07_still_serves_roster_request.

Theorem c07_still_serves_protocol_message : forall fx, base_fixed fx -> crash_fixed fx -> forall s p nf d from k t f,
  Inv s -> lookup (tk_tree k) (store s) = Some (Have t) ->
  will_deliver s t (mkP p from k BPing) f ->
  let r := step fx s (Recv p false nf (MProto from (Some k) BPing d)) in
  r_out r = Ok /\ In (EDeliver k (tk_node f)) (r_events r).
Proof. exact serves_protocol_message. Qed.
Print Assumptions c07_still_serves_protocol_message.

Example c07_will_deliver_satisfiable :
  will_deliver (run all_fixed init [LocalTree T1]) T1 (mkP 1 (Some (kfrom 1 90 1)) (kx 1 90) BPing) (kfrom 1 90 1).
Proof. exact will_deliver_example. Qed.
Print Assumptions c07_will_deliver_satisfiable.

(* peers cannot finish a run of the registered protocol ... *)
Theorem c07_legit_token_stays_unfinished : forall fx ops s k,
  base_fixed fx -> crash_fixed fx -> Inv s ->
  proto_known (tk_proto k) = true ->
  (forall o, In o ops -> o <> LocalDone k) ->
  mem_tok k (finished s) = false ->
  mem_tok k (finished (run fx s ops)) = false.
Proof. exact legit_token_stays_unfinished. Qed.
Print Assumptions c07_legit_token_stays_unfinished.

(* ... so after ANY history that is not the run's own Done nor a service re-registering its
   tree, a legitimate message on a stored tree still reaches the handler *)
Theorem c07_still_serves_after_any_history : forall fx, base_fixed fx -> crash_fixed fx ->
  forall ops s p nf d from k t f,
  Inv s -> lookup (tk_tree k) (store s) = Some (Have t) ->
  mem_tok k (finished s) = false -> search t (tk_node k) <> None -> proto_known (tk_proto k) = true ->
  deliverable t p from BPing f ->
  (forall o, In o ops -> ~ p_tree (touches o) (tk_tree k) /\ o <> LocalDone k) ->
  let r := step fx (run fx s ops) (Recv p false nf (MProto from (Some k) BPing d)) in
  r_out r = Ok /\ In (EDeliver k (tk_node f)) (r_events r).
Proof. exact still_serves_after_any_history. Qed.
Print Assumptions c07_still_serves_after_any_history.

(* a run on a tree the server lacks and nobody was asked for: the sender is asked (any
   variant, the current code included); with F71 also when others were asked before - the
   current code lacks F71 for that case: c07_f71_refuted ... *)
Theorem c07_asks_sender_for_tree : forall fx, base_fixed fx -> crash_fixed fx -> forall s p nf d from k b,
  Inv s -> b <> BGarbage -> reachable p = true ->
  (lookup (tk_tree k) (store s) = None \/
   (f71 fx = true /\
    exists asked, lookup (tk_tree k) (store s) = Some (Req asked) /\ mem_nat p asked = false)) ->
  let r := step fx s (Recv p false nf (MProto from (Some k) b d)) in
  r_out r = Ok /\
  In (ESend p (RReqTree (tk_tree k))) (r_events r) /\
  In (mkP p from k b) (parked (r_state r)) /\
  exists asked', lookup (tk_tree k) (store (r_state r)) = Some (Req asked').
Proof. exact asks_sender_for_tree. Qed.
Print Assumptions c07_asks_sender_for_tree.

(* ... and the answer stores the tree and hands the parked message to its handler *)
Theorem c07_still_serves_after_tree_arrives : forall fx, base_fixed fx -> crash_fixed fx -> forall s p nf tm ro t pm f asked,
  Inv s -> tm_tree tm <> 0 -> make_tree fx tm ro = MTOk t ->
  lookup (t_id t) (store s) = Some (Req asked) ->
  filter (fun pm => tk_tree (p_to pm) =? t_id t) (parked s) = [pm] ->
  will_deliver s t pm f ->
  let r := step fx s (Recv p false nf (MRespTree (Some tm) (Some ro))) in
  r_out r = Ok /\
  lookup (t_id t) (store (r_state r)) = Some (Have t) /\
  In (EDeliver (p_to pm) (tk_node f)) (r_events r).
Proof. exact serves_after_tree_arrives. Qed.
Print Assumptions c07_still_serves_after_tree_arrives.

Example c07_served_when_unforged :
  existsb (fun r => delivered (kx 2 12) (r_events r))
          (trace all_fixed init [ping 1 2 12 1; Recv 1 false false (MRespTree (Some tm2) (Some roG))]) = true /\
  lookup 2 (store (run all_fixed init [ping 1 2 12 1; Recv 1 false false (MRespTree (Some tm2) (Some roG))])) = Some (Have T2).
Proof. exact served_when_unforged. Qed.
Print Assumptions c07_served_when_unforged.

(* the five crash / leak defects are confined to their input classes: for any variant with
   the repairs F26 and F72 (base_fixed), every history all of whose operations are [benign]
   in the state they meet (destination token present or F05; description with nodes or F06
   and roster members with keys or F70; roster request with no requested-not-received tree
   or F07; roster message with something pending or F08) is safe *)
Theorem c07_safe_outside_defect_classes : forall fx ops s,
  base_fixed fx -> Inv s -> benign_hist fx s ops ->
  Forall (fun r => r_out r = Ok /\ leaked (r_state r) = [] /\ disciplined (r_events r) = true)
         (trace fx s ops) /\
  Inv (run fx s ops).
Proof. exact trace_safe_gen. Qed.
Print Assumptions c07_safe_outside_defect_classes.

Theorem c07_crash_defects_confined : forall ops s,
  Inv s -> benign_hist crash_unfixed s ops ->
  Forall (fun r => r_out r = Ok /\ leaked (r_state r) = [] /\ disciplined (r_events r) = true)
         (trace crash_unfixed s ops) /\
  Inv (run crash_unfixed s ops).
Proof. exact crash_defects_confined. Qed.
Print Assumptions c07_crash_defects_confined.

Example c07_benign_hist_satisfiable :
  benign_hist crash_unfixed init
    [LocalTree (mkTree 1 (mkRo 1 [mkMem 1 true; mkMem 4 true; mkMem 2 true]) (TM 1 1 [TM 4 4 []; TM 2 2 []]));
     Recv 1 false false (MProto (Some (mkTok 1 1 1 0 90 1)) (Some (mkTok 1 1 1 0 90 4)) BPing 0);
     Recv 3 false false (MReqRoster 1);
     Recv 3 false false (MRespTree (Some (mkTMar 2 1 [TM 1 1 []])) (Some (mkRo 1 [mkMem 1 true])))].
Proof. exact benign_hist_satisfiable. Qed.
Print Assumptions c07_benign_hist_satisfiable.

(* the code without one repair: a witness history each *)
Theorem c07_f05_refuted :
  exists ops, In (Crashed CNilTo) (outs (only 5) ops) /\ ~ In (Crashed CNilTo) (outs all_fixed ops).
Proof. exact f05_refuted. Qed.
Print Assumptions c07_f05_refuted.

Theorem c07_f06_refuted :
  exists ops, In (Crashed CNoChildren) (outs (only 6) ops) /\ outs all_fixed ops = [Ok; Ok].
Proof. exact f06_refuted. Qed.
Print Assumptions c07_f06_refuted.

Theorem c07_f06_deprecated_refuted :
  exists ops, In (Crashed CNoChildren) (outs (only 6) ops) /\
              leaked (run (only 6) init ops) = [LPTree] /\ outs all_fixed ops = [Ok; Ok; Ok].
Proof. exact f06_deprecated_refuted. Qed.
Print Assumptions c07_f06_deprecated_refuted.

Theorem c07_f07_refuted :
  exists ops, In (Crashed CNilTreeInStore) (outs (only 7) ops) /\ outs all_fixed ops = [Ok; Ok].
Proof. exact f07_refuted. Qed.
Print Assumptions c07_f07_refuted.

Theorem c07_f08_refuted :
  exists ops, leaked (run (only 8) init ops) = [LPTree] /\
              outs (only 8) (ops ++ ops) = [Ok; Wedged LPTree] /\
              outs all_fixed (ops ++ ops) = [Ok; Ok].
Proof. exact f08_refuted. Qed.
Print Assumptions c07_f08_refuted.

Theorem c07_f26_refuted :
  exists ops, existsb (fun r => negb (disciplined (r_events r))) (trace (only 26) init ops) = true /\
              existsb (fun r => negb (disciplined (r_events r))) (trace all_fixed init ops) = false.
Proof. exact f26_refuted. Qed.
Print Assumptions c07_f26_refuted.

Theorem c07_f70_refuted :
  exists ops, In (Crashed CNilPublic) (outs (only 70) ops) /\ outs all_fixed ops = [Ok; Ok].
Proof. exact f70_refuted. Qed.
Print Assumptions c07_f70_refuted.

Theorem c07_f71_refuted :
  exists ops o, r_out (step (only 71) (run (only 71) init ops) o) = Ok /\
                sent 2 (RReqTree 3) (r_events (step (only 71) (run (only 71) init ops) o)) = false /\
                sent 2 (RReqTree 3) (r_events (step all_fixed (run all_fixed init ops) o)) = true.
Proof. exact f71_refuted. Qed.
Print Assumptions c07_f71_refuted.

Theorem c07_f72_refuted :
  exists ops o, lookup 1 (store (run (only 72) init ops)) <> Some (Have T1) /\
                delivered (kx 1 90) (r_events (step (only 72) (run (only 72) init ops) o)) = false /\
                lookup 1 (store (run all_fixed init ops)) = Some (Have T1) /\
                delivered (kx 1 90) (r_events (step all_fixed (run all_fixed init ops) o)) = true.
Proof. exact f72_refuted. Qed.
Print Assumptions c07_f72_refuted.

(* the deprecated pair with the roster arriving after the genuine tree: the queued forged
   description is dropped by the current code, used by the code without F72 *)
Theorem c07_late_roster_keeps_tree :
  lookup 2 (store (run (only 71) init late_roster_ops)) = Some (Have T2) /\
  delivered (kx 2 91) (r_events (step (only 71) (run (only 71) init late_roster_ops) (ping 1 2 91 1))) = true /\
  ptm (run (only 71) init late_roster_ops) = [] /\
  lookup 2 (store (run (only 72) init late_roster_ops)) <> Some (Have T2) /\
  delivered (kx 2 91) (r_events (step (only 72) (run (only 72) init late_roster_ops) (ping 1 2 91 1))) = false.
Proof. exact late_roster_keeps_tree. Qed.
Print Assumptions c07_late_roster_keeps_tree.

(* recorded, not repaired: a forged answer to a pending tree request is stored *)
Theorem c07_f73_forged_requested_tree :
  exists ops, lookup 2 (store (run all_fixed init ops)) <> Some (Have T2) /\
              existsb (fun r => delivered (kx 2 12) (r_events r)) (trace all_fixed init ops) = false /\
              outs all_fixed ops = [Ok; Ok; Ok].
Proof. exact f73_forged_requested_tree. Qed.
Print Assumptions c07_f73_forged_requested_tree.

Theorem c07_pinned_code_refuted :
  In (Crashed CNilTo) (outs none_fixed [Recv 3 false false (MProto (Some (kfrom 1 20 1)) None BPing 0)]) /\
  In (Crashed CNoChildren) (outs none_fixed [ping 1 2 12 1; Recv 3 false false (MRespTree (Some (mkTMar 2 1 [])) (Some roG))]) /\
  In (Crashed CNilTreeInStore) (outs none_fixed [ping 1 2 12 1; Recv 3 false false (MReqRoster 9)]) /\
  leaked (run none_fixed init [Recv 3 false false (MRoster roH)]) = [LPTree].
Proof. exact pinned_code_refuted. Qed.
Print Assumptions c07_pinned_code_refuted.

(* a late message for a finished run does not make the server forget, after the grace
   period of the tree store, the tree of a run that is still going on *)
Theorem c07_late_message_keeps_live_tree :
  let s := run (only 71) init late_done_ops in
  removal s = [] /\
  lookup 1 (store (elapse s)) = Some (Have T1) /\
  sent 3 (RRespTree 1 1 1) (r_events (step (only 71) (elapse s) (Recv 3 false false (MReqTree 1 1)))) = true /\
  delivered (kx 1 11) (r_events (step (only 71) (elapse s) (ping 1 1 11 1))) = true /\
  removal (run (only 71) init [LocalTree T1; ping 1 1 10 1; LocalDone (kx 1 10); ping 1 1 10 1]) = [1] /\
  lookup 1 (store (elapse (run (only 71) init [LocalTree T1; ping 1 1 10 1; LocalDone (kx 1 10); ping 1 1 10 1]))) = None.
Proof. exact late_message_keeps_live_tree. Qed.
Print Assumptions c07_late_message_keeps_live_tree.

Theorem c07_elapse_nothing_scheduled : forall s, removal s = [] -> store (elapse s) = store s.
Proof. exact elapse_nothing_scheduled. Qed.
Print Assumptions c07_elapse_nothing_scheduled.

(* the checker evaluated on the implementation's observations is the property *)
Theorem c07_check_sound : forall ops os,
  check (mkCase ops os) = [] <->
  no_panic os /\ nothing_held os /\ (canaries_served true ops os [] /\ replies_arrived os) /\
  canaries_served false ops os [].
Proof. exact check_history_sound. Qed.
Print Assumptions c07_check_sound.

Theorem c07_check_stress_sound : forall aborted free_scans,
  check (mkStress aborted free_scans) = [] <-> aborted = false /\ free_scans = false.
Proof. exact check_stress_sound. Qed.
Print Assumptions c07_check_stress_sound.

Theorem c07_check_race_sound : forall v crashed hung served,
  check (mkRace v crashed hung served) = [] <-> crashed = false /\ hung = false /\ served = true.
Proof. exact check_race_sound. Qed.
Print Assumptions c07_check_race_sound.

Theorem c07_check_abnormal_sound : forall crashed hung,
  check (mkAbnormal crashed hung) = [] <-> crashed = false /\ hung = false.
Proof. exact check_abnormal_sound. Qed.
Print Assumptions c07_check_abnormal_sound.

(* a wake-up of an instance's reader never follows the close of that instance: Done marks
   the token finished, and a message for a finished token is dropped without handler call *)
Theorem c07_done_marks_finished : forall fx s k,
  leaked s = [] -> mem_tok k (insts s) = true ->
  r_out (step fx s (LocalDone k)) = Ok /\
  mem_tok k (finished (r_state (step fx s (LocalDone k)))) = true.
Proof. exact done_marks_finished. Qed.
Print Assumptions c07_done_marks_finished.

Theorem c07_no_wakeup_after_close : forall pm t s ev,
  leaked s = [] -> mem_tok (p_to pm) (finished s) = true ->
  exists m', deliver_hit pm t (mkM s [] ev) = Ret tt m' /\
             forall k f, In (EDeliver k f) (evs m') -> In (EDeliver k f) ev.
Proof. exact no_wakeup_after_close. Qed.
Print Assumptions c07_no_wakeup_after_close.

(* the message type a peer declares in a ProtocolMsg is never read *)
Theorem c07_declared_type_ignored : forall fx s p c nf from to b d d',
  step fx s (Recv p c nf (MProto from to b d)) = step fx s (Recv p c nf (MProto from to b d')).
Proof. exact declared_type_ignored. Qed.
Print Assumptions c07_declared_type_ignored.
