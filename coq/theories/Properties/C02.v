(* C02 -- Handlers only see messages from the authenticated tree member they name.
   Only statements; every proof is [exact] of a lemma of Node/VerifyProofs.v or
   Node/C02CheckProofs.v.  Model: Node/Instance.v. *)
From Coq Require Import List Arith.
Import ListNotations.
From Onet Require Node.Dispatch Node.DispatchProofs.
From Onet Require Import Base.Corr Node.Instance Node.Obs Node.VerifyProofs Corr.C02 Node.C02CheckProofs
  Node.Pipeline Node.PipelineProofs.

(* First sentence of the property.  For EVERY variant of the code (pinned or
   repaired), every tree, every instance table, every registration table and
   every history [l] of injected messages: whenever a handler call or a channel
   value ([d]) contains a message [m] together with the node at depth-first
   position [pos], that position holds a node [n] of the instance's tree, the
   message is one of the injected ones ([x]), its sender token names exactly
   that node, and the identity the router put on the envelope of [x] is the
   server hosting [n] -- or [x] was injected inside the process without any
   envelope identity. *)
Theorem c02_authentic : forall f c l d pos m,
  In d (all_deliveries (run f c l)) -> In (EMsg pos m) (d_batch d) ->
  exists x n, In x l /\ nth_error (nodes (c_tree c)) pos = Some n /\
    w_from (i_wire x) = Some (n_id n) /\
    (i_env x = PNone \/ i_env x = PKey (n_srv n)) /\
    p_payload m = w_payload (i_wire x) /\ p_type m = w_type (i_wire x).
Proof. exact authentic_delivery_spelled. Qed.
Print Assumptions c02_authentic.

(* Second sentence, "in whole": a message whose claimed sender is absent, is not
   a node of the tree, or is hosted by another server than the envelope's peer
   (an identity without key hosts nothing) is never handed over -- single or
   inside an aggregated batch, to a handler or a channel, in either variant. *)
Theorem c02_invalid_never_delivered : forall f c l d pos m,
  In d (all_deliveries (run f c l)) -> In (EMsg pos m) (d_batch d) ->
  ~ invalid_sender (nodes (c_tree c)) (p_from m) (p_peer m).
Proof. exact invalid_never_delivered. Qed.
Print Assumptions c02_invalid_never_delivered.

(* Second sentence, "or as an empty placeholder": no handler or channel ever
   receives the zero value -- always in the repaired variant; in the pinned
   variant on the complement of defect F02, i.e. as long as every injected
   sender token names a node of the tree. *)
Theorem c02_no_placeholder : forall f c l,
  (fix_f02 f = true \/
   forall x, In x l -> forall id, w_from (i_wire x) = Some id ->
     exists n, In n (nodes (c_tree c)) /\ n_id n = id) ->
  Forall (fun d => ~ In EZero (d_batch d)) (all_deliveries (run f c l)).
Proof. exact no_placeholder. Qed.
Print Assumptions c02_no_placeholder.

(* ... and no message makes the dispatch goroutine panic (neither fatally nor
   into dispatchChannel's recover) -- always in the repaired variant; in the
   pinned variant on the complement of defect F03, i.e. as long as every
   injected message carries a sender token. *)
Theorem c02_no_crash : forall f c l,
  (fix_f03 f = true \/ forall x, In x l -> w_from (i_wire x) <> None) ->
  crashed (run f c l) = false /\
  forall r, In r (run f c l) -> forall ds, r <> RStep ds SRecovered.
Proof. exact no_crash. Qed.
Print Assumptions c02_no_crash.

(* The pinned code violates the property. F02: a member sends, over its own
   connection, a sender token naming a node id that is not in the tree; the
   handler receives the zero value. *)
Theorem c02_placeholder_refuted :
  exists c l d,
    In d (all_deliveries (run pinned c l)) /\ In EZero (d_batch d) /\
    (forall x, In x l -> i_env x = PKey 1 /\ w_from (i_wire x) = Some 7).
Proof. exact placeholder_refuted. Qed.
Print Assumptions c02_placeholder_refuted.

(* F03: one message without sender token kills the receiving process. *)
Theorem c02_nosender_refuted :
  exists c l, crashed (run pinned c l) = true /\ length l = 1.
Proof. exact nosender_refuted. Qed.
Print Assumptions c02_nosender_refuted.

(* The theorems above are not satisfied by refusing everything: a single message
   of a non-aggregated registered type whose sender token names a node of the
   tree, arriving from that node's server (or injected locally), is handed over
   at once, alone, unchanged, with the node Tree.Search finds. *)
Theorem c02_valid_delivered : forall f f3 ns me r q m id pos x k,
  p_from m = Some id -> search ns id = Some (pos, x) ->
  (p_peer m = PNone \/ p_peer m = PKey (n_srv x)) ->
  lookup r (p_type m) = Some (k, false) ->
  step f f3 ns me r q m =
    (q, ([{| d_type := p_type m; d_kind := k; d_agg := false; d_batch := [EMsg pos m] |}], SOk)).
Proof. exact valid_single_delivered. Qed.
Print Assumptions c02_valid_delivered.

(* A member claiming to be another member is refused, by both variants. *)
Theorem c02_spoof_rejected : forall f f3 ns me r q m id pos x k0 k agg,
  p_from m = Some id -> search ns id = Some (pos, x) -> p_peer m = PKey k0 -> k0 <> n_srv x ->
  lookup r (p_type m) = Some (k, agg) -> agg = false ->
  step f f3 ns me r q m = (q, ([], SErr)).
Proof. exact spoof_rejected. Qed.
Print Assumptions c02_spoof_rejected.

(* What is NOT claimed: a message injected inside the process (no envelope
   identity) is not authenticated; it is delivered iff the named node exists
   (and, in the pinned variant, as a placeholder when it does not). *)
Theorem c02_local_injection : forall f f3 ns me r q m id k,
  p_peer m = PNone -> p_from m = Some id -> lookup r (p_type m) = Some (k, false) ->
  (forall pos x, search ns id = Some (pos, x) ->
     step f f3 ns me r q m =
       (q, ([{| d_type := p_type m; d_kind := k; d_agg := false; d_batch := [EMsg pos m] |}], SOk))) /\
  (search ns id = None ->
     step f f3 ns me r q m =
       (q, if f then ([], SErr)
           else ([{| d_type := p_type m; d_kind := k; d_agg := false; d_batch := [EZero] |}], SOk))).
Proof. exact local_injection. Qed.
Print Assumptions c02_local_injection.

(* The identity is taken from the envelope, never from the wire, and of that
   identity only the public KEY counts: the ServerIdentity field of the received
   ProtocolMsg, the tree named by its sender token and the self-declared ID
   field of the envelope's identity ([i_decl], e.g. the victim's ID copied into
   the attacker's handshake identity) do not influence anything
   ([same_content] does not mention them). *)
Theorem c02_wire_identity_ignored : forall f c l l',
  Forall2 same_content l l' -> run f c l = run f c l'.
Proof. exact run_wire_irrelevant. Qed.
Print Assumptions c02_wire_identity_ignored.

(* Tree.Search, on which all of this rests: the node found carries the id, and
   it is the last such node of the depth-first visit. *)
Theorem c02_search_spec : forall l id p x,
  search l id = Some (p, x) ->
  nth_error l p = Some x /\ n_id x = id /\
  forall k y, nth_error l k = Some y -> n_id y = id -> k <= p.
Proof. exact search_spec. Qed.
Print Assumptions c02_search_spec.

(* The checker run on every observation of the implementation returns no clause
   exactly when the observation satisfies the property's reading [obs_good]. *)
Theorem c02_check_sound : forall c, check c = [] <-> obs_good c.
Proof. exact check_spec. Qed.
Print Assumptions c02_check_sound.

(* FROM AGREEMENT TO THE PROPERTY.  If what the implementation did on a scenario
   (payloads identify the injected messages) agrees with the model of variant f,
   the checker can only report clause 1 (placeholder) -- and only if f lacks the
   F02 repair -- or clause 5 (crash) -- and only if f lacks the F03 repair.  So
   model agreement leaves no room for any other violation of C02, and agreement
   with the repaired variant means the observation satisfies the property. *)
Theorem c02_agree_implies_property : forall f c,
  NoDup (map msg_key (k_msgs c)) ->
  agree_obs f (config_of c) (k_msgs c) (k_obs c) (k_final c) = true ->
  forall cl, In cl (check c) ->
    (cl = 1 /\ fix_f02 f = false) \/ (cl = 5 /\ fix_f03 f = false).
Proof. exact agree_check. Qed.
Print Assumptions c02_agree_implies_property.

Theorem c02_agree_repaired_clean : forall c,
  NoDup (map msg_key (k_msgs c)) ->
  agree_obs repaired (config_of c) (k_msgs c) (k_obs c) (k_final c) = true ->
  check c = [].
Proof. exact agree_repaired_check. Qed.
Print Assumptions c02_agree_repaired_clean.

(* Satisfiability of the hypotheses: a legitimate message is delivered as itself. *)
Example c02_authentic_example :
  let c := {| c_tree := two_nodes; c_insts := [0]; c_regs := regs_h1 |} in
  let l := [{| i_inst := 0; i_env := PKey 1; i_decl := None;
               i_wire := {| w_from := Some 1; w_from_other_tree := false; w_si := Some 0;
                            w_type := 1; w_payload := 42 |} |}] in
  all_deliveries (run pinned c l) =
    [{| d_type := 1; d_kind := Handler; d_agg := false;
        d_batch := [EMsg 1 {| p_from := Some 1; p_peer := PKey 1; p_type := 1; p_payload := 42 |}] |}].
Proof. exact authentic_example. Qed.
Print Assumptions c02_authentic_example.

(* The two refutation witnesses on the repaired variant: refused, nothing delivered. *)
Example c02_repaired_on_witnesses :
  let c := {| c_tree := two_nodes; c_insts := [0]; c_regs := regs_h1 |} in
  let mk from := [{| i_inst := 0; i_env := PKey 1; i_decl := None;
             i_wire := {| w_from := from; w_from_other_tree := false; w_si := None;
                          w_type := 1; w_payload := 42 |} |}] in
  run repaired c (mk (Some 7)) = [RStep [] SErr] /\ run repaired c (mk None) = [RStep [] SErr].
Proof. exact repaired_on_witnesses. Qed.
Print Assumptions c02_repaired_on_witnesses.

(* ---- linked with the C05 model: every interleaving -------------------------
   Node/Pipeline.v runs the C05 reader/queue transition system (Node/Dispatch.v)
   and the message semantics above as ONE system: any number of instances,
   feeders / readers / closes in any order; when the reader of instance i pops
   message id m, [tbl m] goes through dispatchMsgToProtocol of instance i.  *)

(* The log of instance i is the sequential semantics [run f c] on the messages
   its reader has started, and those are a prefix of the accepted ones (the
   rest is still in the dispatch queue): "one dispatch goroutine per instance
   processes messages in queue order" is a theorem here, not an assumption. *)
Theorem c02_log_is_sequential : forall f c tbl n acts st i ci,
  prun f c tbl (pinit n) acts = Some st -> nth_error (p_sys st) i = Some ci ->
  ilog i (p_log st) = run f c (started_inj tbl i ci) /\
  accepted_inj tbl i ci =
    started_inj tbl i ci ++ map (fun m => with_inst i (tbl m)) (Dispatch.queue ci).
Proof. exact pipeline_order. Qed.
Print Assumptions c02_log_is_sequential.

(* C02 for the combined system: whatever a handler or channel of any instance
   receives in any reachable state -- under every interleaving, for both code
   variants -- comes from a message that instance accepted, names a node of
   the tree, that node is the one the message claims, and it is hosted by the
   key on the envelope the message arrived in; an invalid sender is never
   delivered. *)
Theorem c02_holds_under_every_interleaving : forall f c tbl n acts st i ci ds s0 d pos m,
  prun f c tbl (pinit n) acts = Some st -> nth_error (p_sys st) i = Some ci ->
  In (i, RStep ds s0) (p_log st) -> In d ds -> In (EMsg pos m) (d_batch d) ->
  exists mid nd,
    In mid (Dispatch.accepted ci) /\
    nth_error (nodes (c_tree c)) pos = Some nd /\
    w_from (i_wire (tbl mid)) = Some (n_id nd) /\
    (i_env (tbl mid) = PNone \/ i_env (tbl mid) = PKey (n_srv nd)) /\
    p_payload m = w_payload (i_wire (tbl mid)) /\ p_type m = w_type (i_wire (tbl mid)) /\
    ~ invalid_sender (nodes (c_tree c)) (p_from m) (p_peer m).
Proof. exact pipeline_authentic. Qed.
Print Assumptions c02_holds_under_every_interleaving.

(* ... no placeholder with the F02 repair, no panic with the F03 repair (or when
   every message carries a sender token), under every interleaving; and then
   the combined system never halts before the C05 system does. *)
Theorem c02_no_placeholder_under_every_interleaving : forall f c tbl n acts st i ds s0 d,
  fix_f02 f = true ->
  prun f c tbl (pinit n) acts = Some st ->
  In (i, RStep ds s0) (p_log st) -> In d ds -> ~ In EZero (d_batch d).
Proof. exact pipeline_no_placeholder. Qed.
Print Assumptions c02_no_placeholder_under_every_interleaving.

Theorem c02_no_panic_under_every_interleaving : forall f c tbl n acts st,
  panic_free f tbl -> prun f c tbl (pinit n) acts = Some st ->
  p_dead st = false /\ forall i r, In (i, r) (p_log st) -> is_crash r = false.
Proof. exact pipeline_no_panic. Qed.
Print Assumptions c02_no_panic_under_every_interleaving.

(* the C05 component of the combined run IS the C05 run (so the C05 theorems
   transfer), and without panics the combined system follows every C05 run *)
Theorem c02_pipeline_projection : forall f c tbl acts st st',
  prun f c tbl st acts = Some st' -> Dispatch.run (p_sys st) acts = Some (p_sys st').
Proof. exact pipeline_projection. Qed.
Print Assumptions c02_pipeline_projection.

Theorem c02_pipeline_total : forall f c tbl acts st s,
  panic_free f tbl -> PInv f c tbl st -> p_dead st = false ->
  Dispatch.run (p_sys st) acts = Some s ->
  exists st', prun f c tbl st acts = Some st' /\ p_sys st' = s /\ p_dead st' = false.
Proof. exact pipeline_total. Qed.
Print Assumptions c02_pipeline_total.

(* a reachable combined state: two instances, feeders and readers interleaved,
   an aggregated batch delivered to instance 0 while instance 1 still waits *)
Example c02_pipeline_example :
  exists st,
    prun repaired ex_cfg ex_tbl (pinit 2)
      [(0, Dispatch.AAccept 1); (1, Dispatch.AAccept 3); (0, Dispatch.ACheck); (1, Dispatch.ACheck);
       (0, Dispatch.AAccept 2); (0, Dispatch.AEnd); (1, Dispatch.AEnd); (0, Dispatch.ACheck)] = Some st /\
    p_dead st = false /\
    ilog 0 (p_log st) =
      [RStep [] SWait;
       RStep [{| d_type := 2; d_kind := Handler; d_agg := true;
                 d_batch := [EMsg 1 {| p_from := Some 1; p_peer := PKey 1; p_type := 2; p_payload := 1 |};
                             EMsg 2 {| p_from := Some 2; p_peer := PKey 2; p_type := 2; p_payload := 2 |}] |}] SOk] /\
    ilog 1 (p_log st) = [RStep [] SWait].
Proof. exact pipeline_example. Qed.
Print Assumptions c02_pipeline_example.
