From Coq Require Import List Arith.
Import ListNotations.
From Onet Require Import Tree.Gen.

Theorem c12_bad_root_none : forall n N k, n <= k ->
  gen_nary n N RForeign = GNone /\ gen_nary n N (RIdx k) = GNone.
Proof.
  intros n N k H; split; [reflexivity|]. unfold gen_nary.
  destruct (k <? n) eqn:E; [apply Nat.ltb_lt in E; exfalso; apply (Nat.lt_irrefl k); eapply Nat.lt_le_trans; eauto|reflexivity].
Qed.
Print Assumptions c12_bad_root_none.
