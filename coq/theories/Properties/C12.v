(* C12 -- Generated trees are well-formed and have the documented shape.
   Only statements; every proof is [exact] of a lemma of Tree/GenProofs.v. *)
From Coq Require Import List Arith.
Import ListNotations.
From Onet Require Import Tree.Gen Tree.GenProofs Tree.GenBigProofs Tree.GenBigShape Corr.C12 Tree.CheckProofs Tree.GenBigLevels Tree.WrapperProofs.
From Coq Require Import Permutation.

(* The n-ary generator (and hence the binary and star generators) returns, in
   creation = breadth-first order, exactly the closed form: node k >= 1 sits on
   roster member (k + root) mod n and hangs off node (k-1)/N. *)
Theorem c12_nary_shape : forall n N root, 1 <= N -> 1 <= n ->
  (root = RNil \/ exists k, root = RIdx k /\ k < n) ->
  gen_nary n N root = GTree (nary_spec n N (nary_root root)).
Proof. exact nary_shape. Qed.
Print Assumptions c12_nary_shape.

(* ... and that closed form is a well-formed rooted tree: n nodes, the requested
   root first, parent links pointing to earlier nodes, node p owning exactly the
   children N*p+1..N*p+N (at most N, levels filled breadth-first), roster
   positions in range and a bijection with the roster. *)
Theorem c12_nary_wellformed : forall n N root, 1 <= N -> 1 <= n -> root < n ->
  let l := nary_spec n N root in
  length l = n /\
  nth_error l 0 = Some (root, 0) /\
  (forall k, 1 <= k -> k < n ->
     nth_error l k = Some ((k + root) mod n, (k - 1) / N) /\ (k - 1) / N < k /\ (k + root) mod n < n) /\
  (forall p k, 1 <= k -> ((k - 1) / N = p <-> N * p + 1 <= k <= N * p + N)) /\
  (forall a b, a < n -> b < n -> (a + root) mod n = (b + root) mod n -> a = b) /\
  (forall r, r < n -> exists k, k < n /\ (k + root) mod n = r).
Proof. exact nary_spec_wellformed. Qed.
Print Assumptions c12_nary_wellformed.

Theorem c12_binary_star_special_cases : forall n,
  gen_binary n = gen_nary n 2 RNil /\ gen_star n = gen_nary n (n - 1) RNil /\
  (2 <= n -> gen_star n = GTree ((0, 0) :: map (fun k => (k mod n, 0)) (seq 1 (n - 1)))).
Proof. exact binary_star_special. Qed.
Print Assumptions c12_binary_star_special_cases.

Theorem c12_bad_root_none : forall n N k, n <= k ->
  gen_nary n N RForeign = GNone /\ gen_nary n N (RIdx k) = GNone.
Proof. exact bad_root_none. Qed.
Print Assumptions c12_bad_root_none.

(* big generator: whenever it returns, it returns exactly [nodes] nodes ... *)
Theorem c12_big_count : forall hosts N nodes l, 1 <= N -> 1 <= nodes ->
  gen_big hosts N nodes = GTree l -> length l = nodes.
Proof. exact gen_big_count. Qed.
Print Assumptions c12_big_count.

(* ... and its levels are filled breadth-first: with [sizes] the level sizes (root level
   first), they sum to [nodes], the first is 1, every level but the deepest is N times the
   level above it and the deepest holds between 1 and N times the level above it. *)
Theorem c12_big_levels : forall hosts N nodes sizes, 1 <= N -> 1 <= nodes ->
  gen_big_sizes hosts N nodes = Some sizes ->
  list_sum sizes = nodes /\ rshape N (rev sizes).
Proof. exact gen_big_levels. Qed.
Print Assumptions c12_big_levels.

(* the big generator never crashes: for every non-empty roster, every host pattern, every
   branching factor >= 1 and every node count it returns a tree (the inner search loop
   ends within its 2n+2 iterations, every index is in range, every level adds a node) *)
Theorem c12_big_returns : forall hosts N nodes, hosts <> [] -> 1 <= N ->
  exists l, gen_big hosts N nodes = GTree l.
Proof. exact gen_big_returns. Qed.
Print Assumptions c12_big_returns.

(* when the node count equals the roster size every member is used exactly once *)
Theorem c12_big_use_all : forall hosts N, hosts <> [] -> 1 <= N ->
  exists l, gen_big hosts N (length hosts) = GTree l /\ Permutation (map fst l) (seq 0 (length hosts)).
Proof. exact gen_big_use_all. Qed.
Print Assumptions c12_big_use_all.

Example c12_big_sizes_example : gen_big_sizes [0; 1; 2] 2 12 = Some [1; 2; 4; 5].
Proof. exact big_sizes_example. Qed.
Print Assumptions c12_big_sizes_example.

(* node ids are a function [idf] of the member placed on the node: if every
   member occupies at most one node, ids are pairwise distinct or [idf] collides *)
Theorem c12_ids_distinct : forall (idf : nat -> nat) (l : list (nat * nat)),
  NoDup (map fst l) ->
  NoDup (map idf (map fst l)) \/
  exists a b, In a (map fst l) /\ In b (map fst l) /\ a <> b /\ idf a = idf b.
Proof. exact ids_distinct_or_collision. Qed.
Print Assumptions c12_ids_distinct.

(* F14: the big generator repeats members, hence ids, whatever the id function *)
Theorem c12_big_repeats_ids_refuted :
  exists hosts N nodes l, gen_big hosts N nodes = GTree l /\ length l = 7 /\ length hosts = 3 /\
    forall idf : nat -> nat, ~ NoDup (map idf (map fst l)).
Proof. exact big_repeats_ids. Qed.
Print Assumptions c12_big_repeats_ids_refuted.

Example c12_nary_example :
  gen_nary 7 2 (RIdx 3) = GTree [(3,0); (4,0); (5,0); (6,1); (0,1); (1,2); (2,2)].
Proof. exact nary_example. Qed.
Print Assumptions c12_nary_example.

(* the property checker that is evaluated on the implementation's observations accepts the
   model's own output of the n-ary generator, for every roster size, branching factor and root,
   given pairwise different node ids: the checker demands nothing the proved shape does not
   give, so an implementation that agrees with the model is never reported *)
Theorem c12_checker_accepts_model : forall n N root ids,
  1 <= N -> 1 <= n -> (root = RNil \/ exists k, root = RIdx k /\ k < n) ->
  length ids = n -> nodupb ids = true ->
  check (CNary n N root (gen_nary n N root) ids true true) = [].
Proof. exact check_accepts_model_nary. Qed.
Print Assumptions c12_checker_accepts_model.

Theorem c12_checker_accepts_model_bad_root : forall n N k ids links ridx,
  1 <= N -> 1 <= n -> n <= k ->
  check (CNary n N (RIdx k) (gen_nary n N (RIdx k)) ids links ridx) = [] /\
  check (CNary n N RForeign (gen_nary n N RForeign) ids links ridx) = [].
Proof. exact check_accepts_model_bad_root. Qed.
Print Assumptions c12_checker_accepts_model_bad_root.

(* the tree returned by the big generator is well formed, for every roster, host pattern,
   branching factor >= 1 and node count: the root is member 0 and has no parent; every other
   node's parent is an earlier node and parents are non-decreasing in breadth-first order
   (parents_bfs); every roster position is in range; no node has more than N children *)
Theorem c12_big_wellformed : forall hosts N nodes l,
  hosts <> [] -> 1 <= N -> gen_big hosts N nodes = GTree l ->
  wf_tree (length hosts) N l = true /\ hd_error l = Some (0, 0).
Proof. exact gen_big_wellformed. Qed.
Print Assumptions c12_big_wellformed.

(* pairwise distinct node identifiers: every generator output that uses every member once has
   pairwise distinct roster positions, hence pairwise distinct identifiers for every injective
   derivation of the identifier from the member (what remains is the derivation's injectivity:
   uuid-SHA1 of the key, see c12_ids_distinct for the collision reading) *)
Theorem c12_nary_ids_distinct : forall n N root l (idf : nat -> nat),
  1 <= N -> 1 <= n -> (root = RNil \/ exists k, root = RIdx k /\ k < n) ->
  (forall a b, idf a = idf b -> a = b) ->
  gen_nary n N root = GTree l -> NoDup (map fst l) /\ NoDup (map idf (map fst l)).
Proof. exact nary_ids_distinct. Qed.
Print Assumptions c12_nary_ids_distinct.

Theorem c12_big_ids_distinct : forall hosts N (idf : nat -> nat),
  hosts <> [] -> 1 <= N -> (forall a b, idf a = idf b -> a = b) ->
  exists l, gen_big hosts N (length hosts) = GTree l /\ NoDup (map fst l) /\ NoDup (map idf (map fst l)).
Proof. exact big_ids_distinct. Qed.
Print Assumptions c12_big_ids_distinct.

(* levels of the big tree, stated for the TREE: [level_sizes] computes the depth of every node
   from the parent links and counts the nodes per depth. The sizes that the generator's loop
   records are exactly these, hence: they sum to the node count, the root level has one node,
   every level but the deepest holds N times the level above it and the deepest between 1 and
   N times - levels are filled breadth-first *)
Theorem c12_big_level_sizes_are_the_trees : forall hosts N nodes l sizes,
  1 <= N -> 1 <= nodes ->
  gen_big hosts N nodes = GTree l -> gen_big_sizes hosts N nodes = Some sizes ->
  level_sizes l = sizes.
Proof. exact gen_big_level_sizes. Qed.
Print Assumptions c12_big_level_sizes_are_the_trees.

Theorem c12_big_tree_levels : forall hosts N nodes l,
  hosts <> [] -> 1 <= N -> 1 <= nodes -> gen_big hosts N nodes = GTree l ->
  list_sum (level_sizes l) = nodes /\ rshape N (rev (level_sizes l)).
Proof. exact gen_big_tree_levels. Qed.
Print Assumptions c12_big_tree_levels.

(* the callers the property names (local.go LocalTest.GenBigTree, simulation.go
   SimulationBFTree.CreateTree): for every legal argument they return a tree of exactly the
   requested number of nodes, rooted at member 0, well formed over their servers, levels filled
   breadth-first; LocalTest.GenTree is the binary generator *)
Theorem c12_local_test_gen_big_tree : forall nodes servers bf,
  1 <= nodes -> 1 <= servers -> 1 <= bf ->
  exists l, lt_gen_big_tree nodes servers bf = GTree l /\
    length l = nodes /\
    wf_tree servers bf l = true /\ hd_error l = Some (0, 0) /\
    list_sum (level_sizes l) = nodes /\ rshape bf (rev (level_sizes l)).
Proof. exact lt_gen_big_tree_spec. Qed.
Print Assumptions c12_local_test_gen_big_tree.

Theorem c12_local_test_gen_big_tree_use_all : forall servers bf, 1 <= servers -> 1 <= bf ->
  exists l, lt_gen_big_tree servers servers bf = GTree l /\
    Permutation (map fst l) (seq 0 servers).
Proof. exact lt_gen_big_tree_use_all. Qed.
Print Assumptions c12_local_test_gen_big_tree_use_all.

Theorem c12_simulation_create_tree : forall hosts bf nhosts,
  hosts <> [] -> 1 <= bf -> 1 <= nhosts ->
  exists l, sim_create_tree hosts bf nhosts = GTree l /\
    length l = nhosts /\
    wf_tree (length hosts) bf l = true /\ hd_error l = Some (0, 0) /\
    list_sum (level_sizes l) = nhosts /\ rshape bf (rev (level_sizes l)).
Proof. exact sim_create_tree_spec. Qed.
Print Assumptions c12_simulation_create_tree.

Theorem c12_local_test_gen_tree : forall n, lt_gen_tree n = gen_nary n 2 RNil.
Proof. exact lt_gen_tree_is_binary. Qed.
Print Assumptions c12_local_test_gen_tree.
