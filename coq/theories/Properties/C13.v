(* C13 -- Identifiers are deterministic and distinguish what they identify.
   Only statements; every proof is [exact] of a lemma of Tree/IdsProofs.v.

   Every identifier of the model is  hash (pre-image of the object).  The hash
   functions H256 (SHA-256), U5 (uuid.NewSHA1 in the URL name space) and U3
   (uuid.NewMD5) are universally quantified functions -- nothing is assumed
   about them.  "Distinguish" therefore reads: equal identifiers imply equal
   objects OR an explicit collision  x <> y /\ H x = H y  of one of the hashes.
   Determinism is functionality of the model (it is a Gallina function) plus the
   purity theorems below (the id depends on nothing but the marshalled keys,
   their order and the shape), plus the repeated / fresh-process observations of
   the correspondence check. *)
From Coq Require Import List Arith Bool Ascii NArith.
Import ListNotations.
From Onet Require Import Base.C13Bytes Tree.Ids Tree.IdsCheck Tree.IdsProofs Tree.IdsCase Corr.C13Proofs.

(* ---- tokens: any difference in any field ---- *)
Theorem c13_token_distinct : forall (U5 : bytes -> bytes) t1 t2,
  token_wf t1 -> token_wf t2 ->
  token_id U5 t1 = token_id U5 t2 ->
  t1 = t2 \/ Collision U5 (token_url t1) (token_url t2).
Proof. exact token_distinct. Qed.
Print Assumptions c13_token_distinct.

Theorem c13_token_field_differs : forall (U5 : bytes -> bytes) t1 t2,
  token_wf t1 -> token_wf t2 ->
  (tk_roster t1 <> tk_roster t2 \/ tk_tree t1 <> tk_tree t2 \/ tk_proto t1 <> tk_proto t2 \/
   tk_service t1 <> tk_service t2 \/ tk_round t1 <> tk_round t2 \/ tk_node t1 <> tk_node t2) ->
  token_id U5 t1 <> token_id U5 t2 \/ Collision U5 (token_url t1) (token_url t2).
Proof. exact token_field_differs. Qed.
Print Assumptions c13_token_field_differs.

Example c13_token_hypotheses_satisfiable :
  exists t1 t2, token_wf t1 /\ token_wf t2 /\ tk_round t1 <> tk_round t2.
Proof. exact token_wf_satisfiable. Qed.
Print Assumptions c13_token_hypotheses_satisfiable.

(* ---- protocol names, service names, server identities, tree nodes ---- *)
Theorem c13_names_distinct_protocol : forall (U3 : bytes -> bytes) n1 n2,
  proto_id U3 n1 = proto_id U3 n2 -> n1 = n2 \/ Collision U3 (proto_url n1) (proto_url n2).
Proof. exact proto_distinct. Qed.
Print Assumptions c13_names_distinct_protocol.

Theorem c13_names_distinct_service : forall (U5 : bytes -> bytes) n1 n2,
  service_id U5 n1 = service_id U5 n2 -> n1 = n2 \/ Collision U5 (service_pre n1) (service_pre n2).
Proof. exact service_distinct. Qed.
Print Assumptions c13_names_distinct_service.

Theorem c13_names_distinct_server : forall (U5 : bytes -> bytes) k1 k2,
  server_id U5 (Some k1) = server_id U5 (Some k2) ->
  kstr k1 = kstr k2 \/ Collision U5 (server_url k1) (server_url k2).
Proof. exact server_distinct. Qed.
Print Assumptions c13_names_distinct_server.

Theorem c13_names_distinct_server_ed25519 : forall (U5 : bytes -> bytes) k1 k2,
  kstr k1 = ed25519_str (kbin k1) -> kstr k2 = ed25519_str (kbin k2) ->
  server_id U5 (Some k1) = server_id U5 (Some k2) ->
  kbin k1 = kbin k2 \/ Collision U5 (server_url k1) (server_url k2).
Proof. exact server_distinct_ed25519. Qed.
Print Assumptions c13_names_distinct_server_ed25519.

Theorem c13_names_distinct_node : forall (U5 : bytes -> bytes) k1 k2,
  node_id U5 k1 = node_id U5 k2 -> kstr k1 = kstr k2 \/ Collision U5 (node_pre k1) (node_pre k2).
Proof. exact node_distinct. Qed.
Print Assumptions c13_names_distinct_node.

(* ---- rosters ---- *)
(* same ordered list of marshalled keys => same id, whatever the hashes *)
Theorem c13_roster_deterministic : forall (H256 U5 : bytes -> bytes) r1 r2,
  map kbin (roster_keys r1) = map kbin (roster_keys r2) ->
  roster_id H256 U5 r1 = roster_id H256 U5 r2.
Proof. exact roster_id_pure. Qed.
Print Assumptions c13_roster_deterministic.

(* equal ids => equal flat key sequences (keys of one marshalled length L > 0) *)
Theorem c13_roster_flat_injective : forall (H256 U5 : bytes -> bytes) (L : nat) r1 r2,
  0 < L -> keys_len L (roster_keys r1) -> keys_len L (roster_keys r2) ->
  roster_id H256 U5 r1 = roster_id H256 U5 r2 ->
  map kbin (roster_keys r1) = map kbin (roster_keys r2) \/
  Collision H256 (roster_pre r1) (roster_pre r2) \/
  Collision U5 (roster_uuid_pre H256 r1) (roster_uuid_pre H256 r2).
Proof. exact roster_flat_injective. Qed.
Print Assumptions c13_roster_flat_injective.

(* the complement of F16: with the same number of service keys per member the
   roster itself (members, service keys, order) is determined *)
Theorem c13_roster_injective_same_profile : forall (H256 U5 : bytes -> bytes) (L : nat) r1 r2,
  0 < L -> keys_len L (roster_keys r1) -> keys_len L (roster_keys r2) ->
  map (fun m => length (m_srv m)) r1 = map (fun m => length (m_srv m)) r2 ->
  roster_id H256 U5 r1 = roster_id H256 U5 r2 ->
  roster_bins r1 = roster_bins r2 \/
  Collision H256 (roster_pre r1) (roster_pre r2) \/
  Collision U5 (roster_uuid_pre H256 r1) (roster_uuid_pre H256 r2).
Proof. exact roster_injective_same_profile. Qed.
Print Assumptions c13_roster_injective_same_profile.

(* two different rosters satisfy the hypotheses *)
Example c13_roster_hypotheses_satisfiable :
  0 < 32 /\ keys_len 32 (roster_keys sat_r1) /\ keys_len 32 (roster_keys sat_r2) /\
  map (fun m => length (m_srv m)) sat_r1 = map (fun m => length (m_srv m)) sat_r2 /\
  roster_bins sat_r1 <> roster_bins sat_r2.
Proof. exact roster_hypotheses_satisfiable. Qed.
Print Assumptions c13_roster_hypotheses_satisfiable.

(* F16: [A with service key B] and [A, B] -- pairwise distinct 32-byte keys,
   different rosters, the same id for EVERY choice of hash functions *)
Theorem c13_roster_structure_refuted :
  exists r1 r2,
    keys_len 32 (roster_keys r1) /\ keys_len 32 (roster_keys r2) /\
    NoDup (map kbin (roster_keys r1)) /\
    roster_bins r1 <> roster_bins r2 /\
    forall H256 U5, roster_id H256 U5 r1 = roster_id H256 U5 r2.
Proof. exact roster_structure_refuted. Qed.
Print Assumptions c13_roster_structure_refuted.

(* ---- trees ---- *)
(* same roster id, same shape, same placement => same id *)
Theorem c13_tree_deterministic : forall f (H256 U5 : bytes -> bytes) rid t1 t2,
  tree_bins t1 = tree_bins t2 -> tree_id f H256 U5 rid t1 = tree_id f H256 U5 rid t2.
Proof. exact tree_id_pure. Qed.
Print Assumptions c13_tree_deterministic.

(* with the proposed fix F15 (child count hashed): equal ids => same roster id,
   same shape and same placement.  [tree_ok L]: all keys marshal to L bytes and
   every node has fewer than 2^32 children. *)
Theorem c13_tree_distinct : forall (H256 U5 : bytes -> bytes) L rid1 rid2 t1 t2,
  tree_ok L t1 -> tree_ok L t2 -> length rid1 = 16 -> length rid2 = 16 ->
  tree_id true H256 U5 rid1 t1 = tree_id true H256 U5 rid2 t2 ->
  (rid1 = rid2 /\ tree_bins t1 = tree_bins t2) \/
  Collision H256 (tree_stream true t1) (tree_stream true t2) \/
  Collision U5 (tree_url true H256 rid1 t1) (tree_url true H256 rid2 t2).
Proof. exact tree_distinct_fixed. Qed.
Print Assumptions c13_tree_distinct.

(* the pinned code (and the fixed one), complement of F15: trees of the SAME
   shape are separated by the placement of members, trees over different roster
   ids are always separated *)
Theorem c13_tree_distinct_same_shape : forall f (H256 U5 : bytes -> bytes) L rid1 rid2 t1 t2,
  tree_keylen L t1 -> tree_keylen L t2 -> tree_shape t1 = tree_shape t2 ->
  length rid1 = 16 -> length rid2 = 16 ->
  tree_id f H256 U5 rid1 t1 = tree_id f H256 U5 rid2 t2 ->
  (rid1 = rid2 /\ tree_bins t1 = tree_bins t2) \/
  Collision H256 (tree_stream f t1) (tree_stream f t2) \/
  Collision U5 (tree_url f H256 rid1 t1) (tree_url f H256 rid2 t2).
Proof. exact tree_distinct_same_shape. Qed.
Print Assumptions c13_tree_distinct_same_shape.

Theorem c13_tree_distinct_rosters : forall f (H256 U5 : bytes -> bytes) rid1 rid2 t1 t2,
  length rid1 = 16 -> length rid2 = 16 -> rid1 <> rid2 ->
  tree_id f H256 U5 rid1 t1 <> tree_id f H256 U5 rid2 t2 \/
  Collision U5 (tree_url f H256 rid1 t1) (tree_url f H256 rid2 t2).
Proof. exact tree_distinct_rosters. Qed.
Print Assumptions c13_tree_distinct_rosters.

(* F15 in general: the pinned TreeID is a function of the pre-order sequence of
   (key, leaf?) alone ... *)
Theorem c13_tree_profile_collision : forall (H256 U5 : bytes -> bytes) rid t1 t2,
  tree_profile t1 = tree_profile t2 ->
  tree_id false H256 U5 rid t1 = tree_id false H256 U5 rid t2.
Proof. exact tree_profile_collision. Qed.
Print Assumptions c13_tree_profile_collision.

(* ... hence r(a(b,c)) and r(a(b),c): four distinct 32-byte keys, the same
   members in the same pre-order, different shapes, and the same TreeID over any
   roster for EVERY choice of hash functions *)
Theorem c13_tree_collision_refuted :
  exists t1 t2,
    tree_ok 32 t1 /\ tree_ok 32 t2 /\ NoDup (map kbin (tree_keys t1)) /\
    tree_keys t1 = tree_keys t2 /\
    tree_shape t1 <> tree_shape t2 /\ tree_bins t1 <> tree_bins t2 /\
    forall H256 U5 rid, tree_id false H256 U5 rid t1 = tree_id false H256 U5 rid t2.
Proof. exact tree_collision_refuted. Qed.
Print Assumptions c13_tree_collision_refuted.

Example c13_tree_fix_separates_witness :
  tree_stream true f15_t1 <> tree_stream true f15_t2.
Proof. exact tree_fix_separates_witness. Qed.
Print Assumptions c13_tree_fix_separates_witness.

(* ---- the checker run on the observations ---- *)
(* no clause reported for a group <=> on the observed group "same object" and
   "same id" coincide for every pair (R = the sameness decided by eqX) *)
Theorem c13_checker_sound_complete :
  forall (X : Type) (eqX : X -> X -> bool) (cls : X -> X -> nat) (R : X -> X -> Prop),
  (forall x y, eqX x y = true <-> R x y) ->
  forall l : list (X * bytes),
    group_clauses X eqX cls l = [] <->
    ForallOrdPairs (fun a b => R (fst a) (fst b) <-> snd a = snd b) l.
Proof. exact group_clauses_nil_iff. Qed.
Print Assumptions c13_checker_sound_complete.

Theorem c13_checker_sameness :
  (forall a b, roster_eqb a b = true <-> roster_bins a = roster_bins b) /\
  (forall a b, ridtree_eqb a b = true <-> (fst a = fst b /\ tree_bins (snd a) = tree_bins (snd b))) /\
  (forall a b, token_eqb a b = true <-> a = b) /\
  (forall a b, bytes_eqb a b = true <-> a = b) /\
  (forall a b, key_eqb a b = true <-> kbin a = kbin b) /\
  (forall a b, tree_cls a b = 5 <-> (fst a = fst b /\ tree_profile (snd a) = tree_profile (snd b))) /\
  (forall a b, roster_cls a b = 4 <-> roster_pre a = roster_pre b).
Proof. exact checker_sameness. Qed.
Print Assumptions c13_checker_sameness.

(* pre-images of different kinds (token / tree / server / protocol) never coincide *)
Theorem c13_kinds_separated : forall f (H256 : bytes -> bytes) t rid tr k n,
  token_url t <> tree_url f H256 rid tr /\
  token_url t <> server_url k /\
  token_url t <> proto_url n /\
  tree_url f H256 rid tr <> server_url k /\
  tree_url f H256 rid tr <> proto_url n /\
  server_url k <> proto_url n.
Proof. exact kinds_separated. Qed.
Print Assumptions c13_kinds_separated.

(* ---- what "no violation" of the correspondence checker means, per kind ----
   (for every literal type L and decoder unlit; Corr/C13.v instantiates them) *)
Theorem c13_check_rosters : forall (L : Type) (unlit : L -> bytes) (kt : @ktab L) items,
  gcheck unlit (CRosters kt items) = [] <->
  exists ks es,
    dec_ktab unlit kt = Some ks /\ opt_all (map (entry_roster unlit ks) items) = Some es /\
    flat_map fst es = [] /\
    ForallOrdPairs (fun a b => roster_bins (fst a) = roster_bins (fst b) <-> snd a = snd b)
                   (flat_map snd es).
Proof. exact (@check_rosters_nil). Qed.
Print Assumptions c13_check_rosters.

Theorem c13_check_trees : forall (L : Type) (unlit : L -> bytes) (kt : @ktab L) items,
  gcheck unlit (CTrees kt items) = [] <->
  exists ks es,
    dec_ktab unlit kt = Some ks /\ opt_all (map (entry_tree unlit ks) items) = Some es /\
    flat_map fst es = [] /\
    ForallOrdPairs (fun a b => (fst (fst a) = fst (fst b) /\ tree_bins (snd (fst a)) = tree_bins (snd (fst b)))
                               <-> snd a = snd b)
                   (flat_map snd es).
Proof. exact (@check_trees_nil). Qed.
Print Assumptions c13_check_trees.

Theorem c13_check_tokens : forall (L : Type) (unlit : L -> bytes) (items : list (@itoken L * @obs L)),
  gcheck unlit (CTokens items) = [] <->
  exists es,
    opt_all (map (entry_token unlit) items) = Some es /\ flat_map fst es = [] /\
    ForallOrdPairs (fun a b => fst a = fst b <-> snd a = snd b) (flat_map snd es).
Proof. exact (@check_tokens_nil). Qed.
Print Assumptions c13_check_tokens.

Theorem c13_check_names : forall (L : Type) (unlit : L -> bytes) (items : list (L * @obs L)),
  (gcheck unlit (CProtos items) = [] <->
   exists es,
     opt_all (map (entry_name unlit) items) = Some es /\ flat_map fst es = [] /\
     ForallOrdPairs (fun a b => fst a = fst b <-> snd a = snd b) (flat_map snd es)) /\
  gcheck unlit (CServices items) = gcheck unlit (CProtos items).
Proof. exact (@check_names_nil). Qed.
Print Assumptions c13_check_names.

Theorem c13_check_keys : forall (L : Type) (unlit : L -> bytes) kind (kt : @ktab L) items,
  gcheck unlit (CKeys kind kt items) = [] <->
  exists ks es,
    dec_ktab unlit kt = Some ks /\ opt_all (map (entry_key unlit ks) items) = Some es /\
    flat_map fst es = [] /\
    ForallOrdPairs (fun a b => kbin (fst a) = kbin (fst b) <-> snd a = snd b) (flat_map snd es).
Proof. exact (@check_keys_nil). Qed.
Print Assumptions c13_check_keys.

(* a legal object raises no clause of its own iff its first result is a 16-byte
   id and every recomputation (same call, second route, fresh process) agrees *)
Theorem c13_check_legal_object : forall (X : Type) (x : X) (o : dobs) (with_alt : bool),
  fst (legal_entry x o with_alt) = [] <->
  exists b, first_res o = Some (RId b) /\ length b = 16 /\ stable o with_alt = true.
Proof. exact (@legal_entry_nil). Qed.
Print Assumptions c13_check_legal_object.

(* ---- the roster and the slice it was built from (NewRoster copies) ----
   edits of the caller's slice after NewRoster leave the roster value alone: same
   member list, same ID field, and that id is the one GetID() derives from the list *)
Theorem c13_roster_value_after_edits : forall (H256 U5 : bytes -> bytes) g v edits,
  new_roster_val H256 U5 g = Some v ->
  let v' := snd (fold_left edit_world edits (g, v)) in
  rv_list v' = g /\ rv_id v' = rv_id v /\ roster_get_id H256 U5 (rv_list v') = RId (rv_id v').
Proof. exact roster_value_after_edits. Qed.
Print Assumptions c13_roster_value_after_edits.

Example c13_roster_value_example :
  exists g e, apply_edit g e <> g /\
    forall H256 U5, exists v, new_roster_val H256 U5 g = Some v.
Proof. exact roster_value_example. Qed.
Print Assumptions c13_roster_value_example.

Theorem c13_check_alias : forall (L : Type) (unlit : L -> bytes) (kt : @ktab L) items,
  gcheck unlit (CAlias kt items) = [] <->
  exists ks, dec_ktab unlit kt = Some ks /\ forall it, In it items -> alias_item_ok unlit ks it = true.
Proof. exact (@check_alias_nil). Qed.
Print Assumptions c13_check_alias.
