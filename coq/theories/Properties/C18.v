(* C18 -- Configuration files round-trip and always yield the same identities.
   Only statements; every proof is [exact] of a lemma of Conf/ConfigProofs.v.

   The model (Conf/Config.v) takes the entries of a Services table in the ORDER IN
   WHICH GO VISITS THE MAP; "independent of map iteration" is therefore: for all
   permutations of the entries (map keys are unique: NoDup of the names).  The
   boolean argument of the readers selects the fix F20, which is in /repo (commit
   52bede4; Corr.C18.code_fixed_F20 = true) (sort the service
   identities by name).  TOML lexing / printing and kyber's hex key codecs are not
   modelled: a file is what the decoder delivers, a key text comes with its parsed
   key (partial; exercised by the correspondence check). *)
From Coq Require Import List Arith Bool Ascii NArith ZArith Permutation.
Import ListNotations.
From Onet Require Import Base.C13Bytes Tree.Ids Tree.IdsCheck Tree.IdsProofs Conf.Config Conf.ConfigCase Conf.ConfigProofs.

(* ---- independence of the iteration order (with the fix F20) ---- *)
Theorem c18_order_independent_services : forall r o o',
  NoDup (map sc_name o) -> Permutation o o' ->
  parse_services true r o = parse_services true r o'.
Proof. exact parse_services_order_independent. Qed.
Print Assumptions c18_order_independent_services.

Theorem c18_order_independent_identity : forall r s s',
  same_server_up_to_order s s' -> to_server_identity true r s = to_server_identity true r s'.
Proof. exact to_server_identity_order_independent. Qed.
Print Assumptions c18_order_independent_identity.

(* group file: same identities AND same roster id (C13's NewRoster), for every hash *)
Theorem c18_order_independent : forall (H256 U5 : bytes -> bytes) r l l',
  Forall2 same_server_up_to_order l l' ->
  read_group true H256 U5 r l = read_group true H256 U5 r l'.
Proof. exact read_group_order_independent. Qed.
Print Assumptions c18_order_independent.

Theorem c18_order_independent_private : forall r c c',
  same_cothority_up_to_order c c' -> get_server_identity true r c = get_server_identity true r c'.
Proof. exact get_server_identity_order_independent. Qed.
Print Assumptions c18_order_independent_private.

(* whether a file panics (suite mismatch) never depends on the order, fixed or not *)
Theorem c18_panic_order_independent : forall f r o o',
  Permutation o o' -> (parse_services f r o = None <-> parse_services f r o' = None).
Proof. exact parse_services_panic_order_independent. Qed.
Print Assumptions c18_panic_order_independent.

Example c18_order_hypotheses_satisfiable :
  same_server_up_to_order (f20_server [f20_sa; f20_sb]) (f20_server [f20_sb; f20_sa]).
Proof. exact order_hypotheses_satisfiable. Qed.
Print Assumptions c18_order_hypotheses_satisfiable.

(* the sort the fix relies on: invariant under permutation, idempotent, a permutation *)
Theorem c18_sort_canonical : forall l1 l2,
  Permutation l1 l2 -> NoDup (map sid_name l1) -> sort_sids l1 = sort_sids l2.
Proof. exact sort_perm_eq. Qed.
Print Assumptions c18_sort_canonical.

(* ---- F20: the pinned code (no sort) shows the order ----
   one server, two registered services, two visiting orders: different identities,
   and for EVERY hash function two roster ids that can only be equal by a collision
   of SHA-256 / uuid-SHA1 on exactly the two rosters' pre-images (as in C13) *)
Theorem c18_map_order_refuted :
  exists r s s',
    same_server_up_to_order s s' /\
    to_server_identity false r s <> to_server_identity false r s' /\
    forall H256 U5, exists ids ids' a a',
      read_group false H256 U5 r [s] = GOk ids (RId a) /\
      read_group false H256 U5 r [s'] = GOk ids' (RId a') /\
      ids <> ids' /\
      (a = a' ->
       Collision H256 (roster_pre (roster_of ids)) (roster_pre (roster_of ids')) \/
       Collision U5 (roster_uuid_pre H256 (roster_of ids)) (roster_uuid_pre H256 (roster_of ids'))).
Proof. exact map_order_refuted. Qed.
Print Assumptions c18_map_order_refuted.

(* ---- write, then read (with the fix) ----
   canonical = what the group reader returns: no private keys, sorted unique service
   names, every service registered with its suite; description not empty *)
Theorem c18_roundtrip : forall (H256 U5 : bytes -> bytes) r suite ids,
  Forall (identity_canonical r) ids ->
  exists ws, write_group r suite true ids = Some ws /\
    forall ws', Forall2 same_server_up_to_order ws ws' ->
      read_group true H256 U5 r ws' = GOk ids (new_roster H256 U5 (map gmember_of ids)).
Proof. exact group_roundtrip. Qed.
Print Assumptions c18_roundtrip.

(* ---- the private configuration: CothorityConfig.Save, then LoadCothority ----
   whatever order the next reader visits the written Services map in, it returns the
   identity the first reader returned: public AND private key, address, description,
   URL, every per-service key pair -- and hence the same roster id *)
Theorem c18_roundtrip_private : forall r c c',
  NoDup (map sc_name (co_srv c)) ->
  same_cothority_up_to_order (write_private c) c' ->
  get_server_identity true r c' = get_server_identity true r c.
Proof. exact private_roundtrip. Qed.
Print Assumptions c18_roundtrip_private.

Theorem c18_roundtrip_private_roster : forall (H256 U5 : bytes -> bytes) r c c',
  NoDup (map sc_name (co_srv c)) ->
  same_cothority_up_to_order (write_private c) c' ->
  read_private true H256 U5 r c' = read_private true H256 U5 r c.
Proof. exact private_roundtrip_roster. Qed.
Print Assumptions c18_roundtrip_private_roster.

(* hypotheses satisfiable, and the identity really carries the private keys *)
Example c18_roundtrip_private_example :
  NoDup (map sc_name (co_srv (priv_conf [priv_sa; priv_sb]))) /\
  same_cothority_up_to_order (write_private (priv_conf [priv_sa; priv_sb])) (priv_conf [priv_sb; priv_sa]) /\
  exists i, get_server_identity true f20_reg (priv_conf [priv_sb; priv_sa]) = IOk i /\
            i_priv i = Some secret_s /\
            map sid_priv (i_srv i) = [Some secret_a; Some secret_b].
Proof. exact private_roundtrip_example. Qed.
Print Assumptions c18_roundtrip_private_example.

(* the hypothesis of c18_roundtrip holds for whatever the reader returned *)
Theorem c18_reader_output_canonical : forall r s i,
  NoDup (map sc_name (st_srv s)) -> Forall (fun c => sc_priv c = None) (st_srv s) -> st_desc s <> [] ->
  to_server_identity true r s = IOk i -> identity_canonical r i.
Proof. exact reader_output_canonical. Qed.
Print Assumptions c18_reader_output_canonical.

(* F48: an empty (or absent) description is replaced by the writer's default text *)
Theorem c18_empty_description_roundtrip_refuted :
  exists r suite i st, write_server r suite true i = Some st /\
    exists i', to_server_identity true r st = IOk i' /\ i' <> i /\ i_desc i = [] /\ i_desc i' = default_description.
Proof. exact empty_description_roundtrip_refuted. Qed.
Print Assumptions c18_empty_description_roundtrip_refuted.

(* ---- the checker run on the observations ----
   no clause <=> some parse was observed, all parse results are equal, everything
   re-read after writing is among them, a well-formed file was accepted (with a
   roster id), and an accepted well-formed file was written back and re-read *)
Theorem c18_checker_sound_complete : forall w ps rs,
  check_obs w ps rs = [] <->
  ps <> [] /\ all_equal ps = true /\
  forallb (fun r => existsb (gres_eqb r) ps) rs = true /\
  (w = true -> forallb is_ok ps = true) /\
  (w = true -> existsb has_ids ps = true -> nonempty rs = true).
Proof. exact check_obs_nil. Qed.
Print Assumptions c18_checker_sound_complete.

(* ---- roster files (Roster.Toml / WriteTomlConfig, ReadTomlConfig / RosterToml.Roster) ----
   the ID field that was written comes back as it is -- whether or not it is the id
   NewRoster would derive from the list -- with public key and address of every member *)
Theorem c18_roster_file_roundtrip : forall id ids,
  roster_file_roundtrip id ids = GOk (map strip_identity ids) (RId id).
Proof. exact roster_file_roundtrip_spec. Qed.
Print Assumptions c18_roster_file_roundtrip.

Theorem c18_roster_file_roundtrip_bare : forall id ids,
  Forall identity_bare ids -> roster_file_roundtrip id ids = GOk ids (RId id).
Proof. exact roster_file_roundtrip_bare. Qed.
Print Assumptions c18_roster_file_roundtrip_bare.

(* Observation, not a finding: a format limitation of the neighbouring roster-file path,
   outside the statement of C18 (private configuration and group definition).  Per-service
   keys do not come back from a roster file, and the id that was written is then not the
   id of the list that was read, for every hash function, unless SHA-256 / uuid-SHA1
   collide on exactly these two pre-images.  The checker demands of a roster file only
   what the format holds: ID field, public keys, addresses. *)
Theorem c18_roster_file_services_refuted :
  exists ids, forall H256 U5, exists a got,
    new_roster H256 U5 (map gmember_of ids) = RId a /\
    roster_file_roundtrip a ids = GOk got (RId a) /\
    got <> ids /\
    exists a', new_roster H256 U5 (map gmember_of got) = RId a' /\
      (a' = a ->
       Collision H256 (roster_pre (roster_of got)) (roster_pre (roster_of ids)) \/
       Collision U5 (roster_uuid_pre H256 (roster_of got)) (roster_uuid_pre H256 (roster_of ids))).
Proof. exact roster_file_services_refuted. Qed.
Print Assumptions c18_roster_file_services_refuted.

Theorem c18_roster_file_checker : forall stored ids rs,
  check_roster_file stored ids rs = [] <->
  rs <> [] /\ all_equal_g rs = true /\
  forall r, In r rs -> exists got ro, r = GOk got ro /\ res_eqb ro (RId stored) = true /\
                                     list_eqb identity_eqb (map strip_identity ids) got = true.
Proof. exact check_roster_file_nil. Qed.
Print Assumptions c18_roster_file_checker.

(* ---- the order in which the services were registered (the order of the factory's list,
   a property of the running binary, not of the file) shows in no result: two processes
   that registered the same services in another order read every group file and every
   private configuration to the same identities and the same roster id ---- *)
Theorem c18_registry_order_independent : forall f (H256 U5 : bytes -> bytes) r r',
  Permutation r r' -> NoDup (map fst r) ->
  (forall l, read_group f H256 U5 r l = read_group f H256 U5 r' l) /\
  (forall c, get_server_identity f r c = get_server_identity f r' c).
Proof. exact registry_order_independent. Qed.
Print Assumptions c18_registry_order_independent.

Example c18_registry_order_example :
  Permutation f20_reg (rev f20_reg) /\ NoDup (map fst f20_reg) /\ f20_reg <> rev f20_reg.
Proof. exact registry_order_example. Qed.
Print Assumptions c18_registry_order_example.

(* ---- the URL derived when a TLS key is configured and no URL is given is built from
   the host AS WRITTEN in the file's address (and port + 1); the model has no resolver,
   so no result depends on the name service of the reading process ---- *)
Theorem c18_tls_url_from_written_host : forall f r c k sk p l,
  co_suite_known c = true -> co_pub c = Some k -> co_priv c = Some sk ->
  parse_services f r (co_srv c) = Some l ->
  co_tlskey c <> [] -> co_url c = [] -> co_port c = Some p ->
  exists i, get_server_identity f r c = IOk i /\
            i_url i = tls_url_prefix ++ co_host c ++ colon ++ dec_of_Z (p + 1).
Proof. exact tls_url_from_written_host. Qed.
Print Assumptions c18_tls_url_from_written_host.
