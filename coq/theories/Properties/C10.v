(* C10 -- Closing a server is clean and safe under concurrent traffic.
   Statements only; proofs are in Net/RouterCloseProofs.v, Net/CloseSeqProofs.v,
   Net/CloseConcProofs.v, Net/SendCloseProofs.v, Net/StartCloseProofs.v, Net/C10CheckProofs.v.

   WHICH CODE A STATEMENT IS ABOUT.  All four repairs found by this part have landed in the
   repository (F11, F41, F42, F43; Corr/C10.v code_fixed_* = true), so THE CODE AS IT IS is the
   variant with every switch true: [mkFx true true] for the router, [fx_ts = fx_ov = true] for
   the close sequence, [cta = false] (CloseConc), [ctm = false] (SendClose), [bo = false]
   (StartClose).  "Pinned code" / "earlier code" in the comments below means the code BEFORE
   the repair, i.e. the same model with that one switch false; those statements are kept as
   refutations of the earlier variant (regression witnesses), they say nothing about the
   present code.  A statement quantified over [fx] or [f4] holds for both variants.

   [run fx init acts] ranges over every interleaving of any number of Stop calls, Send
   calls (first contact included), inbound connections, peer closes, deliveries,
   time-outs and handler steps of network/router.go (Net/RouterClose.v); fx : fixes selects
   the repairs: f11 fx (a connection whose set-up fails is closed by the set-up thread)
   and f43 fx (accepted connections are tracked from the start of the Listen callback until
   it returns, Stop closes them and waits for the callbacks).
   [crun fx_ts fx_ov (cinit insts) acts] ranges over every interleaving of Server.Close
   (after Router.Stop: websocket stop, Overlay.Close, treeStorage.Close, database close)
   with the tree store's removal timers, instances that finish, messages that refresh a
   tree and protocol starts (Net/CloseSeq.v); fx_ts / fx_ov are the repairs of
   F41 (store lock released before wg.Wait) and F42 (closed overlay refuses instances).

   The five transition systems are separate: RouterClose (embedded in CloseConc for
   Router.Stop), CloseSeq, SendClose, StartClose.  No theorem is about their product; each
   refines one step that the others take as opaque (see conf/C10.json, assumptions).

   LIVENESS is stated in two halves and needs a fair scheduler to become "eventually":
   (a) in every reachable state some enabled step of the thread itself lowers its measure,
   (b) no step of any other thread raises that measure.  "A handler has exited" means it is
   past wg.Done(); the return of the goroutine after that is observed, not modelled. *)
From Coq Require Import List Arith Bool.
Import ListNotations.
From Onet Require Import Net.RouterClose Net.RouterCloseProofs Net.CloseSeq Net.CloseSeqProofs.
From Onet Require Import Corr.C10 Net.C10CheckProofs Net.CloseConc Net.CloseConcProofs.
From Onet Require Import Net.SendClose Net.SendCloseProofs Net.StartClose Net.StartCloseProofs.
From Onet Require Import Net.LocalClose Net.LocalCloseProofs.

(* J1-J4 and their companions hold in every reachable state, for both variants *)
Theorem c10_invariants : forall fx acts s, run fx init acts = Some s -> Inv fx s.
Proof. exact reachable_inv. Qed.
Print Assumptions c10_invariants.

(* repaired code: when every call has returned and every goroutine has exited, every
   connection ever dialled or accepted is closed and the wait group is zero *)
Theorem c10_all_closed : forall f4 acts s,
  run (mkFx true f4) init acts = Some s -> quiescent s = true ->
  (forall c k, nth_error (conns s) c = Some k -> lopen k = false) /\ wg s = 0.
Proof. exact all_closed. Qed.
Print Assumptions c10_all_closed.

(* both variants (for the earlier code: the complement of F11): the only connections left open are those a
   failing set-up thread dropped (registration refused / identity not sent) *)
Theorem c10_all_closed_except_abandoned : forall fx acts s,
  run fx init acts = Some s -> quiescent s = true ->
  (forall c k, nth_error (conns s) c = Some k -> lopen k = true ->
               In c (abandoned s) /\ setup k = SetupErr) /\ wg s = 0.
Proof. exact all_closed_except_abandoned. Qed.
Print Assumptions c10_all_closed_except_abandoned.

(* F11, earlier code (f11 = false): it abandons an open connection - Stop between host.Connect and
   registerConnection (outgoing), between receiveServerIdentity and registerConnection
   (incoming), and a Send issued after Stop returned *)
Theorem c10_abandoned_conn_refuted : leaks witness_out /\ leaks witness_in /\ leaks witness_after.
Proof. exact abandoned_conn_refuted. Qed.
Print Assumptions c10_abandoned_conn_refuted.

Theorem c10_witnesses_closed_when_fixed : forall acts, In acts [witness_out; witness_in; witness_after] ->
  exists s, run (mkFx true false) init acts = Some s /\ quiescent s = true /\ open_conns s = [].
Proof. exact witnesses_closed_when_fixed. Qed.
Print Assumptions c10_witnesses_closed_when_fixed.

(* at the instant Stop returns: closed flag set, listener stopped, wait group zero, every
   registered connection (in the table or already removed from it) closed, every
   handleConn goroutine past its wg.Done() *)
Theorem c10_registered_closed_at_return : forall fx acts s,
  run fx init acts = Some s -> stop_returned s = true ->
  closed s = true /\ listening s = false /\ wg s = 0 /\
  (forall c k, In c (table s) -> nth_error (conns s) c = Some k -> lopen k = false) /\
  (forall c k, nth_error (conns s) c = Some k -> setup k = SetupOk -> lopen k = false) /\
  (forall c k, nth_error (conns s) c = Some k -> live (hd k) = false).
Proof. exact registered_closed_at_return. Qed.
Print Assumptions c10_registered_closed_at_return.

(* F43: without the negotiating set an accepted connection whose peer has not identified
   itself is still open, its callback still blocked, when Stop returns (even with F11 repaired) *)
Theorem c10_silent_inbound_refuted :
  exists s k, run (mkFx true false) init witness_silent = Some s /\ stop_returned s = true /\
              nth_error (conns s) 0 = Some k /\ lopen k = true /\ setup k = IRecvId.
Proof. exact silent_inbound_refuted. Qed.
Print Assumptions c10_silent_inbound_refuted.

(* with it that Stop cannot return before the callback has ended *)
Theorem c10_silent_inbound_fixed :
  run (mkFx true true) init witness_silent = None /\
  exists s, run (mkFx true true) init
              [AIncoming 1; ABegin 0; ACallStop; AHostStop 0; ACloseAll 0; ARecvIdFail 0; AEnd 0; AWait 0] = Some s /\
            stop_returned s = true /\ quiescent s = true /\ open_conns s = [].
Proof. exact silent_inbound_fixed. Qed.
Print Assumptions c10_silent_inbound_fixed.

(* both repairs, NO hypothesis on pending set-ups: at the instant Stop returns no handler
   and no Listen callback past beginNegotiation is alive, and a connection can only be
   open if its set-up thread has not yet reached its first test of the closed flag
   (a dialling Send before registerConnection, a callback before beginNegotiation) ... *)
Theorem c10_closed_at_return_fixed : forall acts s,
  run (mkFx true true) init acts = Some s -> stop_returned s = true ->
  (forall c k, nth_error (conns s) c = Some k -> live (hd k) = false /\ neg k = false) /\
  (forall c k, nth_error (conns s) c = Some k -> lopen k = true ->
               setup k = OSendId \/ setup k = ORegister \/ setup k = IAccept).
Proof. exact closed_at_return_fixed. Qed.
Print Assumptions c10_closed_at_return_fixed.

(* ... and that test refuses and closes it *)
Theorem c10_refused_after_close : forall s c k,
  closed s = true -> nth_error (conns s) c = Some k ->
  (setup k = IAccept ->
   exists s' k', step (mkFx true true) s (ABegin c) = Some s' /\ nth_error (conns s') c = Some k' /\
                 lopen k' = false /\ setup k' = SetupErr /\ wg s' = wg s) /\
  (setup k = ORegister \/ setup k = IRegister ->
   exists s' k', step (mkFx true true) s (ARegister c) = Some s' /\ nth_error (conns s') c = Some k' /\
                 lopen k' = false /\ setup k' = SetupErr /\ wg s' = wg s).
Proof. exact refused_after_close. Qed.
Print Assumptions c10_refused_after_close.

(* a connection accepted before host.Stop returned whose callback starts after the closed
   flag is set is refused and closed *)
Example c10_arrival_during_stop :
  exists s, run (mkFx true true) init
              [AIncoming 1; ACallStop; AHostStop 0; ACloseAll 0; AWait 0; ABegin 0] = Some s /\
            stop_returned s = true /\ quiescent s = true /\ open_conns s = [] /\ wg s = 0.
Proof. exact arrival_during_stop. Qed.
Print Assumptions c10_arrival_during_stop.

(* no Dispatch action is enabled once a Stop has returned, and no continuation of the run
   ever adds to the dispatch log *)
Theorem c10_no_dispatch_enabled_after : forall fx acts s c,
  run fx init acts = Some s -> stop_returned s = true -> step fx s (AHDispatch c) = None.
Proof. exact no_dispatch_enabled_after. Qed.
Print Assumptions c10_no_dispatch_enabled_after.

Theorem c10_no_dispatch_after : forall fx acts s,
  run fx init acts = Some s -> stop_returned s = true ->
  forall acts' s', run fx s acts' = Some s' -> dispatched s' = dispatched s /\ late s' = 0.
Proof. exact no_dispatch_after. Qed.
Print Assumptions c10_no_dispatch_after.

(* once the closed flag is set the number of running handlers never grows *)
Theorem c10_no_handler_starts_after_close : forall fx acts s a s',
  run fx init acts = Some s -> closed s = true -> step fx s a = Some s' ->
  count_busy (conns s') <= count_busy (conns s).
Proof. exact no_handler_starts_after_close. Qed.
Print Assumptions c10_no_handler_starts_after_close.

(* racing operations: nothing panics (negative WaitGroup counter is the only panic of this code) ... *)
Theorem c10_no_crash : forall fx acts s, run fx init acts = Some s -> crashed s = false.
Proof. exact no_crash. Qed.
Print Assumptions c10_no_crash.

(* ... liveness of a racing Send, in two halves that together give termination under a
   scheduler that is fair to the sending goroutine (neither half alone is inevitability):
   (i) possibility - in every reachable state a step of the Send itself (or of the connection
   set-up it is inside) is enabled and lowers a measure bounded by 30 ... *)
Theorem c10_racers_fail_or_finish : forall fx acts s t p,
  run fx init acts = Some s -> nth_error (senders s) t = Some p -> sender_done p = false ->
  exists a s' p', step fx s a = Some s' /\ nth_error (senders s') t = Some p' /\
                  nmeasure (conns s') p' < nmeasure (conns s) p.
Proof. exact sender_progress. Qed.
Print Assumptions c10_racers_fail_or_finish.

(* ... (ii) no interference - no step of anybody (Stop, other sends, handlers, the peer)
   ever raises that measure; a Send can only end with Ok or Err *)
Theorem c10_racers_measure_never_raised : forall fx s a s' t p,
  Inv fx s -> step fx s a = Some s' -> nth_error (senders s) t = Some p ->
  exists p', nth_error (senders s') t = Some p' /\ nmeasure (conns s') p' <= nmeasure (conns s) p.
Proof. exact sender_measure_noninc. Qed.
Print Assumptions c10_racers_measure_never_raised.

(* every connection set-up (inside connect() or the Listen callback) has an enabled own step
   that lowers its measure - EXCEPT a callback inside receiveServerIdentity on a connection
   open on both sides, which waits for the peer (or, on TCP only, the read time-out); Stop
   ends that wait by closing the connection (c10_closed_at_return_fixed) *)
Theorem c10_setup_never_blocked : forall fx s c k,
  nth_error (conns s) c = Some k -> setting_up (setup k) = true ->
  (setup k = IRecvId -> lopen k && popen k = false) ->
  exists a s' k', step fx s a = Some s' /\ nth_error (conns s') c = Some k' /\
                  sm (setup k') < sm (setup k) /\ senders s' = senders s.
Proof. exact setup_progress. Qed.
Print Assumptions c10_setup_never_blocked.

(* Stop does not hang, again in two halves: (i) from every reachable state in which a Stop
   waits in wg.Wait() there IS a continuation by steps of the handler goroutines and of the
   callbacks under negotiation alone (no message, peer action or time-out) after which the
   Stop returns ... *)
Theorem c10_stop_never_hangs : forall fx acts s t,
  run fx init acts = Some s -> nth_error (stops s) t = Some SWait ->
  exists hacts s' s'', Forall handler_action hacts /\ run fx s hacts = Some s' /\
                       step fx s' (AWait t) = Some s'' /\ nth_error (stops s'') t = Some SReturned /\
                       stop_returned s'' = true.
Proof. exact stop_never_hangs. Qed.
Print Assumptions c10_stop_never_hangs.

(* ... (ii) once the closed flag is set no step of anybody adds work for Stop to wait for:
   the measure that continuation brings to zero is never raised *)
Theorem c10_stop_work_never_grows : forall fx s a s',
  Inv fx s -> closed s = true -> step fx s a = Some s' -> sumf hmf (conns s') <= sumf hmf (conns s).
Proof. exact drain_measure_noninc. Qed.
Print Assumptions c10_stop_work_never_grows.

(* a further Stop after one has returned runs through and changes nothing *)
Theorem c10_idempotent : forall fx acts s,
  run fx init acts = Some s -> stop_returned s = true ->
  let t := length (stops s) in
  run fx s [ACallStop; AHostStop t; ACloseAll t; AWait t] = Some (set_stops s (stops s ++ [SReturned])).
Proof. exact stop_idempotent. Qed.
Print Assumptions c10_idempotent.

Example c10_reachable_example :
  exists s, run (mkFx true true) init example_run = Some s /\ stop_returned s = true /\ quiescent s = true /\
            dispatched s = [(0, 7)] /\ senders s = [NDone Err] /\ open_conns s = [].
Proof. exact example_reachable. Qed.
Print Assumptions c10_reachable_example.

(* ---- Server.Close after the router has stopped ----------------------------- *)

(* F41, earlier code (fx_ts = false): treeStorage.Close waits for the timer goroutines while holding the
   store's lock; a timer that has fired needs that lock: no action whatsoever is enabled *)
Theorem c10_close_hang_refuted :
  exists s, crun false false (cinit [0]) hang_witness = Some s /\
            cpc s = KTsWait /\ tcrashed s = false /\
            forall fx_ov a, cstep false fx_ov s a = None.
Proof. exact close_hang_refuted. Qed.
Print Assumptions c10_close_hang_refuted.

(* with the lock released before wg.Wait(), Close returns from every reachable state by
   steps of Close and of the timer goroutines alone *)
Theorem c10_close_returns : forall fx_ov insts acts s,
  crun true fx_ov (cinit insts) acts = Some s ->
  exists acts' s', Forall close_action acts' /\ crun true fx_ov s acts' = Some s' /\ cpc s' = KReturned.
Proof. exact close_returns. Qed.
Print Assumptions c10_close_returns.

Theorem c10_close_no_crash : forall fx_ts fx_ov insts acts s,
  crun fx_ts fx_ov (cinit insts) acts = Some s -> tcrashed s = false.
Proof. exact close_no_crash. Qed.
Print Assumptions c10_close_no_crash.

(* F42, earlier code (fx_ov = false): the overlay registers (and runs the dispatch goroutine of) an instance
   started after Overlay.Close; nothing stops it *)
Theorem c10_instance_after_close_refuted :
  exists s, crun false false (cinit []) [AKRouter; AKWebsocket; AKTsClose; AKTsWait; AKDb; ANewInstance 5] = Some s /\
            cpc s = KReturned /\ instances s = [5] /\ leaked s = 1.
Proof. exact instance_after_close_refuted. Qed.
Print Assumptions c10_instance_after_close_refuted.

Theorem c10_no_instance_after_close : forall fx_ts insts acts s,
  crun fx_ts true (cinit insts) acts = Some s ->
  leaked s = 0 /\ (cpc s = KReturned -> instances s = []).
Proof. exact no_instance_after_close. Qed.
Print Assumptions c10_no_instance_after_close.

Example c10_close_example :
  exists s, crun true true (cinit [0; 0; 1]) [AKRouter; AKWebsocket; AKDelete 0; AKDelete 0; AKDelete 0;
                                              AKTsClose; ATimerCancelled 0; ATimerCancelled 1; AKTsWait; AKDb;
                                              ANewInstance 3] = Some s /\
            cpc s = KReturned /\ instances s = [] /\ twg s = 0.
Proof. exact close_example. Qed.
Print Assumptions c10_close_example.

(* ---- the checker of the correspondence ------------------------------------- *)

(* the boolean checker evaluated on the implementation's observations says exactly what
   the property says *)
Theorem c10_checker_router_iff : forall o, check_router o = [] <-> router_prop o.
Proof. exact check_router_iff. Qed.
Print Assumptions c10_checker_router_iff.

Theorem c10_checker_server_iff : forall o, check_server o = [] <-> server_prop o.
Proof. exact check_server_iff. Qed.
Print Assumptions c10_checker_server_iff.

(* repaired model: in every interleaving, once a Stop has returned and everything has
   ended, the model's own observation passes the checker; the model of the earlier code (mkFx false false) fails it on the
   F11 witnesses, on clause 2 exactly *)
Theorem c10_model_passes_checker : forall f4 acts s,
  run (mkFx true f4) init acts = Some s -> stop_returned s = true -> quiescent s = true ->
  check_router (obs_of_state s) = [].
Proof. exact model_passes_checker. Qed.
Print Assumptions c10_model_passes_checker.

Theorem c10_pinned_fails_checker : forall acts, In acts [witness_out; witness_in; witness_after] ->
  exists s, run (mkFx false false) init acts = Some s /\ check_router (obs_of_state s) = [2].
Proof. exact pinned_fails_checker. Qed.
Print Assumptions c10_pinned_fails_checker.

(* every state produced by the script executor the implementation is compared with is a
   reachable state of the transition system *)
Theorem c10_exec_reachable : forall fx tcp ms, exists acts, run fx init acts = Some (exec fx tcp ms).
Proof. exact exec_reachable. Qed.
Print Assumptions c10_exec_reachable.

Theorem c10_sexec_reachable : forall insts ms,
  exists acts, crun code_fixed_F41 code_fixed_F42 (cinit insts) acts = Some (sexec insts ms).
Proof. exact sexec_reachable. Qed.
Print Assumptions c10_sexec_reachable.

(* ---- k concurrent callers of Server.Close() and the Start() goroutine ---------- *)
(* [krun cta del_db fx (kinit started r0 n k) acts] ranges over every interleaving of k >= 0
   calls of Server.Close() with Start()'s receive on the unbuffered closeitChannel, the Stop
   threads of the embedded router transition system and its handler goroutines
   (Net/CloseConc.v).  r0 is any router state satisfying the invariants in which nobody has
   called Stop yet; cta = false is server.go as it is, cta = true the check-then-act variant
   (lock released between reading IsStarted and the send); del_db = the temporary-database
   configuration in which a second closeDatabase returns the "removing file" error. *)

(* (1) safety, both variants: at most one value is ever sent on closeitChannel, Start()
   returns exactly when it has been sent (at most once), no step is a panic *)
Theorem c10_concurrent_close_safety : forall cta del_db fx started r0 n k acts s,
  Inv fx r0 -> stops r0 = [] ->
  krun cta del_db fx (kinit started r0 n k) acts = Some s ->
  sent s <= 1 /\ (start s = StReturned <-> sent s = 1) /\ crashed (router s) = false.
Proof. exact conc_safety. Qed.
Print Assumptions c10_concurrent_close_safety.

(* (2) deadlock freedom of the code as it is: in every reachable state in which no action
   is enabled every caller has returned, and Start() has returned if the server was started *)
Theorem c10_concurrent_close_deadlock_free : forall del_db fx started r0 n k acts s,
  Inv fx r0 -> stops r0 = [] ->
  krun false del_db fx (kinit started r0 n k) acts = Some s ->
  (forall a, kstep false del_db fx s a = None) ->
  (forall i p, nth_error (callers s) i = Some p -> returned p = true) /\
  (k >= 1 -> started = true -> start s = StReturned).
Proof. exact conc_deadlock_free. Qed.
Print Assumptions c10_concurrent_close_deadlock_free.

(* (3) termination: every step strictly decreases a natural-number measure (both variants),
   so a run is never longer than the measure of its first state, and every run of the code
   as it is extends to one in which all calls have returned *)
Theorem c10_concurrent_close_measure : forall cta del_db fx s a s',
  kstep cta del_db fx s a = Some s' -> kmeas s' < kmeas s.
Proof. exact conc_measure. Qed.
Print Assumptions c10_concurrent_close_measure.

Theorem c10_concurrent_close_runs_finite : forall cta del_db fx acts s s',
  krun cta del_db fx s acts = Some s' -> length acts + kmeas s' <= kmeas s.
Proof. exact conc_runs_finite. Qed.
Print Assumptions c10_concurrent_close_runs_finite.

Theorem c10_concurrent_close_terminates : forall del_db fx started r0 n k,
  Inv fx r0 -> stops r0 = [] ->
  forall acts s, krun false del_db fx (kinit started r0 n k) acts = Some s ->
  exists acts' s', krun false del_db fx s acts' = Some s' /\
                   (forall i p, nth_error (callers s') i = Some p -> returned p = true).
Proof. exact conc_terminates. Qed.
Print Assumptions c10_concurrent_close_terminates.

(* (4) the final state does not depend on the number of callers or on the interleaving:
   once all calls have returned, IsStarted is cleared, the lock free, the router closed with
   its listener off, its wait group zero and every registered connection closed, the
   websocket stopped, the overlay closed and empty, the database closed - the state a
   single Close() (k = 1) leaves; and the calls' results are those of sequential calls *)
Theorem c10_concurrent_close_final_state : forall cta del_db fx started r0 n k acts s,
  Inv fx r0 -> stops r0 = [] -> k >= 1 ->
  krun cta del_db fx (kinit started r0 n k) acts = Some s ->
  (forall i p, nth_error (callers s) i = Some p -> returned p = true) ->
  all_closed_k s /\
  (if del_db then lsum is_ok (callers s) = 1 else lsum is_ok (callers s) = length (callers s)).
Proof. exact conc_final. Qed.
Print Assumptions c10_concurrent_close_final_state.

(* (5) the check-then-act variant hangs: two callers both read IsStarted = true, the first
   wakes Start() up and completes, the second is left blocked on closeitChannel in a state
   with no enabled action *)
Theorem c10_concurrent_close_check_then_act_refuted :
  exists s, krun true true (mkFx true true) (kinit true init 0 2) cta_witness = Some s /\
            callers s = [KRet Ok; KSendPc] /\ start s = StReturned /\ sent s = 1 /\
            forall a, kstep true true (mkFx true true) s a = None.
Proof. exact conc_check_then_act_refuted. Qed.
Print Assumptions c10_concurrent_close_check_then_act_refuted.

Example c10_concurrent_close_example :
  krun false true (mkFx true true) (kinit true init 0 2) [KStartArrive; KLockRead 0; KLockRead 1] = None /\
  exists s, krun false true (mkFx true true) (kinit true init 0 2)
                 ([KStartArrive; KLockRead 0; KSend 0; KClear 0; KLockRead 1]) = Some s /\
            callers s = [KStopCall; KStopCall] /\ flag s = false.
Proof. exact conc_witness_original. Qed.
Print Assumptions c10_concurrent_close_example.

(* the model run the closerace observations are compared with is a run of this system *)
Theorem c10_concurrent_close_sched_reachable : forall cta del_db fx fuel s,
  exists acts, krun cta del_db fx s acts = Some (sched cta del_db fx fuel s).
Proof. exact sched_reachable. Qed.
Print Assumptions c10_concurrent_close_sched_reachable.

(* ---- a Send blocked in the socket write while Stop closes the connection ------ *)
(* [wrun ctm winit acts]: one registered TCP connection with its handleConn goroutine, any
   number of Send calls (Send = sendMutex.Lock; write, which blocks while the peer does not
   read and fails once the socket is closed; Unlock), one Stop, a peer that stalls and reads
   (Net/SendClose.v).  ctm = true is the variant in which TCPConn.Close takes sendMutex. *)

(* the code as it is: once Stop has been called, a state without enabled internal action has
   Stop returned and every Send returned; a blocked Send does not delay Stop *)
Theorem c10_send_close_no_hang : forall acts s,
  wrun false winit acts = Some s -> stopper s <> SIdle ->
  (forall a, internal a = true -> wstep false s a = None) ->
  stopper s = SRet /\ forall i p, nth_error (writers s) i = Some p -> wdone p = true.
Proof. exact send_close_no_hang. Qed.
Print Assumptions c10_send_close_no_hang.

(* closing the socket makes the blocked write fail at once *)
Theorem c10_send_close_blocked_writer_released : forall acts s i,
  wrun false winit acts = Some s -> stopper s = SWaiting \/ stopper s = SRet ->
  nth_error (writers s) i = Some WWrite -> exists s', wstep false s (WErr i) = Some s'.
Proof. exact blocked_writer_released. Qed.
Print Assumptions c10_send_close_blocked_writer_released.

(* every internal step decreases a measure, in both variants *)
Theorem c10_send_close_measure : forall ctm s a s',
  internal a = true -> wstep ctm s a = Some s' -> wmeas s' < wmeas s.
Proof. exact send_close_measure. Qed.
Print Assumptions c10_send_close_measure.

(* the variant hangs: Stop holds the router lock and waits for sendMutex behind a Send that
   is blocked in the write; no internal action is enabled *)
Theorem c10_close_takes_sendmutex_refuted :
  exists s, wrun true winit ctm_witness = Some s /\
            stopper s = SLocked /\ rlock s = true /\ writers s = [WWrite] /\
            forall a, internal a = true -> wstep true s a = None.
Proof. exact close_takes_sendmutex_refuted. Qed.
Print Assumptions c10_close_takes_sendmutex_refuted.

Example c10_send_close_example :
  exists s, wrun false winit (blocked_schedule 2) = Some s /\
            stopper s = SRet /\ writers s = [WDone Ok; WDone Ok; WDone Err] /\ wgw s = 0.
Proof. exact blocked_schedule_ok. Qed.
Print Assumptions c10_send_close_example.

(* ---- protocol starts racing with Overlay.Close ------------------------------ *)
(* [orun bo oinit acts]: any number of protocol starts (register in o.instances + dispatch
   goroutine; constructor without the lock; bind in o.protocolInstances) interleaved with
   Overlay.Close (Net/StartClose.v).  bo = true is the variant in which Close ranges over
   the bound instances only. *)

(* the code as it is: when Close has returned nothing is registered or bound and no dispatch
   goroutine is alive, wherever the racing starts were *)
Theorem c10_start_close_clean : forall acts s,
  orun false oinit acts = Some s -> ocloser s = OClosed ->
  regs s = 0 /\ bounds s = 0 /\ readers s = 0 /\
  forall i p, nth_error (starts s) i = Some p -> p <> PCtor /\ p <> PBound.
Proof. exact start_close_clean. Qed.
Print Assumptions c10_start_close_clean.

(* ... and every start still under way then fails with an error, leaving nothing *)
Theorem c10_start_after_close_fails : forall acts s i p,
  orun false oinit acts = Some s -> ocloser s = OClosed -> nth_error (starts s) i = Some p ->
  match p with
  | PNew => exists s', ostep false s (PReg i) = Some s' /\ nth_error (starts s') i = Some PGone /\ regs s' = 0 /\ readers s' = 0
  | PGone => exists s', ostep false s (PBind i) = Some s' /\ nth_error (starts s') i = Some PErr /\ regs s' = 0 /\ readers s' = 0
  | PCtor | PBound => False
  | PErr => True
  end.
Proof. exact start_after_close_fails. Qed.
Print Assumptions c10_start_after_close_fails.

(* Close's loop is never blocked by a start and each of its steps removes an entry *)
Theorem c10_close_loop_progress : forall acts s,
  orun false oinit acts = Some s -> ocloser s = OClosing ->
  exists a s', ostep false s a = Some s' /\
               match a with ODelBound _ | ODelCtor _ | OFinish => True | _ => False end /\
               (ocloser s' = OClosed \/
                count_pp is_ctor (starts s') + count_pp is_bound (starts s') <
                count_pp is_ctor (starts s) + count_pp is_bound (starts s)).
Proof. exact close_loop_progress. Qed.
Print Assumptions c10_close_loop_progress.

(* the variant skips an instance whose constructor is running: its start then succeeds on
   the closed overlay, its table entry and dispatch goroutine outlive the close *)
Theorem c10_close_ranges_bound_refuted :
  exists s, orun true oinit (ctor_held_schedule false) = Some s /\
            ocloser s = OClosed /\ starts s = [PBound] /\ regs s = 1 /\ bounds s = 1 /\ readers s = 1.
Proof. exact close_ranges_bound_refuted. Qed.
Print Assumptions c10_close_ranges_bound_refuted.

Example c10_start_close_example :
  exists s, orun false oinit (ctor_held_schedule true) = Some s /\
            ocloser s = OClosed /\ starts s = [PErr] /\ regs s = 0 /\ readers s = 0.
Proof. exact ctor_held_code. Qed.
Print Assumptions c10_start_close_example.

(* ---- added after review ------------------------------------------------------ *)

(* the [pred]s of the small models never meet a zero counter (no hidden negative WaitGroup) *)
Theorem c10_send_close_no_underflow : forall ctm acts s,
  wrun ctm winit acts = Some s -> reader s = RExiting -> wgw s = 1.
Proof. exact send_close_no_underflow. Qed.
Print Assumptions c10_send_close_no_underflow.

Theorem c10_start_close_no_underflow : forall acts s i p,
  orun false oinit acts = Some s -> nth_error (starts s) i = Some p ->
  match p with
  | PBound => 1 <= regs s /\ 1 <= bounds s /\ 1 <= readers s
  | PCtor => 1 <= regs s /\ 1 <= readers s
  | _ => True
  end.
Proof. exact start_close_no_underflow. Qed.
Print Assumptions c10_start_close_no_underflow.

(* the run the observations are compared with (which also keeps the connection states at the
   instant Stop returned and rejects scripts that refer to things that do not exist) has the
   same final state as the run of c10_exec_reachable *)
Theorem c10_exec_full_same : forall fx tcp ms, xs (rx (exec_full fx tcp ms)) = exec fx tcp ms.
Proof. exact exec_full_xs. Qed.
Print Assumptions c10_exec_full_same.

(* e91db58 (a TCP Send that fails closes the connection): in the router model a failed Send
   leaves its connection closed on this side; in the Send/Stop model the write deadline of a
   blocked write ends the Send with an error, frees sendMutex and closes the socket, which
   the handler then notices *)
Theorem c10_failed_send_closes : forall fx s t p c r s',
  nth_error (senders s) t = Some (NSend p c r) -> step fx s (ASendFail t) = Some s' ->
  exists k', nth_error (conns s') c = Some k' /\ lopen k' = false.
Proof. exact failed_send_closes. Qed.
Print Assumptions c10_failed_send_closes.

Theorem c10_send_close_deadline : forall acts s i,
  wrun false winit acts = Some s -> nth_error (writers s) i = Some WWrite ->
  sock s = true -> stalled s = true ->
  exists s', wstep false s (WDeadline i) = Some s' /\
             sock s' = false /\ sendmu s' = false /\
             nth_error (writers s') i = Some (WDone Err) /\
             (reader s' = RReading -> exists s'', wstep false s' RdErr = Some s'').
Proof. exact write_deadline_closes. Qed.
Print Assumptions c10_send_close_deadline.

(* the alternative schedules of the classes whose forced interleaving depends on the kernel or
   the scheduler (a Send that never blocks; a start that completes before Close): the runs the
   observations are then compared with *)
Theorem c10_send_close_unblocked_example :
  exists s, wrun false winit (unblocked_schedule 3) = Some s /\
            stopper s = SRet /\ writers s = [WDone Ok; WDone Ok; WDone Ok] /\ wgw s = 0 /\ sock s = false.
Proof. exact unblocked_schedule_ok. Qed.
Print Assumptions c10_send_close_unblocked_example.

Theorem c10_start_close_unheld_example :
  exists s, orun false oinit ctor_unheld_schedule = Some s /\
            ocloser s = OClosed /\ regs s = 0 /\ bounds s = 0 /\ readers s = 0 /\ starts s = [PGone].
Proof. exact ctor_unheld_code. Qed.
Print Assumptions c10_start_close_unheld_example.

(* ---- closing an in-memory connection whose peer does not read its backlog ------- *)
(* Net/LocalClose.v: one in-memory connection (two queues of [cap] packets and a forwarding
   goroutine per endpoint), any number of Sends, one Close that waits for both forwarders while
   holding the LocalManager's lock, other users of the manager.  nw = false is network/local.go
   as it is (the forwarder watches closeCh while it pushes to the reader's queue), nw = true the
   variant with a plain send. *)

(* the code as it is, every interleaving, every backlog, reading peer or not: once Close has
   been called a state without enabled internal action has Close returned Ok, the manager's lock
   free and every Send returned *)
Theorem c10_local_close_no_hang : forall cap acts s,
  lrun false cap linit acts = Some s -> closer s <> LCIdle ->
  (forall a, linternal a = true -> lstep false cap s a = None) ->
  closer s = LCRet Ok /\ mlock s = false /\ forall t p, nth_error (lsenders s) t = Some p -> ldone p = true.
Proof. exact local_close_no_hang. Qed.
Print Assumptions c10_local_close_no_hang.

(* ... and every internal step lowers a measure (both variants): such a state is reached *)
Theorem c10_local_close_measure : forall nw cap s a s',
  linternal a = true -> lstep nw cap s a = Some s' -> lmeas s' < lmeas s.
Proof. exact local_close_measure. Qed.
Print Assumptions c10_local_close_measure.

(* while Close holds the manager's lock no other user of the manager gets anywhere *)
Theorem c10_local_close_blocks_others : forall nw cap acts s,
  lrun nw cap linit acts = Some s -> holds_lock (closer s) = true ->
  lstep nw cap s LOther = None /\
  forall t, nth_error (lsenders s) t = Some LSLookup -> lstep nw cap s (LSendLookup t) = None.
Proof. exact local_close_blocks_others. Qed.
Print Assumptions c10_local_close_blocks_others.

(* the variant hangs: 260 unread packets (LocalMaxBuffer = 200), the peer's forwarder is parked on
   its push, Close waits for it holding the lock - nothing internal is enabled, nobody gets the lock *)
Theorem c10_local_close_plain_push_refuted :
  exists s, lrun true 200 linit nw_witness = Some s /\
            closer s = LCWaitB /\ mlock s = true /\ fwdB s = FPush /\ outq s = 200 /\ inq s = 59 /\
            (forall a, linternal a = true -> lstep true 200 s a = None) /\
            lstep true 200 s LOther = None.
Proof. exact plain_push_refuted. Qed.
Print Assumptions c10_local_close_plain_push_refuted.

(* the schedule of the harness class on the code as it is *)
Theorem c10_local_close_example :
  exists s, lrun false 200 linit (backlog_schedule 200 2 260) = Some s /\
            closer s = LCRet Ok /\ mlock s = false /\ others s = 1 /\ fwdB s = FDone /\
            forallb (fun p => match p with LSDone Ok => true | _ => false end) (lsenders s) = true /\
            length (lsenders s) = 262.
Proof. exact backlog_schedule_ok. Qed.
Print Assumptions c10_local_close_example.
