(* C14 -- Every client request gets the reply computed for exactly that request.
   Only statements; every proof is [exact] of a lemma of the Api/*Proofs.v files.

   Vocabulary.  Api/Spec.v: [spec_of w clients cr] is the SPECIFICATION of one request,
   written from the property text: the registered handler applied to the decoding of that
   request's content, or "an error" (class left open) for a request that is malformed,
   mis-addressed or whose handler fails or panics; it mentions no server state and no
   other request.  [satisfies ws s o]: reply [o] is what [s] demands.
   Api/Rest.v, Api/RestConc.v: the MODELS.  [run fl w clients st l] executes a history [l]
   of client requests one after the other; [crun fl w clients (start st rd) sched] executes
   the requests [rd] that are in flight together under the interleaving [sched] of their
   atomic steps; [all_fixed] is the code with the repairs F17 and F28 (what /repo contains
   now), [pinned] the code before them; [fixed_reply w clients cr] is a model quantity: what
   the repaired model answers to [cr] in its initial state. *)
From Coq Require Import List String ZArith Bool Arith.
Import ListNotations.
From Onet Require Import Api.Rest Api.RestConc Api.RestProofs Api.RestConcProofs Api.Par Api.ParProofs
                         Api.Spec Api.SpecProofs Api.LiveProofs Corr.C14 Api.CheckProofs.
From Onet Require Api.StreamStop Api.StreamStopProofs.
Local Open Scope string_scope.

(* ==== 1. The model refines the specification ============================================== *)

(* Sequential form: whatever the history and whatever state an earlier history left, every
   reply of the repaired model satisfies the specification of the request it answers. *)
Theorem c14_seq_refines_spec : forall w clients l st,
  wf_state w st ->
  Forall2 (fun cr o => satisfies (req_is_ws cr) (spec_of w clients cr) o = true)
          l (snd (run all_fixed w clients st l)).
Proof. exact seq_refines_spec. Qed.
Print Assumptions c14_seq_refines_spec.

(* Concurrent form: any requests in flight together, ANY interleaving of the field writes
   of their decodings and of their handler calls. *)
Theorem c14_conc_refines_spec : forall w clients st rd sched i t rep,
  wf_state w st ->
  nth_error (g_threads (crun all_fixed w clients (start st rd) sched)) i = Some t ->
  th_rep t = Some rep ->
  exists cr, nth_error rd i = Some cr /\ satisfies (req_is_ws cr) (spec_of w clients cr) rep = true.
Proof. exact conc_refines_spec. Qed.
Print Assumptions c14_conc_refines_spec.

(* The step that carries the content: the repaired model's reply to one request satisfies
   that request's specification (case analysis over routing, method, content type, path
   segment, JSON decoding, handler outcome, close-frame limit). *)
Theorem c14_fixed_satisfies_spec : forall w clients cr,
  satisfies (req_is_ws cr) (spec_of w clients cr) (fixed_reply w clients cr) = true.
Proof. exact fixed_satisfies_spec. Qed.
Print Assumptions c14_fixed_satisfies_spec.

(* Every request IS answered: every schedule that gives the thread of request i its steps
   (one per field write of its decoding, plus one) answers it, whatever the other threads
   do in between; and in a state in which no thread can move every request has its reply.
   Any variant of the code.  (That the real server takes its steps is observed, clause 4.) *)
Theorem c14_every_request_answered : forall fl w clients st rd sched i cr,
  nth_error rd i = Some cr ->
  steps_of w cr <= count_occ Nat.eq_dec sched i ->
  exists t rep, nth_error (g_threads (crun fl w clients (start st rd) sched)) i = Some t /\ th_rep t = Some rep.
Proof. exact conc_every_request_answered. Qed.
Print Assumptions c14_every_request_answered.

Theorem c14_quiescent_all_answered : forall fl w clients g,
  quiescent fl w clients g -> forall i t, nth_error (g_threads g) i = Some t -> answered t.
Proof. exact quiescent_all_answered. Qed.
Print Assumptions c14_quiescent_all_answered.

(* What [satisfies] demands. *)
Theorem c14_satisfies_ok : forall ws tag m o, satisfies ws (SOk tag m) o = true <-> o = ROk tag m.
Proof. exact satisfies_ok. Qed.
Print Assumptions c14_satisfies_ok.

Theorem c14_satisfies_error : forall ws own o,
  satisfies ws (SError own) o = true <->
  reports_error ws o = true /\ (forall t, names_failure o = Some t -> own = Some t).
Proof. exact satisfies_error. Qed.
Print Assumptions c14_satisfies_error.

(* ==== 2. The code before the repairs violates the same specification ====================== *)

(* F17: POST {"S":"42"} then POST {}: the second request is answered with a success built
   from the first request's field *)
Theorem c14_rest_carryover_violates_spec :
  let l := [post (BObj [("S", JStr "42" None)]); post (BObj [])] in
  exists cr o, nth_error l 1 = Some cr /\
               nth_error (snd (run pinned demo_world [CKind true true] (init_state demo_world) l)) 1 = Some o /\
               violates demo_world [CKind true true] cr o.
Proof. exact rest_carryover_violates_spec. Qed.
Print Assumptions c14_rest_carryover_violates_spec.

(* F17 under concurrency, both requests complete *)
Theorem c14_conc_crosstalk_violates_spec :
  let rd := [full_post "alice" 1; full_post "bob" 2] in
  let g := crun pinned demo_world [CKind true true] (start (init_state demo_world) rd)
                [0; 0; 0; 0; 1; 1; 1; 1; 0; 1] in
  exists cr t o, nth_error rd 0 = Some cr /\ nth_error (g_threads g) 0 = Some t /\ th_rep t = Some o /\
                 violates demo_world [CKind true true] cr o.
Proof. exact conc_crosstalk_violates_spec. Qed.
Print Assumptions c14_conc_crosstalk_violates_spec.

(* F28: the valid request after a failed one on a kept connection gets no reply *)
Theorem c14_keep_dead_violates_spec :
  let clients := [CKind true true; CKind true true] in
  let l := [wsreq 0 "a"; wsreq 0 "fail-1"; wsreq 0 "a"; wsreq 1 "a"] in
  exists cr o, nth_error l 2 = Some cr /\
               nth_error (snd (run pinned demo_world clients (init_state demo_world) l)) 2 = Some o /\
               violates demo_world clients cr o.
Proof. exact keep_dead_violates_spec. Qed.
Print Assumptions c14_keep_dead_violates_spec.

(* ==== 3. Structure of the repaired model (these follow by unfolding its definition: with
   the repairs the model keeps nothing between requests; they are the lemmas the
   refinement statements above are assembled from, not results of their own) =============== *)

(* Sequential form: any history, from any state an earlier history left behind. *)
Theorem c14_reply_is_function_of_request_seq : forall w clients l st,
  wf_state w st -> snd (run all_fixed w clients st l) = map (fixed_reply w clients) l.
Proof. exact run_fixed_spec. Qed.
Print Assumptions c14_reply_is_function_of_request_seq.

(* Concurrent form: any requests in flight together, ANY interleaving of the field
   writes of their decodings and of their handler calls. *)
Theorem c14_reply_is_function_of_request : forall w clients st rd sched i t rep,
  wf_state w st ->
  nth_error (g_threads (crun all_fixed w clients (start st rd) sched)) i = Some t ->
  th_rep t = Some rep ->
  exists cr, nth_error rd i = Some cr /\ rep = fixed_reply w clients cr.
Proof. exact conc_fixed_spec. Qed.
Print Assumptions c14_reply_is_function_of_request.

Theorem c14_state_after_round : forall w clients st rd sched,
  wf_state w st ->
  let g := crun all_fixed w clients (start st rd) sched in
  wf_state w {| s_cells := g_cells g; s_dead := g_dead g |}.
Proof. exact conc_fixed_state. Qed.
Print Assumptions c14_state_after_round.

Example c14_interleaving_example :
  replies (crun all_fixed demo_world [CKind true true] (start (init_state demo_world) demo_round)
                [0; 1; 0; 2; 1; 0]) =
  [Some (ROk 10 (Msg "one" 1 false "")); Some (RErr EHandler "fail-2"); Some (ROk 1 (Msg "three" 0 false ""))].
Proof. exact conc_fixed_example. Qed.
Print Assumptions c14_interleaving_example.

(* [fixed_reply] looks at nothing but the request and the kind of its client. *)
Theorem c14_spec_local : forall w clients clients' cr,
  nth_error clients (c_client cr) = nth_error clients' (c_client cr) ->
  fixed_reply w clients cr = fixed_reply w clients' cr.
Proof. exact spec_local. Qed.
Print Assumptions c14_spec_local.

(* A failing, panicking or malformed request changes nobody else's reply in the repaired model. *)
Theorem c14_failure_contained : forall w clients l1 cr l2,
  snd (run all_fixed w clients (init_state w) (l1 ++ cr :: l2)%list) =
  (snd (run all_fixed w clients (init_state w) l1) ++
   fixed_reply w clients cr :: snd (run all_fixed w clients (init_state w) l2))%list.
Proof. exact failure_contained. Qed.
Print Assumptions c14_failure_contained.

(* A handler error or panic is an error reply carrying that handler's token (REST) ... *)
Theorem c14_handler_failure_reported_rest : forall tag h t,
  failure_token h = Some t ->
  exists c, hres_reply tag h = RErr c t /\ (c = EHandler \/ c = EPanic).
Proof. exact handler_failure_reported_rest. Qed.
Print Assumptions c14_handler_failure_reported_rest.

(* ... and on the websocket an error close carrying the token, or -- when the reason
   does not fit a close frame -- a close without reason; never a success. *)
Theorem c14_handler_failure_reported_ws : forall hs h tag path p t,
  nth_error hs path = Some (h, tag) ->
  failure_token (handler h (apply_writes zero_msg (pmsg_writes p))) = Some t ->
  let r := ws_handle hs {| w_svc := true; w_path := path; w_body := WMsg p |} in
  r = RErr EHandler t \/ r = RErr EPanic t \/ r = RErr EAbnormal "".
Proof. exact handler_failure_reported_ws. Qed.
Print Assumptions c14_handler_failure_reported_ws.

Theorem c14_ws_success_only_from_handler : forall hs q tag m,
  ws_handle hs q = ROk tag m ->
  exists h p, nth_error hs (w_path q) = Some (h, tag) /\ w_body q = WMsg p /\
              handler h (apply_writes zero_msg (pmsg_writes p)) = HOk m.
Proof. exact ws_success_only_from_handler. Qed.
Print Assumptions c14_ws_success_only_from_handler.

(* ---- the code as it is --------------------------------------------------------- *)

(* F17: POST {"S":"42"} then POST {} *)
Theorem c14_rest_carryover_refuted :
  exists w clients l,
    snd (run pinned w clients (init_state w) l) <> map (fixed_reply w clients) l /\
    l = [post (BObj [("S", JStr "42" None)]); post (BObj [])] /\
    snd (run pinned w clients (init_state w) l) =
      [ROk 10 (Msg "42" 0 false ""); ROk 10 (Msg "42" 0 false "")] /\
    map (fixed_reply w clients) l = [ROk 10 (Msg "42" 0 false ""); RErr EHandler "empty"].
Proof. exact rest_carryover_refuted. Qed.
Print Assumptions c14_rest_carryover_refuted.

(* F17 through a rejected request *)
Theorem c14_rest_carryover_from_rejected_refuted :
  let l := [post (BObj [("S", JStr "zz" None); ("I", JStr "x" None)]); post (BObj [("I", JNum 1)])] in
  snd (run pinned demo_world [CKind true true] (init_state demo_world) l) =
    [RErr EDecode ""; ROk 10 (Msg "zz" 1 false "")] /\
  map (fixed_reply demo_world [CKind true true]) l = [RErr EDecode ""; RErr EHandler "empty"].
Proof. exact rest_carryover_from_rejected_refuted. Qed.
Print Assumptions c14_rest_carryover_from_rejected_refuted.

(* F17 under concurrency, with requests that omit nothing *)
Theorem c14_rest_concurrent_crosstalk_refuted :
  let rd := [full_post "alice" 1; full_post "bob" 2] in
  let g := crun pinned demo_world [CKind true true] (start (init_state demo_world) rd)
                [0; 0; 0; 0; 1; 1; 1; 1; 0; 1] in
  replies g = [Some (ROk 10 (Msg "bob" 2 true "")); Some (ROk 10 (Msg "bob" 2 true ""))] /\
  map (fixed_reply demo_world [CKind true true]) rd =
    [ROk 10 (Msg "alice" 1 true ""); ROk 10 (Msg "bob" 2 true "")].
Proof. exact conc_pinned_refuted. Qed.
Print Assumptions c14_rest_concurrent_crosstalk_refuted.

(* F28: a keeping client after one failed request *)
Theorem c14_keep_dead_refuted :
  let clients := [CKind true true; CKind true true] in
  let l := [wsreq 0 "a"; wsreq 0 "fail-1"; wsreq 0 "a"; wsreq 1 "a"] in
  snd (run pinned demo_world clients (init_state demo_world) l) =
    [ROk 1 (Msg "a" 0 false ""); RErr EHandler "fail-1"; RErr EDeadConn ""; ROk 1 (Msg "a" 0 false "")] /\
  map (fixed_reply demo_world clients) l =
    [ROk 1 (Msg "a" 0 false ""); RErr EHandler "fail-1"; ROk 1 (Msg "a" 0 false ""); ROk 1 (Msg "a" 0 false "")].
Proof. exact keep_dead_refuted. Qed.
Print Assumptions c14_keep_dead_refuted.

(* The exact shape of F17: the cell of a REST resource is the merge of everything
   earlier requests to it decoded. *)
Theorem c14_pinned_cell_is_merge : forall w clients ri l st c,
  List.length (s_cells st) = List.length (w_regs w) ->
  nth_error (s_cells st) ri = Some c ->
  nth_error (s_cells (fst (run pinned w clients st l))) ri =
  Some (apply_writes c (history_writes w ri l)).
Proof. exact pinned_cell_is_merge. Qed.
Print Assumptions c14_pinned_cell_is_merge.

(* The code as it is, outside the two defects: histories in which every REST request
   writes every field its handler reads and no keeping client's request fails. *)
Theorem c14_pinned_outside_defects : forall w clients l st,
  wf_state w st -> forallb (safe w clients) l = true ->
  snd (run pinned w clients st l) = map (fixed_reply w clients) l.
Proof. exact run_pinned_spec_restricted. Qed.
Print Assumptions c14_pinned_outside_defects.

Example c14_pinned_outside_defects_satisfiable :
  forallb (safe demo_world [CKind false true])
    [post (BObj [("S", JStr "a" None); ("I", JNum 5); ("B", JBool true); ("D", JNull)]); wsreq 0 "fail-1"] = true.
Proof. exact run_pinned_spec_restricted_satisfiable. Qed.
Print Assumptions c14_pinned_outside_defects_satisfiable.

(* ---- the checker run on every observation ------------------------------------- *)

(* [Corr.C14.check] returns no clause exactly when every observed reply is what the
   property demands of its request *)
Theorem c14_check_decides : forall clients rounds obs,
  check (Case clients rounds obs) = [] <-> observation_ok clients rounds obs.
Proof. exact check_decides. Qed.
Print Assumptions c14_check_decides.

Theorem c14_sat_meaning : forall clients cr o,
  sat clients cr o <->
  match spec_of c14_world clients cr with
  | SOk tag m => o = ROk tag m
  | SError own => reports_error (req_is_ws cr) o = true /\
                  (forall t, names_failure o = Some t -> own = Some t)
  end.
Proof. exact sat_meaning. Qed.
Print Assumptions c14_sat_meaning.

Theorem c14_reply_eqb_eq : forall a b, reply_eqb a b = true <-> a = b.
Proof. exact reply_eqb_eq. Qed.
Print Assumptions c14_reply_eqb_eq.

(* ---- the relation the correspondence check uses for concurrent rounds ----------- *)

(* The schedule of a real concurrent round cannot be observed, so for the code as it is
   the model's verdict on a scenario is the relation [scenario_ok] built from
   [admissible] (per REST resource and field: the values the handler of request i may
   find in the shared argument; per kept connection: whether it may already be dead)
   and [round_next].  It over-approximates the interleaving semantics: pinned code, any
   concrete state [st] described by the abstract state [a], any round, ANY interleaving
   -- every reply produced is admissible, ... *)
Theorem c14_pinned_admissible_sound : forall w clients rd a st sched i t rep,
  List.length (a_cells a) = List.length (w_regs w) ->
  abstracts w a st ->
  nth_error (g_threads (crun pinned w clients (start st rd) sched)) i = Some t ->
  th_rep t = Some rep ->
  exists cr, nth_error rd i = Some cr /\ admissible pinned w clients a rd i cr rep = true.
Proof. exact conc_pinned_sound. Qed.
Print Assumptions c14_pinned_admissible_sound.

(* ... the abstract state after the round describes the state every interleaving that
   answers the whole round leaves behind, ... *)
Theorem c14_pinned_next_abstracts : forall w clients rd a st sched,
  List.length (a_cells a) = List.length (w_regs w) ->
  abstracts w a st ->
  all_done (crun pinned w clients (start st rd) sched) = true ->
  abstracts w (round_next pinned w clients a rd)
             {| s_cells := g_cells (crun pinned w clients (start st rd) sched);
                s_dead := g_dead (crun pinned w clients (start st rd) sched) |} /\
  List.length (a_cells (round_next pinned w clients a rd)) = List.length (w_regs w).
Proof. exact conc_pinned_next_abstracts. Qed.
Print Assumptions c14_pinned_next_abstracts.

(* ... hence every execution of a whole scenario (each round under some schedule that
   answers all its requests) is accepted: a disagreement reported by Corr.C14.agree is
   never an artefact of the unobservable schedules. *)
Theorem c14_pinned_scenario_ok_sound : forall w clients rounds obs,
  scen_run w clients (init_state w) rounds obs ->
  scenario_ok pinned w clients (ainit w) rounds obs = true.
Proof. exact scenario_ok_sound_init. Qed.
Print Assumptions c14_pinned_scenario_ok_sound.

Example c14_scen_run_satisfiable :
  scen_run demo_world [CKind true true] (init_state demo_world)
    [[post (BObj [("S", JStr "42" None)])]; [post (BObj [])]]
    [[ROk 10 (Msg "42" 0 false "")]; [ROk 10 (Msg "42" 0 false "")]].
Proof. exact scen_run_example. Qed.
Print Assumptions c14_scen_run_satisfiable.

(* Repaired code: the relation accepts the observation in which every request gets
   fixed_reply(request) -- by c14_reply_is_function_of_request the only one any interleaving
   can produce. *)
Theorem c14_fixed_scenario_ok : forall w clients rounds a,
  List.length (a_cells a) = List.length (w_regs w) -> a_dead a = [] ->
  scenario_ok all_fixed w clients a rounds (map (map (fixed_reply w clients)) rounds) = true.
Proof. exact scenario_ok_fixed_spec. Qed.
Print Assumptions c14_fixed_scenario_ok.

(* ---- the client's parallel sender (SendProtobufParallelWithDecoder) --------------------- *)

(* [prun decode_every fix_quit want_ret quit out (pinit par chosen) acts] runs the transition
   system of Api/Par.v -- workers and the main goroutine of the call as actors -- along the
   steps [acts]; [par] workers, nodes [chosen] to ask (whatever ParallelOptions made of the
   node list).  The statements below are for the REPAIRED QuitError path ([fix_quit = true];
   for calls without QuitError the two variants coincide) and hold for EVERY interleaving,
   any number of nodes and workers, QuitError or not, nodes failing and succeeding in any
   order: no goroutine closes the closed [done] (RCrash only when there is nobody to ask); *)
Theorem c14_par_no_crash : forall want_ret quit out par chosen acts,
  let s := prun false true want_ret quit out (pinit par chosen) acts in
  ps_dead s = false /\ (forall f, ps_result s = Some (RCrash, f) -> ps_nbr s = 0).
Proof. exact par_no_crash. Qed.
Print Assumptions c14_par_no_crash.

(* if a node has been accepted, ret holds exactly the reply that node produced for this request; *)
Theorem c14_par_accepted_reply : forall want_ret quit out par chosen acts n,
  let s := prun false true want_ret quit out (pinit par chosen) acts in
  ps_acc s = Some n ->
  exists r, acceptable want_ret out n r /\ (want_ret = true -> ps_ret s = Some r).
Proof. exact par_accepted_reply. Qed.
Print Assumptions c14_par_accepted_reply.

(* while none has been and no worker is about to accept, ret is untouched; *)
Theorem c14_par_untouched_without_accept : forall want_ret quit out par chosen acts,
  let s := prun false true want_ret quit out (pinit par chosen) acts in
  ps_acc s = None -> ps_commit s = None -> ps_ret s = None.
Proof. exact par_untouched_without_accept. Qed.
Print Assumptions c14_par_untouched_without_accept.

(* replies that arrive later are dropped: neither the accepted node nor ret changes (also
   after the call has returned); *)
Theorem c14_par_ret_stable : forall want_ret quit out par chosen acts later n,
  let s := prun false true want_ret quit out (pinit par chosen) acts in
  ps_acc s = Some n ->
  ps_acc (prun false true want_ret quit out s later) = Some n /\
  ps_ret (prun false true want_ret quit out s later) = ps_ret s.
Proof. exact par_ret_stable. Qed.
Print Assumptions c14_par_ret_stable.

(* the node the call returns is the accepted one, ret at the return being its reply; *)
Theorem c14_par_result_node : forall want_ret quit out par chosen acts n first,
  let s := prun false true want_ret quit out (pinit par chosen) acts in
  ps_result s = Some (RNode n, first) ->
  ps_acc s = Some n /\ first = ps_ret s /\
  exists r, acceptable want_ret out n r /\ (want_ret = true -> first = Some r).
Proof. exact par_result_node. Qed.
Print Assumptions c14_par_result_node.

(* and a call that returns an error under QuitError has not written ret, and nothing writes
   it afterwards. *)
Theorem c14_par_quit_error_ret_untouched : forall want_ret out par chosen acts later c t first,
  let s := prun false true want_ret true out (pinit par chosen) acts in
  ps_result s = Some (RError c t, first) ->
  first = None /\
  ps_ret (prun false true want_ret true out s later) = None /\
  ps_result (prun false true want_ret true out s later) = Some (RError c t, first).
Proof. exact par_quit_error_ret_untouched. Qed.
Print Assumptions c14_par_quit_error_ret_untouched.

(* the schedule the correspondence check derives from the harness's release order is one of
   these executions *)
Theorem c14_par_drive_is_execution : forall fuel de fq want_ret quit out prio hold s,
  exists acts, drive fuel de fq want_ret quit out prio hold s = prun de fq want_ret quit out s acts.
Proof. exact drive_is_prun. Qed.
Print Assumptions c14_par_drive_is_execution.

(* the variant in which every reply is decoded into ret: node 0 is returned, ret ends up
   holding the reply of node 1 *)
Theorem c14_par_decode_every_refuted :
  let s := prun true true true false two_nodes (pinit 2 [0; 1]) [ACheck 0; ACommit; AMainDecoded; ACheck 1] in
  ps_result s = Some (RNode 0, Some (Msg "q" 0 true "")) /\ ps_ret s = Some (Msg "q" 1 true "").
Proof. exact par_decode_every_refuted. Qed.
Print Assumptions c14_par_decode_every_refuted.

(* C14-N1, the QuitError path as it is ([fix_quit = false]): node 1 answers, its worker passes
   the [done] check and decodes; node 0 fails; the main goroutine closes [done] and returns
   the error; the worker closes [done] again: the client process dies, and the call has
   returned an error with ret written ... *)
Theorem c14_par_quit_double_close_refuted :
  let s := prun false false true true fail_ok (pinit 2 [0; 1]) [ACheck 1; ACheck 0; AMainErr; ACommit] in
  ps_dead s = true /\
  ps_result s = Some (RError EHandler "node-fails", Some (Msg "q" 1 true "")).
Proof. exact par_quit_double_close_refuted. Qed.
Print Assumptions c14_par_quit_double_close_refuted.

(* ... and in the other order the call itself panics *)
Theorem c14_par_quit_double_close_main_refuted :
  let s := prun false false true true fail_ok (pinit 2 [0; 1]) [ACheck 1; ACommit; ACheck 0; AMainErr] in
  ps_result s = Some (RCrash, Some (Msg "q" 1 true "")).
Proof. exact par_quit_double_close_main_refuted. Qed.
Print Assumptions c14_par_quit_double_close_main_refuted.

Example c14_par_quit_repaired_same_steps :
  let s := prun false true true true fail_ok (pinit 2 [0; 1]) [ACheck 1; ACheck 0; AMainErr; ACommit; AMainErr] in
  ps_dead s = false /\ ps_result s = Some (RNode 1, Some (Msg "q" 1 true "")).
Proof. exact par_quit_repaired_same_steps. Qed.
Print Assumptions c14_par_quit_repaired_same_steps.

(* ---- Client.SendProtobuf and the caller's reply variable ---------------------------------- *)

(* Whatever the variable held and whatever calls came before (one variable reused by a
   sequence of calls): what the caller sees after a successful call is the server's reply to
   THIS call, decoded from scratch -- also when that reply is encoded to zero bytes (a
   handler that returns (nil, nil)). *)
Theorem c14_sendpb_fresh : forall ret server, snd (sendpb false ret server) = server.
Proof. exact sendpb_fresh. Qed.
Print Assumptions c14_sendpb_fresh.

Theorem c14_sendpb_seq_fresh : forall servers ret, sendpb_seq false ret servers = servers.
Proof. exact sendpb_seq_fresh. Qed.
Print Assumptions c14_sendpb_seq_fresh.

(* the variant that does not decode a reply of zero bytes (seeded change C14-F) *)
Theorem c14_sendpb_skip_empty_refuted :
  sendpb_seq true None [ROk 6 (Msg "alice" 1 true ""); zero_reply] =
  [ROk 6 (Msg "alice" 1 true ""); ROk 6 (Msg "alice" 1 true "")].
Proof. exact sendpb_skip_empty_refuted. Qed.
Print Assumptions c14_sendpb_skip_empty_refuted.

(* ---- Client.SendToAll ---------------------------------------------------------------------- *)

(* every roster, whoever fails: one slot per server, slot i = the reply of server i, empty
   where the request to server i failed; an error is returned iff some request failed *)
Theorem c14_send_to_all_slots : forall outs,
  fst (send_to_all outs) = outs /\ snd (send_to_all outs) = existsb is_none outs.
Proof. exact send_to_all_slots. Qed.
Print Assumptions c14_send_to_all_slots.

(* the variant that appends the successes only (seeded change C14-H) *)
Theorem c14_send_to_all_compact_refuted :
  fst (send_to_all_compact [None; Some (ROk 6 (Msg "q" 1 true ""))]) = [Some (ROk 6 (Msg "q" 1 true ""))].
Proof. exact send_to_all_compact_refuted. Qed.
Print Assumptions c14_send_to_all_compact_refuted.

(* ---- what a handler keeps of a request stays what the request carried ------------------------ *)

(* a storing handler (Put keeps the byte slice of its argument, Get returns it): any sequence
   of Put / Get of any clients over kept and single-use connections -- Get returns the data
   of the last Put of that key *)
Theorem c14_store_get_returns_put : forall keeps ops, store_run false keeps [] ops = store_spec [] ops.
Proof. exact store_get_returns_put. Qed.
Print Assumptions c14_store_get_returns_put.

(* the variant with one read buffer per connection (seeded change C14-G) *)
Theorem c14_store_reuse_buffer_refuted :
  let ops := [SOp 0 (SPut "k1" "AAAA"); SOp 0 (SPut "k2" "BBBB"); SOp 0 (SGet "k1")] in
  store_run true [true] [] ops <> store_spec [] ops /\
  store_run true [false] [] ops = store_spec [] ops.
Proof. exact store_reuse_buffer_refuted. Qed.
Print Assumptions c14_store_reuse_buffer_refuted.

(* ---- the panic barrier covers every kind of registered handler ----------------------------- *)

(* The model of callInterfaceFunc turns a panic into an error for ordinary and streaming
   handlers alike.  This is how the model is written (immediate from its definition); what
   ties it to the code is the correspondence: panicking streaming handlers, at the first and
   at later messages of a conversation, are run on every check. *)
Theorem c14_barrier_all_kinds : forall streaming h m, call_interface true streaming h m <> CCrash.
Proof. exact barrier_all_kinds. Qed.
Print Assumptions c14_barrier_all_kinds.

Theorem c14_barrier_panic_is_error : forall streaming h m t,
  handler h m = HPanic t -> call_interface true streaming h m = CError EPanic t.
Proof. exact barrier_panic_is_error. Qed.
Print Assumptions c14_barrier_panic_is_error.

(* ... so no conversation on a streaming path leaves the server dead; *)
Theorem c14_conversation_never_dead : forall msgs, snd (conversation true msgs) <> SDead.
Proof. exact conversation_never_dead. Qed.
Print Assumptions c14_conversation_never_dead.

(* the variant with the recover installed after the streaming branch is a hypothetical
   change (seeded change C14-B/D), not a defect of any revision of /repo *)
Theorem c14_barrier_streaming_lost_refuted :
  exists h m, call_interface false true h m = CCrash /\ call_interface false false h m <> CCrash.
Proof. exact barrier_streaming_lost_refuted. Qed.
Print Assumptions c14_barrier_streaming_lost_refuted.

(* Round 7 (seeded change C14-L): several requests of one stream may share ONE stop channel;
   when the client goes away every request's stopper wants to close it. With "test, else
   close" under the mutex (mutex = true, the code as it is) no interleaving of any number of
   stoppers closes a channel twice, so the server survives the disconnect and the requests
   of other clients afterwards are answered (case kind CShare, clause 4). The model and the
   proof are Api/StreamStop.v / StreamStopProofs.v (shared with C15). *)
Theorem c14_shared_stop_closed_once : forall chans acts s,
  Onet.Api.StreamStop.srun1 true (Onet.Api.StreamStop.sinit1 chans) acts = Some s ->
  Onet.Api.StreamStop.scrash s = false /\ NoDup (Onet.Api.StreamStop.closes s).
Proof. exact Onet.Api.StreamStopProofs.stop_closed_once. Qed.
Print Assumptions c14_shared_stop_closed_once.
