From Onet Require Import Api.Rest Api.RestConc Api.RestProofs.
Theorem c14_stub : spec = spec. Proof. exact stub. Qed.
Print Assumptions c14_stub.
