(* C05 -- One instance's handlers run one at a time, in acceptance order.
   Statements only; proofs are in Node/DispatchProofs.v. [run (init n) acts]
   ranges over every interleaving of feeders, readers, handler ends and closes
   of n instances on one server. *)
From Coq Require Import List Arith.
Import ListNotations.
From Onet Require Import Node.Dispatch Node.DispatchProofs.

(* handler runs of one instance never overlap: starts = ends, plus the one running *)
Theorem c05_mutual_exclusion : forall n acts s i c,
  run (init n) acts = Some s -> nth_error s i = Some c ->
  started c = ended c ++ running c /\ length (started c) - length (ended c) <= 1.
Proof. exact mutual_exclusion. Qed.
Print Assumptions c05_mutual_exclusion.

(* handlers start in the order in which the messages were accepted *)
Theorem c05_fifo : forall n acts s i c,
  run (init n) acts = Some s -> nth_error s i = Some c ->
  accepted c = started c ++ queue c.
Proof. exact fifo. Qed.
Print Assumptions c05_fifo.

(* a sleeping reader with work queued can always wake up *)
Theorem c05_no_lost_wakeup : forall n acts s i c,
  run (init n) acts = Some s -> nth_error s i = Some c ->
  reader c = RWaiting -> queue c <> [] -> exists c', istep c AWake = Some c'.
Proof. exact no_lost_wakeup. Qed.
Print Assumptions c05_no_lost_wakeup.

(* no send on / close of the closed wake-up channel *)
Theorem c05_close_safe : forall n acts s i c,
  run (init n) acts = Some s -> nth_error s i = Some c -> crashed c = false.
Proof. exact close_safe. Qed.
Print Assumptions c05_close_safe.

(* an action on instance i leaves every other instance untouched *)
Theorem c05_isolation_footprint : forall s i a s' j,
  step s (i, a) = Some s' -> i <> j -> nth_error s' j = nth_error s j.
Proof. exact step_other. Qed.
Print Assumptions c05_isolation_footprint.

(* a slow or blocked handler delays only its own instance: in every reachable
   state, whatever the other instances are doing, a queued message of a live
   instance gets started by that instance's own reader steps alone *)
Theorem c05_isolation_progress : forall n acts s i c m,
  run (init n) acts = Some s -> nth_error s i = Some c ->
  closing c = false -> In m (queue c) ->
  exists racts s' c',
    Forall reader_action racts /\
    run s (map (pair i) racts) = Some s' /\ nth_error s' i = Some c' /\ In m (started c') /\
    forall j, j <> i -> nth_error s' j = nth_error s j.
Proof. exact isolation_progress. Qed.
Print Assumptions c05_isolation_progress.

Example c05_reachable_example :
  exists s c0 c1, run (init 2) [(0, AAccept 1); (0, ACheck); (1, AAccept 7); (1, ACheck); (1, AAccept 8)] = Some s /\
    nth_error s 0 = Some c0 /\ reader c0 = RRunning 1 /\
    nth_error s 1 = Some c1 /\ queue c1 = [8] /\ closing c1 = false.
Proof. exact c05_example. Qed.
Print Assumptions c05_reachable_example.
