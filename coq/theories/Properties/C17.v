(* C17 -- Valid-peer sets decide exactly who may connect.
   Only statements; every proof is [exact] of a lemma of Net/PeersProofs.v.

   [idk] is the id GetID() derives from a public key (uninterpreted: every
   theorem holds for every such function).  [fx] selects the variant of the
   filter: [false] = the code before the repair of F25 (consulted the self-declared
   ID field), [true] = /repo now, after commit ff36148 "fix: valid peers are
   filtered on the id derived from the public key" (consults the key-derived id);
   the correspondence compares /repo with [true] (Corr/C17.v code_fixed_F25).
   Histories are arbitrary lists of operations; [outs idk fx ops] are the
   outcomes, position by position; a connection is named by the position of
   the operation that offered it. *)
From Coq Require Import List Arith Bool.
Import ListNotations.
From Onet Require Import Net.Peers Net.PeersSpec Net.PeersProofs.

(* Who is valid: exactly the peers whose filter id is in some current set, or
   everybody while no set was ever given.  For the fixed variant the filter id
   is the one derived from the KEY, whatever the peer declares. *)
Theorem c17_valid_iff : forall idk v i,
  (match v with Some m => wf m | None => True end) ->
  vp_valid idk true v i = true <->
  v = None \/ exists s l, vp_get v s = Some l /\ In (idk (ikey i)) l.
Proof. exact valid_iff_key. Qed.
Print Assumptions c17_valid_iff.

Theorem c17_reachable_maps_wellformed : forall idk fx ops,
  match st_vp (run idk fx ops) with Some m => wf m | None => True end.
Proof. exact run_wf. Qed.
Print Assumptions c17_reachable_maps_wellformed.

(* set is local: reading the set back gives exactly the members given, without
   repetition; every other identifier reads as before; members of the other
   sets stay valid; and after a replacement a peer is valid iff it is in the new
   set or in an untouched one. *)
Theorem c17_set_local : forall idk fx m s peers,
  wf m ->
  (exists l, vp_get (vp_set idk fx (Some m) s peers) s = Some l /\ NoDup l /\
             forall x, In x l <-> In x (map (fid idk fx) peers)) /\
  (forall s', s' <> s -> vp_get (vp_set idk fx (Some m) s peers) s' = vp_get (Some m) s') /\
  (forall i, vp_valid idk fx (vp_set idk fx (Some m) s peers) i = true <->
     In (fid idk fx i) (map (fid idk fx) peers) \/
     exists s' l, s' <> s /\ vp_get (Some m) s' = Some l /\ In (fid idk fx i) l).
Proof. exact set_local. Qed.
Print Assumptions c17_set_local.

(* set operations on different identifiers commute (observably): a group of
   concurrent SetValidPeers calls on pairwise different identifiers has ONE outcome *)
Theorem c17_sets_on_different_ids_commute : forall idk fx v s1 p1 s2 p2,
  s1 <> s2 -> (match v with Some m => wf m | None => True end) ->
  (forall s, vp_get (vp_set idk fx (vp_set idk fx v s1 p1) s2 p2) s =
             vp_get (vp_set idk fx (vp_set idk fx v s2 p2) s1 p1) s) /\
  (forall i, vp_valid idk fx (vp_set idk fx (vp_set idk fx v s1 p1) s2 p2) i =
             vp_valid idk fx (vp_set idk fx (vp_set idk fx v s2 p2) s1 p1) i).
Proof. exact set_commute. Qed.
Print Assumptions c17_sets_on_different_ids_commute.

(* the very first set turns "everyone is valid / nil" into "only these" *)
Theorem c17_first_set : forall idk fx s peers s', s' <> s ->
  vp_get None s' = None /\ vp_get (vp_set idk fx None s peers) s' = Some [].
Proof. exact set_get_other_first. Qed.
Print Assumptions c17_first_set.

(* A message is dispatched only if its connection was offered earlier, by the
   identity it is attributed to, at a moment when the filter accepted it. *)
Theorem c17_dispatched_only_if_valid_at_offer : forall idk fx ops n c m k d,
  nth_error ops n = Some (OMsg c m) ->
  nth_error (outs idk fx ops) n = Some (XDisp k d) ->
  exists i, c < n /\ nth_error ops c = Some (OOffer i) /\
            vp_valid idk fx (st_vp (run idk fx (firstn c ops))) i = true /\
            k = ikey i /\ d = idecl i.
Proof. exact dispatched_only_if_valid_at_offer. Qed.
Print Assumptions c17_dispatched_only_if_valid_at_offer.

Theorem c17_peer_send_dispatched_only_if_valid : forall idk fx ops n p m k d,
  nth_error ops n = Some (OPeerSend p m) ->
  nth_error (outs idk fx ops) n = Some (XDisp k d) ->
  k = p /\ d = idk p /\
  exists c m', c <= n /\ nth_error ops c = Some (OPeerSend p m') /\
    vp_valid idk fx (st_vp (run idk fx (firstn c ops))) (honest_ident idk p) = true.
Proof. exact peer_dispatched_only_if_valid_at_offer. Qed.
Print Assumptions c17_peer_send_dispatched_only_if_valid.

(* Refused means refused for good. *)
Theorem c17_refused_never_dispatched : forall idk fx ops c i,
  nth_error ops c = Some (OOffer i) ->
  vp_valid idk fx (st_vp (run idk fx (firstn c ops))) i = false ->
  nth_error (outs idk fx ops) c = Some XRefuse /\
  forall n m, nth_error ops n = Some (OMsg c m) -> nth_error (outs idk fx ops) n = Some XNone.
Proof. exact refused_never_dispatched. Qed.
Print Assumptions c17_refused_never_dispatched.

Theorem c17_no_identity_never_dispatched : forall idk fx ops c,
  nth_error ops c = Some OOfferJunk ->
  nth_error (outs idk fx ops) c = Some XRefuse /\
  forall n m, nth_error ops n = Some (OMsg c m) -> nth_error (outs idk fx ops) n = Some XNone.
Proof. exact junk_never_dispatched. Qed.
Print Assumptions c17_no_identity_never_dispatched.

(* Valid peers are served: accepted, and every message written on the
   connection is dispatched (attributed to the offering identity) until the
   peer closes it, whatever happens to the sets in between. *)
Theorem c17_valid_offer_served : forall idk fx pre i mid m post,
  vp_valid idk fx (st_vp (run idk fx pre)) i = true ->
  Forall (not_close (length pre)) mid ->
  let ops := pre ++ OOffer i :: mid ++ OMsg (length pre) m :: post in
  nth_error (outs idk fx ops) (length pre) = Some XAccept /\
  nth_error (outs idk fx ops) (length pre + 1 + length mid) = Some (XDisp (ikey i) (idecl i)).
Proof. exact valid_offer_served. Qed.
Print Assumptions c17_valid_offer_served.

Example c17_valid_offer_served_hypotheses :
  let pre := [OSet ERouter (DRaw [1]) [mkIdent 4 5]] in
  vp_valid S true (st_vp (run S true pre)) (mkIdent 4 77) = true /\
  Forall (not_close (length pre)) [OSet ERouter (DRaw [1]) []; OClose 7].
Proof. exact served_example. Qed.
Print Assumptions c17_valid_offer_served_hypotheses.

(* Before any set was given, every peer is accepted. *)
Theorem c17_before_any_set_everyone_accepted : forall idk fx pre i post,
  forallb (fun o => negb (is_set o)) pre = true ->
  nth_error (outs idk fx (pre ++ OOffer i :: post)) (length pre) = Some XAccept.
Proof. exact before_any_set_everyone_accepted. Qed.
Print Assumptions c17_before_any_set_everyone_accepted.

(* The service-facing calls are the router's: the entry point does not matter. *)
Theorem c17_context_wrappers : forall idk fx s e e' d peers,
  step idk fx s (OSet e d peers) = step idk fx s (OSet e' d peers) /\
  step idk fx s (OGet e d) = step idk fx s (OGet e' d).
Proof. exact wrappers_are_the_routers. Qed.
Print Assumptions c17_context_wrappers.

(* Set-id derivation: context ids are injective in (service, data) and never
   coincide with raw ids (SHA-256 taken as collision free); raw ids identify
   data up to truncation to / zero-padding to 32 bytes -- so they DO collide. *)
Theorem c17_set_id_derivation :
  (forall a b, src_sid (DRaw a) = src_sid (DRaw b) <-> pad 32 a = pad 32 b) /\
  (forall n l, pad n l = firstn n l ++ repeat 0 (n - length l)) /\
  (forall s a t b, src_sid (DCtx s a) = src_sid (DCtx t b) <-> s = t /\ a = b) /\
  (forall a s b, src_sid (DRaw a) <> src_sid (DCtx s b)) /\
  src_sid (DRaw []) = src_sid (DRaw [0]) /\
  src_sid (DRaw (seq 1 32)) = src_sid (DRaw (seq 1 33)).
Proof.
  exact (conj src_sid_raw_eq (conj pad_spec (conj src_sid_ctx_eq (conj src_sid_raw_ctx
          (conj (proj1 raw_sid_collisions) (proj2 (proj2 raw_sid_collisions))))))).
Qed.
Print Assumptions c17_set_id_derivation.

(* The reference reads a set as the LATEST write to its identifier. *)
Theorem c17_reference_latest_write_wins : forall l s v,
  latest l s = Some v <->
  exists pre post, l = pre ++ (s, v) :: post /\ ~ In s (map fst pre).
Proof. exact latest_spec. Qed.
Print Assumptions c17_reference_latest_write_wins.

(* Context.NewPeerSetID with the hash as an arbitrary function [H]: the id is the
   first 32 bytes of H(service id ++ data); service ids have one length, so the whole
   service id and every byte of the data enter the hash, and two derivations agree
   only for the same (service, data) or through a collision of the truncated hash on
   two different pre-images (the injective constructor SHash of the model). *)
Theorem c17_ctx_id_injective_modulo_hash : forall (H : list nat -> list nat) s1 d1 s2 d2,
  length s1 = length s2 ->
  ctx_id H s1 d1 = ctx_id H s2 d2 ->
  (s1 = s2 /\ d1 = d2) \/
  (ctx_preimage s1 d1 <> ctx_preimage s2 d2 /\
   pad 32 (H (ctx_preimage s1 d1)) = pad 32 (H (ctx_preimage s2 d2))).
Proof. exact ctx_id_eq_or_collision. Qed.
Print Assumptions c17_ctx_id_injective_modulo_hash.

Example c17_ctx_preimages_differ :
  let a := repeat 1 16 in let b := repeat 2 16 in
  ctx_preimage a (seq 1 32) <> ctx_preimage b (seq 1 32) /\
  ctx_preimage a (seq 1 32) <> ctx_preimage a (seq 1 33).
Proof. exact ctx_preimages_differ. Qed.
Print Assumptions c17_ctx_preimages_differ.

(* REFINEMENT to the reference "map of sets keyed by the peers' KEYS": on every
   history the fixed variant violates no clause of the property ... *)
Theorem c17_fixed_model_satisfies_property : forall idk ops,
  check_hist idk (combine ops (outs idk true ops)) = [].
Proof. exact fixed_model_satisfies_property. Qed.
Print Assumptions c17_fixed_model_satisfies_property.

(* ... the pre-repair variant ([fx = false]) does on every history in which neither a dialling
   peer nor a caller of set presents an ID field differing from the key's id
   (the complement of defect F25), where it coincides with the fixed one ... *)
Theorem c17_pinned_model_satisfies_property_when_honest : forall idk ops,
  forallb (op_honest idk) ops = true ->
  check_hist idk (combine ops (outs idk false ops)) = [] /\
  forall s, exec idk false s ops = exec idk true s ops.
Proof. exact pinned_when_honest. Qed.
Print Assumptions c17_pinned_model_satisfies_property_when_honest.

Example c17_honest_history_example :
  forallb (op_honest S)
    [OSet (EContext 0) (DCtx 0 [1]) [mkIdent 0 1; mkIdent 2 3]; OOffer (mkIdent 2 3); OMsg 1 5; OPeerSend 1 9] = true /\
  outs S false [OSet (EContext 0) (DCtx 0 [1]) [mkIdent 0 1; mkIdent 2 3]; OOffer (mkIdent 2 3); OMsg 1 5; OPeerSend 1 9]
    = [XUnit; XAccept; XDisp 2 3; XNone].
Proof. exact honest_history_example. Qed.
Print Assumptions c17_honest_history_example.

(* ... and F25: the pre-repair variant is refuted (kept as regression witness).  The valid set holds key 0 only;
   key 1 is refused when honest, accepted when it declares key 0's id, and its
   message is dispatched; the fixed variant refuses it. *)
Theorem c17_declared_id_bypass_refuted :
  exists ops, outs S false ops = [XUnit; XRefuse; XAccept; XDisp 1 1] /\
              check_hist S (combine ops (outs S false ops)) = [11; 12] /\
              vp_valid S true (st_vp (run S false (firstn 2 ops))) (mkIdent 1 1) = false /\
              outs S true ops = [XUnit; XRefuse; XRefuse; XNone].
Proof. exact f25_refuted. Qed.
Print Assumptions c17_declared_id_bypass_refuted.

(* setter side of F25: a member handed to set with a stale ID field is locked
   out and the read-back is not its id *)
Theorem c17_stale_id_in_set_refuted :
  outs S false f25_stale_witness = [XUnit; XRefuse; XGot (Some [0])] /\
  check_hist S (combine f25_stale_witness (outs S false f25_stale_witness)) = [23; 25] /\
  outs S true f25_stale_witness = [XUnit; XAccept; XGot (Some [1])].
Proof. exact f25_stale_refuted. Qed.
Print Assumptions c17_stale_id_in_set_refuted.
