(* C01 correspondence. Two kinds of cases:
   CTrace: the harness drives the receiving server through a list of model actions
     (one goroutine step at a time, forced with schedule points) and snapshots the
     server after each; the model runs the same actions and the projections are compared.
   CE2E: free-running clusters (in-memory and TCP); only the send log and the
     receive log are observed. *)
From Coq Require Import List Arith Bool Lia.
Import ListNotations.
From Onet Require Export Base.Corr Overlay.Delivery Node.SendApi.

(* which repairs the code under /repo currently contains *)
Definition code_fixed_F01 := true.

Record snap := mkSnap {
  sn_trees : list (nat * nat);     (* tree id, 0 absent / 1 requested / 2 present *)
  sn_parked : list nat;            (* ids of the parked messages, in parking order *)
  sn_delivered : list nat }.       (* ids handed to instances, sorted *)

Inductive case :=
| CTrace (acts : list action) (snaps : list (option snap)) (settled : bool)
| CE2E (sent recv : list (nat * nat))    (* (message id, instance) pairs, sorted *)
       (* group sends of the run: branching factor, tree size, caller's position, the call,
          and the positions whose instance received that message (ascending) *)
       (groups : list (nat * nat * nat * how * list nat)).

Definition tcode (t : tstate) : nat := match t with TAbsent => 0 | TRequested => 1 | TPresent => 2 end.

Fixpoint insert (x : nat) (l : list nat) : list nat :=
  match l with
  | [] => [x]
  | y :: r => if x <=? y then x :: l else y :: insert x r
  end.
Definition sort (l : list nat) : list nat := fold_right insert [] l.

Fixpoint nat_list_eqb (a b : list nat) : bool :=
  match a, b with
  | [], [] => true
  | x :: a', y :: b' => (x =? y) && nat_list_eqb a' b'
  | _, _ => false
  end.

Definition snap_ok (s : st) (o : snap) : bool :=
  forallb (fun '(i, c) => tcode (trees s i) =? c) (sn_trees o) &&
  nat_list_eqb (map mid (parked s)) (sn_parked o) &&
  nat_list_eqb (sort (map mid (delivered s))) (sn_delivered o).

Fixpoint replay (s : st) (acts : list action) (obs : list (option snap)) : option st :=
  match acts, obs with
  | [], [] => Some s
  | a :: ra, o :: ro =>
      match step code_fixed_F01 s a with
      | None => None
      | Some s' =>
          match o with
          | Some sn => if snap_ok s' sn then replay s' ra ro else None
          | None => replay s' ra ro
          end
      end
  | _, _ => None
  end.

Definition pair_eqb (a b : nat * nat) : bool := (fst a =? fst b) && (snd a =? snd b).
Fixpoint pair_list_eqb (a b : list (nat * nat)) : bool :=
  match a, b with
  | [], [] => true
  | x :: a', y :: b' => pair_eqb x y && pair_list_eqb a' b'
  | _, _ => false
  end.

Definition agree (c : case) : bool :=
  match c with
  | CTrace acts snaps settled =>
      match replay init acts snaps with
      | Some s => negb settled || quiescent s
      | None => false
      end
  | CE2E _ _ groups =>
      (* who got the message of a group send is who the model of the call names *)
      forallb (fun '(N, n, me, h, got) => nat_list_eqb (dests N n me h) got) groups
  end.

Definition mismatches (l : list case) : list nat := mism_idx agree l.

(* ---- property checker on the observation ------------------------------------- *)

Fixpoint last_snap (l : list (option snap)) (acc : option snap) : option snap :=
  match l with
  | [] => acc
  | Some o :: r => last_snap r (Some o)
  | None :: r => last_snap r acc
  end.

Definition sent_ids (acts : list action) : list (nat * nat) :=    (* id, token *)
  flat_map (fun a => match a with Send m => [(mid m, mtok m)] | _ => [] end) acts.
Definition finished_toks (acts : list action) : list nat :=
  flat_map (fun a => match a with Finish t => [t] | _ => [] end) acts.

Definition count_nat (x : nat) (l : list nat) : nat := length (filter (Nat.eqb x) l).

(* clause numbers
   1 a message sent to a live instance was never handed over although the server has nothing left to do
   2 a message was handed over more than once
   3 something was handed over that nobody sent / to another instance
   4 messages are still parked although the server has nothing left to do *)
Definition check (c : case) : list nat :=
  match c with
  | CTrace acts snaps settled =>
      match last_snap snaps None with
      | None => []
      | Some o =>
          let sent := sent_ids acts in
          let fin := finished_toks acts in
          clause 2 (forallb (fun '(i, _) => count_nat i (sn_delivered o) <=? 1) sent) ++
          clause 3 (forallb (fun i => existsb (fun '(j, _) => j =? i) sent) (sn_delivered o)) ++
          (if settled then
             clause 1 (forallb (fun '(i, t) => existsb (Nat.eqb t) fin || (count_nat i (sn_delivered o) =? 1)) sent) ++
             clause 4 (match sn_parked o with [] => true | _ => false end)
           else [])
      end
  | CE2E sent recv _ =>
      (* both lists are sorted by the harness: exactly-once delivery = equal lists *)
      if pair_list_eqb sent recv then [] else
      clause 1 (forallb (fun p => existsb (pair_eqb p) recv) sent) ++
      clause 2 (forallb (fun p => length (filter (pair_eqb p) recv) <=? 1) recv) ++
      clause 3 (forallb (fun p => existsb (pair_eqb p) sent) recv)
  end.

Definition violations (l : list case) : list (nat * nat) := viols check l.
