(* C13 correspondence: the generic case type / agree / check of Tree/IdsCase.v
   instantiated with the literal format the harness writes.

   agree : the model of Tree/Ids.v, run with the case's oracle (Go's own hash
           functions on candidate pre-images) as its hash function, returns
           exactly the observed results.
   check : the property on the OBSERVED ids alone (clause numbers in
           Tree/IdsCase.v and conf/C13.json). *)
From Coq Require Import List Arith Bool Ascii String NArith.
From Coq Require Export Uint63.
Import ListNotations.
From Onet Require Export Base.Corr Base.C13Bytes Tree.Ids Tree.IdsCheck Tree.IdsCase.

(* which variant of NewTree the implementation is expected to be: flipped by the
   integrator when proposed_fixes/C13-F15.diff is applied to /repo *)
Definition code_fixed_F15 := false.

(* ---- literals written by the harness ------------------------------------
   A byte string is written as primitive 63-bit integers holding 7 bytes each
   (big-endian), the last one holding [n] <= 6 bytes: Coq parses these literals
   about a hundred times faster than string literals. *)
Inductive lit := B (full : list int) (n : nat) (last : int).

Definition abit (v k : int) : bool := negb (((v >> k) land 1) =? 0)%uint63.
Definition byte_at (c sh : int) : ascii :=
  let v := (c >> sh)%uint63 in
  Ascii (abit v 0) (abit v 1) (abit v 2) (abit v 3) (abit v 4) (abit v 5) (abit v 6) (abit v 7).
Definition chunk7 (c : int) : bytes :=
  [byte_at c 48; byte_at c 40; byte_at c 32; byte_at c 24; byte_at c 16; byte_at c 8; byte_at c 0]%uint63.
Definition unlit (l : lit) : bytes :=
  match l with
  | B full n last => flat_map chunk7 full ++ skipn (7 - n) (chunk7 last)
  end.

Definition case := @gcase lit.
Definition agree (c : case) : bool := gagree unlit code_fixed_F15 c.
Definition check (c : case) : list nat := gcheck unlit c.
Definition mismatches (l : list case) : list nat := mism_idx agree l.
Definition violations (l : list case) : list (nat * nat) := viols check l.
