(* C10 correspondence.

   Three kinds of cases:
   * RouterScript: the harness forces one interleaving of Router.Stop with sends,
     inbound connections and deliveries by holding goroutines at the verif schedule
     points (router.connected, router.identityReceived, router.closedSet) and inside the
     processor.  The script is a list of macro steps; [exec] gives the SAME script to the
     transition system of Net/RouterClose.v (each macro = the model actions the held /
     released goroutine performs up to its next hold point, followed by the steps the
     handler goroutines take by themselves) and [agree] compares the observables.
   * RouterRace: unconstrained races (no hold); only the predictions that hold for every
     schedule (theorems of RouterCloseProofs) are compared.
   * ServerClose: Server.Close of a full onet server with the tree store's timer held at
     treestorage.timerFired, instances finishing, protocol starts after the close; the
     script is run on Net/CloseSeq.v.
   [check] is the checker of the property itself on the implementation's observation. *)
From Coq Require Import List Arith Bool Lia.
Import ListNotations.
From Onet Require Export Base.Corr Net.RouterClose Net.CloseSeq Net.CloseConc Net.SendClose Net.StartClose Net.LocalClose.

(* which variant of the code the correspondence compares with; the integrator flips a
   flag when the corresponding fix commit lands in /repo *)
Definition code_fixed_F11 := true.   (* set-up failure closes the connection (router.go) *)
Definition code_fixed_F43 := true.  (* accepted connections are tracked until their callback returns (router.go) *)
Definition code_fixed_F41 := true.   (* treeStorage.Close releases the lock before wg.Wait *)
Definition code_fixed_F42 := true.   (* a closed overlay refuses new instances *)

(* ---- router scripts --------------------------------------------------------- *)

Inductive macro :=
| MSend (p : nat)               (* Send to peer p runs to completion *)
| MSendDead (p : nat)           (* Send to a peer nobody listens for: the dial fails *)
| MSendHold (p : nat)           (* Send to peer p, held at router.connected (first arrival) *)
| MSendHoldReg (p : nat)        (* Send to peer p, held at router.registered (between register and launch) *)
| MSendRelease (t : nat)        (* sender t continues to completion *)
| MIncoming (p : nat)           (* peer p connects and identifies itself; callback runs to completion *)
| MIncomingHold (p : nat)       (* ... held at router.identityReceived *)
| MIncomingHoldAcc (p : nat)    (* ... held at router.accepted, before the callback's first step *)
| MIncomingSilent (p : nat)     (* peer p connects and sends nothing *)
| MIncomingRelease (c : nat)    (* the callback of connection c continues to completion *)
| MSilentClose (c : nat)        (* the silent peer of c closes its end *)
| MDeliver (c m : nat)          (* the peer sends message m on c; it is dispatched *)
| MDeliverHold (c m : nat)      (* ... the processor blocks inside Dispatch *)
| MDeliverRelease (c : nat)
| MStop                         (* Stop runs as far as it can *)
| MStopHold                     (* Stop held at router.closedSet *)
| MStopRelease (t : nat)
| MPeerClose (c : nat).         (* the peer closes its end of the established connection c *)

Record xstate := mkX { xs : state; held_disp : list nat; held_stop : list nat }.

Definition attempt (fx : fixes) (s : state) (a : action) : state :=
  match step fx s a with Some s' => s' | None => s end.

Fixpoint tries (fx : fixes) (s : state) (l : list action) : state :=
  match l with [] => s | a :: r => tries fx (attempt fx s a) r end.

(* what the handler goroutines and the unheld Stop calls do by themselves *)
Definition pass (fx : fixes) (x : xstate) : state :=
  let s1 := fold_left (fun s c =>
              tries fx s ((* receiveServerIdentity fails by itself on a connection Stop has closed *)
                          match nth_error (conns s) c with
                          | Some k => if lopen k then [] else [ARecvIdFail c]
                          | None => []
                          end ++
                          [AHRecvErr c; AHCheck c] ++
                          (if mem c (held_disp x) then [] else [AHDispatch c]) ++
                          [AHExitClose c; AHExitDone c; AHExitRemove c; AEnd c]))
              (seq 0 (length (conns (xs x)))) (xs x) in
  fold_left (fun s t => if mem t (held_stop x) then s else attempt fx s (AWait t))
            (seq 0 (length (stops s1))) s1.

Fixpoint settle_n (fx : fixes) (n : nat) (x : xstate) : xstate :=
  match n with
  | 0 => x
  | S n' => settle_n fx n' (mkX (pass fx x) (held_disp x) (held_stop x))
  end.

Definition settle (fx : fixes) (x : xstate) : xstate :=
  settle_n fx 4 x.

(* one step of a sending goroutine; [hold] = 1: stop at router.connected (before
   registerConnection), 2: stop at router.registered (before launchHandleRoutine) *)
Definition sender_step (fx : fixes) (dial_ok : bool) (hold : nat) (s : state) (t : nat) : option state :=
  match nth_error (senders s) t with
  | Some (NLookup _) => step fx s (ALookup t)
  | Some (NDial _ _) => step fx s (if dial_ok then ADialOk t else ADialFail t)
  | Some (NConnect _ c _) =>
      match nth_error (conns s) c with
      | Some k =>
          match setup k with
          | OSendId => step fx s (ASendIdOk c)
          | ORegister => if hold =? 1 then None else step fx s (ARegister c)
          | OLaunch => if hold =? 2 then None else step fx s (ALaunch c)
          | SetupOk | SetupErr => step fx s (AConnReturn t)
          | _ => None
          end
      | None => None
      end
  | Some (NSend _ c _) =>
      match nth_error (conns s) c with
      | Some k =>
          (* a write to a connection the peer has closed fails (in memory at once; on TCP the
             frame header draws a reset and the body write fails) *)
          step fx s (if lopen k && popen k then ASendOk t else ASendFail t)
      | None => None
      end
  | _ => None
  end.

Fixpoint sender_run (fx : fixes) (fuel : nat) (dial_ok : bool) (hold : nat) (s : state) (t : nat) : state :=
  match fuel with
  | 0 => s
  | S f => match sender_step fx dial_ok hold s t with
           | Some s' => sender_run fx f dial_ok hold s' t
           | None => s
           end
  end.

(* a released sender first passes the point it was held at *)
Definition sender_release (fx : fixes) (s : state) (t : nat) : state :=
  match nth_error (senders s) t with
  | Some (NConnect _ c _) => sender_run fx 40 true 0 (tries fx s [ARegister c; ALaunch c]) t
  | _ => s
  end.

Definition incoming_rest (fx : fixes) (s : state) (c : nat) : state :=
  tries fx s [ABegin c; ARecvIdOk c; ACheckPeer c true; ARegister c; ALaunch c].

Definition do_macro (fx : fixes) (tcp : bool) (x : xstate) (m : macro) : xstate :=
  let s := xs x in
  let keep s' := mkX s' (held_disp x) (held_stop x) in
  match m with
  | MSend p => let s1 := attempt fx s (ACallSend p) in keep (sender_run fx 40 true 0 s1 (length (senders s)))
  | MSendDead p => let s1 := attempt fx s (ACallSend p) in keep (sender_run fx 40 false 0 s1 (length (senders s)))
  | MSendHold p => let s1 := attempt fx s (ACallSend p) in keep (sender_run fx 40 true 1 s1 (length (senders s)))
  | MSendHoldReg p => let s1 := attempt fx s (ACallSend p) in keep (sender_run fx 40 true 2 s1 (length (senders s)))
  | MSendRelease t => keep (sender_release fx s t)
  | MIncoming p =>
      match step fx s (AIncoming p) with
      | Some s1 => keep (incoming_rest fx s1 (length (conns s)))
      | None => x
      end
  | MIncomingHold p =>
      match step fx s (AIncoming p) with
      | Some s1 => let c := length (conns s) in keep (tries fx s1 [ABegin c; ARecvIdOk c])
      | None => x
      end
  | MIncomingHoldAcc p => keep (attempt fx s (AIncoming p))
  | MIncomingSilent p => keep (tries fx s [AIncoming p; ABegin (length (conns s))])
  | MIncomingRelease c => keep (incoming_rest fx s c)
  | MSilentClose c => keep (tries fx s [if tcp then APeerClose c else APeerCloseBoth c; ARecvIdFail c])
  | MDeliver c m => keep (tries fx s [AHRecvMsg c m; AHCheck c])
  | MDeliverHold c m =>
      let s1 := tries fx s [AHRecvMsg c m; AHCheck c] in
      match nth_error (conns s1) c with
      | Some k => match hd k with
                  | HDisp _ => mkX s1 (c :: held_disp x) (held_stop x)
                  | _ => keep s1
                  end
      | None => keep s1
      end
  | MDeliverRelease c => mkX s (remove_nat c (held_disp x)) (held_stop x)
  | MStop =>
      let t := length (stops s) in
      keep (tries fx s [ACallStop; AHostStop t; ACloseAll t])
  | MStopHold =>
      let t := length (stops s) in
      mkX (tries fx s [ACallStop; AHostStop t; ACloseAll t]) (held_disp x) (t :: held_stop x)
  | MStopRelease t => mkX s (held_disp x) (remove_nat t (held_stop x))
  | MPeerClose c => keep (attempt fx s (if tcp then APeerClose c else APeerCloseBoth c))
  end.

Definition exec (fx : fixes) (tcp : bool) (ms : list macro) : state :=
  xs (fold_left (fun x m => settle fx (do_macro fx tcp x m)) ms (mkX init [] [])).

(* The same run, keeping two more things: the connection states at the instant the first
   Stop returns, and whether every script step referred to something that exists (a release
   of something that is not held, a delivery on a connection that was never made, ... make
   the case a mismatch instead of being skipped silently). *)
Definition conn_is (s : state) (c : nat) (f : spc -> bool) : bool :=
  match nth_error (conns s) c with Some k => f (setup k) | None => false end.

Definition macro_ok (x : xstate) (m : macro) : bool :=
  let s := xs x in
  match m with
  | MSendRelease t =>
      match nth_error (senders s) t with
      | Some (NConnect _ c _) => conn_is s c (fun x => match x with ORegister | OLaunch => true | _ => false end)
      | _ => false
      end
  | MIncomingRelease c => conn_is s c (fun x => match x with IAccept | ICheck => true | _ => false end)
  | MSilentClose c | MPeerClose c | MDeliver c _ | MDeliverHold c _ => conn_is s c (fun _ => true)
  | MDeliverRelease c => mem c (held_disp x)
  | MStopRelease t => mem t (held_stop x)
  | _ => true
  end.

Record xrun := mkR { rx : xstate; rsnap : option (list bool); rbad : bool }.

Definition run_step (fx : fixes) (tcp : bool) (r : xrun) (m : macro) : xrun :=
  let x' := settle fx (do_macro fx tcp (rx r) m) in
  mkR x'
      (match rsnap r with
       | Some l => Some l
       | None => if stop_returned (xs x') then Some (map lopen (conns (xs x'))) else None
       end)
      (rbad r || negb (macro_ok (rx r) m)).

Definition exec_full (fx : fixes) (tcp : bool) (ms : list macro) : xrun :=
  fold_left (run_step fx tcp) ms (mkR (mkX init [] []) None false).

(* ---- observations ----------------------------------------------------------- *)

Inductive ores := ROk | RErr | RPending.     (* RPending: the call had not returned at the deadline *)

Record robs := mkRobs {
  o_sends : list ores;            (* per Send call, in call order *)
  o_stops : list bool;            (* per Stop call: returned *)
  o_open : list bool;             (* per connection in creation order: this router's endpoint still open *)
  o_open_ret : list bool;         (* the same, sampled at the instant the first Stop call returned (before any
                                     settling), for the connections that existed then; [] if no Stop returned *)
  o_exempt_ret : list bool;       (* per sampled connection: its set-up thread was held by the harness before its
                                     first test of the closed flag (router.connected / router.accepted) *)
  o_disp : list (nat * nat);      (* (connection, message) in dispatch order *)
  o_late : nat;                   (* dispatches that started after a Stop call had returned *)
  o_inprogress : nat;             (* dispatches in progress at the instant a Stop call returned *)
  o_panic : bool;
  (* implementation-only facts *)
  o_goroutines : nat;             (* goroutines of this router still alive at the end *)
  o_rebind : bool }.              (* the listening address could be bound again *)

Definition ores_eqb (a b : ores) : bool :=
  match a, b with ROk, ROk | RErr, RErr | RPending, RPending => true | _, _ => false end.

Definition model_send (p : npc) : ores :=
  match p with NDone Ok => ROk | NDone Err => RErr | _ => RPending end.

Fixpoint list_eqb {A} (eqb : A -> A -> bool) (a b : list A) : bool :=
  match a, b with
  | [], [] => true
  | x :: a', y :: b' => eqb x y && list_eqb eqb a' b'
  | _, _ => false
  end.

Definition pair_eqb (a b : nat * nat) : bool := (fst a =? fst b) && (snd a =? snd b).

Definition agree_script (tcp : bool) (ms : list macro) (o : robs) : bool :=
  let r := exec_full (mkFx code_fixed_F11 code_fixed_F43) tcp ms in
  let s := xs (rx r) in
  negb (rbad r) &&
  list_eqb Bool.eqb (match rsnap r with Some l => l | None => [] end) (o_open_ret o) &&
  list_eqb ores_eqb (map model_send (senders s)) (o_sends o) &&
  list_eqb Bool.eqb (map stop_done (stops s)) (o_stops o) &&
  list_eqb Bool.eqb (map lopen (conns s)) (o_open o) &&
  list_eqb pair_eqb (dispatched s) (o_disp o) &&
  (late s =? o_late o) && Bool.eqb (crashed s) (o_panic o) &&
  (* c10_registered_closed_at_return: no handler is alive in a state in which a Stop has returned *)
  (o_inprogress o =? 0).

Definition count_true (l : list bool) : nat := length (filter (fun b => b) l).

(* predictions that hold for every schedule (RouterCloseProofs: no_crash, no_dispatch_after,
   sender_progress, stop_never_hangs, all_closed / all_closed_except_abandoned): nothing panics,
   nothing is dispatched late, every call returns; with the repair no connection stays open,
   without it at most one per failed send (two connection attempts each) and refused inbound *)
Definition agree_race (nin : nat) (o : robs) : bool :=
  negb (o_panic o) && (o_late o =? 0) && (o_inprogress o =? 0) &&
  forallb (fun r => negb (ores_eqb r RPending)) (o_sends o) && forallb (fun b => b) (o_stops o) &&
  (if code_fixed_F11 then count_true (o_open o) =? 0
   else count_true (o_open o) <=? 2 * length (filter (fun r => ores_eqb r RErr) (o_sends o)) + nin).

(* ---- server scripts --------------------------------------------------------- *)

Inductive smacro :=
| SFinish (j : nat)             (* the j-th instance on the target finishes (nodeDone) *)
| STimerFire (j : nat)          (* removal timer j fires; its goroutine is held at treestorage.timerFired *)
| STimerRelease (j : nat)       (* ... and is released *)
| SClose                        (* Server.Close, as far as it can run *)
| SNewInstance (tree : nat).    (* CreateProtocol on the target *)

Definition ctry (s : cstate) (a : caction) : cstate :=
  match cstep code_fixed_F41 code_fixed_F42 s a with Some s' => s' | None => s end.

Fixpoint ctries (s : cstate) (l : list caction) : cstate :=
  match l with [] => s | a :: r => ctries (ctry s a) r end.

(* Close goes on by itself: delete every instance, close the store, cancelled timers exit *)
Definition close_go (s : cstate) : cstate :=
  let s1 := ctries s [AKRouter; AKWebsocket] in
  let s2 := ctries s1 (repeat (AKDelete 0) (length (instances s1))) in
  let s3 := ctry s2 AKTsClose in
  let s4 := ctries s3 (map ATimerCancelled (seq 0 (length (timers s3)))) in
  ctries s4 [AKTsWait; AKDb].

Definition closing (s : cstate) : bool := match cpc s with KRouter => false | _ => true end.

Definition do_smacro (s : cstate) (m : smacro) : cstate :=
  match m with
  | SFinish j => ctry s (AInstDone j)
  | STimerFire j => ctry s (ATimerFire j)
  | STimerRelease j => let s1 := ctry s (ATimerDelete j) in if closing s1 then close_go s1 else s1
  | SClose => close_go s
  | SNewInstance tree => ctry s (ANewInstance tree)
  end.

Definition sexec (insts : list nat) (ms : list smacro) : cstate :=
  fold_left do_smacro ms (cinit insts).

Record sobs := mkSobs {
  s_returned : bool;              (* Server.Close returned *)
  s_instances : nat;              (* instances registered on the target at the end *)
  s_late : nat;                   (* handlers of the target started after Close had returned *)
  s_panic : bool;
  s_ops_pending : nat;            (* racing operations (sends, protocol starts, further closes) that did not return *)
  s_conns_open : nat;             (* connections of the closed server still open: its own endpoints at the instant
                                     Close returned + connections its peers still hold to it shortly after *)
  (* implementation-only facts *)
  s_goroutines : nat;             (* onet goroutines above the baseline after everything was closed *)
  s_ports : bool;                 (* both ports could be bound again *)
  s_db : bool }.                  (* the database file could be opened again *)

Definition agree_server (insts : list nat) (ms : list smacro) (o : sobs) : bool :=
  let s := sexec insts ms in
  Bool.eqb (match cpc s with KReturned => true | _ => false end) (s_returned o) &&
  (length (instances s) =? s_instances o) && Bool.eqb (tcrashed s) (s_panic o) &&
  (* c10_concurrent_close_final_state / c10_registered_closed_at_return: nothing stays open when Close has returned *)
  (negb (s_returned o) || (s_conns_open o =? 0)).

(* ---- overlapping Close() calls ------------------------------------------------ *)

(* k calls of Server.Close() released together on a started server with a temporary
   database (LocalTest): the observed results are compared with those of the run the
   deterministic scheduler of Net/CloseConc.v produces on the model of the code as it is
   (cta = false).  By c10_concurrent_close_results they are the same for every schedule. *)
Definition count_pc (f : kpc -> bool) (l : list kpc) : nat := length (filter f l).
Definition pc_ok (p : kpc) : bool := match p with KRet Ok => true | _ => false end.
Definition pc_err (p : kpc) : bool := match p with KRet Err => true | _ => false end.

Definition race_model (k n : nat) : kstate :=
  sched false true (mkFx code_fixed_F11 code_fixed_F43) (13 * k + 8) (kinit true init n k).

Definition agree_closerace (k n oks errs pending : nat) (o : sobs) : bool :=
  let s := race_model k n in
  (count_pc pc_ok (callers s) =? oks) && (count_pc pc_err (callers s) =? errs) &&
  (count_pc (fun p => negb (returned p)) (callers s) =? pending) &&
  Bool.eqb (forallb returned (callers s)) (s_returned o) &&
  (instances_k s =? s_instances o) && negb (s_panic o) && (negb (s_returned o) || (s_conns_open o =? 0)).

(* ---- a Send blocked in the socket write when Stop is called (TCP) ------------- *)

(* nok sends complete, the peer stops reading, one more Send blocks in the write, Stop is
   called: the observed results are those of the run of Net/SendClose.v (the code as it
   is: TCPConn.Close does not take sendMutex) on the same schedule *)
Definition wres (p : wpc) : ores := match p with WDone Ok => ROk | WDone Err => RErr | _ => RPending end.

Definition agree_blocked (nok : nat) (blocked : bool) (o : robs) : bool :=
  (* the schedule is the one observed: [blocked] = a Send was in flight when Stop was called and
     did not complete (it must then fail, released by Stop); otherwise every Send had completed
     before Stop closed the connection *)
  match wrun false winit (if blocked then blocked_schedule nok else unblocked_schedule nok) with
  | Some s =>
      list_eqb ores_eqb (map wres (writers s)) (o_sends o) &&
      list_eqb Bool.eqb [match stopper s with SRet => true | _ => false end] (o_stops o) &&
      negb (o_panic o) && (o_inprogress o =? 0) && (o_late o =? 0)
  | None => false
  end.

(* ---- a protocol start whose constructor is running when Close is called ------- *)

Definition agree_ctor_held (held start_ok : bool) (o : sobs) : bool :=
  (* [held] = observed: the constructor had been entered (the instance registered) and had not
     returned when Close was called; otherwise the start had completed before Close *)
  match orun false oinit (if held then ctor_held_schedule true else ctor_unheld_schedule) with
  | Some s =>
      (regs s =? s_instances o) &&
      Bool.eqb (if held then match nth_error (starts s) 0 with Some PBound => true | _ => false end
                else true (* PBind was taken on a registered instance: the start returned ok *)) start_ok &&
      Bool.eqb (match ocloser s with OClosed => true | _ => false end) (s_returned o) && negb (s_panic o) &&
      (negb (s_returned o) || (s_conns_open o =? 0))
  | None => false
  end.

(* ---- closing an in-memory connection whose peer does not read its backlog ------ *)

(* r messages were read by the peer before its handler blocked, n more were sent and stay
   unread (both numbers observed); Stop is called; then another user of the same in-memory
   manager makes a connection.  The observed results are those of the run of Net/LocalClose.v
   (the code as it is: the forwarder watches closeCh while it pushes; LocalMaxBuffer = 200) on
   that schedule: every Send returned Ok (the identity the router sends first is not among the
   observed sends), Stop returned, the other user got the manager's lock. *)
Definition lres (p : lspc) : ores := match p with LSDone Ok => ROk | LSDone Err => RErr | _ => RPending end.

Definition agree_backlog (r n : nat) (other_ok : bool) (o : robs) : bool :=
  match lrun false 200 linit (backlog_schedule 200 r n) with
  | Some s =>
      list_eqb ores_eqb (tl (map lres (lsenders s))) (o_sends o) &&
      list_eqb Bool.eqb [match closer s with LCRet Ok => true | _ => false end] (o_stops o) &&
      Bool.eqb (0 <? others s) other_ok &&
      negb (o_panic o) && (o_inprogress o =? 0) && (o_late o =? 0)
  | None => false
  end.

(* ---- cases ------------------------------------------------------------------ *)

Inductive case :=
| RouterScript (tcp : bool) (ms : list macro) (o : robs)
| RouterRace (tcp : bool) (nin : nat) (o : robs)
| ServerClose (insts : list nat) (ms : list smacro) (o : sobs)
| ServerCloseRace (k n oks errs pending : nat) (o : sobs)
| BlockedSend (nok : nat) (blocked : bool) (o : robs)
| CtorHeld (held start_ok : bool) (o : sobs)
| LocalBacklog (r n : nat) (other_ok : bool) (o : robs).

Definition agree (c : case) : bool :=
  match c with
  | RouterScript tcp ms o => agree_script tcp ms o
  | RouterRace _ nin o => agree_race nin o
  | ServerClose insts ms o => agree_server insts ms o
  | ServerCloseRace k n oks errs pending o => agree_closerace k n oks errs pending o
  | BlockedSend nok b o => agree_blocked nok b o
  | CtorHeld h ok o => agree_ctor_held h ok o
  | LocalBacklog r n ok o => agree_backlog r n ok o
  end.

Definition mismatches (l : list case) : list nat := mism_idx agree l.

(* ---- the property on the observation ---------------------------------------- *)
(* clause numbers
   1 a peer message was dispatched after close had returned
   2 a connection the server had opened or accepted is still open at the instant close returned
     (unless its set-up thread had not reached its first test of the closed flag), or after
     close returned and every racing operation ended
   3 goroutines of the closed server are left behind
   4 a listening port is not released
   5 the database file is not released
   6 a racing operation (send, inbound set-up, protocol start) neither completed nor failed: it hangs
   7 something panicked
   8 close itself did not return
   9 a protocol instance is left registered and running after close returned
   10 a receive goroutine was still dispatching a peer message when close returned *)
(* at the instant close returned a connection may only be open if its set-up thread had not
   yet reached its first test of the closed flag (a dial in progress cannot be closed by Stop) *)
Fixpoint open_only_exempt (op ex : list bool) : bool :=
  match op, ex with
  | [], _ => true
  | o :: op', e :: ex' => (negb o || e) && open_only_exempt op' ex'
  | o :: op', [] => negb o && open_only_exempt op' []
  end.

Definition check_router (o : robs) : list nat :=
  clause 1 (o_late o =? 0) ++
  clause 2 ((count_true (o_open o) =? 0) && open_only_exempt (o_open_ret o) (o_exempt_ret o)) ++
  clause 3 (o_goroutines o =? 0) ++
  clause 4 (o_rebind o) ++
  clause 6 (forallb (fun r => negb (ores_eqb r RPending)) (o_sends o)) ++
  clause 7 (negb (o_panic o)) ++
  clause 8 (forallb (fun b => b) (o_stops o)) ++
  clause 10 (o_inprogress o =? 0).

Definition check_server (o : sobs) : list nat :=
  clause 1 (s_late o =? 0) ++
  clause 2 (s_conns_open o =? 0) ++
  clause 3 (s_goroutines o =? 0) ++
  clause 4 (s_ports o) ++
  clause 5 (s_db o) ++
  clause 6 (s_ops_pending o =? 0) ++
  clause 7 (negb (s_panic o)) ++
  clause 8 (s_returned o) ++
  clause 9 (s_instances o =? 0).

Definition check (c : case) : list nat :=
  match c with
  | RouterScript _ _ o => check_router o
  | RouterRace _ _ o => check_router o
  | ServerClose _ _ o => check_server o
  | ServerCloseRace _ _ _ _ _ o => check_server o
  | BlockedSend _ _ o => check_router o
  | CtorHeld _ _ o => check_server o
  | LocalBacklog _ _ ok o => check_router o ++ clause 6 ok
  end.

Definition violations (l : list case) : list (nat * nat) := viols check l.
