(* C06 correspondence.  Keys are integers: the harness interns public keys to
   small "weights" and reports a stored aggregate key as the sum of the weights
   of the subtree after checking, with kyber, that the stored point is the node's
   key plus the children's stored aggregates (-1 when that fails).  [agree]
   compares the model (Tree/TreeMarshal.v, Overlay/TreeCtl.v instantiated at
   (Z, +)) with the observation; [check] evaluates the property itself on the
   observation. *)
From Coq Require Import List Arith Bool ZArith.
Import ListNotations.
From Onet Require Export Base.Corr Overlay.TreeCtl Overlay.TreeCtlRace Tree.TreeGenNary.

(* which repairs the code under /repo currently contains *)
Definition code_fixed_F06 := true.   (* proposed_fixes/C07-F06.diff *)
Definition code_fixed_F07 := true.   (* proposed_fixes/C07-F07.diff *)
Definition code_fixed_F08 := true.   (* proposed_fixes/C07-F08.diff *)
Definition code_fixed_N1 := true.    (* proposed_fixes/C06-N1.diff *)
Definition code_fixed_N2 := true.    (* proposed_fixes/C06-N2.diff *)
Definition code_fixed_N4 := true.    (* proposed_fixes/C06-N4.diff: test and store of a response in one critical section *)
Definition code_fixes : fixes := mkFx code_fixed_F06 code_fixed_F07 code_fixed_F08 code_fixed_N1 code_fixed_N2.

Notation zserver := (server Z).
Notation zroster := (roster Z).
Notation znode := (tnode Z).
Notation ztree := (stree Z).
Notation zout := (out Z).
Notation zop := (op Z).
Notation zst := (cst Z).

(* ---- observations ------------------------------------------------------------- *)

(* RErr cls: an error was returned; cls = 1 roster id differs, 2 description without nodes,
   3 a node on a non-member, 4 no roster given, 5 undecodable bytes / not a tree description /
   any other message, 6 not the binary form, 7 roster member without key.
   RBroken why: neither a result of the rebuild nor its refusal: 1 = the SENDER side failed
   (Marshal / BinaryMarshaler returned an error), 2 = nil tree returned without an error. *)
Inductive rres := ROk (t : ztree) (links goeq : bool) | RErr (cls : nat) | RCrash | RBroken (why : nat).
Inductive dec (A : Type) := DSome (a : A) | DNone | DCrash.
Arguments DSome {A} a.
Arguments DNone {A}.
Arguments DCrash {A}.

Inductive vobs := VOk (t : ztree) (links : bool) (ro : option zroster) (ids : list nat) | VMissing | VCrash.
Record view := mkView { v_node : nat; v_onroot : bool; v_obs : vobs }.

Record snap := mkSnap {
  sn_store : list (nat * option (option ztree));   (* per tree id of the universe *)
  sn_pend : list (nat * list tmarshal);            (* sorted by roster id *)
  sn_plock : bool;
  sn_insts : list nat;                             (* sorted *)
  sn_parked : list (nat * nat);
  sn_outs : list zout;                             (* what the peer received since the last snapshot *)
  sn_oc : outcome }.

Inductive case :=
| CRound (expect_wf : bool) (t : ztree) (ro : option zroster) (tm : tmarshal) (direct bytes binary : rres)
| CMake (tm : tmarshal) (ro : option zroster) (obs : rres)
| CBytes (d : dec tmarshal) (ro : option zroster) (obs : rres)
| CBinary (d : dec (dec tmarshal * option zroster)) (obs : rres)
| CProp (t : ztree) (views : list view)
| CHist (ops : list zop) (snaps : list snap)
| CRace (acts : list (ract Z)) (snaps : list snap)   (* histories with responses held between test and store *)
| CGen (N root : nat) (t : ztree)   (* the tree GenerateNaryTreeWithRoot(N, member root) returned *)
| CSetup (why : nat).      (* the implementation could not even produce the input: see clause 10 *)

(* ---- decidable equalities --------------------------------------------------------- *)

Fixpoint list_eqb {A} (e : A -> A -> bool) (a b : list A) : bool :=
  match a, b with
  | [], [] => true
  | x :: a', y :: b' => e x y && list_eqb e a' b'
  | _, _ => false
  end.

Definition opt_eqb {A} (e : A -> A -> bool) (a b : option A) : bool :=
  match a, b with
  | None, None => true
  | Some x, Some y => e x y
  | _, _ => false
  end.

Definition server_eqb (a b : zserver) : bool :=
  (s_id a =? s_id b) && Z.eqb (s_key a) (s_key b) && list_eqb Z.eqb (s_svc a) (s_svc b) &&
  Bool.eqb (s_nokey a) (s_nokey b).

Definition roster_eqb (a b : zroster) : bool :=
  (r_id a =? r_id b) && list_eqb server_eqb (r_list a) (r_list b).

Fixpoint node_eqb (a b : znode) : bool :=
  match a, b with
  | Node ia sa ra ga ca, Node ib sb rb gb cb =>
      (ia =? ib) && server_eqb sa sb && (ra =? rb) && opt_eqb Z.eqb ga gb &&
      (fix go (x y : list znode) : bool :=
         match x, y with
         | [], [] => true
         | p :: x', q :: y' => node_eqb p q && go x' y'
         | _, _ => false
         end) ca cb
  end.

Definition tree_eqb (a b : ztree) : bool :=
  (t_id a =? t_id b) && opt_eqb roster_eqb (t_ro a) (t_ro b) && node_eqb (t_root a) (t_root b).

Fixpoint tm_eqb (a b : tmarshal) : bool :=
  match a, b with
  | TM n1 t1 s1 r1 c1, TM n2 t2 s2 r2 c2 =>
      (n1 =? n2) && (t1 =? t2) && (s1 =? s2) && (r1 =? r2) &&
      (fix go (x y : list tmarshal) : bool :=
         match x, y with
         | [], [] => true
         | p :: x', q :: y' => tm_eqb p q && go x' y'
         | _, _ => false
         end) c1 c2
  end.

Definition out_eqb (a b : zout) : bool :=
  match a, b with
  | ORequestTree x, ORequestTree y => x =? y
  | OResponseTree m1 r1, OResponseTree m2 r2 => tm_eqb m1 m2 && opt_eqb roster_eqb r1 r2
  | OTreeMarshal m1, OTreeMarshal m2 => tm_eqb m1 m2
  | ORequestRoster x, ORequestRoster y => x =? y
  | ORoster r1, ORoster r2 => opt_eqb roster_eqb r1 r2
  | _, _ => false
  end.

Definition outcome_eqb (a b : outcome) : bool :=
  match a, b with
  | Fine, Fine | Crashed, Crashed | Blocked, Blocked => true
  | _, _ => false
  end.

Definition pair_eqb (a b : nat * nat) : bool := (fst a =? fst b) && (snd a =? snd b).

(* ---- model vs observation ------------------------------------------------------------ *)

Definition zmake := make_tree Z.add code_fixed_F06 code_fixed_N2.
Definition zfrom_bytes := from_bytes Z.add code_fixed_F06 code_fixed_N2.

Definition goeq_model (s t : ztree) : bool :=
  match go_tree_equal s t with Ok b => b | _ => false end.

(* which error the (repaired) code reports, in the order of its checks *)
(* the first failing lookup of the rebuild, in pre-order: 3 = no member carries the id,
   7 = the member found has no public key *)
Fixpoint rebuild_fail (l : list zserver) (m : tmarshal) : option nat :=
  match m with
  | TM _ _ sid _ ch =>
      match search_from l sid 0 with
      | None => Some 3
      | Some (_, e) =>
          if s_nokey e then Some 7 else
          (fix go (cs : list tmarshal) : option nat :=
             match cs with
             | [] => None
             | c :: r => match rebuild_fail l c with Some k => Some k | None => go r end
             end) ch
      end
  end.

Definition make_err_class (m : tmarshal) (oro : option zroster) : nat :=
  match oro with
  | None => 4
  | Some ro => if negb (r_id ro =? tm_rid m) then 1 else
               match tm_children m with
               | [] => 2
               | c :: _ => match rebuild_fail (r_list ro) c with Some k => k | None => 3 end
               end
  end.

Definition bytes_err_class (d : option tmarshal) (oro : option zroster) : nat :=
  match d with None => 5 | Some m => make_err_class m oro end.

Definition res_agrees (sender : option ztree) (cls : nat) (m : res ztree) (o : rres) : bool :=
  match m, o with
  | Ok t, ROk t' links goeq =>
      tree_eqb t t' && links &&
      match sender with Some s => Bool.eqb goeq (goeq_model s t) | None => true end
  | Err, RErr c => c =? cls
  | Crash, RCrash => true
  | _, _ => false
  end.

Definition dec_tm (d : dec tmarshal) (k : option tmarshal -> res ztree) : res ztree :=
  match d with
  | DSome m => k (Some m)
  | DNone => k None
  | DCrash => Crash
  end.

(* what a server that asked the holder of [t] for it ends up with *)
Definition learn (t : ztree) : option ztree :=
  match zmake (to_marshal t) (t_ro t) with
  | Ok t' => Some t'
  | _ => None
  end.

Definition view_agrees (t : ztree) (v : view) : bool :=
  match v_obs v with
  | VOk t' links ro ids =>
      match (if v_onroot v then Some t else learn t) with
      | Some e => tree_eqb e t' && links && opt_eqb roster_eqb (t_ro e) ro &&
                  list_eqb Nat.eqb (list_ids (t_root e)) ids
      | None => false
      end
  | _ => false
  end.

Definition count (k : nat) (l : list nat) : nat := length (filter (Nat.eqb k) l).
Definition same_multiset (a b : list nat) : bool :=
  (length a =? length b) && forallb (fun x => count x a =? count x b) a.

Definition store_ok (s : zst) (o : list (nat * option (option ztree))) : bool :=
  forallb (fun e => opt_eqb (opt_eqb tree_eqb) (lookup (c_store s) (fst e)) (snd e)) o.

Definition pend_ok (s : zst) (o : list (nat * list tmarshal)) : bool :=
  (length (c_pend s) =? length o) &&
  forallb (fun e => opt_eqb (list_eqb tm_eqb) (lookup (c_pend s) (fst e)) (Some (snd e))) o.

(* GetRoster returns the first matching roster in map iteration order: when several stored
   trees carry different rosters under the requested id, any of them may be sent *)
Definition stored_rosters (s : zst) (rid : nat) : list zroster :=
  flat_map (fun e => match entry_roster rid e with Some r => [r] | None => [] end) (c_store s).

Definition outs_agree (s0 : zst) (o : zop) (outs obs : list zout) : bool :=
  list_eqb out_eqb outs obs ||
  match o, outs, obs with
  | PRequestRoster rid _, [ORoster (Some _)], [ORoster (Some r')] => existsb (roster_eqb r') (stored_rosters s0 rid)
  | _, _, _ => false
  end.

Definition snap_ok (s0 : zst) (op : zop) (s : zst) (outs : list zout) (oc : outcome) (o : snap) : bool :=
  store_ok s (sn_store o) && pend_ok s (sn_pend o) && Bool.eqb (c_plock s) (sn_plock o) &&
  same_multiset (c_insts s) (sn_insts o) && list_eqb pair_eqb (c_parked s) (sn_parked o) &&
  outs_agree s0 op outs (sn_outs o) && outcome_eqb oc (sn_oc o).

(* the operations the observed one stands for: a bare description may have met any of the
   live instances' rosters carrying its roster id last (Go map iteration order) *)
Definition variants (s : zst) (o : zop) : list zop :=
  match o with
  | PTreeMarshal tm _ =>
      match inst_rosters s (c_insts s) (tm_rid tm) with
      | Ok l => map (PTreeMarshal tm) (seq 0 (Nat.max 1 (length l)))
      | _ => [o]
      end
  | _ => [o]
  end.

Fixpoint replay (s : zst) (ops : list zop) (obs : list snap) : bool :=
  match ops, obs with
  | [], [] => true
  | o :: ro, sn :: rs =>
      existsb (fun o' =>
        let '(s', outs, oc) := step Z.add code_fixes s o' in
        snap_ok s o' s' outs oc sn &&
        match oc with
        | Fine => replay s' ro rs
        | _ => match ro with [] => true | _ => false end     (* nothing runs after a crash *)
        end) (variants s o)
  | _, _ => false
  end.

(* the same for histories in which a response is held between its test and its store *)
Definition rvariants (r : rst Z) (a : ract Z) : list (ract Z) :=
  match a with
  | RSeq o => map RSeq (variants (r_base r) o)
  | _ => [a]
  end.

Definition as_op (a : ract Z) : zop :=
  match a with
  | RSeq o => o
  | RTest _ _ => LDone 0                 (* the test stores nothing: no clause of its own *)
  | RSet _ => PRequestTree 0 0           (* a peer's action without description: clauses 5, 8, 9 *)
  end.

Fixpoint rreplay (r : rst Z) (acts : list (ract Z)) (obs : list snap) : bool :=
  match acts, obs with
  | [], [] => true
  | a :: ra, sn :: rs =>
      existsb (fun a' =>
        let '(r', outs, oc) := rstep Z.add code_fixes code_fixed_N4 r a' in
        snap_ok (r_base r) (as_op a') (r_base r') outs oc sn &&
        match oc with
        | Fine => rreplay r' ra rs
        | _ => match ra with [] => true | _ => false end
        end) (rvariants r a)
  | _, _ => false
  end.

(* node and tree ids are hashes (C13): the generator's tree is compared up to them *)
Fixpoint zero_ids (n : znode) : znode :=
  match n with Node _ srv i g ch => Node 0 srv i g (map zero_ids ch) end.

Definition gen_agrees (N root : nat) (t : ztree) : bool :=
  match t_ro t with
  | None => false
  | Some ro =>
      match nary_tree Z.add (fun _ => 0) (t_id t) ro N root with
      | Some m => node_eqb (zero_ids (t_root m)) (zero_ids (t_root t))
      | None => false
      end
  end.

Definition agree (c : case) : bool :=
  match c with
  | CRound expect_wf t ro tm direct bytes binary =>
      (* a sender built by NewTree (also: NewTree, AddChild.., NewTree again) stores at every
         node what the model recomputes from the keys of the node's CURRENT subtree *)
      (negb expect_wf || node_eqb (with_aggs Z.add (t_root t)) (t_root t)) &&
      tm_eqb (to_marshal t) tm &&
      res_agrees (Some t) (make_err_class tm ro) (zmake tm ro) direct &&
      res_agrees (Some t) (make_err_class tm ro) (zfrom_bytes (Some tm) ro) bytes &&
      res_agrees (Some t) (make_err_class tm (t_ro t))
                 (binary_unmarshal Z.add code_fixed_F06 code_fixed_N2 (Some (Some tm, t_ro t))) binary
  | CMake tm ro obs => res_agrees None (make_err_class tm ro) (zmake tm ro) obs
  | CBytes d ro obs =>
      res_agrees None (bytes_err_class (match d with DSome m => Some m | _ => None end) ro)
                 (dec_tm d (fun m => zfrom_bytes m ro)) obs
  | CBinary d obs =>
      match d with
      | DSome (inner, oro) =>
          res_agrees None (bytes_err_class (match inner with DSome m => Some m | _ => None end) oro)
                     (dec_tm inner (fun m => zfrom_bytes m oro)) obs
      | DNone => res_agrees None 6 Err obs
      | DCrash => res_agrees None 0 Crash obs
      end
  | CProp t views => node_eqb (with_aggs Z.add (t_root t)) (t_root t) && forallb (view_agrees t) views
  | CHist ops snaps => replay init ops snaps
  | CRace acts snaps => rreplay rinit acts snaps
  | CGen N root t => gen_agrees N root t
  | CSetup _ => false
  end.

Definition mismatches (l : list case) : list nat := mism_idx agree l.

(* ---- the property on the observation ----------------------------------------------------- *)

Fixpoint nodupb (l : list nat) : bool :=
  match l with
  | [] => true
  | x :: r => negb (existsb (Nat.eqb x) r) && nodupb r
  end.

(* sum of the keys of a subtree, by the pre-order list (independent of agg_of) *)
Definition key_sum (n : znode) : Z := fold_right Z.add 0%Z (map (fun x => s_key (n_srv x)) (flat n)).

(* every node sits on the roster member recorded in it and stores its subtree's aggregate *)
Fixpoint node_wf (l : list zserver) (n : znode) : bool :=
  match n with
  | Node _ srv i g ch =>
      match nth_error l i with Some e => server_eqb e srv | None => false end &&
      negb (s_nokey srv) &&
      opt_eqb Z.eqb g (Some (key_sum n)) &&
      forallb (node_wf l) ch
  end.

(* the sender's tree is one the property speaks about: roster of pairwise distinct
   servers, nodes on the recorded positions, aggregates computed *)
Definition sender_wf (t : ztree) : bool :=
  match t_ro t with
  | Some ro => nodupb (map s_id (r_list ro)) && node_wf (r_list ro) (t_root t)
  | None => false
  end.

(* a description the receiver must refuse: roster id differs, no root element, or a node
   for whose server id the roster search finds no member, or a member without public key
   (no aggregate can be computed over it) *)
Fixpoint all_members (l : list zserver) (m : tmarshal) : bool :=
  match m with
  | TM _ _ sid _ ch =>
      match search_from l sid 0 with
      | Some (_, e) => negb (s_nokey e)
      | None => false
      end && forallb (all_members l) ch
  end.

Definition malformed (m : tmarshal) (ro : zroster) : bool :=
  negb (r_id ro =? tm_rid m) ||
  match tm_children m with
  | [] => true
  | c :: _ => negb (all_members (r_list ro) c)
  end.

(* the tree is the one the description describes: node ids, servers, children in order *)
Fixpoint node_matches (n : znode) (m : tmarshal) : bool :=
  match n, m with
  | Node id srv _ _ ch, TM nid _ sid _ mch =>
      (id =? nid) && (s_id srv =? sid) &&
      (fix go (x : list znode) (y : list tmarshal) : bool :=
         match x, y with
         | [], [] => true
         | p :: x', q :: y' => node_matches p q && go x' y'
         | _, _ => false
         end) ch mch
  end.

Definition describes (m : tmarshal) (ro : zroster) (t : ztree) : bool :=
  (t_id t =? tm_tid m) && opt_eqb roster_eqb (t_ro t) (Some ro) &&
  match tm_children m with
  | c :: _ => node_matches (t_root t) c && node_wf (r_list ro) (t_root t)
  | [] => false
  end.

(* clauses 2 and 3 for one rebuild *)
Definition check_make (m : option tmarshal) (oro : option zroster) (obs : rres) : list nat :=
  match oro with
  | None => []                                        (* a nil roster is the caller's error *)
  | Some ro =>
      match m with
      | None => clause 2 (match obs with RErr _ => true | _ => false end)
      | Some m =>
          if malformed m ro then clause 2 (match obs with RErr _ => true | _ => false end)
          else clause 3 (match obs with ROk t links _ => links && describes m ro t | _ => false end)
      end
  end.

Definition same_tree (t : ztree) (obs : rres) : bool :=
  match obs with ROk t' links _ => links && tree_eqb t t' | _ => false end.

Definition prev_store (p : option snap) (tid : nat) : option (option ztree) :=
  match p with
  | None => None
  | Some sn => match lookup (sn_store sn) tid with Some v => v | None => None end
  end.

Definition prev_pend (p : option snap) (rid : nat) : list tmarshal :=
  match p with
  | None => []
  | Some sn => match lookup (sn_pend sn) rid with Some l => l | None => [] end
  end.

Definition is_requested (v : option (option ztree)) : bool :=
  match v with Some None => true | _ => false end.

Definition is_present (v : option (option ztree)) : bool :=
  match v with Some (Some _) => true | _ => false end.
Definition is_absent (v : option (option ztree)) : bool :=
  match v with None => true | _ => false end.

Definition changed (p : option snap) (e : nat * option (option ztree)) : bool :=
  negb (opt_eqb (opt_eqb tree_eqb) (prev_store p (fst e)) (snd e)).

Definition unchanged_all (p : option snap) (n : snap) : bool :=
  forallb (fun e => negb (changed p e)) (sn_store n).

Definition stored_describes (n : snap) (m : tmarshal) (ro : zroster) : bool :=
  match lookup (sn_store n) (tm_tid m) with
  | Some (Some (Some t)) => describes m ro t
  | _ => false
  end.

(* "asked for" = a tree request for the id was actually SENT (the peer received it) and has
   not been answered since: the ids awaited after a step are those awaited before plus those
   whose request the peer received during the step, minus those that are no longer marked
   requested in the store (answered, released, or taken back) *)
Definition sent_requests (n : snap) : list nat :=
  flat_map (fun o => match o with ORequestTree t => [t] | _ => [] end) (sn_outs n).

Definition still_requested (n : snap) (tid : nat) : bool :=
  match lookup (sn_store n) tid with Some (Some None) => true | _ => false end.

Definition next_awaited (aw : list nat) (n : snap) : list nat :=
  filter (still_requested n) (aw ++ sent_requests n).

(* clauses 6 and 7: what the description carried by the message demands *)
Definition step_tail (aw : list nat) (p : option snap) (o : zop) (n : snap) : list nat :=
  match o with
  | PResponseTree (Some m) (Some ro) =>
      if malformed m ro || (tm_tid m =? 0)
      then clause 6 (outcome_eqb (sn_oc n) Fine && unchanged_all p n)
      else if is_requested (prev_store p (tm_tid m)) || mem (tm_tid m) aw
           then clause 7 (outcome_eqb (sn_oc n) Fine && stored_describes n m ro)
           else []
  | PResponseTree _ _ => clause 6 (outcome_eqb (sn_oc n) Fine && unchanged_all p n)
  | PTreeMarshal m _ =>
      match tm_children m with
      | [] => clause 6 (negb (outcome_eqb (sn_oc n) Crashed) && unchanged_all p n)
      | _ => []
      end
  | PRoster ro =>
      let pl := prev_pend p (r_id ro) in
      let good := filter (fun m => negb (malformed m ro)) pl in
      clause 6 (negb (outcome_eqb (sn_oc n) Crashed) &&
                forallb (fun e => negb (changed p e) || existsb (fun m => tm_tid m =? fst e) good) (sn_store n)) ++
      clause 7 (forallb (fun m => negb (is_requested (prev_store p (tm_tid m))) ||
                                  negb (outcome_eqb (sn_oc n) Fine) ||
                                  existsb (fun m' => (tm_tid m' =? tm_tid m) && stored_describes n m' ro) good) good)
  | _ => []
  end.

Definition check_step (aw : list nat) (p : option snap) (o : zop) (n : snap) : list nat :=
  if negb (is_peer o) then [] else
  (* 9: the id was marked requested, but no request for it had gone out (the send failed) *)
  clause 9 (forallb (fun e => negb (changed p e) || negb (is_requested (prev_store p (fst e))) || mem (fst e) aw)
                    (sn_store n)) ++
  (* 5 / 8: a peer message changes the stored value of an id only while that id is requested and
     not received: 5 = it replaced a tree that was present, 8 = it stored under an id that was absent *)
  clause 5 (forallb (fun e => negb (changed p e) || negb (is_present (prev_store p (fst e)))) (sn_store n)) ++
  clause 8 (forallb (fun e => negb (changed p e) || negb (is_absent (prev_store p (fst e)))) (sn_store n)) ++
  step_tail aw p o n.

Fixpoint check_hist (aw : list nat) (p : option snap) (ops : list zop) (snaps : list snap) : list nat :=
  match ops, snaps with
  | o :: ro, n :: rs => check_step aw p o n ++ check_hist (next_awaited aw n) (Some n) ro rs
  | _, _ => []
  end.

(* clause numbers:
   1 a well-formed tree does not come back equal (ids, structure, child order, roster
     positions, aggregates, parent links) from a rebuild against its own roster
   2 a malformed or mismatching description / undecodable bytes not rejected with an error
   3 an acceptable description rebuilt into a tree that is not the described one
   4 a server that learnt the tree from a peer sees another tree / roster / node list, or none
   5 a peer message replaced the tree stored under an id (the id was present, not awaited)
   8 a peer message stored a tree under an id that was absent (never asked for, or released)
   6 a malformed or mismatching description was stored or crashed the handler
   7 a requested tree, correctly described, was not stored as described
   9 a peer message stored a tree under an id that was marked requested although no request
     for it had been sent (the send failed: the server is asking nobody)
   10 the implementation did not produce the input of the case at all: a generator / NewTree
     gave no tree or a tree that is not well-formed where the construction demands one,
     MakeTreeMarshal panicked, Marshal / BinaryMarshaler failed, or a rebuild returned nil
     without an error *)
(* 11 the process running the servers ended (a panic in a goroutine of a server) or stopped
     answering while a tree was propagated / a history was driven *)
Definition broken (o : rres) : bool := match o with RBroken _ => true | _ => false end.

Definition check (c : case) : list nat :=
  match c with
  | CRound expect_wf t ro tm direct bytes binary =>
      clause 10 ((negb expect_wf || sender_wf t) && negb (broken direct || broken bytes || broken binary)) ++
      let own := match t_ro t, ro with Some a, Some b => roster_eqb a b | _, _ => false end in
      (* demanded when the sender's tree is well-formed, and also when its construction
         (NewTree / a generator over distinct keyed servers) obliges it to be *)
      (if sender_wf t || expect_wf then
         clause 1 ((negb own || (same_tree t direct && same_tree t bytes)) && same_tree t binary)
       else []) ++
      (if own && sender_wf t then [] else
         check_make (Some tm) ro direct ++ check_make (Some tm) ro bytes) ++
      (* a serialised form that lacks its roster must be refused, not dereferenced *)
      match t_ro t with
      | None => clause 2 (match binary with RErr _ => true | _ => false end)
      | Some _ => []
      end
  | CMake tm ro obs => clause 10 (negb (broken obs)) ++ check_make (Some tm) ro obs
  | CBytes d ro obs =>
      clause 10 (negb (broken obs)) ++
      match d with
      | DSome m => check_make (Some m) ro obs
      | _ => match ro with Some _ => clause 2 (match obs with RErr _ => true | _ => false end) | None => [] end
      end
  | CBinary d obs =>
      clause 10 (negb (broken obs)) ++
      match d with
      | DSome (DSome m, Some ro) => check_make (Some m) (Some ro) obs
      | _ => clause 2 (match obs with RErr _ => true | _ => false end)
      end
  | CProp t views =>
      clause 10 (sender_wf t) ++      (* propagation senders are always built by NewTree / a generator *)
        clause 4 (forallb (fun v => match v_obs v with
                                    | VOk t' links ro ids =>
                                        tree_eqb t t' && links && opt_eqb roster_eqb (t_ro t) ro &&
                                        list_eqb Nat.eqb (list_ids (t_root t)) ids
                                    | _ => false
                                    end) views)
  | CHist ops snaps => check_hist [] None ops snaps
  | CRace acts snaps => check_hist [] None (map as_op acts) snaps
  | CGen _ _ t => clause 10 (sender_wf t)
  | CSetup why => if why =? 6 then [11] else [10]
  end.

Definition violations (l : list case) : list (nat * nat) := viols check l.
