(* C03 correspondence: the wire model (Net/Frame.v, Net/Marshal.v) against what
   the implementation did, and the boolean checker of the property itself
   evaluated on the OBSERVATION.

   Byte strings come as chunk lists (Base/BytesC03.v).  Every case has a POOL of
   message buffers (type id ++ body).  For each pool entry the harness says
   whether its first 16 bytes are a registered type id ([reg]) and what
   go.dedis.ch/protobuf -- called directly, not through onet -- makes of the
   body ([DVal k]: a value whose canonical encoding is pool entry k, [DErr]: an
   error).  That table is the codec the model is instantiated with; message
   values are identified with the pool index of their canonical encoding. *)
From Coq Require Import List NArith Bool Arith.
From Coq Require Export Init.Byte.
From Onet Require Export Base.Corr Base.BytesC03 Net.Frame Net.Marshal.
From Onet Require Net.SendConc.
Import ListNotations.

(* which variant of the code the correspondence compares with; the integrator
   flips this when the fix commit for F04 (proposed_fixes/C03-F04.diff) lands *)
Definition code_fixed_F04 := true.

(* finding C03-N1 (a Send whose Write failed part-way leaves the connection
   usable): false = the code as it is; the integrator flips this when
   proposed_fixes/C03-N1.diff lands *)
Definition code_fixed_C03N1 := true.

Inductive dres := DVal (k : nat) | DErr.
Inductive pentry := PE (cs : list chunk) (reg : bool) (d : dres).

Inductive item :=
| IMsg (k : nat)             (* the value with encoding pool[k], sent with the real Send *)
| IFrame (k : nat)           (* size ++ pool[k] written raw *)
| IRaw (cs : list chunk).    (* arbitrary bytes written raw *)

Inductive level :=
| LConn      (* TCPConn.Send / TCPConn.Receive on a scripted net.Conn; the harness stops at the first transport error *)
| LRouter    (* Router.handleConn on a scripted net.Conn *)
| LTcp       (* two Routers over loopback TCP through the re-chunking proxy, incl. identity exchange *)
| LSend.     (* the sending side only: the receiving side of the scenario could not be set up *)

Inductive cev :=
| CMsg (k : nat) (size : N)  (* envelope, nil error: value = pool[k], Envelope.Size *)
| CBad (size : N)            (* envelope + Unmarshal error *)
| CTooBig                    (* nil envelope, error outside ErrTimeout/ErrClosed/ErrEOF/ErrUnknown *)
| CEnd                       (* nil envelope, one of those four *)
| COther.                    (* nil envelope and an error of no known class *)

Inductive dobs := DOValue (k : nat) | DOError | DOPanic.

Inductive cutspec :=
| Cuts (l : list N)      (* segment lengths; what remains is the last segment *)
| Every (k : N).         (* segments of k bytes each *)

Fixpoint cut_list (cuts : list N) (s : bytes) : list bytes :=
  match cuts with
  | [] => [s]
  | c :: r => takeN c s :: cut_list r (dropN c s)
  end.

Fixpoint cut_every (fuel : nat) (k : N) (s : bytes) : list bytes :=
  match fuel, s with
  | O, _ => [s]
  | _, [] => []
  | S f, _ => takeN k s :: cut_every f k (dropN k s)
  end.

Definition cut_segs (c : cutspec) (s : bytes) : list bytes :=
  match c with
  | Cuts l => cut_list l s
  | Every k => if (k =? 0)%N then [s] else cut_every (length s) k s
  end.

Inductive case :=
| CStream (lv : level) (limit : N) (ident : option nat) (pool : list pentry) (items : list item)
          (failat : option N)      (* injected: the sender's Write that crosses this wire offset writes up to it and fails *)
          (cuts : cutspec)         (* how the stream was cut into segments *)
          (wire : list chunk)      (* OBSERVED: the bytes the sending side put on the wire *)
          (sends : list bool)      (* OBSERVED: Send returned nil, per IMsg *)
          (evs : list cev)         (* OBSERVED at LConn: results of Receive *)
          (delivered : list nat)   (* OBSERVED at LRouter/LTcp: values handed to the processors *)
          (closed : bool)          (* OBSERVED: the receiver dropped the connection on its own *)
          (valeq : bool)           (* OBSERVED: every delivered value deep-equals (Go) the value sent, same dynamic type *)
          (tyeq : bool)            (* OBSERVED: every envelope's MsgType is the type id of the value it carries *)
          (crash : bool)           (* OBSERVED: a panic *)
          (hung : bool)            (* OBSERVED: the receiver neither finished the stream nor waits for input
                                      (no end within the deadline / a Receive loop that does not end) *)
| CDecode (pool : list pentry) (k : nat) (obs : dobs) (valeq tyeq : bool)   (* network.Unmarshal(pool[k]) *)
| CLocal (pool : list pentry) (items : list nat) (sends : list bool)
         (delivered : list nat) (valeq tyeq crash : bool)              (* LocalRouter pair *)
| CConc (pool : list pentry) (senders : list (list nat)) (sends : list bool)
        (limit : N)
        (owire : option (list chunk))   (* OBSERVED (scripted connection only): the bytes on the wire *)
        (delivered : list nat) (valeq tyeq crash : bool)               (* goroutines sending on ONE connection *)
| CTypeIds (ids : list (list chunk))   (* OBSERVED: the ids RegisterMessage gave to the harness's message types,
                                          pairwise different Go types (two of them differ in the package only) *)
| CStall (limit : N) (pool : list pentry) (items : list item) (cuts : cutspec)
         (stall : nat)            (* the peer stalls after this many segments for longer than the read
                                     timeout (the receiver's Read returns a timeout there), then continues *)
         (delivered : list nat) (closed crash hung : bool)   (* OBSERVED at LRouter *)
| CSeq (steps : list case).            (* cases executed one after the other in ONE fresh process
                                          (decoding with different suites in a given order) *)

(* ---- the codec table ------------------------------------------------------ *)

Definition pool_bytes (pool : list pentry) : list bytes :=
  map (fun e => match e with PE cs _ _ => expand [] cs end) pool.

Definition pe_reg (e : pentry) := match e with PE _ r _ => r end.
Definition pe_dres (e : pentry) := match e with PE _ _ d => d end.

Fixpoint find_idx (b : bytes) (pb : list bytes) (i : nat) : option nat :=
  match pb with
  | [] => None
  | x :: r => if bytes_eqb x b then Some i else find_idx b r (S i)
  end.

Fixpoint zip {A B} (a : list A) (b : list B) : list (A * B) :=
  match a, b with
  | x :: a', y :: b' => (x, y) :: zip a' b'
  | _, _ => []
  end.

(* registry.get: the id is that of a pool entry the harness knows to be registered *)
Definition t_registry (pool : list pentry) (pb : list bytes) (id : bytes) : option bytes :=
  if existsb (fun eb => pe_reg (fst eb) && bytes_eqb (takeN 16 (snd eb)) id) (zip pool pb)
  then Some id else None.

(* protobuf on (type, body): looked up in the table; a buffer the harness did
   not foresee decodes to the impossible index [length pool], which no
   observation can equal *)
Definition t_dec (pool : list pentry) (pb : list bytes) (id body : bytes) : option nat :=
  match find_idx (id ++ body) pb 0 with
  | Some k => match nth_error pool k with
              | Some (PE _ _ (DVal j)) => Some j
              | _ => None
              end
  | None => Some (length pool)
  end.

Definition payload (pb : list bytes) (k : nat) : bytes :=
  match nth_error pb k with Some b => b | None => [] end.

(* ---- model side ----------------------------------------------------------- *)

Definition model_wire (pb : list bytes) (items : list item) : bytes :=
  concat (map (fun it => match it with
                         | IMsg k | IFrame k => send_raw (payload pb k)
                         | IRaw cs => expand pb cs
                         end) items).

Section WithTable.
  Variables (pool : list pentry) (pb : list bytes).
  Let reg := t_registry pool pb.
  Let dec := t_dec pool pb.

  (* LConn: Receive until the first transport error *)
  Fixpoint conn_events (limit : N) (fuel : nat) (segs : list bytes) : list cev :=
    match fuel with
    | O => []
    | S f =>
        match receive reg dec limit segs with
        | RcvMsg _ v size rest => CMsg v size :: conn_events limit f rest
        | RcvBad _ size rest => CBad size :: conn_events limit f rest
        | RcvTooBig _ _ => [CTooBig]
        | RcvEnd _ => [CEnd]
        end
    end.

  Definition model_router (limit : N) (segs : list bytes) : list nat * bool :=
    let (d, x) := handle_all reg dec code_fixed_F04 limit segs in
    (map snd d, match x with FinClosed => true | _ => false end).

  Definition model_tcp (ident : option nat) (limit : N) (segs : list bytes) : list nat * bool :=
    let is_id := fun id => match ident with
                           | Some i => bytes_eqb id (takeN 16 (payload pb i))
                           | None => false
                           end in
    match accept_conn reg dec is_id code_fixed_F04 limit segs with
    | AcRejected => ([], true)
    | AcEnded _ => ([], false)
    | AcHandled _ d x => (map snd d, match x with FinClosed => true | _ => false end)
    end.

  Definition model_decode (k : nat) : dobs :=
    match unmarshal reg dec (payload pb k) with
    | UOk _ v => DOValue v
    | UErr _ => DOError
    end.

  Definition model_local (items : list nat) : list nat :=
    map snd (local_handle reg dec (map (payload pb) items)).
End WithTable.

(* a read timeout ends the connection (ErrTimeout: handleConn returns): what is
   dispatched is what the model receiver dispatches on the segments in front of
   the stall, nothing of what the peer sends afterwards is parsed *)
Definition model_stall (pool : list pentry) (limit : N) (items : list item) (cuts : cutspec) (stall : nat)
  : list nat :=
  let pb := pool_bytes pool in
  fst (model_router pool pb limit (firstn stall (cut_segs cuts (model_wire pb items)))).

Definition cev_eqb (a b : cev) : bool :=
  match a, b with
  | CMsg k s, CMsg k' s' => (k =? k') && (s =? s')%N
  | CBad s, CBad s' => (s =? s')%N
  | CTooBig, CTooBig => true
  | CEnd, CEnd => true
  | COther, COther => true
  | _, _ => false
  end.

Definition dobs_eqb (a b : dobs) : bool :=
  match a, b with
  | DOValue k, DOValue k' => k =? k'
  | DOError, DOError => true
  | DOPanic, DOPanic => true
  | _, _ => false
  end.

Definition nats_eqb := list_eqb Nat.eqb.

(* Concurrent Send calls on one connection are serialised by sendMutex: the
   wire is a merge of whole frames, so (c03_delivery) what arrives is a merge of
   the senders' sequences.  The harness gives every message a distinct value. *)
Fixpoint pop_head (x : nat) (ss : list (list nat)) : option (list (list nat)) :=
  match ss with
  | [] => None
  | [] :: r => option_map (cons []) (pop_head x r)
  | (y :: s) :: r => if x =? y then Some (s :: r) else option_map (cons (y :: s)) (pop_head x r)
  end.

Fixpoint is_merge (d : list nat) (ss : list (list nat)) : bool :=
  match d with
  | [] => forallb (fun s => match s with [] => true | _ => false end) ss
  | x :: d' => match pop_head x ss with
               | Some ss' => is_merge d' ss'
               | None => false
               end
  end.

(* The transition system of Net/SendConc.v (with the mutex) is run on the
   schedule read off the observation: the order in which the delivered values
   appeared says in which order the goroutines held the lock; each call is run
   as lock / marshal / header / one Write / finish / unlock.  The observation
   agrees with the model when that schedule is executable, every goroutine
   ends with nothing left to send, the bytes the model puts on the wire are the
   bytes observed (where they were captured), and the model receiver, fed the
   model's wire, dispatches exactly what was observed. *)
Fixpoint pop_idx (x : nat) (ss : list (list nat)) (i : nat) : option (nat * list (list nat)) :=
  match ss with
  | [] => None
  | [] :: r => option_map (fun p => (fst p, [] :: snd p)) (pop_idx x r (S i))
  | (y :: s) :: r =>
      if x =? y then Some (i, s :: r)
      else option_map (fun p => (fst p, (y :: s) :: snd p)) (pop_idx x r (S i))
  end.

Fixpoint order_of (d : list nat) (ss : list (list nat)) : option (list nat) :=
  match d with
  | [] => Some []
  | x :: d' => match pop_idx x ss 0 with
               | Some (i, ss') => option_map (cons i) (order_of d' ss')
               | None => None
               end
  end.

Fixpoint set_nth {A} (l : list A) (i : nat) (x : A) : list A :=
  match l, i with
  | [], _ => []
  | _ :: r, O => x :: r
  | y :: r, S j => y :: set_nth r j x
  end.

Fixpoint sched_of (pb : list bytes) (order : list nat) (ss : list (list nat))
  : list (nat * SendConc.act) :=
  match order with
  | [] => []
  | i :: r =>
      match nth_error ss i with
      | Some (k :: rest) =>
          SendConc.whole_send i (lenN (payload pb k)) ++ sched_of pb r (set_nth ss i rest)
      | _ => []
      end
  end.

Definition conc_agree (pool : list pentry) (senders : list (list nat)) (limit : N)
           (owire : option (list chunk)) (delivered : list nat) : bool :=
  let pb := pool_bytes pool in
  let vals := map (model_local pool pb) senders in
  list_eqb Nat.eqb (map (@length nat) vals) (map (@length nat) senders) &&
  match order_of delivered vals with
  | None => false
  | Some order =>
      let progs := fun i => match nth_error senders i with Some l => l | None => [] end in
      let msh := fun k : nat => Some (payload pb k) in
      match SendConc.run msh true code_fixed_C03N1 (sched_of pb order senders) (SendConc.init progs) with
      | None => false
      | Some s =>
          forallb (fun i => match SendConc.todo (SendConc.thr s i) with [] => true | _ => false end)
                  (seq 0 (length senders)) &&
          (match SendConc.holder s with None => true | Some _ => false end) &&
          (match owire with
           | Some w => bytes_eqb (expand pb w) (SendConc.wire s)
           | None => true
           end) &&
          (let (d, cl) := model_router pool pb limit [SendConc.wire s] in
           nats_eqb delivered d && negb cl)
      end
  end.

(* The sending side with an injected Write failure, as a run of Net/SendConc.v:
   ONE goroutine sends the buffers ks; the Write call that crosses wire offset
   [off] writes up to it and fails.  [pos] = bytes on the wire so far, [dead] =
   the connection has been closed by a failed Send (fix C03-N1 only). *)
Fixpoint fail_sched (fx : bool) (pb : list bytes) (ks : list nat) (pos : N) (f : option N) (dead : bool)
  : list (nat * SendConc.act) :=
  match ks with
  | [] => []
  | k :: r =>
      let lb := lenN (payload pb k) in
      if dead then
        [(0, SendConc.ALock); (0, SendConc.AMarshal); (0, SendConc.AHeaderFail 0%N); (0, SendConc.AUnlock)]
        ++ fail_sched fx pb r pos f dead
      else
        match f with
        | Some off =>
            if ((pos <=? off) && (off <? pos + 4 + lb))%N then
              let m := (off - pos)%N in
              (if (m <? 4)%N
               then [(0, SendConc.ALock); (0, SendConc.AMarshal); (0, SendConc.AHeaderFail m); (0, SendConc.AUnlock)]
               else [(0, SendConc.ALock); (0, SendConc.AMarshal); (0, SendConc.AHeader);
                     (0, SendConc.AWriteFail (m - 4)%N); (0, SendConc.AUnlock)])
              ++ fail_sched fx pb r (pos + m)%N None fx
            else SendConc.whole_send 0 lb ++ fail_sched fx pb r (pos + 4 + lb)%N f dead
        | None => SendConc.whole_send 0 lb ++ fail_sched fx pb r (pos + 4 + lb)%N f dead
        end
  end.

Definition msg_indices (items : list item) : option (list nat) :=
  fold_right (fun it acc => match it, acc with
                            | IMsg k, Some l => Some (k :: l)
                            | _, _ => None
                            end) (Some []) items.

Definition model_send_fail (pb : list bytes) (items : list item) (off : N) : option (bytes * list bool) :=
  match msg_indices items with
  | None => None                       (* failures are injected into streams of Send calls only *)
  | Some ks =>
      let progs := fun i => match i with O => ks | _ => [] end in
      let msh := fun k : nat => Some (payload pb k) in
      match SendConc.run msh true code_fixed_C03N1
              (fail_sched code_fixed_C03N1 pb ks 0 (Some off) false) (SendConc.init progs) with
      | Some s => Some (SendConc.wire s, map (@SendConc.c_ok nat) (SendConc.done s))
      | None => None
      end
  end.

Fixpoint nodup_bytes (l : list bytes) : bool :=
  match l with
  | [] => true
  | x :: r => negb (existsb (bytes_eqb x) r) && nodup_bytes r
  end.

(* type ids: the model's tid_of is injective on registered types (hypothesis
   [registered] of the value theorems, WireProofs.type_ids_distinct) *)
Definition typeids_ok (ids : list (list chunk)) : bool := nodup_bytes (map (expand []) ids).

Fixpoint agree (c : case) : bool :=
  match c with
  | CStream lv limit ident pool items failat cuts wire sends evs delivered closed _ _ crash hung =>
      let pb := pool_bytes pool in
      let w := expand pb wire in
      let segs := cut_segs cuts w in
      negb crash && negb hung &&
      match failat with
      | None =>
          bytes_eqb w (model_wire pb items) &&       (* sender: sendRaw wrote what [send_raw] says *)
          forallb (fun b => b) sends                  (* every Send reported success *)
      | Some off =>
          match model_send_fail pb items off with    (* sender: the run of Net/SendConc.v with that failure *)
          | Some (mw, ms) => bytes_eqb w mw && list_eqb Bool.eqb sends ms
          | None => false
          end
      end &&
      match lv with
      | LConn => list_eqb cev_eqb evs (conn_events pool pb limit (fuel_for segs) segs)
      | LRouter =>
          let (d, cl) := model_router pool pb limit segs in
          nats_eqb delivered d && Bool.eqb closed cl
      | LTcp =>
          let (d, cl) := model_tcp pool pb ident limit segs in
          nats_eqb delivered d && Bool.eqb closed cl
      | LSend => false   (* the receiving side could not be set up: never a silent pass *)
      end
  | CDecode pool k obs _ _ => dobs_eqb obs (model_decode pool (pool_bytes pool) k)
  | CLocal pool items sends delivered _ _ crash =>
      negb crash && forallb (fun b => b) sends &&
      nats_eqb delivered (model_local pool (pool_bytes pool) items)
  | CConc pool senders sends limit owire delivered _ _ crash =>
      negb crash && forallb (fun b => b) sends && conc_agree pool senders limit owire delivered
  | CTypeIds ids => typeids_ok ids
  | CStall limit pool items cuts stall delivered closed crash hung =>
      negb crash && negb hung && closed &&
      nats_eqb delivered (model_stall pool limit items cuts stall)
  | CSeq steps => (fix all (l : list case) : bool :=
                     match l with [] => true | x :: r => agree x && all r end) steps
  end.

Definition mismatches (l : list case) : list nat := mism_idx agree l.

(* ---- the property, checked on the observation --------------------------- *)

Inductive icls :=
| KLegit (j : nat)   (* a valid message within the limit; j = its value *)
| KRefused           (* a frame the receiver refuses: too large, unknown type, undecodable body, too short *)
| KGarbage.          (* bytes that are not a frame *)

Definition classify (limit : N) (pool : list pentry) (pb : list bytes) (it : item) : icls :=
  match it with
  | IRaw _ => KGarbage
  | IMsg k | IFrame k =>
      match nth_error pool k, nth_error pb k with
      | Some (PE _ true (DVal j)), Some b => if (lenN b <=? limit)%N then KLegit j else KRefused
      | _, _ => KRefused
      end
  end.

(* values of the legitimate messages in front of the first garbage *)
Fixpoint legit_all (cl : list icls) : list nat :=
  match cl with
  | [] => []
  | KLegit j :: r => j :: legit_all r
  | KRefused :: r => legit_all r
  | KGarbage :: _ => []
  end.

(* ... in front of the first refused frame or garbage *)
Fixpoint legit_pre (cl : list icls) : list nat :=
  match cl with
  | KLegit j :: r => j :: legit_pre r
  | _ => []
  end.

Definition conc_expected (pool : list pentry) (senders : list (list nat)) : list (list nat) :=
  let pb := pool_bytes pool in
  map (fun s => legit_all (map (fun k => classify 4294967295%N pool pb (IMsg k)) s)) senders.

Definition is_garbage c := match c with KGarbage => true | _ => false end.
Definition is_refused c := match c with KRefused => true | _ => false end.

Fixpoint prefixb (p l : list nat) : bool :=
  match p, l with
  | [], _ => true
  | x :: p', y :: l' => (x =? y) && prefixb p' l'
  | _ :: _, [] => false
  end.

(* is [s] a subsequence of [l] *)
Fixpoint subseqb (s l : list nat) : bool :=
  match s, l with
  | [], _ => true
  | _ :: _, [] => false
  | x :: s', y :: l' => if x =? y then subseqb s' l' else subseqb s l'
  end.

(* everything legitimate arrived, or a prefix of it and the connection was dropped *)
Definition wire_okb (expected d : list nat) (closed : bool) : bool :=
  nats_eqb d expected || (closed && prefixb d expected).

(* clause numbers:
   1 loss / duplication / reordering / alteration among the messages in front of
     any refused frame (on a stream of valid frames: anywhere)
   2 behind a refused frame something was dispatched that was not sent there
     (a mis-parsed frame, a duplicate, a swap)
   3 behind a refused frame a valid message was silently lost although the
     connection stayed up
   4 a delivered value is not equal to the value sent (Go-level deep equality, type, type id)
   5 a crash (panic) in the receiver or the decoder
   6 the decoder returned a value for bytes that do not form a valid message
   7 the decoder refused or altered a valid message
   8 a Send of a registered value returned an error (the harness never closes
     the sending side while it sends)
   9 an envelope's MsgType is not the type id of the value it carries
   10 two different registered Go types have the same type id
   11 after a frame abandoned on a read timeout (the peer stalled inside it) the
      connection was not closed, or something the peer sent afterwards was
      parsed from the middle of the abandoned frame and dispatched *)
(* a stream without garbage *)
Definition clean_clauses (cl : list icls) (d : list nat) (closed : bool) : list nat :=
  let e_all := legit_all cl in
  let e_pre := legit_pre cl in
  if negb (existsb is_refused cl) then clause 1 (nats_eqb d e_all)
  else if negb (prefixb e_pre d) then [1]
  else if wire_okb e_all d closed then []
  else if subseqb d e_all then [3] else [2].

Fixpoint before_garbage (cl : list icls) : list icls :=
  match cl with
  | [] => []
  | KGarbage :: _ => []
  | c :: r => c :: before_garbage r
  end.

Fixpoint after_garbage (cl : list icls) : list icls :=
  match cl with
  | [] => []
  | KGarbage :: r => r
  | _ :: r => after_garbage r
  end.

(* the values of all legitimate messages, whatever stands between them *)
Definition legit_values (cl : list icls) : list nat :=
  flat_map (fun c => match c with KLegit j => [j] | _ => [] end) cl.

Fixpoint splits (d : list nat) : list (list nat * list nat) :=
  ([], d) :: match d with
             | [] => []
             | x :: r => map (fun p => (x :: fst p, snd p)) (splits r)
             end.

Definition nilb (l : list nat) : bool := match l with [] => true | _ => false end.

(* With garbage in the stream: what was dispatched must split into a first
   part that satisfies the whole property for the items in front of the first
   garbage (the connection counting as closed only if nothing follows), and a
   second part that is a subsequence of the legitimate messages sent behind
   that garbage -- behind garbage the receiver may be out of step and lose
   messages, but it still may not invent, duplicate or reorder any. *)
Definition garbage_split_ok (cl : list icls) (closed : bool) (p : list nat * list nat) : bool :=
  match clean_clauses (before_garbage cl) (fst p) (closed && nilb (snd p)) with
  | [] => subseqb (snd p) (legit_values (after_garbage cl))
  | _ => false
  end.

Definition stream_clauses (cl : list icls) (d : list nat) (closed : bool) : list nat :=
  if existsb is_garbage cl then
    if existsb (garbage_split_ok cl closed) (splits d) then []
    else if negb (prefixb (legit_pre cl) d) then [1]
    else if subseqb d (legit_values cl) then [3] else [2]
  else clean_clauses cl d closed.

Definition conn_delivered (evs : list cev) : list nat :=
  flat_map (fun e => match e with CMsg k _ => [k] | _ => [] end) evs.

Definition conn_closed (evs : list cev) : bool :=
  existsb (fun e => match e with CTooBig => true | _ => false end) evs.

(* a message whose Send returned an error was not sent: it is not expected at
   the receiver (the error itself is clause 8).  [sends] has one flag per IMsg
   in order; missing flags (the sender crashed) count as sent *)
Fixpoint drop_failed (items : list item) (sends : list bool) : list item :=
  match items with
  | [] => []
  | IMsg k :: r =>
      match sends with
      | false :: s' => drop_failed r s'
      | true :: s' => IMsg k :: drop_failed r s'
      | [] => IMsg k :: r
      end
  | it :: r => it :: drop_failed r sends
  end.

Definition all_true (l : list bool) : bool := forallb (fun b => b) l.

Fixpoint check (c : case) : list nat :=
  match c with
  | CStream lv limit ident pool items failat cuts wire sends evs delivered closed valeq tyeq crash hung =>
      let pb := pool_bytes pool in
      let d := match lv with LConn => conn_delivered evs | _ => delivered end in
      let cls := match lv with LConn => conn_closed evs | _ => closed end in
      (* over TCP the first frame is the identity exchange, not a delivery; a
         connection that does not start with it only has to be survived *)
      let items' := match lv with
                    | LTcp => match ident, items with
                              | Some i, IMsg k :: r => if k =? i then Some r else None
                              | _, _ => None
                              end
                    | _ => Some items
                    end in
      (* with an injected Write failure the error of that Send (and, once the
         connection is closed by it, of later ones) is legitimate; what returned
         nil must still arrive: [drop_failed] *)
      clause 5 (negb crash) ++ clause 4 valeq ++ clause 9 tyeq ++
      clause 8 (match failat with None => all_true sends | Some _ => true end) ++
      match lv, items' with
      | LSend, _ => []
      | _, None => []
      | _, Some its => stream_clauses (map (classify limit pool pb) (drop_failed its sends)) d cls
      end
  | CDecode pool k obs valeq tyeq =>
      let valid := match nth_error pool k with
                   | Some (PE _ true (DVal j)) => Some j
                   | _ => None
                   end in
      match obs, valid with
      | DOPanic, _ => [5]
      | DOValue j', Some j => clause 7 (j =? j') ++ clause 4 valeq ++ clause 9 tyeq
      | DOValue _, None => [6]
      | DOError, Some _ => [7]
      | DOError, None => []
      end
  | CLocal pool items sends delivered valeq tyeq crash =>
      let pb := pool_bytes pool in
      let cl := map (classify 4294967295%N pool pb) (drop_failed (map IMsg items) sends) in
      clause 5 (negb crash) ++ clause 4 valeq ++ clause 9 tyeq ++ clause 8 (all_true sends) ++
      clause 1 (nats_eqb delivered (legit_all cl))
  | CConc pool senders sends _ _ delivered valeq tyeq crash =>
      clause 5 (negb crash) ++ clause 4 valeq ++ clause 9 tyeq ++ clause 8 (all_true sends) ++
      clause 1 (is_merge delivered (conc_expected pool senders))
  | CTypeIds ids => clause 10 (typeids_ok ids)
  | CStall limit pool items cuts stall delivered closed crash hung =>
      clause 5 (negb crash) ++
      clause 11 (closed && nats_eqb delivered (model_stall pool limit items cuts stall))
  | CSeq steps => (fix all (l : list case) : list nat :=
                     match l with [] => [] | x :: r => check x ++ all r end) steps
  end.

Definition violations (l : list case) : list (nat * nat) := viols check l.
