(* C02 correspondence: the model's run against what the harness observed on the
   real TreeNodeInstance, and the boolean checker of the property itself
   evaluated on the OBSERVATION. *)
From Coq Require Import List Arith Bool.
Import ListNotations.
From Onet Require Export Base.Corr Node.Instance Node.Obs.

(* which variant of the code the correspondence compares with; the integrator
   flips a flag when the corresponding fix commit lands in /repo *)
Definition code_fixed_F02 := true.
Definition code_fixed_F03 := true.
Definition code_variant : fixes := {| fix_f02 := code_fixed_F02; fix_f03 := code_fixed_F03 |}.

(* one scenario: a tree, the node position of each (fresh) instance, the
   injected messages in order (the harness's fences included, type 0), and
   what was observed: deliveries in order and how it ended *)
Record case := {
  k_tree : tree; k_insts : list nat; k_msgs : list inj;
  k_obs : list odeliv; k_final : ofinal }.

(* compact constructors for the generated literals *)
Definition I (inst : nat) (env : peer) (decl : option nat) (from : option nat) (other_tree : bool)
  (si : option nat) (ty payload : nat) : inj :=
  {| i_inst := inst; i_env := env; i_decl := decl;
     i_wire := {| w_from := from; w_from_other_tree := other_tree; w_si := si;
                  w_type := ty; w_payload := payload |} |}.
Definition E (n : onode) (payload : nat) : oelem := {| o_node := n; o_payload := payload |}.
Definition D (inst ty : nat) (agg : bool) (es : list oelem) : odeliv :=
  {| od_inst := inst; od_type := ty; od_agg := agg; od_elems := es |}.
Definition C (t : tree) (insts : list nat) (msgs : list inj) (obs : list odeliv) (fin : ofinal) : case :=
  {| k_tree := t; k_insts := insts; k_msgs := msgs; k_obs := obs; k_final := fin |}.

Definition config_of (c : case) : config :=
  {| c_tree := k_tree c; c_insts := k_insts c; c_regs := std_regs |}.

Definition agree (c : case) : bool :=
  agree_obs code_variant (config_of c) (k_msgs c) (k_obs c) (k_final c).
Definition mismatches (l : list case) : list nat := mism_idx agree l.

(* ---- the property on the observation ------------------------------------- *)

(* the injected message a delivered payload belongs to (payloads are unique
   and non-zero within a scenario) *)
Definition find_msg (l : list inj) (inst payload : nat) : option inj :=
  find (fun x => (i_inst x =? inst) && (w_payload (i_wire x) =? payload)) l.

(* claimed sender absent / not a node of the tree / hosted by another server
   than the envelope's peer (an identity without key hosts nothing) *)
Definition invalid_b (ns : list ninfo) (from : option nat) (env : peer) : bool :=
  match from with
  | None => true
  | Some id =>
      negb (existsb (fun n => n_id n =? id) ns) ||
      match env with
      | PNone => false
      | PNoKey => true
      | PKey k => negb (existsb (fun n => (n_id n =? id) && (n_srv n =? k)) ns)
      end
  end.

Definition peer_hosts (env : peer) (n : ninfo) : bool :=
  match env with
  | PNone => true           (* injected inside the process: no connection, nothing claimed *)
  | PNoKey => false
  | PKey k => k =? n_srv n
  end.

(* clause numbers:
   1 a handler / channel received an empty placeholder (nil node, zero message)
   2 the node handed over is not a node of the instance's tree
   3 the node handed over is hosted by another server than the peer of the
     connection the message arrived on
   4 a message whose claimed sender is absent, not in the tree or hosted by
     another server than the connection's peer was delivered
   5 the receiving process crashed on the message instead of refusing it
   6 a handler / channel received a (node, message) pair whose content matches no
     message injected to that instance: it cannot come from the member it names *)
Definition elem_clauses (ns : list ninfo) (msgs : list inj) (inst : nat) (e : oelem) : list nat :=
  match o_node e with
  | ONil => [1]
  | OForeign => [2]
  | OPos p =>
      match nth_error ns p with
      | None => [2]
      | Some n =>
          match find_msg msgs inst (o_payload e) with
          | None => [6]
          | Some x =>
              clause 3 (peer_hosts (i_env x) n) ++
              clause 4 (negb (invalid_b ns (w_from (i_wire x)) (i_env x)))
          end
      end
  end.

Definition check (c : case) : list nat :=
  let ns := nodes (k_tree c) in
  flat_map (fun d => flat_map (elem_clauses ns (k_msgs c) (od_inst d)) (od_elems d)) (k_obs c) ++
  clause 5 (negb (ofinal_eqb (k_final c) FCrashed)).

Definition violations (l : list case) : list (nat * nat) := viols check l.
