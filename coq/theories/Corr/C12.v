(* C12 correspondence: model vs implementation observation, and the verified
   boolean checker of the property evaluated on the OBSERVATION. *)
From Coq Require Import List Arith Bool Lia.
Import ListNotations.
From Onet Require Export Base.Corr Tree.Gen.

Inductive case :=
| CNary (n N : nat) (root : root_arg) (obs : gres) (ids : list nat) (links ridx : bool)
| CBinary (n : nat) (obs : gres) (ids : list nat) (links ridx : bool)
| CStar (n : nat) (obs : gres) (ids : list nat) (links ridx : bool)
| CBig (hosts : list nat) (N nodes : nat) (obs : gres) (ids : list nat) (links ridx : bool)
(* the callers: LocalTest.GenBigTree / GenTree (local.go), SimulationBFTree.CreateTree *)
| CLtBig (nodes servers bf : nat) (obs : gres) (ids : list nat) (links ridx : bool)
| CLtTree (n : nat) (obs : gres) (ids : list nat) (links ridx : bool)
| CSim (hosts : list nat) (bf nhosts : nat) (obs : gres) (ids : list nat) (links ridx : bool).

Definition pair_eqb (a b : nat * nat) := (fst a =? fst b) && (snd a =? snd b).

Fixpoint list_eqb {A} (e : A -> A -> bool) (a b : list A) : bool :=
  match a, b with
  | [], [] => true
  | x :: a', y :: b' => e x y && list_eqb e a' b'
  | _, _ => false
  end.

Definition gres_eqb (a b : gres) : bool :=
  match a, b with
  | GCrash, GCrash => true
  | GNone, GNone => true
  | GTree x, GTree y => list_eqb pair_eqb x y
  | _, _ => false
  end.

Definition model (c : case) : gres :=
  match c with
  | CNary n N root _ _ _ _ => gen_nary n N root
  | CBinary n _ _ _ _ => gen_binary n
  | CStar n _ _ _ _ => gen_star n
  | CBig hosts N nodes _ _ _ _ => gen_big hosts N nodes
  | CLtBig nodes servers bf _ _ _ _ => lt_gen_big_tree nodes servers bf
  | CLtTree n _ _ _ _ => lt_gen_tree n
  | CSim hosts bf nhosts _ _ _ _ => sim_create_tree hosts bf nhosts
  end.

Definition observed (c : case) : gres :=
  match c with
  | CNary _ _ _ o _ _ _ | CBinary _ o _ _ _ | CStar _ o _ _ _ | CBig _ _ _ o _ _ _
  | CLtBig _ _ _ o _ _ _ | CLtTree _ o _ _ _ | CSim _ _ _ o _ _ _ => o
  end.

Fixpoint depths (l : list (nat * nat)) (acc : list nat) : list nat :=
  match l with
  | [] => acc
  | (_, p) :: r => depths r (acc ++ [S (nth p acc 0)])
  end.

Definition level_sizes (l : list (nat * nat)) : list nat :=
  match l with
  | [] => []
  | _ :: r =>
      let ds := depths r [0] in
      let m := fold_right Nat.max 0 ds in
      map (fun d => count_occ Nat.eq_dec ds d) (seq 0 (S m))
  end.

Fixpoint nat_list_eqb (a b : list nat) : bool :=
  match a, b with
  | [], [] => true
  | x :: a', y :: b' => (x =? y) && nat_list_eqb a' b'
  | _, _ => false
  end.

(* the level sizes the model's loop records are those of the observed tree *)
Definition sizes_agree (hosts : list nat) (N nodes : nat) (obs : gres) : bool :=
  match obs with
  | GTree l =>
      match gen_big_sizes hosts N nodes with
      | Some sz => nat_list_eqb sz (level_sizes l)
      | None => false
      end
  | _ => true
  end.

Definition agree (c : case) : bool :=
  gres_eqb (model c) (observed c) &&
  match c with
  | CBig hosts N nodes obs _ _ _ => sizes_agree hosts N nodes obs
  | CLtBig nodes servers bf obs _ _ _ => sizes_agree (repeat 0 servers) bf nodes obs
  | CSim hosts bf nhosts obs _ _ _ => sizes_agree hosts bf nhosts obs
  | _ => true
  end.
Definition mismatches (l : list case) : list nat := mism_idx agree l.

(* ---- property checker on the observation -------------------------------- *)

Fixpoint nodupb (l : list nat) : bool :=
  match l with
  | [] => true
  | x :: r => negb (existsb (Nat.eqb x) r) && nodupb r
  end.

(* every level but the last is full *)
Fixpoint levels_full (N : nat) (prev : nat) (sizes : list nat) : bool :=
  match sizes with
  | [] => true
  | [c] => c <=? N * prev
  | c :: r => (c =? N * prev) && levels_full N c r
  end.

Definition big_levels_ok (N : nat) (l : list (nat * nat)) : bool :=
  match level_sizes l with
  | [] => false
  | c0 :: r => (c0 =? 1) && levels_full N 1 r
  end.

(* clause numbers:
   1 not a well-formed tree (parent links, breadth-first order, roster positions, <= N children)
   2 wrong number of nodes / not one node per roster member
   3 levels not filled breadth-first
   4 node count = roster size but some member unused (big generator)
   5 two nodes on DIFFERENT servers share a node identifier
   6 node identifiers repeat because a server occupies several nodes
   7 root is not the requested root
   8 a root outside the roster yields a tree (or a crash)
   9 crash / nil on a legal input *)
Definition ids_clauses (l : list (nat * nat)) (ids : list nat) : list nat :=
  if negb (length ids =? length l) then [1] else
  if nodupb ids then [] else
  if nodupb (map fst l) then [5] else [6].

Definition check_nary (n N r : nat) (obs : gres) (ids : list nat) (links ridx : bool) : list nat :=
  match obs with
  | GTree l =>
      clause 1 (wf_tree n N l && links && ridx) ++
      clause 2 (is_perm_of_roster n l) ++
      clause 3 (complete_nary N l) ++
      clause 7 (match l with (r0, _) :: _ => r0 =? r | [] => false end) ++
      ids_clauses l ids
  | _ => [9]
  end.

Definition check_big (hosts : list nat) (N nodes : nat) (obs : gres) (ids : list nat)
    (links ridx : bool) : list nat :=
  let n := length hosts in
  if (N =? 0) || (n =? 0) || (nodes =? 0) then [] else
  match obs with
  | GTree l =>
      clause 1 (wf_tree n N l && links && ridx) ++
      clause 2 (length l =? nodes) ++
      clause 3 (big_levels_ok N l) ++
      clause 4 (negb (nodes =? n) || is_perm_of_roster n l) ++
      clause 7 (match l with (0, _) :: _ => true | _ => false end) ++
      ids_clauses l ids
  | _ => [9]
  end.

Definition check (c : case) : list nat :=
  match c with
  | CNary n N root obs ids links ridx =>
      if (N =? 0) || (n =? 0) then [] else
      match root with
      | RNil => check_nary n N 0 obs ids links ridx
      | RIdx k => if k <? n then check_nary n N k obs ids links ridx
                  else clause 8 (gres_eqb obs GNone)
      | RForeign => clause 8 (gres_eqb obs GNone)
      end
  | CBinary n obs ids links ridx =>
      if n =? 0 then [] else check_nary n 2 0 obs ids links ridx
  | CStar n obs ids links ridx =>
      if n <=? 1 then (match obs with GTree [(0, 0)] => [] | _ => [9] end)
      else check_nary n (n - 1) 0 obs ids links ridx ++
           match obs with
           | GTree (_ :: r) => clause 3 (forallb (fun e => snd e =? 0) r)
           | _ => []
           end
  | CBig hosts N nodes obs ids links ridx => check_big hosts N nodes obs ids links ridx
  | CLtBig nodes servers bf obs ids links ridx =>
      check_big (repeat 0 servers) bf nodes obs ids links ridx
  | CLtTree n obs ids links ridx =>
      if n =? 0 then [] else check_nary n 2 0 obs ids links ridx
  | CSim hosts bf nhosts obs ids links ridx => check_big hosts bf nhosts obs ids links ridx
  end.

Definition violations (l : list case) : list (nat * nat) := viols check l.
