(* C05 correspondence: trace validation of the implementation's stamped events
   against the dispatch transition system, and the property checker evaluated
   on the observed trace itself. *)
From Coq Require Import List Arith Bool Lia.
Import ListNotations.
From Onet Require Export Base.Corr Node.Dispatch.

Record case := mkCase {
  ninst : nat;                 (* instances observed on the receiving server *)
  events : list oevent;        (* in the order of the global stamp counter *)
  must_complete : list nat;    (* instances whose every accepted message must have run at the end *)
  blocked : option nat;        (* instance whose handler blocks until the ORelease marker *)
  sent : list nat }.           (* per instance: messages sent to it before the ORelease marker *)

(* the model accepts the trace: some run of the transition system has exactly
   these visible events *)
Definition agree (c : case) : bool :=
  match explain (init (ninst c)) (events c) with
  | Some s => forallb (fun c => negb (crashed c)) s
  | None => false
  end.

Definition mismatches (l : list case) : list nat := mism_idx agree l.

(* ---- property checker on the observed trace ------------------------------ *)

Definition kind_eqb (a b : okind) : bool :=
  match a, b with
  | OAccept, OAccept | OStart, OStart | OEnd, OEnd | OClose, OClose | ORelease, ORelease => true
  | _, _ => false
  end.

Definition msgs_of (i : nat) (k : okind) (evs : list oevent) : list nat :=
  map (fun e => snd e)
      (filter (fun e => match e with (j, k', _) => (j =? i) && kind_eqb k' k end) evs).

(* handler runs of instance i never overlap: Start m, End m, Start m', End m', ... *)
Fixpoint alternates (i : nat) (cur : option nat) (evs : list oevent) : bool :=
  match evs with
  | [] => true
  | (j, k, m) :: r =>
      if j =? i then
        match k, cur with
        | OStart, None => alternates i (Some m) r
        | OStart, Some _ => false
        | OEnd, Some m' => (m' =? m) && alternates i None r
        | OEnd, None => false
        | _, _ => alternates i cur r
        end
      else alternates i cur r
  end.

Fixpoint prefixb (a b : list nat) : bool :=
  match a, b with
  | [], _ => true
  | x :: a', y :: b' => (x =? y) && prefixb a' b'
  | _ :: _, [] => false
  end.

Fixpoint eql (a b : list nat) : bool :=
  match a, b with
  | [], [] => true
  | x :: a', y :: b' => (x =? y) && eql a' b'
  | _, _ => false
  end.

Fixpoint before_release (evs : list oevent) : list oevent :=
  match evs with
  | [] => []
  | (_, ORelease, _) :: _ => []
  | e :: r => e :: before_release r
  end.

Definition has_release (evs : list oevent) : bool :=
  existsb (fun e => match e with (_, ORelease, _) => true | _ => false end) evs.

(* clause numbers
   1 two handler runs of one instance overlap (or an End without its Start)
   2 handlers of an instance did not start in acceptance order
   3 an accepted message of a live instance was never run
   4 while one instance's handler was blocked, another instance did not get its messages *)
Definition check (c : case) : list nat :=
  let evs := events c in
  let insts := seq 0 (ninst c) in
  clause 1 (forallb (fun i => alternates i None evs) insts) ++
  clause 2 (forallb (fun i => prefixb (msgs_of i OStart evs) (msgs_of i OAccept evs)) insts) ++
  clause 3 (forallb (fun i => eql (msgs_of i OStart evs) (msgs_of i OAccept evs) &&
                              eql (msgs_of i OEnd evs) (msgs_of i OStart evs)) (must_complete c)) ++
  match blocked c with
  | None => []
  | Some b =>
      let pre := before_release evs in
      clause 4 (has_release evs &&
                forallb (fun i => (i =? b) ||
                                  (eql (msgs_of i OEnd pre) (msgs_of i OAccept pre) &&
                                   (* ... and it got every message sent to it meanwhile *)
                                   (length (msgs_of i OEnd pre) =? nth i (sent c) 0))) insts)
  end.

Definition violations (l : list case) : list (nat * nat) := viols check l.
