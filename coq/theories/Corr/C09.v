(* C09 correspondence.
   CScript : the REAL Router driven over a scripted Host (every dial result, write result and
             Receive result chosen by the harness); full snapshots after every operation
             (ordered connection table by connection number, handler calls, deliveries, closed
             connections) are compared with the transition system of Net/C09Router.v run on the
             same operations.
   CReal   : routers on the in-memory and TCP transports, peers killed / restarted at controlled
             moments; the same operations, projected to counts.
   CClassify : real error values through handleError and through handleConn.
   CEntry  : every send entry point of onet servers with some destinations down.
   CCluster: protocol runs (sub-process), canaries on the survivors.
   [check] is the property itself evaluated on the observation. *)
From Coq Require Import List Arith Bool.
Import ListNotations.
From Onet Require Export Base.Corr Net.C09Router.

(* the variant of context.go the correspondence compares with; flipped when the fix lands *)
Definition code_fixed_F10 := true.
(* the variant of router.go (connection refused by registerConnection / launchHandleRoutine is
   closed or abandoned) the real-transport cases compare with; flipped when the fix lands *)
Definition code_fixed_F11 := true.
(* the variant of treenode.go SendTo (configuration marked as sent before / after the send) *)
Definition code_fixed_N1 := false.
(* overlay.go: an unanswered tree request is retried (C09-N2) *)
Definition code_fixed_N2 := false.
(* network/local.go: send / close under back-pressure (C09-N3) *)
Definition code_fixed_C09N3 := true.
(* network/tcp.go receiveRawProd arms the read deadline before the header read (the tree does) *)
Definition code_arms_header := true.

(* ---- operations of the harness ------------------------------------------- *)

Inductive op :=
| OSend (p : nat) (msgs : list nat) (buf : bool)       (* S.Send(p, msgs...) to completion *)
| OSendHold (p : nat) (msgs : list nat) (buf : bool)   (* S.Send held between identity send and registerConnection *)
| OResume (buf : bool)                                 (* the held Send continues to completion *)
| OPeerSend (p m : nat)                                (* real transports: p's router sends m to S *)
| OIncoming (p : nat)                                  (* scripted: p dials S, identity arrives, handleConn launched *)
| OIncomingFail (p : nat)                              (* scripted: p dials S and dies before its identity arrives *)
| OCrash (p : nat)
| OCrashSending (p : nat) (seen : bool)                (* real transports: p is stopped and, after its closed flag is set,
                                                          one of its goroutines still sends to S; [seen]: the identity
                                                          of that dial reached S before the connection went away *)
| OAbandonedDial (p : nat) (closes : bool)             (* scripted: the dead p's last dial reaches S; identity arrives;
                                                          p never uses the connection, closes it or not *)
| ORestart (p : nat)
| OStopOld (p : nat)                                   (* real transports: Stop is called once more on an old, already
                                                          stopped incarnation of p (Server.Close does that) *)
| ORecvErr (c : nat) (e : ecls)                        (* scripted: Receive on connection c returns an error *)
| ORecvMsg (c m : nat)                                 (* scripted: a message arrives on connection c *)
| OHold (h : nat)                                      (* handler h blocks inside its next call *)
| ORelease
| OCloseRouter.

Record xstate := mkX {
  st : state;
  held : option nat;          (* thread stopped before registerConnection *)
  armed : option nat;
  blocked : option nat;       (* connection whose loop is inside the blocking handler *)
  auto : bool;                (* real transports: dead connections are noticed before the next operation *)
  npeers : nat;
  hreent : bool;
  hbuf : bool }.              (* TCP: the kernel takes the write of a re-entrant handler's Send to the dead connection *)             (* error handler 0 is re-entrant: it calls Send(lost peer) on its own router *)

Definition with_st (x : xstate) (s : state) : xstate :=
  mkX s (held x) (armed x) (blocked x) (auto x) (npeers x) (hreent x) (hbuf x).

Definition loop_of (s : state) (c : nat) : option lstate :=
  match conns s c with Some x => Some (loop x) | None => None end.

(* handler calls and the deferred part of one handleConn; stops inside the armed handler *)
Fixpoint drive (fuel : nat) (x : xstate) (c : nat) : xstate :=
  match fuel with
  | 0 => x
  | S f =>
      match loop_of (st x) c with
      | Some (LTrig k) =>
          if k <? nh (st x) then
            match step (st x) (ATrigger c) with
            | Some s0 =>
                (* a re-entrant handler 0 sends one message to the peer it was told, from inside the call *)
                let s' := if hreent x && (k =? 0) then
                            match conns s0 c with
                            | Some y => fst (send_call s0 (cpeer y) [4000 + length (calls s0)] (hbuf x))
                            | None => s0
                            end
                          else s0 in
                if match armed x with Some h => h =? k | None => false end
                then mkX s' (held x) None (Some c) (auto x) (npeers x) (hreent x) (hbuf x)
                else drive f (with_st x s') c
            | None => x
            end
          else match step (st x) (AExit c) with Some s' => with_st x s' | None => x end
      | Some LQuit => match step (st x) (AExit c) with Some s' => with_st x s' | None => x end
      | _ => x
      end
  end.

Definition recv_err (x : xstate) (c : nat) (e : ecls) : xstate * bool :=
  match step (st x) (ARecvErr c e) with
  | Some s' => (drive (nh (st x) + 2) (with_st x s') c, false)
  | None => (x, true)
  end.

(* real transports: every launched loop whose connection is dead or closed returns from Receive *)
Definition needs_exit (s : state) (c : nat) : bool :=
  match conns s c with
  | Some x => match loop x with
              | LRun => negb (alive x) || lclosed x
              | _ => false
              end
  | None => false
  end.

Definition settle_conns (x : xstate) (cs : list nat) : xstate :=
  fold_left (fun x c => if needs_exit (st x) c then fst (recv_err x c EClosed) else x) cs x.

Definition settle (x : xstate) : xstate :=
  if auto x then
    fold_left (fun x p => settle_conns x (table (st x) p)) (seq 0 (npeers x)) x
  else x.

Fixpoint run_until_reg (fuel : nat) (s : state) (t : nat) (oracle : bool) : state :=
  match fuel with
  | 0 => s
  | S f =>
      match threads s t with
      | Some th =>
          match tpc th with
          | PReg _ _ | PDone _ => s
          | _ => match thread_step s t oracle with
                 | Some s' => run_until_reg f s' t oracle
                 | None => s
                 end
          end
      | None => s
      end
  end.

(* per-message oracle: [os] says, for the k-th message of the call, whether the kernel takes a write to a
   dead peer (a TCP write after the FIN succeeds, after the RST it fails: both happen inside one call) *)
Definition oracle_at (os : list bool) (k : nat) : bool :=
  match nth_error os k with Some b => b | None => false end.

Definition msg_index (s : state) (t n0 : nat) : nat :=
  match threads s t with Some th => n0 - length (tmsgs th) | None => 0 end.

Fixpoint run_thread_o (fuel : nat) (s : state) (t n0 : nat) (os : list bool) : state :=
  match fuel with
  | 0 => s
  | S f => match thread_step s t (oracle_at os (msg_index s t n0)) with
           | None => s
           | Some s' => run_thread_o f s' t n0 os
           end
  end.

Fixpoint run_until_reg_o (fuel : nat) (s : state) (t n0 : nat) (os : list bool) : state :=
  match fuel with
  | 0 => s
  | S f =>
      match threads s t with
      | Some th =>
          match tpc th with
          | PReg _ _ | PDone _ => s
          | _ => match thread_step s t (oracle_at os (msg_index s t n0)) with
                 | Some s' => run_until_reg_o f s' t n0 os
                 | None => s
                 end
          end
      | None => s
      end
  end.

Definition res_bool (r : option res) : option bool :=
  match r with Some ROk => Some true | Some RErr => Some false | None => None end.

(* a live, launched, registered connection with p (the one p's router would use) *)
Definition live_conn (s : state) (p : nat) : option nat :=
  find (fun c => match conns s c with
                 | Some x => (cpeer x =? p) && alive x && negb (lclosed x) && negb (sink x) &&
                             match loop x with LRun => true | _ => false end
                 | None => false
                 end) (table s p).

(* result of one operation: new state, result of a send that returned, skipped? *)
Definition exec_o (ov : option (list bool)) (x0 : xstate) (o : op) : xstate * option bool * bool :=
  (* the last bit of a given oracle list is the one of the handlers' own Sends during this operation *)
  let x := mkX (st x0) (held x0) (armed x0) (blocked x0) (auto x0) (npeers x0) (hreent x0)
               (match ov with Some l => hreent x0 && last l false | None => false end) in
  let s := st x in
  let orc buf n := match ov with Some l => l | None => repeat buf n end in
  match o with
  | OSend p msgs buf =>
      match step s (ASpawn p msgs) with
      | Some s1 =>
          let s2 := run_thread_o (send_fuel msgs) s1 (nextt s) (length msgs) (orc buf (length msgs)) in
          (settle (with_st x s2), res_bool (result s2 (nextt s)), false)
      | None => (x, None, true)
      end
  | OSendHold p msgs buf =>
      match held x with
      | Some _ => (x, None, true)
      | None =>
          match step s (ASpawn p msgs) with
          | Some s1 =>
              let t := nextt s in
              let s2 := run_until_reg_o (send_fuel msgs) s1 t (length msgs) (orc buf (length msgs)) in
              match result s2 t with
              | Some r => (settle (with_st x s2), res_bool (Some r), false)
              | None => (mkX s2 (Some t) (armed x) (blocked x) (auto x) (npeers x) (hreent x) (hbuf x), None, false)
              end
          | None => (x, None, true)
          end
      end
  | OResume buf =>
      match held x with
      | Some t =>
          let msgs := match threads s t with Some th => tmsgs th | None => [] end in
          let s2 := run_thread_o (send_fuel msgs) s t (length msgs) (orc buf (length msgs)) in
          (settle (mkX s2 None (armed x) (blocked x) (auto x) (npeers x) (hreent x) (hbuf x)), res_bool (result s2 t), false)
      | None => (x, None, true)
      end
  | OPeerSend p m =>
      let held_for_p := match held x with
                        | Some t => match threads s t with Some th => tpeer th =? p | None => false end
                        | None => false
                        end in
      (* while a Send to p is held before registerConnection, p's router would pick that
         half-registered connection: the harness does not send then *)
      if listening s p && negb held_for_p then
        match live_conn s p with
        | Some c => match step s (ARecvMsg c m) with
                    | Some s' => (settle (with_st x s'), None, false)
                    | None => (x, None, true)
                    end
        | None =>
            match step s (AAccept p) with
            | Some s1 =>
                let c := nextc s in
                match step s1 (ALaunchInc c) with
                | Some s2 => match step s2 (ARecvMsg c m) with
                             | Some s3 => (settle (with_st x s3), None, false)
                             | None => (settle (with_st x s2), None, false)
                             end
                | None => (settle (with_st x s1), None, false)
                end
            | None => (x, None, true)
            end
        end
      else (x, None, true)
  | OIncoming p =>
      match step s (AAccept p) with
      | Some s1 =>
          match step s1 (ALaunchInc (nextc s)) with
          | Some s2 => (settle (with_st x s2), None, false)
          | None => (settle (with_st x s1), None, false)
          end
      | None => (x, None, true)
      end
  | OIncomingFail p =>
      match step s (AAcceptFail p) with
      | Some s1 => (with_st x s1, None, false)
      | None => (x, None, true)
      end
  | OCrash p =>
      match step s (ACrash p) with
      | Some s1 => (settle (with_st x s1), None, false)
      | None => (x, None, true)
      end
  | OCrashSending p seen =>
      if negb (listening s p) then (x, None, true) else
      match step s (ACrash p) with
      | Some s1 =>
          match step s1 (if seen then AAcceptClosing code_fixed_F11 p else AAcceptFail p) with
          | Some s2 =>
              match step s2 (ALaunchInc (nextc s1)) with
              | Some s3 => (settle (with_st x s3), None, false)
              | None => (settle (with_st x s2), None, false)
              end
          | None => (settle (with_st x s1), None, false)
          end
      | None => (x, None, true)
      end
  | OAbandonedDial p closes =>
      match step s (AAcceptClosing closes p) with
      | Some s1 =>
          match step s1 (ALaunchInc (nextc s)) with
          | Some s2 => (with_st x s2, None, false)
          | None => (with_st x s1, None, false)
          end
      | None => (x, None, true)
      end
  | OStopOld p =>
      (* no effect on anything the survivor can see; applies when p has a stopped incarnation *)
      if (0 <? incn s p) || negb (listening s p) then (x, None, false) else (x, None, true)
  | ORestart p =>
      match step s (ARestart p) with
      | Some s1 => (with_st x s1, None, false)
      | None => (x, None, true)
      end
  | ORecvErr c e => let (x', sk) := recv_err x c e in (x', None, sk)
  | ORecvMsg c m =>
      match step s (ARecvMsg c m) with
      | Some s1 => (drive 1 (with_st x s1) c, None, false)
      | None => (x, None, true)
      end
  | OHold h =>
      match armed x, blocked x with
      | None, None => (mkX s (held x) (Some h) None (auto x) (npeers x) (hreent x) (hbuf x), None, false)
      | _, _ => (x, None, true)
      end
  | ORelease =>
      match blocked x with
      | Some c => (settle (drive (nh s + 2) (mkX s (held x) (armed x) None (auto x) (npeers x) (hreent x) (hbuf x)) c), None, false)
      | None => (mkX s (held x) None None (auto x) (npeers x) (hreent x) (hbuf x), None, false)
      end
  | OCloseRouter =>
      match step s AClose with
      | Some s1 => (settle (with_st x s1), None, false)
      | None => (x, None, true)
      end
  end.

Definition exec := exec_o None.

(* ---- snapshots ------------------------------------------------------------ *)

Record snap := mkSnap {
  sres : option bool;               (* result of a Send that returned in this operation (true = nil error) *)
  sskip : bool;                     (* the operation did not apply *)
  stimeout : bool;                  (* the operation did not return within the deadline *)
  stab : list (list nat);           (* per peer: the registered connections, in slice order *)
  scalls : list (nat * nat);        (* (handler, peer it was told) in call order *)
  sdeliv : list (nat * nat);        (* (message, connection) received by a live far end *)
  sdisp : list (nat * nat);         (* (connection, message) dispatched by S *)
  sclosed : list nat }.             (* connections closed on S's side, ascending *)

Definition snapshot (x : xstate) (r : option bool) (sk : bool) : snap :=
  let s := st x in
  mkSnap r sk false
         (map (table s) (seq 0 (npeers x)))
         (map (fun hc => (fst (fst hc), snd (fst hc))) (calls s))
         (delivered s) (dispatched s)
         (filter (fun c => match conns s c with Some y => lclosed y | None => false end) (seq 0 (nextc s))).

Fixpoint model_run (x : xstate) (ops : list op) : list snap :=
  match ops with
  | [] => []
  | o :: r => let '(x', res, sk) := exec x o in snapshot x' res sk :: model_run x' r
  end.

Definition x0 (is_tcp is_auto : bool) (np nhand : nat) (hs : bool) : xstate :=
  mkX (init code_fixed_F11 is_tcp nhand) None None None is_auto np hs false.

(* coarse projection for the real transports *)
Record csnap := mkCSnap {
  cres : option bool;
  cskip : bool;
  ctimeout : bool;
  ctab : list nat;                  (* per peer: number of registered connections *)
  ccalls : list (list nat);         (* per handler, per peer: number of calls *)
  cdeliv : list (list nat);         (* per peer, per incarnation 0..: messages received from S *)
  cdisp : nat;                      (* messages dispatched by S *)
  ccorrupt : nat }.                 (* messages that arrived with another identifier than any that was sent, or twice *)

Definition count_calls (h p : nat) (l : list (nat * nat * nat)) : nat :=
  length (filter (fun x => (fst (fst x) =? h) && (snd (fst x) =? p)) l).

Definition count_deliv (s : state) (p i : nat) : nat :=
  (* messages sent by a re-entrant handler (identifiers from 4000) are not counted: when they arrive is
     not synchronised with the operations *)
  length (filter (fun mc => (fst mc <? 4000) &&
                            match conns s (snd mc) with
                            | Some y => (cpeer y =? p) && (cinc y =? i)
                            | None => false
                            end) (delivered s)).

Definition csnapshot (x : xstate) (r : option bool) (sk : bool) : csnap :=
  let s := st x in
  mkCSnap r sk false
          (map (fun p => length (table s p)) (seq 0 (npeers x)))
          (map (fun h => map (fun p => count_calls h p (calls s)) (seq 0 (npeers x))) (seq 0 (nh s)))
          (map (fun p => map (fun i => count_deliv s p i) (seq 0 (S (incn s p)))) (seq 0 (npeers x)))
          (length (dispatched s)) 0.

(* ---- decidable equalities -------------------------------------------------- *)

Definition ecls_eqb (a b : ecls) : bool :=
  match a, b with
  | EClosed, EClosed | ECanceled, ECanceled | EEOF, EEOF | EUnknown, EUnknown
  | ETimeout, ETimeout | ETooBig, ETooBig | EOther, EOther => true
  | _, _ => false
  end.

Fixpoint list_eqb {A} (eqb : A -> A -> bool) (a b : list A) : bool :=
  match a, b with
  | [], [] => true
  | x :: a', y :: b' => eqb x y && list_eqb eqb a' b'
  | _, _ => false
  end.

Definition pair_eqb (a b : nat * nat) : bool := (fst a =? fst b) && (snd a =? snd b).
Definition obool_eqb (a b : option bool) : bool :=
  match a, b with
  | None, None => true
  | Some x, Some y => Bool.eqb x y
  | _, _ => false
  end.

Definition snap_eqb (a b : snap) : bool :=
  obool_eqb (sres a) (sres b) && Bool.eqb (sskip a) (sskip b) && negb (stimeout b) &&
  list_eqb (list_eqb Nat.eqb) (stab a) (stab b) &&
  list_eqb pair_eqb (scalls a) (scalls b) &&
  list_eqb pair_eqb (sdeliv a) (sdeliv b) &&
  list_eqb pair_eqb (sdisp a) (sdisp b) &&
  list_eqb Nat.eqb (sclosed a) (sclosed b).

Definition csnap_eqb (a b : csnap) : bool :=
  obool_eqb (cres a) (cres b) && Bool.eqb (cskip a) (cskip b) && negb (ctimeout b) &&
  list_eqb Nat.eqb (ctab a) (ctab b) &&
  list_eqb (list_eqb Nat.eqb) (ccalls a) (ccalls b) &&
  list_eqb (list_eqb Nat.eqb) (cdeliv a) (cdeliv b) &&
  (cdisp a =? cdisp b) && (ccorrupt a =? ccorrupt b).

(* TCP: whether the kernel took each write to a dead peer cannot be known from outside. The model is
   run with every assignment of that bit to the messages of the call (at most 2^3) and the first one
   whose snapshot equals the observation is taken; on the in-memory transport only "refused" exists. *)
Fixpoint all_bools (n : nat) : list (list bool) :=
  match n with
  | 0 => [[]]
  | S k => map (cons false) (all_bools k) ++ map (cons true) (all_bools k)
  end.

Definition op_msgs (x : xstate) (o : op) : nat :=
  match o with
  | OSend _ m _ | OSendHold _ m _ => length m
  | OResume _ => match held x with
                 | Some t => match threads (st x) t with Some th => length (tmsgs th) | None => 0 end
                 | None => 0
                 end
  | _ => 0
  end.

Fixpoint pick_oracle (x : xstate) (o : op) (ob : option csnap) (cands : list (list bool))
  : xstate * csnap :=
  match cands with
  | [] => let '(x', res, sk) := exec x o in (x', csnapshot x' res sk)
  | os :: rest =>
      let '(x', res, sk) := exec_o (Some os) x o in
      let sn := csnapshot x' res sk in
      match rest, ob with
      | [], _ => (x', sn)
      | _, Some b => if csnap_eqb sn b then (x', sn) else pick_oracle x o ob rest
      | _, None => (x', sn)
      end
  end.

Fixpoint cmodel_run (x : xstate) (ops : list op) (obs : list csnap) : list csnap :=
  match ops with
  | [] => []
  | o :: r =>
      let n := op_msgs x o + (if hreent x then 1 else 0) in
      let cands := if tcp (st x) then all_bools n else [repeat false n] in
      let (x', sn) := pick_oracle x o (hd_error obs) cands in
      sn :: cmodel_run x' r (tl obs)
  end.

(* ---- cases ----------------------------------------------------------------- *)

Inductive entry :=
| ERouterSend | ESendRaw | ETreeNodeSend | ESendTo | ESendToParent
| ESendToChildren | ESendParallel | EMulticast | EBroadcast.

Inductive case :=
| CScript (is_tcp hs : bool) (np nhand : nat) (ops : list op) (obs : list snap)
| CReal (is_tcp hs : bool) (np nhand : nat) (ops : list op) (obs : list csnap)
| CClassify (e : rawerr) (lost : bool) (nhand : nat) (obs_cls : ecls) (obs_left : bool) (obs_calls : nat)
| CClassDirect (c : ecls) (lost : bool) (nhand : nat) (obs_left : bool) (obs_calls : nat)
| CEntry (ep : entry) (self : nat) (dests : list nat) (up : list nat)
         (obs_errs : nat) (obs_deliv : list nat)
| CConfig (first_failed : bool) (obs_victim_msg obs_victim_cfg obs_control_cfg : bool)
| CCluster (canaries canaries_done : nat) (sends_returned survivors_alive handlers_told table_clean after_restart_ok : bool)
| CMute (fresh : bool) (nhand : nat) (obs_calls : nat) (obs_other_peer_calls : nat) (obs_removed obs_send_after_fails : bool)
| CMuteIdent (obs_gave_up : bool)
| CLocalFlood (k : nat) (closed_reached stop_returned sends_returned post_returned canary_ok : bool)
| CTreeReq (request_unanswered : bool) (canaries canaries_done : nat) (sends_returned survivors_alive after_restart_ok : bool).

(* ---- model side of the entry points ---------------------------------------- *)

Definition esnd (up : list nat) (s : list nat) (d : nat) : list nat * res :=
  if mem d up then (s ++ [d], ROk) else (s, RErr).

Definition res_errs (r : res) : nat := match r with ROk => 0 | RErr => 1 end.

(* (number of errors reported, destinations reached) *)
Definition entry_model (fix_f10 : bool) (ep : entry) (self : nat) (dests up : list nat) : nat * list nat :=
  let single (wrap : res -> res) :=
    match dests with
    | d :: _ => let (s, r) := esnd up [] d in (res_errs (wrap r), s)
    | [] => (0, [])
    end in
  match ep with
  | ERouterSend => single (fun r => r)
  | ESendRaw => single (send_raw fix_f10)
  | ETreeNodeSend => single send_to_tree_node
  | ESendTo => single (tn_send_to false false)
  | ESendToParent =>
      let (s, r) := send_to_parent _ (esnd up) [] (match dests with d :: _ => Some d | [] => None end) in
      (res_errs r, s)
  | ESendToChildren => let (s, r) := send_to_children _ (esnd up) [] dests in (res_errs r, s)
  | ESendParallel | EMulticast => let (s, e) := multicast _ (esnd up) [] dests in (length e, s)
  | EBroadcast => let (s, e) := broadcast _ (esnd up) [] self dests in (length e, s)
  end.

Definition same_set (a b : list nat) : bool :=
  forallb (fun x => mem x b) a && forallb (fun x => mem x a) b && (length a =? length b).

Definition agree (c : case) : bool :=
  match c with
  | CScript is_tcp hs np nhand ops obs =>
      list_eqb snap_eqb (model_run (x0 is_tcp false np nhand hs) ops) obs
  | CReal is_tcp hs np nhand ops obs =>
      list_eqb csnap_eqb (cmodel_run (x0 is_tcp true np nhand hs) ops obs) obs
  | CClassify e lost nhand obs_cls obs_left obs_calls =>
      ecls_eqb (handle_error e) obs_cls &&
      match classify obs_cls with
      | Drop => obs_left && (obs_calls =? nhand)
      | Continue => negb obs_left && (obs_calls =? 0)
      end
  | CClassDirect c lost nhand obs_left obs_calls =>
      match classify c with
      | Drop => obs_left && (obs_calls =? nhand)
      | Continue => negb obs_left && (obs_calls =? 0)
      end
  | CEntry ep self dests up obs_errs obs_deliv =>
      let (e, d) := entry_model code_fixed_F10 ep self dests up in
      (e =? obs_errs) && same_set d obs_deliv
  | CConfig first_failed vmsg vcfg ccfg =>
      vmsg && ccfg &&
      Bool.eqb vcfg (carries_config code_fixed_N1 (if first_failed then [RErr] else []))
  | CCluster canaries done returned alive told tclean after =>
      (done =? canaries) && returned && alive && told && tclean && after
  | CMute fresh nhand calls other removed send_fails =>
      let d := mute_detected code_arms_header fresh in
      (calls =? (if d then nhand else 0)) && (other =? 0) && Bool.eqb removed d && Bool.eqb send_fails d
  | CMuteIdent gave_up => Bool.eqb gave_up (mute_detected code_arms_header true)
  | CLocalFlood k closed_r stop_r sends_r post_r canary_r =>
      let '(c, s, p, m) := flood_outcome code_fixed_C09N3 200 k in
      Bool.eqb c closed_r && Bool.eqb c stop_r && Bool.eqb s sends_r && Bool.eqb p post_r && Bool.eqb m canary_r
  | CTreeReq unanswered canaries done returned alive after =>
      (done =? canaries) && returned && alive && Bool.eqb after (asks_again code_fixed_N2 unanswered)
  end.

Definition mismatches (l : list case) : list nat := mism_idx agree l.

(* ---- the property, evaluated on the observation ----------------------------- *)

(* ground truth that follows from the operations alone *)
Record truth := mkTruth { t_down : list nat; t_closed : bool; t_holding : bool; t_abandoned : list nat }.

Definition truth_step (t : truth) (o : op) (skipped : bool) : truth :=
  if skipped then t else
  match o with
  | OCrash p => mkTruth (p :: t_down t) (t_closed t) (t_holding t) (t_abandoned t)
  | OCrashSending p _ => mkTruth (p :: t_down t) (t_closed t) (t_holding t) (t_abandoned t)
  | OAbandonedDial p closes =>
      (* scripted environment: a peer that keeps a dead connection open is outside the property *)
      mkTruth (t_down t) (t_closed t) (t_holding t) (if closes then t_abandoned t else p :: t_abandoned t)
  | ORestart p => mkTruth (filter (fun q => negb (q =? p)) (t_down t)) (t_closed t) (t_holding t) (t_abandoned t)
  | OHold _ => mkTruth (t_down t) (t_closed t) true (t_abandoned t)
  | ORelease => mkTruth (t_down t) (t_closed t) false (t_abandoned t)
  | OCloseRouter => mkTruth (t_down t) true (t_holding t) (t_abandoned t)
  | _ => t
  end.

Definition fatal (e : ecls) : bool :=
  match e with ETimeout | EClosed | EEOF | EUnknown | ETooBig => true | _ => false end.

Definition nth_list {A} (l : list (list A)) (p : nat) : list A :=
  match nth_error l p with Some x => x | None => [] end.

Definition count_pair (h p : nat) (l : list (nat * nat)) : nat :=
  length (filter (fun x => (fst x =? h) && (snd x =? p)) l).

Definition owner_of (tab : list (list nat)) (c : nat) : option nat :=
  find (fun p => mem c (nth_list tab p)) (seq 0 (length tab)).

(* clause numbers
   1 a send returned success although nothing listened at the destination (and no connection was registered,
     or the transport refuses writes to dead peers)
   2 a connection whose loss was observed stayed in the connection table
   3 a registered error handler was not told the lost peer (or was told another peer)
   4 a send to a live peer failed or its messages did not arrive (canary / after restart)
   5 an operation did not return within the deadline, a survivor crashed, or a canary run did not finish
   6 a lost peer's error did not end the receive loop *)
(* a Send held before registerConnection: (peer, messages, deliveries before it started,
   peer crashed while it was held) *)
Definition hsend := (nat * nat * nat * bool)%type.

Definition taint (h : option hsend) (o : op) (skipped : bool) : option hsend :=
  match h, o with
  | Some (p, n, d, tn), OCrash q => if negb skipped && (q =? p) then Some (p, n, d, true) else h
  | _, _ => h
  end.

(* [have_conn]: a connection to the destination was registered or being set up when the call started
   [lossy]: the transport may have swallowed the write (TCP write to a just-dead peer)
   [excused]: the destination died while the call was in progress (a held Send)
   [d0]: deliveries before the call started; [dn]: deliveries now *)
Definition send_clauses (is_tcp : bool) (t : truth) (p n : nat) (have_conn lossy excused : bool) (d0 dn : nat) (r : bool)
  : list nat :=
  let down := mem p (t_down t) in
  let excused := excused || mem p (t_abandoned t) in
  clause 1 (negb (down && (negb have_conn || negb is_tcp) && negb excused && r)) ++
  clause 4 (negb (negb down && negb (t_closed t) && negb (is_tcp && lossy) && negb excused) || (r && (d0 + n <=? dn))).

Fixpoint check_script (is_tcp : bool) (nhand : nat) (t : truth) (prev : snap) (hs : option hsend)
         (ops : list op) (obs : list snap) : list nat :=
  match ops, obs with
  | o :: ro, b :: rb =>
      let have p := match nth_list (stab prev) p with [] => false | _ => true end in
      let d0 := length (sdeliv prev) in
      let dn := length (sdeliv b) in
      (clause 5 (negb (stimeout b))) ++
      (if sskip b then [] else
       match o, sres b with
       | OSend p msgs buf, Some r => send_clauses is_tcp t p (length msgs) (have p) buf false d0 dn r
       | OSendHold p msgs buf, Some r => send_clauses is_tcp t p (length msgs) (have p) buf false d0 dn r
       | OResume buf, Some r =>
           match hs with
           | Some (p, n, dh, tainted) => send_clauses is_tcp t p n true buf tainted dh dn r
           | None => []
           end
       | ORecvErr c e, _ =>
           if fatal e && negb (t_holding t) && negb (t_closed t) then
             match owner_of (stab prev) c with
             | Some p =>
                 clause 2 (negb (mem c (nth_list (stab b) p))) ++
                 clause 6 (mem c (sclosed b)) ++
                 clause 3 (forallb (fun h => count_pair h p (scalls b) =? S (count_pair h p (scalls prev)))
                                   (seq 0 nhand) &&
                           (length (scalls b) =? length (scalls prev) + nhand))
             | None => []
             end
           else []
       | _, _ => []
       end) ++
      check_script is_tcp nhand (truth_step t o (sskip b)) b
                   (match o with
                    | OSendHold p msgs _ =>
                        match sres b with
                        | None => if sskip b then hs else Some (p, length msgs, d0, false)
                        | Some _ => hs
                        end
                    | OResume _ => if sskip b then hs else None
                    | _ => taint hs o (sskip b)
                    end) ro rb
  | _, _ => []
  end.

Definition nth_nat (l : list nat) (p : nat) : nat := match nth_error l p with Some x => x | None => 0 end.
Definition nth_ll (l : list (list nat)) (h p : nat) : nat := nth_nat (nth_list l h) p.
Definition sum (l : list nat) : nat := fold_left Nat.add l 0.

Fixpoint check_real (is_tcp : bool) (nhand : nat) (t : truth) (prev : csnap) (hs : option hsend)
         (ops : list op) (obs : list csnap) : list nat :=
  match ops, obs with
  | o :: ro, b :: rb =>
      let have p := negb (nth_nat (ctab prev) p =? 0) in
      let d0 := sum (map sum (cdeliv prev)) in
      let dn := sum (map sum (cdeliv b)) in
      (clause 5 (negb (ctimeout b))) ++ (clause 4 (ccorrupt b =? ccorrupt prev)) ++
      (if cskip b then [] else
       match o, cres b with
       | OSend p msgs _, Some r => send_clauses is_tcp t p (length msgs) (have p) (t_holding t) false d0 dn r
       | OSendHold p msgs _, Some r => send_clauses is_tcp t p (length msgs) (have p) (t_holding t) false d0 dn r
       | OResume _, Some r =>
           match hs with
           | Some (p, n, dh, tainted) => send_clauses is_tcp t p n true (tainted || t_holding t) tainted dh dn r
           | None => []
           end
       | OCrash p, _ | OCrashSending p _, _ =>
           if negb (t_holding t) && negb (t_closed t) then
             clause 2 (nth_nat (ctab b) p =? 0) ++
             clause 3 ((nth_nat (ctab prev) p =? 0) ||
                       forallb (fun h => nth_ll (ccalls prev) h p <? nth_ll (ccalls b) h p) (seq 0 nhand)) ++
             clause 3 (forallb (fun h => forallb (fun q => (q =? p) || (nth_ll (ccalls b) h q =? nth_ll (ccalls prev) h q))
                                                 (seq 0 (length (ctab b)))) (seq 0 nhand))
           else []
       | _, _ => []
       end) ++
      check_real is_tcp nhand (truth_step t o (cskip b)) b
                 (match o with
                  | OSendHold p msgs _ =>
                      match cres b with
                      | None => if cskip b then hs else Some (p, length msgs, d0, false)
                      | Some _ => hs
                      end
                  | OResume _ => if cskip b then hs else None
                  | _ => taint hs o (cskip b)
                  end) ro rb
  | _, _ => []
  end.

Definition snap0 (np : nat) : snap := mkSnap None false false (repeat [] np) [] [] [] [].
Definition csnap0 (np nhand : nat) : csnap :=
  mkCSnap None false false (repeat 0 np) (repeat (repeat 0 np) nhand) (repeat [0] np) 0 0.
Definition truth0 : truth := mkTruth [] false false [].

(* destinations the entry point is documented to try *)
Fixpoint attempted_children (up dests : list nat) : list nat :=
  match dests with
  | [] => []
  | d :: r => if mem d up then d :: attempted_children up r else [d]
  end.

Definition attempted (ep : entry) (self : nat) (dests up : list nat) : list nat :=
  match ep with
  | ESendToChildren => attempted_children up dests
  | EBroadcast => filter (fun d => negb (d =? self)) dests
  | ESendParallel | EMulticast => dests
  | _ => match dests with d :: _ => [d] | [] => [] end
  end.

Definition check (c : case) : list nat :=
  match c with
  | CScript is_tcp _ np nhand ops obs => check_script is_tcp nhand truth0 (snap0 np) None ops obs
  | CReal is_tcp _ np nhand ops obs => check_real is_tcp nhand truth0 (csnap0 np nhand) None ops obs
  | CClassify e lost nhand obs_cls obs_left obs_calls =>
      clause 6 (negb lost || obs_left) ++ clause 3 (negb lost || (obs_calls =? nhand))
  | CClassDirect c lost nhand obs_left obs_calls =>
      clause 6 (negb lost || obs_left) ++ clause 3 (negb lost || (obs_calls =? nhand))
  | CEntry ep self dests up obs_errs obs_deliv =>
      let att := attempted ep self dests up in
      let down := filter (fun d => negb (mem d up)) att in
      clause 1 (match down with [] => true | _ => 1 <=? obs_errs end) ++
      clause 4 (forallb (fun d => negb (mem d up) || mem d obs_deliv) att &&
                match down with [] => obs_errs =? 0 | _ => true end)
  | CConfig first_failed vmsg vcfg ccfg =>
      (* the property speaks about the message reaching the peer that is back, not about the
         configuration travelling with it: only the message is demanded here *)
      clause 4 vmsg
  | CCluster canaries done returned alive told tclean after =>
      clause 5 ((done =? canaries) && returned && alive) ++ clause 3 told ++ clause 2 tclean ++ clause 4 after
  | CMute fresh nhand calls other removed send_fails =>
      (* a silently dead peer: within the configured time-outs every handler is told that peer (and no
         other), the connection leaves the table, and a Send after that reports that nothing listens *)
      clause 3 ((nhand <=? calls) && (other =? 0)) ++ clause 2 removed ++ clause 1 send_fails
  | CMuteIdent gave_up =>
      (* a peer that connects and dies before its identity arrives must not pin the accept callback *)
      clause 5 gave_up
  | CLocalFlood k closed_r stop_r sends_r post_r canary_r =>
      (* the shutdown of the peer must get through, every Send must return, the survivor must go on *)
      clause 5 (closed_r && stop_r && sends_r && post_r && canary_r)
  | CTreeReq _ canaries done returned alive after =>
      clause 5 ((done =? canaries) && returned && alive) ++ clause 4 after
  end.

Definition violations (l : list case) : list (nat * nat) := viols check l.
