(* What [gcheck unlit c = []] (hence [Corr.C13.check c = []]) means, for every
   literal type L and decoder unlit: the case decodes, no per-object clause
   (recomputation differs / crash on a legal object) is raised, and on the legal
   objects of the group "same object" and "same observed id" coincide pairwise. *)
From Coq Require Import List Arith Bool Ascii NArith Lia.
Import ListNotations.
From Onet Require Import Base.Corr Base.C13Bytes Base.C13BytesProofs Tree.Ids Tree.IdsCheck Tree.IdsProofs Tree.IdsCase.

Section Lit.
Context {L : Type}.
Variable unlit : L -> bytes.

Lemma finish_nil {X} (eqX : X -> X -> bool) (cls : X -> X -> nat) (R : X -> X -> Prop)
      (e : option (list nat * list (X * bytes))) :
  (forall x y, eqX x y = true <-> R x y) ->
  (finish eqX cls e = [] <->
   exists cl entries, e = Some (cl, entries) /\ cl = [] /\
     ForallOrdPairs (fun a b => R (fst a) (fst b) <-> snd a = snd b) entries).
Proof.
  intros HR. unfold finish. destruct e as [[cl entries]|].
  - rewrite dedup_nil. split.
    + intros H. apply app_eq_nil in H as [H1 H2]. exists cl, entries. repeat split; auto.
      apply (group_clauses_nil_iff X eqX cls R HR). exact H2.
    + intros (cl' & en' & E & Hc & Hp). inversion E; subst.
      apply (group_clauses_nil_iff X eqX cls R HR) in Hp. rewrite Hp. reflexivity.
  - split; [discriminate | intros (? & ? & E & _); discriminate E].
Qed.

Lemma combine_entries_some {X} (l : list (option (list nat * list (X * bytes)))) cl entries :
  combine_entries l = Some (cl, entries) <->
  exists es, opt_all l = Some es /\ cl = flat_map fst es /\ entries = flat_map snd es.
Proof.
  unfold combine_entries. destruct (opt_all l) as [es|].
  - split.
    + intros H. inversion H; subst. exists es. auto.
    + intros (es' & E & -> & ->). inversion E; subst. reflexivity.
  - split; [discriminate | intros (? & E & _); discriminate E].
Qed.

(* rosters: R = same members, same service keys, same order (marshalled keys) *)
Theorem check_rosters_nil (kt : @ktab L) items :
  gcheck unlit (CRosters kt items) = [] <->
  exists ks es,
    dec_ktab unlit kt = Some ks /\ opt_all (map (entry_roster unlit ks) items) = Some es /\
    flat_map fst es = [] /\
    ForallOrdPairs (fun a b => roster_bins (fst a) = roster_bins (fst b) <-> snd a = snd b)
                   (flat_map snd es).
Proof.
  cbn [gcheck]. destruct (dec_ktab unlit kt) as [ks|].
  - rewrite (finish_nil roster_eqb roster_cls _ _ roster_eqb_spec). split.
    + intros (cl & en & E & Hc & Hp). apply combine_entries_some in E as (es & E1 & -> & ->).
      exists ks, es. auto.
    + intros (ks' & es & E0 & E1 & Hc & Hp). inversion E0; subst ks'.
      exists (flat_map fst es), (flat_map snd es). repeat split; auto.
      apply combine_entries_some. exists es. auto.
  - split; [discriminate | intros (? & ? & E & _); discriminate E].
Qed.

(* trees: R = same roster id, same shape, same placement *)
Theorem check_trees_nil (kt : @ktab L) items :
  gcheck unlit (CTrees kt items) = [] <->
  exists ks es,
    dec_ktab unlit kt = Some ks /\ opt_all (map (entry_tree unlit ks) items) = Some es /\
    flat_map fst es = [] /\
    ForallOrdPairs (fun a b => (fst (fst a) = fst (fst b) /\ tree_bins (snd (fst a)) = tree_bins (snd (fst b)))
                               <-> snd a = snd b)
                   (flat_map snd es).
Proof.
  cbn [gcheck]. destruct (dec_ktab unlit kt) as [ks|].
  - rewrite (finish_nil ridtree_eqb tree_cls _ _ ridtree_eqb_spec). split.
    + intros (cl & en & E & Hc & Hp). apply combine_entries_some in E as (es & E1 & -> & ->).
      exists ks, es. auto.
    + intros (ks' & es & E0 & E1 & Hc & Hp). inversion E0; subst ks'.
      exists (flat_map fst es), (flat_map snd es). repeat split; auto.
      apply combine_entries_some. exists es. auto.
  - split; [discriminate | intros (? & ? & E & _); discriminate E].
Qed.

Theorem check_tokens_nil (items : list (@itoken L * @obs L)) :
  gcheck unlit (CTokens items) = [] <->
  exists es,
    opt_all (map (entry_token unlit) items) = Some es /\ flat_map fst es = [] /\
    ForallOrdPairs (fun a b => fst a = fst b <-> snd a = snd b) (flat_map snd es).
Proof.
  cbn [gcheck]. rewrite (finish_nil token_eqb (fun _ _ => 7) _ _ token_eqb_spec). split.
  - intros (cl & en & E & Hc & Hp). apply combine_entries_some in E as (es & E1 & -> & ->).
    exists es. auto.
  - intros (es & E1 & Hc & Hp).
    exists (flat_map fst es), (flat_map snd es). repeat split; auto.
    apply combine_entries_some. exists es. auto.
Qed.

Theorem check_names_nil (items : list (L * @obs L)) :
  (gcheck unlit (CProtos items) = [] <->
   exists es,
     opt_all (map (entry_name unlit) items) = Some es /\ flat_map fst es = [] /\
     ForallOrdPairs (fun a b => fst a = fst b <-> snd a = snd b) (flat_map snd es)) /\
  gcheck unlit (CServices items) = gcheck unlit (CProtos items).
Proof.
  split; [|reflexivity].
  cbn [gcheck]. rewrite (finish_nil bytes_eqb (fun _ _ => 8) _ _ bytes_eqb_eq). split.
  - intros (cl & en & E & Hc & Hp). apply combine_entries_some in E as (es & E1 & -> & ->).
    exists es. auto.
  - intros (es & E1 & Hc & Hp).
    exists (flat_map fst es), (flat_map snd es). repeat split; auto.
    apply combine_entries_some. exists es. auto.
Qed.

Theorem check_keys_nil kind (kt : @ktab L) items :
  gcheck unlit (CKeys kind kt items) = [] <->
  exists ks es,
    dec_ktab unlit kt = Some ks /\ opt_all (map (entry_key unlit ks) items) = Some es /\
    flat_map fst es = [] /\
    ForallOrdPairs (fun a b => kbin (fst a) = kbin (fst b) <-> snd a = snd b) (flat_map snd es).
Proof.
  cbn [gcheck]. destruct (dec_ktab unlit kt) as [ks|].
  - rewrite (finish_nil key_eqb (fun _ _ => 9) _ _ key_eqb_spec). split.
    + intros (cl & en & E & Hc & Hp). apply combine_entries_some in E as (es & E1 & -> & ->).
      exists ks, es. auto.
    + intros (ks' & es & E0 & E1 & Hc & Hp). inversion E0; subst ks'.
      exists (flat_map fst es), (flat_map snd es). repeat split; auto.
      apply combine_entries_some. exists es. auto.
  - split; [discriminate | intros (? & ? & E & _); discriminate E].
Qed.

(* the roster-after-edits cases: no clause iff every item passes [alias_item_ok] *)
Theorem check_alias_nil (kt : @ktab L) items :
  gcheck unlit (CAlias kt items) = [] <->
  exists ks, dec_ktab unlit kt = Some ks /\ forall it, In it items -> alias_item_ok unlit ks it = true.
Proof.
  cbn [gcheck]. destruct (dec_ktab unlit kt) as [ks|].
  - rewrite clause_nil, forallb_forall. split.
    + intros H. exists ks. auto.
    + intros (ks' & E & H). inversion E; subst. exact H.
  - split; [discriminate | intros (? & E & _); discriminate E].
Qed.

End Lit.

(* the per-object part: a legal object raises no clause iff its first result is
   a 16-byte id and every recomputation returned the same result *)
Lemma legal_entry_nil {X} (x : X) (o : dobs) (with_alt : bool) :
  fst (legal_entry x o with_alt) = [] <->
  exists b, first_res o = Some (RId b) /\ length b = 16 /\ stable o with_alt = true.
Proof.
  unfold legal_entry. destruct (first_res o) as [[| | |b]|]; simpl.
  - split; [discriminate | intros (? & E & _); discriminate E].
  - split; [discriminate | intros (? & E & _); discriminate E].
  - split; [discriminate | intros (? & E & _); discriminate E].
  - split.
    + intros H. apply app_eq_nil in H as [H1 H2]. apply clause_nil in H1, H2.
      exists b. repeat split; auto. apply Nat.eqb_eq; exact H2.
    + intros (b' & E & Hl & Hs). inversion E; subst b'. rewrite Hs. simpl.
      apply clause_nil. apply Nat.eqb_eq; exact Hl.
  - split; [discriminate | intros (? & E & _); discriminate E].
Qed.
