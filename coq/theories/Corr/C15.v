(* C15 correspondence: trace validation of observed streaming sessions against the
   transition system of Api/Stream.v, and the property checker evaluated on the
   observed events themselves. *)
From Coq Require Import List Arith Bool Lia.
Import ListNotations.
From Onet Require Export Base.Corr Api.Stream.

(* flipped by the integrator when proposed_fixes/C15-F18.diff / C15-F19.diff land *)
Definition code_fixed_F18 := true.
Definition code_fixed_F19 := true.
Definition code : fixes := {| f18 := code_fixed_F18; f19 := code_fixed_F19 |}.

(* one session: first message, number of service channels the harness service
   holds for it, events in stamp order *)
Record strace := mkStream { first : cmsg; nchan : nat; evs : list oevent }.

Record case := mkCase {
  streams : list strace;
  crashed_obs : bool;        (* the server process died during the scenario *)
  leaked : nat }.            (* server goroutines of these sessions still alive at the end *)

(* ---- model vs observation ---------------------------------------------------- *)

Definition left_in (e : list oevent) : bool :=
  existsb (fun x => match x with OLeave => true | _ => false end) e.

(* acceptable final states of a session in a run that did not crash: nothing
   internal is enabled, and a client that stayed has read everything written *)
Definition final_ok (t : strace) (s : st) : bool :=
  negb (crashed s) && quiescentb code s &&
  (left_in (evs t) || (crecv (nt s) =? length (wsout (nt s)))).

Definition add_sums (sums : list nat) (cs : list nat) : list nat :=
  nodup Nat.eq_dec (flat_map (fun a => map (fun c => a + c) cs) sums).

Fixpoint possible_leaks (l : list (list nat)) (sums : list nat) : list nat :=
  match l with
  | [] => sums
  | cs :: r => possible_leaks r (add_sums sums cs)
  end.

Definition agree (c : case) : bool :=
  let sets := map (fun t => explain code (first t) (nchan t) (evs t)) (streams c) in
  forallb (fun o => match o with Some (_ :: _) => true | _ => false end) sets &&
  if crashed_obs c then
    (* some session can have reached a send on / close of a closed channel *)
    existsb (fun o => match o with Some l => existsb crashed l | None => false end) sets
  else
    let finals := map (fun ts => match snd ts with
                                  | Some l => map census (filter (final_ok (fst ts)) l)
                                  | None => []
                                  end) (combine (streams c) sets) in
    forallb (fun f => match f with [] => false | _ => true end) finals &&
    existsb (Nat.eqb (leaked c)) (possible_leaks finals [0]).

Definition mismatches (l : list case) : list nat := mism_idx agree l.

(* ---- the property on the observation ----------------------------------------- *)

Definition emitted_on (c : nat) (e : list oevent) : list nat :=
  flat_map (fun x => match x with OEmit c' v => if c' =? c then [v] else [] | _ => [] end) e.
Definition received_on (c : nat) (e : list oevent) : list nat :=
  flat_map (fun x => match x with ORecv c' v => if c' =? c then [v] else [] | _ => [] end) e.
Definition handed_out (e : list oevent) : list nat :=
  flat_map (fun x => match x with OHandler c => [c] | _ => [] end) e.
Definition ended (c : nat) (e : list oevent) : bool :=
  existsb (fun x => match x with OEnd c' => c' =? c | _ => false end) e.
Definition stop_seen (k : nat) (e : list oevent) : bool :=
  existsb (fun x => match x with OStop k' => k' =? k | _ => false end) e.
Definition got_normal_close (e : list oevent) : bool :=
  existsb (fun x => match x with OClosed CNormal => true | _ => false end) e.
(* the client's read sequence ends with the normal close: a CNormal close frame,
   and no data frame or further close frame is read after it *)
Fixpoint normal_close_last (e : list oevent) : bool :=
  match e with
  | [] => false
  | OClosed CNormal :: r =>
      negb (existsb (fun x => match x with ORecv _ _ | OClosed _ => true | _ => false end) r)
  | OClosed CProto :: _ => false
  | _ :: r => normal_close_last r
  end.

Definition recv_chans (e : list oevent) : list nat :=
  flat_map (fun x => match x with ORecv c _ => [c] | _ => [] end) e.

Fixpoint prefixb (a b : list nat) : bool :=
  match a, b with
  | [], _ => true
  | x :: a', y :: b' => (x =? y) && prefixb a' b'
  | _ :: _, [] => false
  end.

(* same values with the same multiplicities (order is clause 2's business) *)
Fixpoint remove1 (x : nat) (l : list nat) : option (list nat) :=
  match l with
  | [] => None
  | y :: r => if x =? y then Some r
              else match remove1 x r with Some r' => Some (y :: r') | None => None end
  end.

Fixpoint same_bag (a b : list nat) : bool :=
  match a with
  | [] => match b with [] => true | _ => false end
  | x :: a' => match remove1 x b with Some b' => same_bag a' b' | None => false end
  end.

Fixpoint before_leave (e : list oevent) : list oevent :=
  match e with
  | [] => []
  | OLeave :: _ => []
  | x :: r => x :: before_leave r
  end.

(* the service has ended the stream: every channel it handed out is closed *)
Definition service_ended (e : list oevent) : bool :=
  match handed_out e with
  | [] => false
  | hs => forallb (fun c => ended c e) hs
  end.

(* the client left while the service had not ended the stream *)
Definition client_left_first (e : list oevent) : bool :=
  left_in e && negb (service_ended (before_leave e)).

(* clause numbers
   1 the server process crashed
   2 what the client received on a service channel is not a prefix of what the
     service emitted on it (order, duplication, invention)
   3 the client stayed and the service ended the stream, but the client did not
     get every emitted message followed by the normal close (the close frame is
     the last thing it reads: nothing is delivered after it)
   4 the client left first and a running request was not told to stop
   5 all services have ended and all clients are gone or closed, yet server
     goroutines of these sessions are still there (blocked)
   6 a session's first (valid) request was never handed to the service although
     the server process is alive: the server does not serve this client *)
Definition served (t : strace) : bool :=
  match first t with
  | MReq _ => match handed_out (evs t) with [] => false | _ :: _ => true end
  | MBad => true
  end.

Definition check_stream (dead : bool) (t : strace) : list nat :=
  let e := evs t in
  let chans := nodup Nat.eq_dec (recv_chans e ++ handed_out e) in
  clause 2 (forallb (fun c => prefixb (received_on c e) (emitted_on c e)) chans) ++
  if dead then [] else     (* a dead process shows nothing further: clause 1 reports it *)
  (if negb (left_in e) && service_ended e then
     clause 3 (forallb (fun c => same_bag (received_on c e) (emitted_on c e)) (handed_out e) &&
               normal_close_last e)
   else []) ++
  (if client_left_first e then
     clause 4 (forallb (fun k => stop_seen k e) (seq 0 (length (handed_out e))))
   else []) ++
  clause 6 (served t).

Definition all_over (t : strace) : bool :=
  let e := evs t in
  (left_in e || got_normal_close e) && forallb (fun c => ended c e) (handed_out e).

Definition check (c : case) : list nat :=
  clause 1 (negb (crashed_obs c)) ++
  nodup Nat.eq_dec (flat_map (check_stream (crashed_obs c)) (streams c)) ++
  (if negb (crashed_obs c) && forallb all_over (streams c) then clause 5 (leaked c =? 0) else []).

Definition violations (l : list case) : list (nat * nat) := viols check l.
