(* C20 correspondence: the model of Addr/*.v against the observations of the Go
   harness (cmd/c20), and the checker of the property itself evaluated on the
   OBSERVATION.  All Go strings travel as lower-case hex literals. *)
From Coq Require Import String Ascii NArith ZArith Bool List.
From Onet Require Export Base.Corr Base.HexC20 Addr.GoStr Addr.GoNet Addr.Address.
Import ListNotations.
Local Open Scope list_scope.

(* Which variant of getWSHostPort the code under test has: flipped by the
   integrator when proposed_fixes/C20-F23.diff lands. *)
Definition code_fixed_F23 := true.

(* the same for the proposed repairs of validHostname (C20-N1.diff: length limit,
   C20-N2.diff: ASCII-only lower-casing) and getListenAddress (C20-N3.diff) *)
Definition code_fixed_N1 := true.
Definition code_fixed_N2 := true.
Definition code_fixed_N3 := true.

Definition corr_variant : variant :=
  Build_variant code_fixed_F23 false code_fixed_N1 code_fixed_N2 code_fixed_N3.

(* observed result of a Go call returning (string, error) *)
Inductive ob :=
| OOk (hex : string)
| OErr
| OPanic.

Record addr_obs := {
  o_valid : bool;
  o_type : string;
  o_na : string;
  o_host : string;
  o_port : string;
  o_ishost : bool;
  o_resolve : string;
  o_resolved : string;
  o_public : bool;
  o_panic : bool
}.

Inductive case :=
| CAddr (a : string) (o : addr_obs)               (* all Address methods *)
| CListen (a listen : string) (o : ob)            (* getListenAddress *)
| CBind (s : string) (o : ob)                     (* GlobalBind *)
| CWS (a url : string) (global : bool) (o : ob)   (* getWSHostPort *)
| CSplitHP (s : string) (o : ob) (oport : string) (* net.SplitHostPort: host in o, port *)
| CJoinHP (h p : string) (o : string)             (* net.JoinHostPort *)
| CParseIP (s : string) (ok : bool)               (* net.ParseIP(s) != nil *)
| CAtoi (s : string) (o : option Z)               (* strconv.Atoi *)
| CUint16 (s : string) (o : option N)             (* strconv.ParseUint(s,10,16) *)
| CFormat (n : N) (o : string)                    (* strconv.FormatUint(n,10) *)
| CLower (s : string) (o : string)                (* strings.ToLower *)
| CHostname (s : string) (o : bool)               (* validHostname *)
| CSplit (s sp : string) (o : list string).       (* strings.Split *)

(* The resolver the harness installs in place of net.LookupHost: a fixed
   function of the byte sum of the host name. *)
Definition byte_sum (h : bytes) : N := fold_left (fun acc c => (acc + code c)%N) h 0%N.
Definition stub_lookup (h : bytes) : option (list bytes) :=
  match (byte_sum h mod 8)%N with
  | 0%N => None
  | 1%N => Some [B "127.0.0.1"]
  | 2%N => Some [B "8.8.4.4"; B "1.1.1.1"]
  | 3%N => Some [B "fd00::1"]
  | 4%N => Some [B "172.20.1.1"]
  | 5%N => Some [B "fda::1"]
  | 6%N => Some [B "192.168.3.4"]
  | _ => Some [B "::1"]
  end.

(* ---- agreement --------------------------------------------------------------------- *)
Definition opt_bytes_eqb (a b : option bytes) : bool :=
  match a, b with
  | Some x, Some y => bytes_eqb x y
  | _, _ => false
  end.

Definition res_is (r : res bytes) (hex : string) : bool :=
  match r with Ok x => opt_bytes_eqb (Some x) (unhex hex) | _ => false end.

Definition res_bool_is (r : res bool) (b : bool) : bool :=
  match r with Ok x => Bool.eqb x b | _ => false end.

Definition res_ob (r : res bytes) (o : ob) : bool :=
  match r, o with
  | Ok x, OOk h => opt_bytes_eqb (Some x) (unhex h)
  | Err, OErr => true
  | Crash, OPanic => true
  | _, _ => false
  end.

Definition is_crash {A} (r : res A) : bool := match r with Crash => true | _ => false end.

Fixpoint list_bytes_eqb (a : list bytes) (b : list string) : bool :=
  match a, b with
  | [], [] => true
  | x :: a', y :: b' => opt_bytes_eqb (Some x) (unhex y) && list_bytes_eqb a' b'
  | _, _ => false
  end.

Definition agree_addr (a : bytes) (o : addr_obs) : bool :=
  let v := corr_variant in
  if o_panic o then
    is_crash (valid v a) || is_crash (host v a) || is_crash (port v a) ||
    is_crash (resolve v stub_lookup a) || is_crash (is_hostname v a)
  else
    res_bool_is (valid v a) (o_valid o) &&
    res_is (conn_type v a) (o_type o) &&
    res_is (network_address v a) (o_na o) &&
    res_is (host v a) (o_host o) &&
    res_is (port v a) (o_port o) &&
    res_bool_is (is_hostname v a) (o_ishost o) &&
    res_is (resolve v stub_lookup a) (o_resolve o) &&
    res_is (network_address_resolved v stub_lookup a) (o_resolved o) &&
    res_bool_is (public v stub_lookup a) (o_public o).

Definition ws_ob (r : ws_res) (o : ob) : bool :=
  match r, o with
  | WOk x, OOk h => opt_bytes_eqb (Some x) (unhex h)
  | WErr, OErr => true
  | WCrash, OPanic => true
  | WUnmodelled, _ => true          (* URL outside the modelled fragment of net/url *)
  | _, _ => false
  end.

Definition opt_eqb {A} (e : A -> A -> bool) (a b : option A) : bool :=
  match a, b with
  | Some x, Some y => e x y
  | None, None => true
  | _, _ => false
  end.

Definition with2 {R} (a b : string) (dflt : R) (f : bytes -> bytes -> R) : R :=
  match unhex a, unhex b with
  | Some x, Some y => f x y
  | _, _ => dflt
  end.

Definition with1 {R} (a : string) (dflt : R) (f : bytes -> R) : R :=
  match unhex a with
  | Some x => f x
  | None => dflt
  end.

Definition agree (c : case) : bool :=
  match c with
  | CAddr a o => with1 a false (fun a => agree_addr a o)
  | CListen a l o => with2 a l false (fun a l => res_ob (get_listen_address corr_variant a l) o)
  | CBind s o => with1 s false (fun s => res_ob (global_bind s) o)
  | CWS a u g o => with2 a u false (fun a u => ws_ob (get_ws_host_port corr_variant a u g) o)
  | CSplitHP s o op =>
      with1 s false (fun s =>
        match split_host_port s, o with
        | Ok (h, p), OOk oh => opt_bytes_eqb (Some h) (unhex oh) && opt_bytes_eqb (Some p) (unhex op)
        | Err, OErr => true
        | Crash, OPanic => true
        | _, _ => false
        end)
  | CJoinHP h p o => with2 h p false (fun h p => opt_bytes_eqb (Some (join_host_port h p)) (unhex o))
  | CParseIP s ok => with1 s false (fun s => Bool.eqb (parse_ip_ok s) ok)
  | CAtoi s o => with1 s false (fun s => opt_eqb Z.eqb (atoi s) o)
  | CUint16 s o => with1 s false (fun s => opt_eqb N.eqb (parse_uint16 s) o)
  | CFormat n o => opt_bytes_eqb (Some (format_uint n)) (unhex o)
  | CLower s o => with1 s false (fun s => opt_bytes_eqb (Some (go_to_lower s)) (unhex o))
  | CHostname s o => with1 s false (fun s => res_bool_is (valid_hostname corr_variant s) o)
  | CSplit s sp o =>
      with2 s sp false (fun s sp =>
        match sp with
        | [] => true                                   (* empty separator: not modelled, not generated *)
        | [c] => let (h, t) := split_byte c s in list_bytes_eqb (h :: t) o
        | _ => let (h, t) := split_sep sp s 0 in list_bytes_eqb (h :: t) o
        end)
  end.

Definition mismatches (l : list case) : list nat := mism_idx agree l.

(* ---- the property, decided on the observation ------------------------------------------
   The independent parse is [Addr/Grammar.v]'s [Address Documented]; its verified
   decision procedure is [valid documented] (AddressProofs.valid_iff_grammar).
   Expected parts of an address are read off the input by position only
   (before / after the first "://", after the last ':').

   clause numbers:
   1 Valid() differs from the independent grammar
   2 valid address: ConnType() is not the known type in front of "://" or type+"://"+NetworkAddress() is not the address
   3 valid address: JoinHostPort(Host(), Port()) is not NetworkAddress() (re-assembly)
   4 invalid address: an accessor returns something else than the documented empty value
   5 a call panicked
   6 getListenAddress / GlobalBind: neither an error nor a usable host:port consistent with the documented rules
   7 getWSHostPort: neither an error nor host:port with the expected host and an in-range port (port+1 without wrap, or the URL's)
   8 valid address: IsHostname(), Resolve(), NetworkAddressResolved() or Public() disagree with Host() / Port() *)

Definition eqh (x : bytes) (hex : string) : bool := opt_bytes_eqb (Some x) (unhex hex).
Definition unhex_or_nil (h : string) : bytes := match unhex h with Some x => x | None => [] end.

(* s[i+1:] for the last ':' of s *)
Definition after_last_colon (s : bytes) : option bytes :=
  match last_index_byte c_colon s with
  | Some i => Some (skipn (S i) s)
  | None => None
  end.

Definition usable_hostport (r : bytes) : bool :=
  match split_host_port r with
  | Ok (_, p) => negb (is_nil p)
  | _ => false
  end.

Definition check_addr (a : bytes) (o : addr_obs) : list nat :=
  clause 5 (negb (o_panic o)) ++
  if o_panic o then [] else
  clause 1 (Bool.eqb (o_valid o) (match valid documented a with Ok b => b | _ => false end)) ++
  if o_valid o then
    let ty := unhex_or_nil (o_type o) in
    clause 2 ((bytes_eqb ty t_tcp || bytes_eqb ty t_tls || bytes_eqb ty t_local) &&
              bytes_eqb (ty ++ sep ++ unhex_or_nil (o_na o)) a) ++
    clause 3 (eqh (join_host_port (unhex_or_nil (o_host o)) (unhex_or_nil (o_port o))) (o_na o)) ++
    (* the remaining predicates, from the observed Host() and Port() alone: a host name is a
       non-empty host that is no IP literal; Resolve() is the IP literal itself, the stub
       resolver's first answer for a host name, "" otherwise; the resolved address joins it with
       the port; Public() is "not one of the private prefixes" of the resolved address *)
    (let h := unhex_or_nil (o_host o) in
     let ip := parse_ip_ok h in
     let rs := if is_nil h then [] else if ip then h
               else match stub_lookup h with Some (x :: _) => x | _ => [] end in
     clause 8 (Bool.eqb (o_ishost o) (negb (is_nil h) && negb ip) &&
               eqh rs (o_resolve o) &&
               eqh (join_host_port (unhex_or_nil (o_resolve o)) (unhex_or_nil (o_port o))) (o_resolved o) &&
               Bool.eqb (o_public o) (negb (private_re (unhex_or_nil (o_resolved o))))))
  else
    clause 4 (eqh t_wrong (o_type o) && eqh [] (o_na o) && eqh [] (o_host o) && eqh [] (o_port o) &&
              eqh [] (o_resolve o) && eqh [] (o_resolved o) && negb (o_public o) && negb (o_ishost o)).

Definition check_listen (a l : bytes) (o : ob) : list nat :=
  match o with
  | OPanic => [5]
  | OErr => []
  | OOk h =>
      let r := unhex_or_nil h in
      clause 6 (usable_hostport r &&
                match after_last_colon a with
                | None => false
                | Some p =>
                    if is_nil l then bytes_eqb r (c_colon :: p)
                    else if has_byte c_colon l
                    then bytes_eqb r l &&
                         match split_host_port l with
                         | Ok (hl, pl) => negb (is_nil hl) && negb (is_nil pl)
                         | _ => false
                         end
                    else bytes_eqb r (l ++ c_colon :: p)
                end)
  end.

Definition check_bind (s : bytes) (o : ob) : list nat :=
  match o with
  | OPanic => [5]
  | OErr => []
  | OOk h =>
      clause 6 (match after_last_colon s with
                | Some p => eqh (c_colon :: p) h
                | None => false
                end)
  end.

(* host:port parts of an observed ws address, port as a number *)
Definition ws_parts (r : bytes) : option (bytes * N) :=
  match split_host_port r with
  | Ok (h, p) => match parse_uint16 p with Some n => Some (h, n) | None => None end
  | _ => None
  end.

(* the host of a server address read off by position: between "://" and the
   last ':', one pair of enclosing brackets removed *)
Definition spec_host (a : bytes) : option bytes :=
  let (_, rest) := split_sep sep a 0 in
  match rest with
  | [na] =>
      match last_index_byte c_colon na with
      | Some i =>
          let h := firstn i na in
          Some (match h with
                | c :: r => if Ascii.eqb c c_lbr && (match last_byte h with Some z => Ascii.eqb z c_rbr | None => false end)
                            then removelast r else h
                | [] => h
                end)
      | None => None
      end
  | _ => None
  end.

(* the port of an observed ws address: the decimal number after its last ':' *)
Definition ws_port (r : bytes) : option N :=
  match after_last_colon r with
  | Some p => parse_uint16 p
  | None => None
  end.

Definition check_ws (a u : bytes) (g : bool) (o : ob) : list nat :=
  match o with
  | OPanic => [5]
  | OErr => []
  | OOk h =>
      let r := unhex_or_nil h in
      clause 7
        (match u with
         | [] =>
             (* host:port, port = the address's port + 1 (hence no wrap), host = the address's host *)
             match ws_parts r, after_last_colon a, spec_host a with
             | Some (hn, n), Some ps, Some sh =>
                 match parse_uint16 ps with
                 | Some p => (n =? p + 1)%N && bytes_eqb hn (if g then B "0.0.0.0" else sh)
                 | None => false
                 end
             | _, _, _ => false
             end
         | _ =>
             match url_parse u with
             | UOk scheme hst =>
                 (* generated URL grammar: the URL's host name joined with its port or the scheme's *)
                 let (uh, ups) := url_split_host_port hst in
                 match (match ups with [] => scheme_to_port scheme | _ => parse_uint16 ups end) with
                 | Some n => bytes_eqb r (join_host_port (if g then B "0.0.0.0" else uh) (format_uint n))
                 | None => false
                 end
             | _ => match ws_port r with Some _ => true | None => false end   (* any other URL: an in-range port *)
             end
         end)
  end.

Definition check (c : case) : list nat :=
  match c with
  | CAddr a o => with1 a [] (fun a => check_addr a o)
  | CListen a l o => with2 a l [] (fun a l => check_listen a l o)
  | CBind s o => with1 s [] (fun s => check_bind s o)
  | CWS a u g o => with2 a u [] (fun a u => check_ws a u g o)
  | CSplitHP _ o _ => match o with OPanic => [5] | _ => [] end
  | _ => []
  end.

Definition violations (l : list case) : list (nat * nat) := viols check l.
