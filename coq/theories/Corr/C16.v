(* C16 correspondence: the storage model of Api/Storage.v against the
   implementation's answers on the same history, and the boolean checker of the
   property evaluated on the OBSERVATION.

   The checker is the refinement statement itself, executed: every service is
   given a PRIVATE database (only its own buckets); each observed answer must be
   the answer that private database gives.  It is applied only when the names of
   the acting services satisfy the side condition of the property
   ([names_ok]); histories with clashing names are compared with the model only. *)
From Coq Require Import List Arith Bool ZArith.
Import ListNotations.
From Onet Require Export Base.Corr Api.Storage Api.StorageSpec.

Inductive case :=
| CHist (names : list bytes) (dec : list bytes) (hist : list (hop * res))
        (changed : list nat)
  (* [changed]: positions of operations whose RESULT (the raw bytes of LoadRaw,
     a []byte field of the value decoded by Load, the bucket name returned by
     GetAdditionalBucket), kept by the harness service, was later found to differ
     from what it was when handed out -- re-compared after every later operation
     and restart; a fault while reading it counts as changed *)
  (* concurrent savers.  [writers]: one list per saver thread, IN THE ORDER the
     thread issued its Saves: (service, key, marshalled value), all values
     distinct.  [loaders]: one list per loader thread, the answers of its loads
     of ONE (service, key) in the order it got them, taken while the savers ran.
     [after]: loads issued after all savers had returned. *)
| CConc (names : list bytes) (writers : list (list (nat * bytes * bytes)))
        (loaders : list (list (nat * bytes * res))) (after : list (nat * bytes * res)).

(* ---- concurrent phase ---------------------------------------------------- *)
(* bbolt serialises Update transactions, so an execution is a linearisation: an
   interleaving of the threads that keeps each thread's order
   (Api/StorageProofs.v, [interleaving]).  By c16_concurrent_savers_quiescent_load
   the value after quiescence is the LAST save of that key by SOME saver. *)

Definition wr := (nat * bytes * bytes)%type.

Definition same_key (s : nat) (k : bytes) (w : wr) : bool :=
  match w with (s', k', _) => (s =? s') && bytes_eqb k k' end.

(* the values one saver wrote to (s, k), in its order *)
Definition wkey (w : list wr) (s : nat) (k : bytes) : list bytes :=
  map (fun x => snd x) (filter (same_key s k) w).

Definition wlast (w : list wr) (s : nat) (k : bytes) : option bytes :=
  match rev (wkey w s k) with v :: _ => Some v | [] => None end.

(* PROPERTY (clause 6) for a load after quiescence: the last save of that key by
   some saver -- not a value its own writer overwrote -- and nothing only if no
   saver wrote the key *)
Definition after_ok (writers : list (list wr)) (l : nat * bytes * res) : bool :=
  match l with
  | (s, k, RNone) => forallb (fun w => match wlast w s k with None => true | Some _ => false end) writers
  | (s, k, RBytes v) => existsb (fun w => match wlast w s k with Some v' => bytes_eqb v v' | None => false end) writers
  | _ => false
  end.

(* ... and for a load while the savers run: nothing, or a value some saver wrote there *)
Definition during_ok (writers : list (list wr)) (l : nat * bytes * res) : bool :=
  match l with
  | (s, k, RNone) => true
  | (s, k, RBytes v) => existsb (fun w => existsb (bytes_eqb v) (wkey w s k)) writers
  | _ => false
  end.

Definition conc_ok writers (loaders : list (list (nat * bytes * res))) after : bool :=
  forallb (forallb (during_ok writers)) loaders && forallb (after_ok writers) after.

(* MODEL AGREEMENT: is there a linearisation that keeps every saver's order and
   explains the answers every loader got, in the order it got them, and the
   answers after quiescence?  Savers of different keys and loaders of different
   keys do not constrain each other (each thread works on one key), so this is
   decided key by key.  Values being distinct, an answer v pins the moment "the
   latest save is v".  A linearisation exists iff the answers of a loader, with
   consecutive repetitions collapsed, never return to an earlier value, never
   show two saves of the SAME saver against that saver's order, show "nothing"
   only before any value, and the answer after quiescence is the last save of
   its saver.  (Necessity is immediate; sufficiency: the constraint graph made of
   the savers' chains and the chain of observed saves is then acyclic.  This
   criterion is executable Gallina, not proved equivalent to [interleaving].) *)

Fixpoint index_of (v : bytes) (l : list bytes) (i : nat) : option nat :=
  match l with
  | [] => None
  | x :: r => if bytes_eqb v x then Some i else index_of v r (S i)
  end.

Fixpoint find_w (ws : list (list wr)) (s : nat) (k v : bytes) (j : nat) : option (nat * nat) :=
  match ws with
  | [] => None
  | w :: r => match index_of v (wkey w s k) 0 with
              | Some i => Some (j, i)
              | None => find_w r s k v (S j)
              end
  end.

Definition pos_eqb (a b : nat * nat) : bool := (fst a =? fst b) && (snd a =? snd b).

(* may the save at [p] be observed after all the saves in [seen]? *)
Definition later_than (seen : list (nat * nat)) (p : nat * nat) : bool :=
  forallb (fun q => negb (pos_eqb q p) && (negb (fst q =? fst p) || (snd q <? snd p))) seen.

(* walk the answers of one thread for key (s, k); cur = save currently observed *)
Fixpoint lin_walk (ws : list (list wr)) (s : nat) (k : bytes)
         (cur : option (nat * nat)) (seen : list (nat * nat)) (obs : list res)
  : option (option (nat * nat)) :=
  match obs with
  | [] => Some cur
  | RNone :: r => match cur with None => lin_walk ws s k cur seen r | Some _ => None end
  | RBytes v :: r =>
      match find_w ws s k v 0 with
      | None => None
      | Some p =>
          match cur with
          | Some c => if pos_eqb c p then lin_walk ws s k cur seen r
                      else if later_than seen p then lin_walk ws s k (Some p) (p :: seen) r else None
          | None => lin_walk ws s k (Some p) (p :: seen) r
          end
      end
  | _ :: _ => None
  end.

(* the final answer must be the last save of its saver (or no saver wrote the key) *)
Definition final_ok (ws : list (list wr)) (s : nat) (k : bytes) (cur : option (nat * nat)) : bool :=
  match cur with
  | None => forallb (fun w => match wkey w s k with [] => true | _ => false end) ws
  | Some (j, i) => match nth_error ws j with
                   | Some w => S i =? length (wkey w s k)
                   | None => false
                   end
  end.

Definition key_of (l : list (nat * bytes * res)) : option (nat * bytes) :=
  match l with (s, k, _) :: _ => Some (s, k) | [] => None end.

Definition one_key (s : nat) (k : bytes) (l : list (nat * bytes * res)) : bool :=
  forallb (fun x => match x with (s', k', _) => (s =? s') && bytes_eqb k k' end) l.

Definition lin_thread (ws : list (list wr)) (loader : list (nat * bytes * res))
           (after : list (nat * bytes * res)) : bool :=
  match key_of loader with
  | None => true
  | Some (s, k) =>
      one_key s k loader &&
      forallb (fun a => match a with (s', k', r) =>
                 if (s =? s') && bytes_eqb k k'
                 then match lin_walk ws s k None [] (map (fun x => snd x) loader ++ [r]) with
                      | Some cur => final_ok ws s k cur
                      | None => false
                      end
                 else true end) after
  end.

Fixpoint distinct (l : list bytes) : bool :=
  match l with
  | [] => true
  | x :: r => negb (existsb (bytes_eqb x) r) && distinct r
  end.

Definition lin_ok (ws : list (list wr)) loaders after : bool :=
  distinct (map (fun x => snd x) (concat ws)) &&
  forallb (fun l => lin_thread ws l after) loaders &&
  (* keys without a loader: the answer after quiescence alone *)
  forallb (fun a => match a with (s, k, r) =>
             match lin_walk ws s k None [] [r] with
             | Some cur => final_ok ws s k cur
             | None => false
             end end) after.

(* ---- agreement with the model ------------------------------------------- *)

Definition agree (c : case) : bool :=
  match c with
  | CHist names dec hist changed =>
      (* values are immutable in the model: nothing handed out ever changes *)
      ress_eqb (houts dec names (map fst hist)) (map snd hist) &&
      match changed with [] => true | _ => false end
  | CConc names writers loaders after => lin_ok writers loaders after
  end.

Definition mismatches (l : list case) : list nat := mism_idx agree l.

(* ---- the property on the observation ------------------------------------ *)
(* clauses:
   1 a value saved under a key is not returned, equal, by a later load / raw load
     of that key by the same service (also after a restart), or a save failed
   2 loading a key this service never saved yields something, or an error
   3 the database version read is not the one this service saved last (0 if none)
   4 an additional bucket of this service does not return what this service put last
   5 crash (nil bucket)
   6 concurrent savers: a load after all savers returned does not yield the LAST save
     of that key by some saver (a value its own writer overwrote later counts as
     lost update), or a load during the phase yields a value nobody wrote there / an error
   8 a Save reported success but a later load of that key (before the next successful
     save of it) by the same service does not return exactly that value (any key)
   7 a value handed to the service (loaded bytes, decoded []byte field, additional
     bucket name) changed afterwards, or reading it faults *)

Definition check (c : case) : list nat :=
  nodup Nat.eq_dec
    match c with
    | CHist names dec hist changed =>
        (if names_ok names then pwalk dec names (pinit names) hist ++ swalk [] hist else []) ++
        (* a crash is a crash whatever the names (also a server that does not come back) *)
        clause 5 (forallb (fun x => negb (is_crash (snd x))) hist) ++
        (* clause 7 holds for any names: a value handed to a service is the service's *)
        clause 7 (match changed with [] => true | _ => false end)
    | CConc names writers loaders after =>
        if names_ok names then clause 6 (conc_ok writers loaders after) else []
    end.

Definition violations (l : list case) : list (nat * nat) := viols check l.
