(* C16 correspondence: the storage model of Api/Storage.v against the
   implementation's answers on the same history, and the boolean checker of the
   property evaluated on the OBSERVATION.

   The checker is the refinement statement itself, executed: every service is
   given a PRIVATE database (only its own buckets); each observed answer must be
   the answer that private database gives.  It is applied only when the names of
   the acting services satisfy the side condition of the property
   ([names_ok]); histories with clashing names are compared with the model only. *)
From Coq Require Import List Arith Bool ZArith.
Import ListNotations.
From Onet Require Export Base.Corr Api.Storage Api.StorageSpec.

Inductive case :=
| CHist (names : list bytes) (dec : list bytes) (hist : list (hop * res))
        (changed : list nat)
  (* [changed]: positions of operations whose RESULT (the raw bytes of LoadRaw,
     a []byte field of the value decoded by Load, the bucket name returned by
     GetAdditionalBucket), kept by the harness service, was later found to differ
     from what it was when handed out -- re-compared after every later operation
     and restart; a fault while reading it counts as changed *)
  (* concurrent savers: all writes issued concurrently (service, key, marshalled
     value); answers of loads issued while the writers ran and after they all
     finished (service, key, answer) *)
| CConc (names : list bytes) (writes : list (nat * bytes * bytes))
        (during after : list (nat * bytes * res)).

(* ---- concurrent phase: any serialisation is allowed ---------------------- *)

Definition written (writes : list (nat * bytes * bytes)) (s : nat) (k v : bytes) : bool :=
  existsb (fun w => match w with (s', k', v') => (s =? s') && bytes_eqb k k' && bytes_eqb v v' end) writes.

Definition any_write (writes : list (nat * bytes * bytes)) (s : nat) (k : bytes) : bool :=
  existsb (fun w => match w with (s', k', _) => (s =? s') && bytes_eqb k k' end) writes.

(* a load running concurrently with the writers: nothing, or some written value *)
Definition during_ok writes (l : nat * bytes * res) : bool :=
  match l with
  | (s, k, RNone) => true
  | (s, k, RBytes v) => written writes s k v
  | _ => false
  end.

(* a load after all writers finished: one of the values written to that key of
   that service; nothing only if nobody wrote it *)
Definition after_ok writes (l : nat * bytes * res) : bool :=
  match l with
  | (s, k, RNone) => negb (any_write writes s k)
  | (s, k, RBytes v) => written writes s k v
  | _ => false
  end.

Definition conc_ok writes during after : bool :=
  forallb (during_ok writes) during && forallb (after_ok writes) after.

(* ---- agreement with the model ------------------------------------------- *)

Definition agree (c : case) : bool :=
  match c with
  | CHist names dec hist changed =>
      (* values are immutable in the model: nothing handed out ever changes *)
      ress_eqb (houts dec names (map fst hist)) (map snd hist) &&
      match changed with [] => true | _ => false end
  | CConc names writes during after => conc_ok writes during after
  end.

Definition mismatches (l : list case) : list nat := mism_idx agree l.

(* ---- the property on the observation ------------------------------------ *)
(* clauses:
   1 a value saved under a key is not returned, equal, by a later load / raw load
     of that key by the same service (also after a restart), or a save failed
   2 loading a key this service never saved yields something, or an error
   3 the database version read is not the one this service saved last (0 if none)
   4 an additional bucket of this service does not return what this service put last
   5 crash (nil bucket)
   6 concurrent savers: a load returned a value nobody wrote to that key of that
     service, or an error, or nothing after a completed write
   8 a Save reported success but a later load of that key (before the next successful
     save of it) by the same service does not return exactly that value (any key)
   7 a value handed to the service (loaded bytes, decoded []byte field, additional
     bucket name) changed afterwards, or reading it faults *)

Definition check (c : case) : list nat :=
  nodup Nat.eq_dec
    match c with
    | CHist names dec hist changed =>
        (if names_ok names then pwalk dec names (pinit names) hist ++ swalk [] hist else []) ++
        (* a crash is a crash whatever the names (also a server that does not come back) *)
        clause 5 (forallb (fun x => negb (is_crash (snd x))) hist) ++
        (* clause 7 holds for any names: a value handed to a service is the service's *)
        clause 7 (match changed with [] => true | _ => false end)
    | CConc names writes during after =>
        if names_ok names then clause 6 (conc_ok writes during after) else []
    end.

Definition violations (l : list case) : list (nat * nat) := viols check l.
