(* C14 correspondence: the harness service of harness/cmd/c14, the model's
   verdict on each observed scenario ([agree]) and the boolean checker of the
   property itself on the OBSERVATION ([check]). *)
From Coq Require Import List String Ascii ZArith NArith Bool.
Import ListNotations.
From Onet Require Export Base.Corr Api.Rest Api.RestConc.

(* Which variant of the model describes /repo as it is now.  The integrator flips a
   definition to [true] when the corresponding fix commit lands. *)
Definition code_fixed_F17 := true.   (* REST: decoded argument allocated per request *)
Definition code_fixed_F28 := true.   (* client: a kept connection that failed is dropped *)

Definition code_flags : flags := {| fix_f17 := code_fixed_F17; fix_keep := code_fixed_F28 |}.

(* The service registered by the harness (harness/cmd/c14/main.go: newSvc).
   REST resources, in this order: POST MsgA (v3-4), PUT MsgB (v3), GET GetE (v3),
   GET GetI (v3-4), GET GetD (v3); websocket messages MsgA, MsgB, MsgG (as MsgB, behind
   a gate the harness controls; the gate only shapes the interleaving). *)
Definition c14_world : world :=
  {| w_regs := [ Reg KPost HStrict 10 3 4;
                 Reg KPut HLenient 11 3 3;
                 Reg KEmpty HConst 12 3 3;
                 Reg KInt HInt 13 3 4;
                 Reg KBytes HBytes 14 3 3 ];
     w_ws := [ (HStrict, 1); (HLenient, 2); (HLenient, 3) ] |}.

(* one scenario: the clients, the rounds (requests of one round are in flight
   together; a barrier separates rounds), and the reply observed for each request *)
Inductive case := Case (clients : list ckind) (rounds : list (list creq)) (obs : list (list reply)).

Definition agree (c : case) : bool :=
  match c with
  | Case clients rounds obs => scenario_ok code_flags c14_world clients (ainit c14_world) rounds obs
  end.

Definition mismatches (l : list case) : list nat := mism_idx agree l.

(* ---- the property on the observation ---------------------------------------- *)

(* Does the observed reply satisfy what the property demands of this request?
   [s] is the reply computed from this request's content alone.  A websocket
   connection closed without a reason still reports an error to that client. *)
Definition sat_reply (ws : bool) (s o : reply) : bool :=
  reply_eqb s o ||
  (ws && is_err s && match o with RErr EAbnormal _ => true | _ => false end).

Definition not_answered (o : reply) : bool :=
  match o with
  | RErr EDeadConn _ | RErr ETransport _ | RErr EAbnormal _ => true
  | _ => false
  end.

Definition handler_failure (s : reply) : bool :=
  match s with RErr EHandler _ | RErr EPanic _ => true | _ => false end.

(* history needed to name the way a reply is wrong *)
Record hist := { h_writes : list (nat * list write);   (* registration, writes of an earlier request *)
                 h_failed : list (nat * nat) }.         (* (client, path) of an earlier failed websocket request *)

Definition hist_writes (h : hist) (ri : nat) : list write :=
  flat_map (fun e => if Nat.eqb (fst e) ri then snd e else []) (h_writes h).

(* clause numbers:
   1 the reply is not the one computed for this request (wrong content, wrong class, someone else's reply)
   2 the reply was computed from this request's content mixed with fields of OTHER requests
     to the same REST resource (carry-over / cross-talk through a shared decoded argument)
   3 a handler error or panic was answered as a success
   4 the request was not answered at all (connection or server affected)
   5 a keeping client's request was not answered because an EARLIER request on that
     connection had failed
   6 as 2, but a string / byte field of the reply is TORN: pointer of one concurrent
     request's value, length of another's (data race on the shared decoded argument) *)
Definition classify (w : world) (clients : list ckind) (h : hist) (rd : list creq) (i : nat)
           (cr : creq) (s o : reply) : nat :=
  match c_req cr with
  | QRest q =>
      match routed_plan w cr with
      | Some (ri, r, p) =>
          match p_out p with
          | PCall =>
              let cs := cands false (acell_of zero_msg ++ hist_writes h ri) (p_writes p)
                              (other_writes w rd ri i 0) in
              if explained r false cs o then 2
              else if match other_writes w rd ri i 0 with [] => false | _ => true end && explained r true cs o then 6
              else if handler_failure s && negb (is_err o) then 3
              else if not_answered o then 4 else 1
          | PReply _ => if not_answered o then 4 else 1
          end
      | None => if not_answered o then 4 else 1
      end
  | QWs path _ =>
      match nth_error clients (c_client cr) with
      | Some ck =>
          if ck_keep ck && not_answered o &&
             (is_dead (h_failed h) (c_client cr) path ||
              other_ws_fails w clients rd (c_client cr) path i 0)
          then 5
          else if handler_failure s && negb (is_err o) then 3
          else if not_answered o then 4 else 1
      | None => 1
      end
  end.

Definition is_ws (cr : creq) : bool := match c_req cr with QWs _ _ => true | QRest _ => false end.

Fixpoint check_round (w : world) (clients : list ckind) (h : hist) (rd rest : list creq)
         (obs : list reply) (i : nat) : list nat :=
  match rest, obs with
  | cr :: r, o :: os =>
      let s := spec w clients cr in
      (if sat_reply (is_ws cr) s o then [] else [classify w clients h rd i cr s o]) ++
      check_round w clients h rd r os (S i)
  | [], [] => []
  | _, _ => [1]          (* a request without observation, or the converse *)
  end.

Definition hist_after (w : world) (clients : list ckind) (h : hist) (rd : list creq) : hist :=
  {| h_writes := flat_map (fun cr => match routed_plan w cr with
                                     | Some (ri, _, p) => [(ri, p_writes p)]
                                     | None => []
                                     end) rd ++ h_writes h;
     h_failed := flat_map (fun cr => match ws_req_of clients cr with
                                     | Some (c, p, _, q) => if is_err (ws_handle (w_ws w) q) then [(c, p)] else []
                                     | None => []
                                     end) rd ++ h_failed h |}.

Fixpoint check_rounds (w : world) (clients : list ckind) (h : hist)
         (rounds : list (list creq)) (obs : list (list reply)) : list nat :=
  match rounds, obs with
  | rd :: r, o :: os =>
      check_round w clients h rd rd o 0 ++ check_rounds w clients (hist_after w clients h rd) r os
  | [], [] => []
  | _, _ => [1]
  end.

Fixpoint dedup (l : list nat) : list nat :=
  match l with
  | [] => []
  | x :: r => if existsb (Nat.eqb x) r then dedup r else x :: dedup r
  end.

Definition check (c : case) : list nat :=
  match c with
  | Case clients rounds obs =>
      dedup (check_rounds c14_world clients {| h_writes := []; h_failed := [] |} rounds obs)
  end.

Definition violations (l : list case) : list (nat * nat) := viols check l.
