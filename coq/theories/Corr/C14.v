(* C14 correspondence: the harness service of harness/cmd/c14, the model's
   verdict on each observed scenario ([agree]) and the boolean checker of the
   property itself on the OBSERVATION ([check]). *)
From Coq Require Import List String Ascii ZArith NArith Bool.
Import ListNotations.
From Onet Require Export Base.Corr Api.Rest Api.RestConc Api.Par Api.Spec.
From Onet Require Api.StreamStop.

(* Which variant of the model describes /repo as it is now.  The integrator flips a
   definition to [true] when the corresponding fix commit lands. *)
Definition code_fixed_F17 := true.   (* REST: decoded argument allocated per request *)
Definition code_fixed_F28 := true.   (* client: a kept connection that failed is dropped *)
Definition code_fixed_C14N1 := true. (* parallel sender: the QuitError path closes [done] under the mutex, once *)

Definition code_flags : flags := {| fix_f17 := code_fixed_F17; fix_keep := code_fixed_F28 |}.

(* The service registered by the harness (harness/cmd/c14/main.go: newSvc).
   REST resources, in this order: POST MsgA (v3-4), PUT MsgB (v3), GET GetE (v3),
   GET GetI (v3-4), GET GetD (v3); websocket messages MsgA, MsgB, MsgG (as MsgB, behind
   a gate the harness controls; the gate only shapes the interleaving), MsgN (acknowledge
   only: the handler returns (nil, nil)). *)
Definition c14_world : world :=
  {| w_regs := [ Reg KPost HStrict 10 3 4;
                 Reg KPut HLenient 11 3 3;
                 Reg KEmpty HConst 12 3 3;
                 Reg KInt HInt 13 3 4;
                 Reg KBytes HBytes 14 3 3 ];
     w_ws := [ (HStrict, 1); (HLenient, 2); (HLenient, 3); (HAck, 0) ] |}.

(* ---- cases -------------------------------------------------------------------- *)

(* a conversation on the streaming path MsgT: who, what is sent, in this order *)
Record sconv := SConv { sc_client : nat; sc_msgs : list smsg }.
(* what came back: per message sent the replies read before the next one was sent, and how it ended *)
Record sobs := SObs { so_replies : list (list reply); so_status : sstatus }.

(* one step of a scenario that drives the repo's own client API against 2-4 servers *)
Inductive pstep :=
| StSend (calls : list (nat * pmsg))
    (* concurrent Client.SendProtobuf calls of ONE client: (destination node, request) *)
| StReuse (calls : list (nat * bool * pmsg))
    (* Client.SendProtobuf calls one after the other that REUSE ONE reply variable:
       (destination node, to the acknowledge-only endpoint MsgN?, request) *)
| StAll (q : pmsg)
    (* Client.SendToAll over the roster of all nodes *)
| StCall (o : popts) (use_decoder want_ret : bool) (q : pmsg) (prio : list nat) (hold : option nat).
    (* SendProtobufParallel[WithDecoder] to all nodes; prio = the order in which the
       harness lets the nodes answer ([] = not controlled); hold = the node whose worker
       the harness keeps at the schedule point client.parAccept (between its check of
       [done] and its close) until all other nodes have answered *)
Inductive pstep_obs :=
| OSend (replies : list reply)
| OAll (slots : list (option reply)) (err : bool)
    (* the returned slice, slot by slot (None = empty), and whether an error was returned *)
| OReuse (seen : list reply)
    (* per call: the error, or what the reply variable holds after the call *)
| OCall (res : option presult) (ret_first ret_final : option msg) (died : bool).
    (* res = None: the call never returned; died: the process died during the step
       (then ret_final could not be read) *)

Inductive case :=
| Case (clients : list ckind) (rounds : list (list creq)) (obs : list (list reply))
    (* the clients, the rounds (requests of one round are in flight together; a barrier
       separates rounds), and the reply observed for each request *)
| CMix (clients : list ckind) (rounds : list (list creq)) (obs : list (list reply))
       (streams : list (list sconv)) (sobss : list (list sobs))
    (* the same, and per round the streaming conversations that ran concurrently with it *)
| CPar (nodes : list nbehav) (keep : bool) (steps : list pstep) (obs : list pstep_obs)
| CStore (keeps : list bool) (ops : list sop) (obs : list reply)
| CShare (nreq : nat) (keeps : list bool) (ops : list sop) (obs : list reply).
    (* a client sent nreq requests on one stream whose handler gave all of them ONE stop
       channel, then went away (several times over); afterwards other clients send ops *)
    (* Put / Get on the storing endpoints, one after the other; keeps: per client, does it
       keep its connection *)

Definition agree_rounds (clients : list ckind) (rounds : list (list creq)) (obs : list (list reply)) : bool :=
  scenario_ok code_flags c14_world clients (ainit c14_world) rounds obs.

(* ---- the property on the observation ---------------------------------------- *)

(* The verdict "this reply violates the property" comes from the specification alone:
   [Api.Spec.satisfies (spec_of ...)] -- the handler's reply for exactly this request's
   content, or AN error (whatever its class) where the request is malformed, mis-addressed
   or its handler fails.  The model is consulted only afterwards, to NAME the way in which
   a violating reply is wrong (the clause number, by which known findings are told apart). *)

Definition not_answered (o : reply) : bool :=
  match o with
  | RErr EDeadConn _ | RErr ETransport _ | RErr EAbnormal _ => true
  | _ => false
  end.

Definition handler_failure (s : sreply) : bool :=
  match s with SError (Some _) => true | _ => false end.

(* history needed to name the way a reply is wrong *)
Record hist := { h_writes : list (nat * list write);   (* registration, writes of an earlier request *)
                 h_failed : list (nat * nat) }.         (* (client, path) of an earlier failed websocket request *)

Definition hist_writes (h : hist) (ri : nat) : list write :=
  flat_map (fun e => if Nat.eqb (fst e) ri then snd e else []) (h_writes h).

(* clause numbers:
   1 the reply is not the one computed for this request (wrong content, a success where the
     request had to be refused or the converse, somebody else's reply or somebody else's failure)
   2 the reply was computed from this request's content mixed with fields of OTHER requests
     to the same REST resource (carry-over / cross-talk through a shared decoded argument)
   3 a handler error or panic was answered as a success
   4 the request was not answered at all (connection or server affected)
   5 a keeping client's request was not answered because an EARLIER request on that
     connection had failed
   6 as 2, but a string / byte field of the reply is TORN: pointer of one concurrent
     request's value, length of another's (data race on the shared decoded argument) *)
Definition classify (w : world) (clients : list ckind) (h : hist) (rd : list creq) (i : nat)
           (cr : creq) (s : sreply) (o : reply) : nat :=
  match c_req cr with
  | QRest q =>
      match routed_plan w cr with
      | Some (ri, r, p) =>
          match p_out p with
          | PCall =>
              let cs := cands false (acell_of zero_msg ++ hist_writes h ri) (p_writes p)
                              (other_writes w rd ri i 0) in
              if explained r false cs o then 2
              else if match other_writes w rd ri i 0 with [] => false | _ => true end && explained r true cs o then 6
              else if handler_failure s && negb (is_err o) then 3
              else if not_answered o then 4 else 1
          | PReply _ => if not_answered o then 4 else 1
          end
      | None => if not_answered o then 4 else 1
      end
  | QWs path _ =>
      match nth_error clients (c_client cr) with
      | Some ck =>
          if ck_keep ck && not_answered o &&
             (is_dead (h_failed h) (c_client cr) path ||
              other_ws_fails w clients rd (c_client cr) path i 0)
          then 5
          else if handler_failure s && negb (is_err o) then 3
          else if not_answered o then 4 else 1
      | None => 1
      end
  end.

Definition is_ws (cr : creq) : bool := req_is_ws cr.

Fixpoint check_round (w : world) (clients : list ckind) (h : hist) (rd rest : list creq)
         (obs : list reply) (i : nat) : list nat :=
  match rest, obs with
  | cr :: r, o :: os =>
      let s := spec_of w clients cr in
      (if satisfies (req_is_ws cr) s o then [] else [classify w clients h rd i cr s o]) ++
      check_round w clients h rd r os (S i)
  | [], [] => []
  | _, _ => [1]          (* a request without observation, or the converse *)
  end.

Definition hist_after (w : world) (clients : list ckind) (h : hist) (rd : list creq) : hist :=
  {| h_writes := flat_map (fun cr => match routed_plan w cr with
                                     | Some (ri, _, p) => [(ri, p_writes p)]
                                     | None => []
                                     end) rd ++ h_writes h;
     h_failed := flat_map (fun cr => match ws_req_of clients cr with
                                     | Some (c, p, _, q) => if is_err (ws_handle (w_ws w) q) then [(c, p)] else []
                                     | None => []
                                     end) rd ++ h_failed h |}.

Fixpoint check_rounds (w : world) (clients : list ckind) (h : hist)
         (rounds : list (list creq)) (obs : list (list reply)) : list nat :=
  match rounds, obs with
  | rd :: r, o :: os =>
      check_round w clients h rd rd o 0 ++ check_rounds w clients (hist_after w clients h rd) r os
  | [], [] => []
  | _, _ => [1]
  end.

Fixpoint dedup (l : list nat) : list nat :=
  match l with
  | [] => []
  | x :: r => if existsb (Nat.eqb x) r then dedup r else x :: dedup r
  end.

(* ---- streaming conversations ------------------------------------------------------ *)

Fixpoint list_eqb {A} (e : A -> A -> bool) (a b : list A) : bool :=
  match a, b with
  | [], [] => true
  | x :: a', y :: b' => e x y && list_eqb e a' b'
  | _, _ => false
  end.

Definition sstatus_eqb (a b : sstatus) : bool :=
  match a, b with SOpen, SOpen | SClosed, SClosed | SDead, SDead => true | _, _ => false end.

Definition agree_conv (c : sconv) (o : sobs) : bool :=
  let (rs, st) := conversation true (sc_msgs c) in
  list_eqb (list_eqb reply_eqb) rs (so_replies o) && sstatus_eqb st (so_status o).

(* what the property demands of ONE message of a conversation: the stream computed from
   that message alone; a failing message gets no reply and the stream is closed *)
Definition spec_msg (m : smsg) : list reply * bool (* the stream goes on *) :=
  match m with
  | SGarbage => ([], false)
  | SMsg p =>
      match handler HLenient (apply_writes zero_msg (pmsg_writes p)) with
      | HOk r => (stream_replies r, true)     (* the stream the handler produces for this message *)
      | _ => ([], false)                       (* error or panic: no reply, the stream is closed *)
      end
  end.

(* clause 8: a streaming request was not answered with the stream computed for it
   clause 4: not answered at all (the connection or the server died) *)
Fixpoint check_conv (msgs : list smsg) (obs : list (list reply)) (st : sstatus) : list nat :=
  match msgs, obs with
  | m :: ms, o :: os =>
      let (rs, goes_on) := spec_msg m in
      if goes_on then
        (if list_eqb reply_eqb rs o then check_conv ms os st
         else if sstatus_eqb st SDead then [4] else [8])
      else
        (match o, os with
         | [], [] => if sstatus_eqb st SClosed then [] else if sstatus_eqb st SDead then [4] else [8]
         | _, _ => [8]
         end)
  | [], [] => if sstatus_eqb st SDead then [4] else []
  | _ :: _, [] => if sstatus_eqb st SDead then [4] else [8]   (* a message was not sent / not observed *)
  | [], _ :: _ => [8]
  end.

Fixpoint zip_with {A B C} (f : A -> B -> C) (d : C) (a : list A) (b : list B) : list C :=
  match a, b with
  | x :: a', y :: b' => f x y :: zip_with f d a' b'
  | [], [] => []
  | _, _ => [d]
  end.

Definition agree_streams (ss : list (list sconv)) (os : list (list sobs)) : bool :=
  forallb (fun x => x) (zip_with (fun cs cos => forallb (fun x => x) (zip_with agree_conv false cs cos)) false ss os).

Definition check_streams (ss : list (list sconv)) (os : list (list sobs)) : list nat :=
  List.concat (zip_with (fun cs cos => List.concat (zip_with (fun c o => check_conv (sc_msgs c) (so_replies o) (so_status o)) [8] cs cos))
                   [8] ss os).

(* ---- the repo's client API against several servers ----------------------------------- *)

Fixpoint insert_all (x : nat) (l : list nat) : list (list nat) :=
  match l with
  | [] => [[x]]
  | y :: r => (x :: l) :: map (cons y) (insert_all x r)
  end.
Fixpoint perms (l : list nat) : list (list nat) :=
  match l with
  | [] => [[]]
  | x :: r => flat_map (insert_all x) (perms r)
  end.

Definition presult_eqb (a b : presult) : bool :=
  match a, b with
  | RNode x, RNode y => Nat.eqb x y
  | RError c t, RError c' t' => errc_eqb c c' && String.eqb t t'
  | RCrash, RCrash => true
  | _, _ => false
  end.

Definition omsg_eqb (a b : option msg) : bool :=
  match a, b with Some x, Some y => msg_eqb x y | None, None => true | _, _ => false end.

Definition decode_q (q : pmsg) : msg := apply_writes zero_msg (pmsg_writes q).

(* the reply of node i to a single SendProtobuf *)
Definition send_reply (bs : list nbehav) (call : nat * pmsg) : reply :=
  match node_out bs true (decode_q (snd call)) (fst call) with
  | POk r => ROk 6 r
  | PBadReply r => ROk 66 r
  | PErr c t => RErr c t
  end.

(* what the server answers to one call of a reuse step, and what the property demands of it *)
Definition reuse_server (bs : list nbehav) (c : nat * bool * pmsg) : reply :=
  match c with (i, ack, q) => if ack then zero_reply else send_reply bs (i, q) end.
Definition reuse_spec (bs : list nbehav) (c : nat * bool * pmsg) : sreply :=
  match c with
  | (i, true, q) => SOk 0 zero_msg          (* the handler has no reply: the zero reply *)
  | (i, false, q) => match node_out bs true (decode_q q) i with
                     | POk r => SOk 6 r
                     | PBadReply r => SOk 66 r
                     | PErr _ t => SError (Some t)
                     end
  end.

(* SendToAll: what each server answers (None: the request to it fails) *)
Definition all_outs (bs : list nbehav) (q : pmsg) : list (option reply) :=
  map (fun i => match send_reply bs (i, q) with ROk t m => Some (ROk t m) | RErr _ _ => None end)
      (seq 0 (List.length bs)).

Definition oreply_eqb (a b : option reply) : bool :=
  match a, b with Some x, Some y => reply_eqb x y | None, None => true | _, _ => false end.

(* what the property demands of a single SendProtobuf to node i *)
Definition send_spec (bs : list nbehav) (call : nat * pmsg) : sreply :=
  match node_out bs true (decode_q (snd call)) (fst call) with
  | POk r => SOk 6 r
  | PBadReply r => SOk 66 r
  | PErr _ t => SError (Some t)
  end.

Definition predicted (bs : list nbehav) (o : popts) (use_decoder want_ret : bool) (q : pmsg)
           (perm prio : list nat) (hold : option nat) : pobs :=
  let n := List.length bs in
  let (par, chosen) := getlist n o perm in
  observe (drive (3 * n + 4) false code_fixed_C14N1 want_ret (quit_of o) (node_out bs use_decoder (decode_q q))
                 prio hold (pinit par chosen)).

Definition ores_eqb (a b : option presult) : bool :=
  match a, b with Some x, Some y => presult_eqb x y | None, None => true | _, _ => false end.

Definition agree_pstep (bs : list nbehav) (st : pstep) (ob : pstep_obs) : bool :=
  match st, ob with
  | StSend calls, OSend rs => list_eqb agree_reply (map (send_reply bs) calls) rs
  | StAll q, OAll slots err =>
      let (ms, e) := send_to_all (all_outs bs q) in list_eqb oreply_eqb ms slots && Bool.eqb e err
  | StReuse calls, OReuse rs => list_eqb agree_reply (sendpb_seq false None (map (reuse_server bs) calls)) rs
  | StCall o use_decoder want_ret q prio hold, OCall res first final died =>
      let ids := seq 0 (List.length bs) in
      let cperm := if o_nil o || negb (o_noshuffle o) then perms ids else [ids] in
      let cprio := match prio with [] => perms ids | _ => [prio] end in
      existsb (fun perm => existsb (fun pr =>
        let p := predicted bs o use_decoder want_ret q perm pr hold in
        ores_eqb (po_result p) res && omsg_eqb (po_ret_first p) first && Bool.eqb (po_died p) died &&
        (died || omsg_eqb (po_ret_final p) final)) cprio) cperm
  | _, _ => false
  end.

(* clause 7: the value decoded into ret -- when the call returned, or re-read after all
   workers had finished -- is not the reply that the node named in the result produced
   for this request (or ret was written although no node was accepted / none was given)
   clause 9: the call returned an error although ret was written with some node's reply
   (at the return or afterwards)
   clause 10: without QuitError the call returned an error although a node that was asked
   produced an acceptable reply
   clause 1: a single SendProtobuf was not answered with the reply of its destination
   clause 4: no answer at all: the call did not return, panicked, or the client process died *)
Definition check_pstep (bs : list nbehav) (st : pstep) (ob : pstep_obs) : list nat :=
  match st, ob with
  | StSend calls, OSend rs =>
      List.concat (zip_with (fun c o => if satisfies true (send_spec bs c) o then []
                                   else if not_answered o then [4] else [1]) [1] calls rs)
  | StAll q, OAll slots err =>
      (* clause 13: SendToAll: the result does not have one slot per server, or slot i is not
         the reply of server i (empty where the request to server i failed) *)
      clause 13 (list_eqb oreply_eqb (all_outs bs q) slots) ++
      clause 13 (Bool.eqb (existsb is_none (all_outs bs q)) err)
  | StReuse calls, OReuse rs =>
      (* clause 11: after a SendProtobuf the caller's reply variable does not hold the decoding
         of THIS call's reply (content of an earlier reply is presented as this one's) *)
      List.concat (zip_with (fun c o => if satisfies true (reuse_spec bs c) o then []
                                        else if not_answered o then [4]
                                        else if is_err o then [1] else [11]) [1] calls rs)
  | StCall o use_decoder want_ret q prio hold, OCall res first final died =>
      (if died then [4] else []) ++
      match res with
      | None => [4]
      | Some (RNode n) =>
          (* with the order of the node list fixed, the returned node is one that was asked *)
          (if o_noshuffle o && negb (o_nil o)
           then clause 7 (mem_nat n (snd (getlist (List.length bs) o (seq 0 (List.length bs)))))
           else []) ++
          let expect :=
            if want_ret then
              match node_out bs use_decoder (decode_q q) n with
              | POk r => Some (Some r)
              | _ => None                       (* this node gave no acceptable reply at all *)
              end
            else match node_out bs use_decoder (decode_q q) n with
                 | PErr _ _ => None
                 | _ => Some None
                 end in
          match expect with
          | Some e => clause 7 (omsg_eqb first e && (died || omsg_eqb final e))
          | None => [7]
          end
      | Some (RError _ _) =>
          (* an error: no reply was accepted, so ret must not have been written, nor be written later *)
          clause 9 (omsg_eqb first None && (died || omsg_eqb final None)) ++
          (* without QuitError an error is the answer only if every node that was asked failed *)
          (if o_noshuffle o && negb (o_nil o) && negb (o_quit o)
           then clause 10 (forallb (fun i => match node_out bs use_decoder (decode_q q) i with
                                             | PErr _ _ => true
                                             | PBadReply _ => want_ret
                                             | POk _ => false end)
                                   (snd (getlist (List.length bs) o (seq 0 (List.length bs)))))
           else [])
      | Some RCrash =>
          (* the call panicked: legitimate only when there was nobody to ask *)
          clause 4 (match snd (getlist (List.length bs) o (seq 0 (List.length bs))) with [] => true | _ => false end)
      end
  | _, _ => [1]
  end.

(* ---- all kinds of case ------------------------------------------------------------------ *)

(* the stoppers of nreq requests sharing stop channel 0 (Api/StreamStop.v), run under the
   schedule "all enter, all test, all close" and under the sequential one: does the server
   crash on a second close? With the mutex neither does (StreamStopProofs.stop_closed_once). *)
Definition code_stopper_mutex := true.
Definition share_scheds (n : nat) : list (list StreamStop.saction) :=
  [ (map StreamStop.SLock (seq 0 n) ++ map StreamStop.STest (seq 0 n) ++ map StreamStop.SClose (seq 0 n))%list;
    List.concat (map (fun k => [StreamStop.SLock k; StreamStop.STest k; StreamStop.SClose k]) (seq 0 n)) ].
Fixpoint srun_upto (mutex : bool) (s : StreamStop.sst) (acts : list StreamStop.saction) : StreamStop.sst :=
  match acts with
  | [] => s
  | a :: r => match StreamStop.sstep1 mutex s a with None => srun_upto mutex s r | Some s' => srun_upto mutex s' r end
  end.
Definition share_crashes (mutex : bool) (n : nat) : bool :=
  existsb (fun acts => StreamStop.scrash (srun_upto mutex (StreamStop.sinit1 (repeat 0 n)) acts)) (share_scheds n).
Definition share_model (mutex : bool) (n : nat) (keeps : list bool) (ops : list sop) : list reply :=
  if share_crashes mutex n then map (fun _ => RErr ETransport ""%string) ops else store_run false keeps [] ops.

Definition agree (c : case) : bool :=
  match c with
  | Case clients rounds obs => agree_rounds clients rounds obs
  | CMix clients rounds obs ss sos => agree_rounds clients rounds obs && agree_streams ss sos
  | CPar bs keep steps obs => forallb (fun x => x) (zip_with (agree_pstep bs) false steps obs)
  | CStore keeps ops obs => list_eqb agree_reply (store_run false keeps [] ops) obs
  | CShare n keeps ops obs => list_eqb agree_reply (share_model code_stopper_mutex n keeps ops) obs
  end.

Definition mismatches (l : list case) : list nat := mism_idx agree l.

Definition check (c : case) : list nat :=
  match c with
  | Case clients rounds obs =>
      dedup (check_rounds c14_world clients {| h_writes := []; h_failed := [] |} rounds obs)
  | CMix clients rounds obs ss sos =>
      dedup (check_rounds c14_world clients {| h_writes := []; h_failed := [] |} rounds obs ++ check_streams ss sos)
  | CPar bs keep steps obs => dedup (List.concat (zip_with (check_pstep bs) [1] steps obs))
  | CStore keeps ops obs =>
      (* clause 12: the reply of the storing handler is not computed from what the requests
         carried (Get does not return the data of the last Put of that key): the content a
         handler kept from one request was changed by another *)
      dedup (List.concat (zip_with (fun s o => if reply_eqb s o then []
                                               else if not_answered o then [4] else [12])
                                   [1] (store_spec [] ops) obs))
  | CShare n keeps ops obs =>
      (* clause 4: with the mutex the stoppers never crash the server, so the later
         requests of other clients are answered as if the stream had not been there *)
      dedup (List.concat (zip_with (fun s o => if reply_eqb s o then []
                                               else if not_answered o then [4] else [12])
                                   [1] (if share_crashes true n then [] else store_spec [] ops) obs))
  end.

Definition violations (l : list case) : list (nat * nat) := viols check l.
