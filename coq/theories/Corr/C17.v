(* C17 correspondence: the model of Net/Peers.v against the implementation's
   observation of the same history, and the boolean checker of the property
   (Net/PeersSpec.v) evaluated on the OBSERVATION. *)
From Coq Require Import List Arith Bool.
Import ListNotations.
From Onet Require Export Base.Corr Net.Peers Net.PeersSpec.

(* Which variant of the model /repo is compared with.  [true] since the repair of
   F25 landed in /repo (commit ff36148 "fix: valid peers are filtered on the id
   derived from the public key"); the F25 witnesses stay in the harness corpus and
   would be reported as VIOLATION (not as a known finding) if the defect returned. *)
Definition code_fixed_F25 := true.

(* Canonical numbering used by the harness: key k (0-based index in the key
   pool) has derived id k+1; 0 is the all-zero uuid; >= 1000 are ids that
   belong to no key of the history. *)
Definition idk (k : nat) : nat := S k.

(* One case = one history run against a fresh filtering server.
   [hist]  : the operations, each with the outcome observed on the implementation
             (read-back sets sorted ascending by canonical number);
   [sids]  : every set-id derivation used in the history together with the
             equivalence class of the real 32-byte PeerSetID the implementation
             computed for it (equal bytes <-> equal class number). *)
Inductive case :=
| Case (hist : list (op * out)) (sids : list (sidsrc * nat)).

Definition hist_of (c : case) := match c with Case h _ => h end.
Definition sids_of (c : case) := match c with Case _ s => s end.

Definition optlist_eqb (a b : option (list nat)) : bool :=
  match a, b with
  | None, None => true
  | Some x, Some y => same_set x y
  | _, _ => false
  end.

(* model output vs observation; read-back sets are compared as sets, and nil
   vs empty IS compared (the model mirrors the code) *)
Definition out_eqb (model obs : out) : bool :=
  match model, obs with
  | XUnit, XUnit => true
  | XGot a, XGot b => optlist_eqb a b
  | XAccept, XAccept => true
  | XRefuse, XRefuse => true
  | XDisp k d, XDisp k' d' => (k =? k') && (d =? d')
  | XNone, XNone => true
  | _, _ => false
  end.

Fixpoint outs_eqb (a b : list out) : bool :=
  match a, b with
  | [], [] => true
  | x :: a', y :: b' => out_eqb x y && outs_eqb a' b'
  | _, _ => false
  end.

(* the derivation model [src_sid] identifies exactly the ids the implementation identifies *)
Definition sids_agree (l : list (sidsrc * nat)) : bool :=
  forallb (fun a => forallb (fun b =>
     Bool.eqb (sid_eqb (src_sid (fst a)) (src_sid (fst b))) (snd a =? snd b)) l) l.

Definition model_outs (h : list (op * out)) : list out :=
  outs idk code_fixed_F25 (map fst h).

Definition agree (c : case) : bool :=
  outs_eqb (model_outs (hist_of c)) (map snd (hist_of c)) && sids_agree (sids_of c).

Definition mismatches (l : list case) : list nat := mism_idx agree l.

(* property checker on the observation (clauses documented in Net/PeersSpec.v) *)
Definition is_broken (x : out) : bool := match x with XBroken => true | _ => false end.

(* clause 9: some operation made the implementation panic, or a connection attempt /
   send was neither served nor closed (such runs used to be dropped by the harness) *)
Definition check (c : case) : list nat :=
  nodup Nat.eq_dec (check_hist idk (hist_of c) ++
                    clause 9 (forallb (fun ox => negb (is_broken (snd ox))) (hist_of c))).

Definition violations (l : list case) : list (nat * nat) := viols check l.
