(* C07 correspondence. A case is a history of operations (envelopes handed to the
   real server, local calls) with, after each operation, what the harness
   observed: outcome (returned / panicked or process died / never returned), which
   overlay mutexes were locked, what the server sent to its peers, which handler
   calls were made, tree store, instance table, parked messages, pending tree
   descriptions.  [agree] runs the model of Overlay/Robust.v on the same
   operations and compares after every step.  [check] is the property itself,
   evaluated on the observations only. *)
From Coq Require Import List Arith Bool.
Import ListNotations.
From Onet Require Export Base.Corr Overlay.Robust.

(* which repairs the code under /repo currently contains *)
Definition code_fixed_F05 := true.
Definition code_fixed_F06 := true.
Definition code_fixed_F07 := true.
Definition code_fixed_F08 := true.
Definition code_fixed_F26 := true.
Definition code_fixed_F70 := true.
Definition code_fixed_F71 := false.
Definition code_fixed_F72 := true.
Definition code_fixes : fixes :=
  mkFixes code_fixed_F05 code_fixed_F06 code_fixed_F07 code_fixed_F08 code_fixed_F26
          code_fixed_F70 code_fixed_F71 code_fixed_F72.

Record sto := mkSt { so_id : nat; so_code : nat; so_ro : nat; so_root : nat;
                     so_nodes : list (nat * nat) }.   (* DFS pre-order: node id, server *)

Record obs := mkObs {
  ob_out : nat;                        (* 0 returned, 1 panic / process died, 2 never returned *)
  ob_locks : list nat;                 (* codes of the overlay mutexes found locked afterwards *)
  ob_sends : list (nat * reply);       (* received by the peers *)
  ob_delivs : list (token * nat);      (* handler calls: token, sender node *)
  ob_store : list sto;                 (* tracked tree ids: 0 absent / 1 requested / 2 present, roster id, root node *)
  ob_insts : list (token * nat);       (* tracked tokens: 0 unknown / 1 listed / 2 done *)
  ob_parked : option nat;
  ob_ptm : nat;
  ob_removal : list (nat * bool);
  ob_reply_ok : bool }.                (* every reply the protocol's handler sent to its parent has arrived there *)

(* what a canary operation is owed *)
Inductive expect :=
| XSend (p : nat) (r : reply)                          (* this reply reaches the requester *)
| XDeliverBy (k : token) (from : nat)                  (* the handler of k has been called by now *)
| XAskOrDeliver (p : nat) (tree : nat) (k : token) (from : nat).  (* ... or the sender was asked for the tree *)

(* an operation of a history: an operation of the model, or "the grace period of the
   tree store elapses" (the harness shortens treeStorage.timeout and waits it out) *)
Inductive xop := XOp (o : op) | XElapse.
Definition xstep (s : ostate) (x : xop) : result :=
  match x with
  | XOp o => step code_fixes s o
  | XElapse => mkR (elapse s) [] Ok
  end.

Inductive case :=
| mkCase (ops : list (xop * option expect * bool))      (* operation, canary expectation, full observation available *)
         (observed : list obs)
| mkStress (aborted : bool) (free_scans : bool)        (* F26 stress run: runtime abort on concurrent map access / scan seen without the lock *)
| mkRace (variant : nat) (crashed : bool) (hung : bool) (served : bool)
  (* forced schedule race-deliver-done: a peer's message is held at the wake-up of the
     instance's reader while the instance is closed (0: by Done, 1: by Overlay.Close,
     2: the flush goroutine delivers a parked message, closed by Done); process died /
     the closer, the delivery or a step of the scenario never returned / the scenario's
     legitimate messages and the legitimate run afterwards were served *)
| mkAbnormal (crashed : bool) (hung : bool).
  (* a run that ended outside every scripted observation: the process hosting the server
     died at an unexpected place / did not finish within the (generous) deadline *)

(* ---- model vs observation ------------------------------------------------------ *)

Definition reply_eqb (a b : reply) : bool :=
  match a, b with
  | RReqTree x, RReqTree y => x =? y
  | RRespTree x y z, RRespTree x' y' z' => (x =? x') && (y =? y') && (z =? z')
  | RTreeMarshal x y z, RTreeMarshal x' y' z' => (x =? x') && (y =? y') && (z =? z')
  | RReqRoster x, RReqRoster y => x =? y
  | RRoster x, RRoster y => x =? y
  | _, _ => false
  end.

Fixpoint remove_first {A} (eqb : A -> A -> bool) (x : A) (l : list A) : option (list A) :=
  match l with
  | [] => None
  | y :: r => if eqb x y then Some r
              else match remove_first eqb x r with Some r' => Some (y :: r') | None => None end
  end.
Fixpoint multiset_eqb {A} (eqb : A -> A -> bool) (a b : list A) : bool :=
  match a with
  | [] => match b with [] => true | _ => false end
  | x :: r => match remove_first eqb x b with Some b' => multiset_eqb eqb r b' | None => false end
  end.

Definition model_sends (l : list event) : list (nat * reply) :=
  flat_map (fun e => match e with ESend p r => [(p, r)] | _ => [] end) l.
Definition model_delivs (l : list event) : list (token * nat) :=
  flat_map (fun e => match e with EDeliver k f => [(k, f)] | _ => [] end) l.

Definition out_code (o : outcome) : nat := match o with Ok => 0 | Crashed _ => 1 | Wedged _ => 2 end.

Fixpoint list_eqb {A} (eqb : A -> A -> bool) (a b : list A) : bool :=
  match a, b with
  | [], [] => true
  | x :: a', y :: b' => eqb x y && list_eqb eqb a' b'
  | _, _ => false
  end.

Definition sto_ok (s : ostate) (o : sto) : bool :=
  match lookup (so_id o) (store s) with
  | None => so_code o =? 0
  | Some (Req _) => so_code o =? 1
  | Some (Have t) =>
      (so_code o =? 2) && (so_ro o =? ro_id (t_roster t)) && (so_root o =? root_node t) &&
      list_eqb (fun a b => (fst a =? fst b) && (snd a =? snd b)) (so_nodes o) (nodes_of (t_root t))
  end.

Definition inst_code (s : ostate) (k : token) : nat :=
  if mem_tok k (finished s) then 2 else if mem_tok k (insts s) then 1 else 0.

Definition obs_ok (r : result) (full : bool) (o : obs) : bool :=
  (out_code (r_out r) =? ob_out o) &&
  (negb full ||
   (let s := r_state r in
    multiset_eqb Nat.eqb (map lk_code (leaked s)) (ob_locks o) &&
    multiset_eqb (fun a b => (fst a =? fst b) && reply_eqb (snd a) (snd b)) (model_sends (r_events r)) (ob_sends o) &&
    multiset_eqb (fun a b => tok_eqb (fst a) (fst b) && (snd a =? snd b)) (model_delivs (r_events r)) (ob_delivs o) &&
    forallb (sto_ok s) (ob_store o) &&
    forallb (fun kc => inst_code s (fst kc) =? snd kc) (ob_insts o) &&
    match ob_parked o with Some n => length (parked s) =? n | None => true end &&
    (length (ptm s) =? ob_ptm o) &&
    forallb (fun ib => Bool.eqb (mem_nat (fst ib) (removal s)) (snd ib)) (ob_removal o) &&
    ob_reply_ok o)).

Fixpoint replay (s : ostate) (ops : list (xop * option expect * bool)) (os : list obs) : bool :=
  match ops, os with
  | [], [] => true
  | (o, _, full) :: ro, b :: rb =>
      let r := xstep s o in
      obs_ok r full b && replay (r_state r) ro rb
  | _, _ => false
  end.

(* the race as the model sees it: accepting a message (closing-check, append, wake-up)
   is one critical section, so the close comes after it *)
Definition roG : roster := mkRo 1 [mkMem 1 true; mkMem 4 true; mkMem 2 true].
Definition race_ping (tree round : nat) : op :=
  Recv 1 false false (MProto (Some (mkTok 1 tree 1 0 round 1)) (Some (mkTok 1 tree 1 0 round 4)) BPing 0).
Definition race_ops (variant : nat) : list op :=
  let t1 := LocalTree (mkTree 1 roG (TM 1 1 [TM 4 4 []; TM 2 2 []])) in
  match variant with
  | 0 => [t1; race_ping 1 11; race_ping 1 11; LocalDone (mkTok 1 1 1 0 11 4)]
  | 1 => [t1; race_ping 1 11; race_ping 1 11]
  | _ => [t1; race_ping 2 12;
          Recv 1 false false (MRespTree (Some (mkTMar 2 1 [TM 1 1 [TM 4 4 [TM 2 2 []]]])) (Some roG));
          LocalDone (mkTok 1 2 1 0 12 4)]
  end.
Definition race_model (variant : nat) : bool * bool :=
  let rs := trace code_fixes init (race_ops variant) in
  let s := run code_fixes init (race_ops variant) in
  (existsb (fun r => negb (out_code (r_out r) =? 0)) rs,
   delivered (mkTok 1 1 1 0 90 4) (r_events (step code_fixes s (race_ping 1 90)))).

Definition agree (c : case) : bool :=
  match c with
  | mkRace v crashed hung served =>
      Bool.eqb (fst (race_model v)) crashed && negb hung &&
      (crashed || Bool.eqb ((v =? 1) || snd (race_model v)) served)
  | mkAbnormal _ _ => false                                  (* the model has no such run *)
  | mkCase ops os => replay init ops os
  | mkStress aborted free_scans =>
      (* the model predicts a race only: with the repair no scan happens without the lock *)
      negb code_fixed_F26 || (negb aborted && negb free_scans)
  end.

Definition mismatches (l : list case) : list nat := mism_idx agree l.

(* ---- the property on the observations -------------------------------------------- *)

Definition has_send (p : nat) (r : reply) (o : obs) : bool :=
  existsb (fun x => (fst x =? p) && reply_eqb (snd x) r) (ob_sends o).
Definition has_deliv (k : token) (f : nat) (o : obs) : bool :=
  existsb (fun x => tok_eqb (fst x) k && (snd x =? f)) (ob_delivs o).

(* [seen] = observations up to and including the canary's own, latest first *)
Definition expect_ok (x : expect) (seen : list obs) : bool :=
  match x, seen with
  | _, [] => false
  | XSend p r, o :: _ => has_send p r o
  | XDeliverBy k f, _ => existsb (has_deliv k f) seen
  | XAskOrDeliver p t k f, o :: _ => has_send p (RReqTree t) o || existsb (has_deliv k f) seen
  end.

Definition is_run_expect (x : expect) : bool := match x with XSend _ _ => false | _ => true end.

(* violated expectations of one kind. [seen] collects the observations of the canary phase
   only (from the first operation that carries an expectation): a delivery made during
   the hostile part of the history never satisfies a canary. A case whose observation
   list does not match its operation list satisfies nothing. *)
Fixpoint canaries_ok (runs : bool) (ops : list (xop * option expect * bool)) (os seen : list obs) : bool :=
  match ops, os with
  | [], [] => true
  | (_, x, _) :: ro, o :: rb =>
      let seen' := match x, seen with None, [] => [] | _, _ => o :: seen end in
      (match x with
       | Some e => negb (Bool.eqb (is_run_expect e) runs) || expect_ok e seen'
       | None => true
       end) && canaries_ok runs ro rb seen'
  | _, _ => false
  end.

Definition check (c : case) : list nat :=
  match c with
  | mkCase ops os =>
      clause 1 (forallb (fun o => negb (ob_out o =? 1)) os) ++
      clause 2 (forallb (fun o => negb (ob_out o =? 2) && match ob_locks o with [] => true | _ => false end) os) ++
      clause 3 (canaries_ok true ops os [] && forallb ob_reply_ok os) ++
      clause 4 (canaries_ok false ops os [])
  | mkStress aborted free_scans => clause 5 (negb aborted && negb free_scans)
  | mkRace _ crashed hung served => clause 1 (negb crashed) ++ clause 2 (negb hung) ++ clause 3 (crashed || hung || served)
  | mkAbnormal crashed hung => clause 1 (negb crashed) ++ clause 2 (negb hung)
  end.

Definition violations (l : list case) : list (nat * nat) := viols check l.
