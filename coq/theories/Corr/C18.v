(* C18 correspondence: the generic case type / agree / check of Conf/ConfigCase.v
   instantiated with the literal format of Corr/C13.v (primitive-integer chunks). *)
From Coq Require Import List Arith Bool Ascii String NArith ZArith.
Import ListNotations.
From Onet Require Export Base.Corr Base.C13Bytes Tree.Ids Tree.IdsCheck Tree.IdsCase Conf.Config Conf.ConfigCase.
From Onet Require Export Corr.C13.

(* which variant of parseServiceConfig / parseServerServiceConfig the implementation
   is expected to be: the fix F20 is in /repo (commit 52bede4), hence true *)
Definition code_fixed_F20 := true.

Definition case := @gcase18 lit.
Definition agree (c : case) : bool := gagree18 unlit code_fixed_F20 c.
Definition check (c : case) : list nat := gcheck18 unlit c.
Definition mismatches (l : list case) : list nat := mism_idx agree l.
Definition violations (l : list case) : list (nat * nat) := viols check l.
