(* C11 correspondence: the harness drives a real server through a list of model
   actions (forcing the order with schedule points) and snapshots the server
   after each; the model is run on the same actions and the projected states
   are compared. The property checker is evaluated on the snapshots alone. *)
From Coq Require Import List Arith Bool Lia.
Import ListNotations.
From Onet Require Export Base.Corr Overlay.Done.

(* which repairs the code under /repo currently contains *)
Definition code_fixed_F12 := true.
Definition code_fixed_F13 := true.
Definition code_fixed_F27 := true.
Definition code_fixed_F28 := true.
Definition code_fixes : fixes := mkFixes code_fixed_F12 code_fixed_F13 code_fixed_F27 code_fixed_F28.

Record snap := mkSnap {
  sn_trees : list (nat * nat);        (* tree id, 0 absent / 1 requested / 2 present *)
  sn_pending : list (nat * bool);     (* tree id, removal scheduled *)
  sn_inst : list (tok * nat);         (* token, 0 unknown / 1 listed / 2 done *)
  sn_created : list (tok * nat);      (* constructor calls *)
  sn_accepted : list (tok * nat) }.   (* messages handed to the instance *)

Record case := mkCase {
  actions : list act;
  snaps : list (option snap);         (* after each action; None = not observed *)
  answers_obs : list (nat * bool);    (* tree requests in order: tree id, answered *)
  drained : bool;                     (* the scenario ended with every timer run to completion *)
  stale : list nat }.                 (* positions of TimerDelete actions whose removal had been cancelled before *)

Definition tcode (t : tstate) : nat := match t with TAbsent => 0 | TRequested => 1 | TPresent => 2 end.
Definition icode (i : istate) : nat := match i with INone => 0 | IDone => 2 | _ => 1 end.

Definition nacc (s : st) (k : tok) : nat := length (filter (tok_eqb k) (delivered s)).

Definition snap_ok (s : st) (o : snap) : bool :=
  forallb (fun '(i, c) => tcode (trees s i) =? c) (sn_trees o) &&
  forallb (fun '(i, b) => Bool.eqb (match cancel s i with Some _ => true | None => false end) b) (sn_pending o) &&
  forallb (fun '(k, c) => icode (inst s k) =? c) (sn_inst o) &&
  forallb (fun '(k, c) => created s k =? c) (sn_created o) &&
  forallb (fun '(k, c) => nacc s k =? c) (sn_accepted o).

Fixpoint replay (s : st) (acts : list act) (obs : list (option snap)) : option st :=
  match acts, obs with
  | [], [] => Some s
  | a :: ra, o :: ro =>
      match step code_fixes s a with
      | None => None
      | Some s' =>
          match o with
          | Some sn => if snap_ok s' sn then replay s' ra ro else None
          | None => replay s' ra ro
          end
      end
  | _, _ => None
  end.

Definition ans_eqb (a b : nat * bool) : bool := (fst a =? fst b) && Bool.eqb (snd a) (snd b).
Fixpoint ans_list_eqb (a b : list (nat * bool)) : bool :=
  match a, b with
  | [], [] => true
  | x :: a', y :: b' => ans_eqb x y && ans_list_eqb a' b'
  | _, _ => false
  end.

Definition agree (c : case) : bool :=
  match replay init (actions c) (snaps c) with
  | Some s => ans_list_eqb (rev (answers s)) (answers_obs c)
  | None => false
  end.

Definition mismatches (l : list case) : list nat := mism_idx agree l.

(* ---- property checker on the observed snapshots ---------------------------- *)

Definition lookup_nat (l : list (nat * nat)) (i : nat) : option nat :=
  option_map snd (find (fun e => fst e =? i) l).
Definition lookup_tok (l : list (tok * nat)) (k : tok) : option nat :=
  option_map snd (find (fun e => tok_eqb (fst e) k) l).
Definition lookup_b (l : list (nat * bool)) (i : nat) : bool :=
  match find (fun e => fst e =? i) l with Some (_, b) => b | None => false end.

(* 1: a listed instance whose tree is not present *)
Definition snap_tree_while_used (o : snap) : bool :=
  forallb (fun '(k, c) => negb (c =? 1) ||
                          match lookup_nat (sn_trees o) (tree_of k) with Some 2 => true | _ => false end)
          (sn_inst o).

(* 2: done is final, between consecutive observed snapshots *)
Definition done_final2 (a b : snap) : bool :=
  forallb (fun '(k, c) =>
             negb (c =? 2) ||
             (match lookup_tok (sn_inst b) k with Some 2 => true | _ => false end &&
              match lookup_tok (sn_created a) k, lookup_tok (sn_created b) k with
              | Some x, Some y => x =? y | _, _ => false end &&
              match lookup_tok (sn_accepted a) k, lookup_tok (sn_accepted b) k with
              | Some x, Some y => x =? y | _, _ => false end))
          (sn_inst a).

(* ... and over the whole history the constructor ran at most once per token: no message, however
   late, makes a second instance for a token (whatever Shutdown reported when the first finished) *)
Definition created_once (n : snap) : bool :=
  forallb (fun '(_, x) => x <=? 1) (sn_created n).

Fixpoint pairs_ok (f : snap -> snap -> bool) (prev : option snap) (l : list (option snap)) : bool :=
  match l with
  | [] => true
  | None :: r => pairs_ok f prev r
  | Some o :: r => match prev with Some p => f p o | None => true end && pairs_ok f (Some o) r
  end.

(* 5: a Done changes no other token *)
Fixpoint others_unaffected (prev : option snap) (acts : list act) (l : list (option snap)) : bool :=
  match acts, l with
  | a :: ra, o :: ro =>
      let ok := match a, prev, o with
                | Done k, Some p, Some n =>
                    forallb (fun '(k', c) => tok_eqb k' k ||
                                             match lookup_tok (sn_inst n) k' with Some c' => c' =? c | None => false end)
                            (sn_inst p)
                | _, _, _ => true
                end in
      ok && others_unaffected (match o with Some n => Some n | None => prev end) ra ro
  | _, _ => true
  end.

(* 3: the tree stays stored, and tree requests are answered, while an instance uses the tree and
   during the grace period, i.e. from the Done that scheduled a removal until that removal is
   no longer pending (cancelled by a new user, or carried out). [grace] = trees in their grace
   period. A removal re-armed by a dropped late message (F28) on a tree that was released in
   the meantime is not a grace period of the property. *)
Definition present_in (o : snap) (i : nat) : bool :=
  match lookup_nat (sn_trees o) i with Some 2 => true | _ => false end.

Fixpoint grace_answers (prev : option snap) (grace : list nat) (acts : list act) (l : list (option snap))
         (ans : list (nat * bool)) : bool :=
  match acts, l with
  | a :: ra, o :: ro =>
      let next := match o with Some n => Some n | None => prev end in
      (* trees whose removal is no longer pending leave the grace set; a Done that leaves a removal pending enters it *)
      let g1 := match o with
                | Some n => filter (fun i => lookup_b (sn_pending n) i) grace
                | None => grace
                end in
      let g2 := match a, o with
                | Done k, Some n => if lookup_b (sn_pending n) (tree_of k) then tree_of k :: g1 else g1
                | _, _ => g1
                end in
      let stored := match o with
                    | Some n => forallb (present_in n) g2
                    | None => true
                    end in
      match a with
      | ReqTree i =>
          match ans with
          | (_, answered) :: rest =>
              let must := match prev with
                          | Some p => existsb (Nat.eqb i) grace ||
                                      existsb (fun '(k, c) => (tree_of k =? i) && (c =? 1)) (sn_inst p)
                          | None => false
                          end in
              (negb must || answered) && stored && grace_answers next g2 ra ro rest
          | [] => false
          end
      | _ => stored && grace_answers next g2 ra ro ans
      end
  | _, _ => true
  end.

(* 4: after draining, a tree that had instances, all finished, is gone *)
Definition released (o : snap) : bool :=
  forallb (fun '(i, c) =>
             let had := existsb (fun '(k, _) => tree_of k =? i) (sn_inst o) in
             let live := existsb (fun '(k, ci) => (tree_of k =? i) && negb (ci =? 2)) (sn_inst o) in
             negb had || live || (c =? 0))
          (sn_trees o).

Fixpoint last_snap (l : list (option snap)) (acc : option snap) : option snap :=
  match l with
  | [] => acc
  | Some o :: r => last_snap r (Some o)
  | None :: r => last_snap r acc
  end.

(* 6: the timer goroutine of a CANCELLED removal must not change the tree store *)
Fixpoint nth_snap_before (l : list (option snap)) (j : nat) (acc : option snap) : option snap :=
  match l, j with
  | _, 0 => acc
  | [], _ => acc
  | Some o :: r, S j' => nth_snap_before r j' (Some o)
  | None :: r, S j' => nth_snap_before r j' acc
  end.

(* only trees that the property protects: an instance on it is listed, or its removal is pending *)
Definition protected (a : snap) (i : nat) : bool :=
  lookup_b (sn_pending a) i || existsb (fun '(k, c) => (tree_of k =? i) && (c =? 1)) (sn_inst a).

Definition same_trees (a b : snap) : bool :=
  forallb (fun '(i, c) => negb (protected a i) ||
                          match lookup_nat (sn_trees b) i with Some c' => c' =? c | None => false end) (sn_trees a).

Definition stale_ok (snaps : list (option snap)) (j : nat) : bool :=
  match nth_snap_before snaps j None, nth_error snaps j with
  | Some p, Some (Some n) => same_trees p n
  | _, _ => true
  end.

Definition check (c : case) : list nat :=
  clause 1 (forallb (fun o => match o with Some n => snap_tree_while_used n | None => true end) (snaps c)) ++
  clause 2 (pairs_ok done_final2 None (snaps c) &&
            forallb (fun o => match o with Some n => created_once n | None => true end) (snaps c)) ++
  clause 3 (grace_answers None [] (actions c) (snaps c) (answers_obs c)) ++
  clause 4 (negb (drained c) || match last_snap (snaps c) None with Some n => released n | None => true end) ++
  clause 5 (others_unaffected None (actions c) (snaps c)) ++
  clause 6 (forallb (stale_ok (snaps c)) (stale c)).

Definition violations (l : list case) : list (nat * nat) := viols check l.
