(* C08 correspondence: the model of Net/Tls.v against what the real verifier /
   the real honest router did, and the boolean checker of the property itself
   evaluated on the OBSERVATION. *)
From Coq Require Import List Arith Bool ZArith.
Import ListNotations.
From Onet Require Export Base.Corr Net.Tls.

(* what the honest side was observed to do.  [hp]: the honest side's OWN
   certificate, whenever the deviating peer got to see it, carried a valid proof
   (signature by the honest key over the peer's nonce and the honest CN, in the
   format the code under test uses); compared (must be true), not part of [check] *)
Inductive obs := Obs (hs : bool) (disp : nat) (stamp : list key) (crash : bool) (hp : bool)
                      (resumed : bool).  (* tls.ConnectionState.DidResume of the observed connection *)

(* one run: level, role, suite, ground truth (private server keys the deviating
   peer holds), the TLS session ticket it offers (if any: the certificate of the
   earlier, honest handshake and whether the listener is still the same
   incarnation), what it presents in a full handshake, its identity message,
   number of application messages it sent, observation *)
Inductive case :=
| Case (lv : level) (r : role) (s : suite) (holds : list key)
       (prior : list key)   (* keys of honest servers that connected genuinely to the router before *)
       (t : ticket) (h : hello) (id : ident) (msgs : nat) (o : obs)
(* two overlapping dials of the honest host: it dials e (the link under
   observation, nonce 0) and, before the peer answers, [other] (nonce 4 =
   Tls.conc_nonce; answered honestly by a holder of [other]); then the peer
   answers the first dial with h.  [other_up]: the second link came up. *)
| CaseConc (s : suite) (holds : list key) (e other : key) (h : hello) (msgs : nat) (o : obs)
           (other_up : bool).

(* The variant of the model the implementation is compared with.  The
   integrator flips this when proposed_fixes/C08-F09.diff lands in /repo. *)
Definition code_fixed_F09 := true.
(* idem for proposed_fixes/C08-F29.diff (identity message without public key) *)
Definition code_fixed_F29 := true.
(* the relay defect (F28) has no small compatible patch (the signed bytes change);
   the flag exists so that a tree carrying the binding can be checked too -- the
   harness detects by itself which bytes the code under test signs *)
Definition code_fixed_F28 := false.
(* proposed_fixes/C08-N1.diff (no TLS session resumption: SessionTicketsDisabled) *)
Definition code_fixed_C08N1 := true.
Definition code_fx : fixes := mkfixes code_fixed_F09 code_fixed_F28 code_fixed_F29 code_fixed_C08N1.

Fixpoint keys_eqb (a b : list key) : bool :=
  match a, b with
  | [], [] => true
  | x :: a', y :: b' => (x =? y) && keys_eqb a' b'
  | _, _ => false
  end.

(* /repo builds a fresh tls.Config per dial (NewTLSConn): the verifier state of a
   dial is private.  [true] would be the variant whose dials share one slot. *)
Definition code_dials_share_verifier := false.

(* the model's prediction: outcome, and whether the connection is a resumed session *)
Definition model_of (c : case) : outcome * bool :=
  match c with
  | Case lv r s _ prior t h id msgs _ => link_h code_fx lv r s prior t h id msgs
  | CaseConc s _ e other h msgs _ _ =>
      (conc_dial code_dials_share_verifier code_fx s e other h msgs, false)
  end.

Definition obs_of (c : case) : obs :=
  match c with Case _ _ _ _ _ _ _ _ _ o => o | CaseConc _ _ _ _ _ _ o _ => o end.

(* observations beside the link under observation *)
Definition extra_ok (c : case) : bool :=
  match c with
  | Case _ _ _ _ _ _ _ _ _ _ => true
  | CaseConc s _ e other _ _ _ other_up =>
      Bool.eqb (conc_other_up code_dials_share_verifier code_fx s e other 1) other_up
  end.

Definition obs_agrees (m : outcome) (rs : bool) (o : obs) : bool :=
  match o with
  | Obs hs disp stamp crash hp resumed =>
      Bool.eqb (out_crash m) crash && Bool.eqb (out_hs m) hs && (out_disp m =? disp) &&
      keys_eqb (out_stamp m) stamp && hp && Bool.eqb rs resumed
  end.

Definition agree (c : case) : bool :=
  let '(m, rs) := model_of c in obs_agrees m rs (obs_of c) && extra_ok c.

Definition mismatches (l : list case) : list nat := mism_idx agree l.

(* the property on the observation; proved equivalent to the Prop
   [Tls.link_property] in Net/TlsProofs.v (prop_check_sound) *)
Definition check (c : case) : list nat :=
  match c with
  | Case lv r s holds _ t h id _ (Obs hs disp stamp crash _ resumed) =>
      (* on a resumption the peer presented nothing but the ticket *)
      prop_check lv r s holds (effective resumed t h) id hs disp stamp crash
  | CaseConc s holds e _ h _ (Obs hs disp stamp crash _ _) _ =>
      (* the link dialled for e: this dial's nonce is 0, the other dial's is not *)
      prop_check LTls (RDial e) s holds h IdMatch hs disp stamp crash
  end.

Definition violations (l : list case) : list (nat * nat) := viols check l.
