(* C04 correspondence: the model's run against what the harness observed on the
   real TreeNodeInstance, and the checker of the property itself evaluated on
   the OBSERVATION: the expected deliveries are computed from the INPUT by the
   property's own reading (rounds = one message per child, grouped by SENDER,
   not by count) and compared with what the handlers / channels received. *)
From Coq Require Import List Arith Bool.
Import ListNotations.
From Onet Require Export Base.Corr Node.Instance Node.Obs.

(* C04 scenarios only contain messages with a sender token that names a node of
   the tree; on those the pinned and the repaired code behave alike
   (Node/AggregateProofs.v variants_agree), so no flag is needed here. *)
Definition code_variant : fixes := pinned.

Record case := {
  k_tree : tree; k_insts : list nat; k_msgs : list inj;
  k_obs : list odeliv; k_final : ofinal }.

Definition I (inst : nat) (env : peer) (decl : option nat) (from : option nat) (other_tree : bool)
  (si : option nat) (ty payload : nat) : inj :=
  {| i_inst := inst; i_env := env; i_decl := decl;
     i_wire := {| w_from := from; w_from_other_tree := other_tree; w_si := si;
                  w_type := ty; w_payload := payload |} |}.
Definition E (n : onode) (payload : nat) : oelem := {| o_node := n; o_payload := payload |}.
Definition D (inst ty : nat) (agg : bool) (es : list oelem) : odeliv :=
  {| od_inst := inst; od_type := ty; od_agg := agg; od_elems := es |}.
Definition C (t : tree) (insts : list nat) (msgs : list inj) (obs : list odeliv) (fin : ofinal) : case :=
  {| k_tree := t; k_insts := insts; k_msgs := msgs; k_obs := obs; k_final := fin |}.

Definition config_of (c : case) : config :=
  {| c_tree := k_tree c; c_insts := k_insts c; c_regs := std_regs |}.

Definition agree (c : case) : bool :=
  agree_obs code_variant (config_of c) (k_msgs c) (k_obs c) (k_final c).
Definition mismatches (l : list case) : list nat := mism_idx agree l.

(* ---- the property's reading of a scenario -------------------------------- *)

Fixpoint nodupb (l : list nat) : bool :=
  match l with
  | [] => true
  | x :: r => negb (existsb (Nat.eqb x) r) && nodupb r
  end.

Definition opt_eqb (a b : option nat) : bool :=
  match a, b with
  | Some x, Some y => x =? y
  | None, None => true
  | _, _ => false
  end.

(* ids of the children of [me] (meaningful when node ids are distinct) *)
Definition children_ids (ns : list ninfo) (me : ninfo) : list nat :=
  map n_id (filter (fun n => opt_eqb (n_par n) (Some (n_id me))) ns).

(* messages of the round in progress, per (instance, type) *)
Definition rstate := list ((nat * nat) * list (nat * oelem)).   (* (sender id, element) in arrival order *)

Fixpoint rget (s : rstate) (i ty : nat) : list (nat * oelem) :=
  match s with
  | [] => []
  | ((j, t), l) :: r => if (j =? i) && (t =? ty) then l else rget r i ty
  end.

Fixpoint rdel (s : rstate) (i ty : nat) : rstate :=
  match s with
  | [] => []
  | ((j, t), l) :: r => if (j =? i) && (t =? ty) then rdel r i ty else ((j, t), l) :: rdel r i ty
  end.

Definition rset (s : rstate) (i ty : nat) (l : list (nat * oelem)) : rstate := ((i, ty), l) :: rdel s i ty.

(* what kind of message this is for the property *)
Inductive mkind := KSingle | KParent | KChild (last : bool) | KUnhandled.

(* One message of a scenario the property speaks about: its kind, the delivery
   it is due (if any) and the new round state.  None = the scenario leaves the
   property's hypotheses here (unknown or unauthenticated sender, a sender that
   is not a child, a child answering twice within a round, repeated node ids). *)
Definition spec_step (ns : list ninfo) (insts : list nat) (s : rstate) (x : inj)
  : option (rstate * mkind * option odeliv) :=
  match nth_error insts (i_inst x), w_from (i_wire x) with
  | Some to_id, Some f =>
      match search ns to_id, search ns f with
      | Some (_, me), Some (pos, n) =>
          let peer_ok := match i_env x with PNone => true | PNoKey => false | PKey k => k =? n_srv n end in
          let ty := w_type (i_wire x) in
          let e := {| o_node := OPos pos; o_payload := w_payload (i_wire x) |} in
          if negb peer_ok then None else
          match lookup std_regs ty with
          | None => Some (s, KUnhandled, None)
          | Some (_, false) =>
              Some (s, KSingle, Some {| od_inst := i_inst x; od_type := ty; od_agg := false; od_elems := [e] |})
          | Some (_, true) =>
              if opt_eqb (n_par me) (Some f) then
                Some (s, KParent, Some {| od_inst := i_inst x; od_type := ty; od_agg := true; od_elems := [e] |})
              else
                let cs := children_ids ns me in
                let cur := rget s (i_inst x) ty in
                if negb (existsb (Nat.eqb f) cs) || existsb (Nat.eqb f) (map fst cur)
                   || negb (length cs =? n_nch me) then None
                else
                  let cur' := cur ++ [(f, e)] in
                  if length cur' =? length cs then
                    Some (rdel s (i_inst x) ty, KChild true,
                          Some {| od_inst := i_inst x; od_type := ty; od_agg := true; od_elems := map snd cur' |})
                  else Some (rset s (i_inst x) ty cur', KChild false, None)
          end
      | _, _ => None
      end
  | _, _ => None
  end.

(* the whole scenario: Some (expected deliveries, in order) when it stays within
   the property's hypotheses *)
Fixpoint spec_run (ns : list ninfo) (insts : list nat) (s : rstate) (l : list inj) : option (list odeliv) :=
  match l with
  | [] => Some []
  | x :: r =>
      match spec_step ns insts s x with
      | None => None
      | Some (s', _, d) =>
          match spec_run ns insts s' r with
          | None => None
          | Some rest => Some (match d with Some d => d :: rest | None => rest end)
          end
      end
  end.

Definition in_scope (c : case) : bool :=
  let ns := nodes (k_tree c) in
  nodupb (map n_id ns) &&
  match spec_run ns (k_insts c) [] (k_msgs c) with Some _ => true | None => false end.

(* a batch holds "exactly those messages": order inside a batch is not part of
   the property *)
Definition elems_equiv (a b : list oelem) : bool :=
  (length a =? length b) &&
  forallb (fun e => existsb (oelem_eqb e) b) a && forallb (fun e => existsb (oelem_eqb e) a) b.

Definition deliv_equiv (a b : odeliv) : bool :=
  (od_inst a =? od_inst b) && (od_type a =? od_type b) && Bool.eqb (od_agg a) (od_agg b) &&
  elems_equiv (od_elems a) (od_elems b).

Definition is_agg_type (ty : nat) : bool := agg_flag std_regs ty.

(* clause numbers:
   1 a complete round (one message from every child) did not produce exactly one
     batch holding exactly those messages at the arrival of its last message
   2 something of an aggregated type was delivered although no batch was due
     (before the last child's message, or an extra batch)
   3 a parent message or a message of a non-aggregated type was not delivered
     singly, immediately and unchanged
   4 a batch mixes messages of different rounds, types or instances
   5 a delivery nobody is due (not of an aggregated type)
   6 the instance stopped (crash / hang) in a scenario of legitimate messages *)
Definition blame (k : mkind) (due : option odeliv) (got : option odeliv) : nat :=
  match k, due, got with
  | KChild true, Some d, Some o =>
      if (od_inst o =? od_inst d) && (od_type o =? od_type d) && od_agg o then
        if forallb (fun e => existsb (oelem_eqb e) (od_elems d)) (od_elems o) then 1 else 4
      else if is_agg_type (od_type o) && negb (od_type o =? od_type d) then 2 else 1
  | KChild true, _, _ => 1
  | _, _, Some o => if is_agg_type (od_type o) && od_agg o && negb (match due with Some d => od_type o =? od_type d | None => false end)
                    then 2 else 3
  | _, _, None => 3
  end.

Fixpoint walk (ns : list ninfo) (insts : list nat) (s : rstate) (l : list inj) (obs : list odeliv) : list nat :=
  match l with
  | [] => match obs with
          | [] => []
          | o :: _ => if is_agg_type (od_type o) then [2] else [5]
          end
  | x :: r =>
      match spec_step ns insts s x with
      | None => []
      | Some (s', k, None) => walk ns insts s' r obs
      | Some (s', k, Some d) =>
          match obs with
          | o :: obs' => if deliv_equiv d o then walk ns insts s' r obs' else [blame k (Some d) (Some o)]
          | [] => [blame k (Some d) None]
          end
      end
  end.

Definition check (c : case) : list nat :=
  if negb (in_scope c) then [] else
  match k_final c with
  | FAlive => walk (nodes (k_tree c)) (k_insts c) [] (k_msgs c) (k_obs c)
  | _ => [6]
  end.

Definition violations (l : list case) : list (nat * nat) := viols check l.
