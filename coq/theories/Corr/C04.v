(* C04 correspondence: the model's run against what the harness observed on the
   real TreeNodeInstance, and the checker of the property itself evaluated on
   the OBSERVATION: the expected deliveries are computed from the INPUT by the
   property's own reading (rounds = one message per child, grouped by SENDER,
   not by count) and compared with what the handlers / channels received. *)
From Coq Require Import List Arith Bool.
Import ListNotations.
From Onet Require Export Base.Corr Node.Instance Node.Obs.

(* C04 scenarios only contain messages with a sender token that names a node of
   the tree; on those the pinned and the repaired code behave alike
   (Node/AggregateProofs.v variants_agree), so no flag is needed here. *)
Definition code_variant : fixes := pinned.

Record case := {
  k_tree : tree; k_insts : list nat; k_msgs : list inj;
  k_obs : list odeliv; k_final : ofinal }.

Definition I (inst : nat) (env : peer) (decl : option nat) (from : option nat) (other_tree : bool)
  (si : option nat) (ty payload : nat) : inj :=
  {| i_inst := inst; i_env := env; i_decl := decl;
     i_wire := {| w_from := from; w_from_other_tree := other_tree; w_si := si;
                  w_type := ty; w_payload := payload |} |}.
Definition E (n : onode) (payload : nat) : oelem := {| o_node := n; o_payload := payload |}.
Definition D (inst ty : nat) (agg : bool) (es : list oelem) : odeliv :=
  {| od_inst := inst; od_type := ty; od_agg := agg; od_elems := es |}.
Definition C (t : tree) (insts : list nat) (msgs : list inj) (obs : list odeliv) (fin : ofinal) : case :=
  {| k_tree := t; k_insts := insts; k_msgs := msgs; k_obs := obs; k_final := fin |}.

Definition config_of (c : case) : config :=
  {| c_tree := k_tree c; c_insts := k_insts c; c_regs := std_regs |}.

Definition agree (c : case) : bool :=
  agree_obs code_variant (config_of c) (k_msgs c) (k_obs c) (k_final c).
Definition mismatches (l : list case) : list nat := mism_idx agree l.

(* ---- the property's reading of a scenario -------------------------------- *)

Fixpoint nodupb (l : list nat) : bool :=
  match l with
  | [] => true
  | x :: r => negb (existsb (Nat.eqb x) r) && nodupb r
  end.

Definition opt_eqb (a b : option nat) : bool :=
  match a, b with
  | Some x, Some y => x =? y
  | None, None => true
  | _, _ => false
  end.

(* ids of the children of [me] (meaningful when node ids are distinct) *)
Definition children_ids (ns : list ninfo) (me : ninfo) : list nat :=
  map n_id (filter (fun n => opt_eqb (n_par n) (Some (n_id me))) ns).

(* messages of the round in progress, per (instance, type) *)
Definition rstate := list ((nat * nat) * list (nat * oelem)).   (* (sender id, element) in arrival order *)

Fixpoint rget (s : rstate) (i ty : nat) : list (nat * oelem) :=
  match s with
  | [] => []
  | ((j, t), l) :: r => if (j =? i) && (t =? ty) then l else rget r i ty
  end.

Fixpoint rdel (s : rstate) (i ty : nat) : rstate :=
  match s with
  | [] => []
  | ((j, t), l) :: r => if (j =? i) && (t =? ty) then rdel r i ty else ((j, t), l) :: rdel r i ty
  end.

Definition rset (s : rstate) (i ty : nat) (l : list (nat * oelem)) : rstate := ((i, ty), l) :: rdel s i ty.

(* what kind of message this is for the property *)
Inductive mkind := KSingle | KParent | KChild (last : bool) | KUnhandled.

(* One message of a scenario the property speaks about: its kind, the delivery
   it is due (if any) and the new round state.  None = the scenario leaves the
   property's hypotheses here (unknown or unauthenticated sender, a sender that
   is not a child, a child answering twice within a round, repeated node ids). *)
Definition spec_step (ns : list ninfo) (insts : list nat) (s : rstate) (x : inj)
  : option (rstate * mkind * option odeliv) :=
  match nth_error insts (i_inst x), w_from (i_wire x) with
  | Some to_id, Some f =>
      match search ns to_id, search ns f with
      | Some (_, me), Some (pos, n) =>
          let peer_ok := match i_env x with PNone => true | PNoKey => false | PKey k => k =? n_srv n end in
          let ty := w_type (i_wire x) in
          let e := {| o_node := OPos pos; o_payload := w_payload (i_wire x) |} in
          if negb peer_ok then None else
          match lookup std_regs ty with
          | None => Some (s, KUnhandled, None)
          | Some (_, false) =>
              Some (s, KSingle, Some {| od_inst := i_inst x; od_type := ty; od_agg := false; od_elems := [e] |})
          | Some (_, true) =>
              if opt_eqb (n_par me) (Some f) then
                Some (s, KParent, Some {| od_inst := i_inst x; od_type := ty; od_agg := true; od_elems := [e] |})
              else
                let cs := children_ids ns me in
                let cur := rget s (i_inst x) ty in
                if negb (existsb (Nat.eqb f) cs) || existsb (Nat.eqb f) (map fst cur)
                   || negb (length cs =? n_nch me) then None
                else
                  let cur' := cur ++ [(f, e)] in
                  if length cur' =? length cs then
                    Some (rdel s (i_inst x) ty, KChild true,
                          Some {| od_inst := i_inst x; od_type := ty; od_agg := true; od_elems := map snd cur' |})
                  else Some (rset s (i_inst x) ty cur', KChild false, None)
          end
      | _, _ => None
      end
  | _, _ => None
  end.

(* the whole scenario: Some (expected deliveries, in order) when it stays within
   the property's hypotheses *)
Fixpoint spec_run (ns : list ninfo) (insts : list nat) (s : rstate) (l : list inj) : option (list odeliv) :=
  match l with
  | [] => Some []
  | x :: r =>
      match spec_step ns insts s x with
      | None => None
      | Some (s', _, d) =>
          match spec_run ns insts s' r with
          | None => None
          | Some rest => Some (match d with Some d => d :: rest | None => rest end)
          end
      end
  end.

Definition in_scope (c : case) : bool :=
  let ns := nodes (k_tree c) in
  nodupb (map n_id ns) &&
  match spec_run ns (k_insts c) [] (k_msgs c) with Some _ => true | None => false end.

(* a batch holds "exactly those messages": order inside a batch is not part of
   the property *)
Definition elems_equiv (a b : list oelem) : bool :=
  (length a =? length b) &&
  forallb (fun e => existsb (oelem_eqb e) b) a && forallb (fun e => existsb (oelem_eqb e) a) b.

Definition deliv_equiv (a b : odeliv) : bool :=
  (od_inst a =? od_inst b) && (od_type a =? od_type b) && Bool.eqb (od_agg a) (od_agg b) &&
  elems_equiv (od_elems a) (od_elems b).

Definition is_agg_type (ty : nat) : bool := agg_flag std_regs ty.

(* clause numbers:
   1 a complete round (one message from every child) did not produce exactly one
     batch holding exactly those messages at the arrival of its last message
   2 something of an aggregated type was delivered although no batch was due
     (before the last child's message, or an extra batch)
   3 a parent message or a message of a non-aggregated type was not delivered
     singly, immediately and unchanged
   4 a batch mixes messages of different rounds, types or instances
   5 a delivery nobody is due (not of an aggregated type)
   6 the instance stopped (crash / hang) in a scenario of legitimate messages *)
Definition blame (k : mkind) (due : option odeliv) (got : option odeliv) : nat :=
  match k, due, got with
  | KChild true, Some d, Some o =>
      if (od_inst o =? od_inst d) && (od_type o =? od_type d) && od_agg o then
        if forallb (fun e => existsb (oelem_eqb e) (od_elems d)) (od_elems o) then 1 else 4
      else if is_agg_type (od_type o) && negb (od_type o =? od_type d) then 2 else 1
  | KChild true, _, _ => 1
  | _, _, Some o => if is_agg_type (od_type o) && od_agg o && negb (match due with Some d => od_type o =? od_type d | None => false end)
                    then 2 else 3
  | _, _, None => 3
  end.

Fixpoint walk (ns : list ninfo) (insts : list nat) (s : rstate) (l : list inj) (obs : list odeliv) : list nat :=
  match l with
  | [] => match obs with
          | [] => []
          | o :: _ => if is_agg_type (od_type o) then [2] else [5]
          end
  | x :: r =>
      match spec_step ns insts s x with
      | None => []
      | Some (s', k, None) => walk ns insts s' r obs
      | Some (s', k, Some d) =>
          match obs with
          | o :: obs' => if deliv_equiv d o then walk ns insts s' r obs' else [blame k (Some d) (Some o)]
          | [] => [blame k (Some d) None]
          end
      end
  end.

(* ---- the property text on scenarios OUTSIDE the hypotheses of the theorems ----
   The text does not restrict how the children's messages of consecutive rounds
   interleave, and it does not say that only children send the type.  Read
   literally: per instance and aggregated type, the r-th batch is due when every
   child has sent its r-th message; it holds exactly the r-th message of every
   child and is due with the arrival of the last of them.  A message of the type
   from a tree member that is neither parent nor child belongs to no batch, and a
   message that fails the sender check of C02 (unknown sender, wrong peer) is
   never delivered and counts for nothing.  [text_step] computes that reading
   (the round state holds the pending (child, element) pairs in arrival order). *)

Definition all_present (cs : list nat) (pend : list (nat * oelem)) : bool :=
  forallb (fun c => existsb (fun p => fst p =? c) pend) cs.

(* remove the first entry of child c *)
Fixpoint take_first (c : nat) (pend : list (nat * oelem)) : option oelem * list (nat * oelem) :=
  match pend with
  | [] => (None, [])
  | p :: r => if fst p =? c then (Some (snd p), r)
              else let (e, r') := take_first c r in (e, p :: r')
  end.

Fixpoint take_round (cs : list nat) (pend : list (nat * oelem)) : list oelem * list (nat * oelem) :=
  match cs with
  | [] => ([], pend)
  | c :: cs' =>
      let (e, rest) := take_first c pend in
      let (es, rest') := take_round cs' rest in
      (match e with Some e => e :: es | None => es end, rest')
  end.

Definition text_step (ns : list ninfo) (insts : list nat) (s : rstate) (x : inj)
  : option (rstate * mkind * option odeliv) :=
  match nth_error insts (i_inst x) with
  | None => None
  | Some to_id =>
      match search ns to_id with
      | None => None
      | Some (_, me) =>
          let ty := w_type (i_wire x) in
          let valid :=
            match w_from (i_wire x) with
            | None => None
            | Some f =>
                match search ns f with
                | None => None
                | Some (pos, n) =>
                    if match i_env x with PNone => true | PNoKey => false | PKey k => k =? n_srv n end
                    then Some (f, {| o_node := OPos pos; o_payload := w_payload (i_wire x) |}) else None
                end
            end in
          match valid with
          | None => Some (s, KUnhandled, None)            (* refused by the sender check: nothing is due *)
          | Some (f, e) =>
              match lookup std_regs ty with
              | None => Some (s, KUnhandled, None)
              | Some (_, false) =>
                  Some (s, KSingle, Some {| od_inst := i_inst x; od_type := ty; od_agg := false; od_elems := [e] |})
              | Some (_, true) =>
                  if opt_eqb (n_par me) (Some f) then
                    Some (s, KParent, Some {| od_inst := i_inst x; od_type := ty; od_agg := true; od_elems := [e] |})
                  else
                    let cs := children_ids ns me in
                    if negb (existsb (Nat.eqb f) cs) then Some (s, KUnhandled, None)   (* not a child: in no batch *)
                    else
                      let pend := rget s (i_inst x) ty ++ [(f, e)] in
                      if all_present cs pend then
                        let (es, rest) := take_round cs pend in
                        Some (rset s (i_inst x) ty rest, KChild true,
                              Some {| od_inst := i_inst x; od_type := ty; od_agg := true; od_elems := es |})
                      else Some (rset s (i_inst x) ty pend, KChild false, None)
              end
          end
      end
  end.

Fixpoint text_walk (ns : list ninfo) (insts : list nat) (s : rstate) (l : list inj) (obs : list odeliv) : list nat :=
  match l with
  | [] => match obs with
          | [] => []
          | o :: _ => if is_agg_type (od_type o) then [2] else [5]
          end
  | x :: r =>
      match text_step ns insts s x with
      | None => []
      | Some (s', k, None) => text_walk ns insts s' r obs
      | Some (s', k, Some d) =>
          match obs with
          | o :: obs' => if deliv_equiv d o then text_walk ns insts s' r obs' else [blame k (Some d) (Some o)]
          | [] => [blame k (Some d) None]
          end
      end
  end.

(* node ids repeat (a server hosts two nodes): "the children" are not well
   defined by id; the only scenarios left unjudged *)
Definition judgeable (c : case) : bool := nodupb (map n_id (nodes (k_tree c))).

(* Within the hypotheses of the theorems the expectation is [spec_run]'s (proved
   to be the model's behaviour, c04_model_meets_spec); outside, the literal
   reading above.  A crash / hang: clause 6 when every message was legitimate
   (in scope); otherwise the walk over the truncated observation reports it. *)
Definition check (c : case) : list nat :=
  if in_scope c then
    match k_final c with
    | FAlive => walk (nodes (k_tree c)) (k_insts c) [] (k_msgs c) (k_obs c)
    | _ => [6]
    end
  else if judgeable c then
    match k_final c with
    | FAlive => text_walk (nodes (k_tree c)) (k_insts c) [] (k_msgs c) (k_obs c)
    | _ => [6]
    end
  else [].

Definition violations (l : list case) : list (nat * nat) := viols check l.
