(* C19 correspondence.
   A case is one HISTORY executed on the real simul/monitor code: the static
   fields of the run configuration, the operations performed (bucket set-up,
   measures, read-outs, averaging) and what every operation wrote/returned
   (float64 results as their IEEE bit patterns, CSV lines as their fields).

   [agree]  the Gallina state machine of Stats/Buckets.v (in the variant
            selected by code_fixed_F21 / code_fixed_F22), run on the same
            operations, produces the same outputs (count/min/max exactly,
            sum/mean/deviation^2 within a relative tolerance, NaN/Inf as classes).
   [check]  the property itself, evaluated on the OBSERVATION only: an
            independent book-keeping of which values were recorded for which
            measure in which result set, and the exact statistics [exact] of
            those values, compared with what the implementation reported. *)
From Coq Require Import List QArith Qabs Bool Arith ZArith NArith String Ascii.
Import ListNotations.
From Onet Require Export Base.Corr Stats.Welford Stats.Buckets.
Local Open Scope string_scope.
Local Open Scope list_scope.

(* which variant of the code the correspondence compares with: all five repairs
   are fix: commits of /repo, so every flag is true (a flag is false only while
   its fix has not landed) *)
Definition code_fixed_F21 := true.
Definition code_fixed_F22 := true.
Definition code_fixed_N1 := true.
Definition code_fixed_N2 := true.
Definition code_fixed_N3 := true.
Definition code_fixes : fixes :=
  mkFix code_fixed_F21 code_fixed_F22 code_fixed_N1 code_fixed_N2 code_fixed_N3.

(* ---------- float64 bit patterns ----------------------------------------- *)

Inductive fval := FNaN | FInf (neg : bool) | FNum (q : Q).

Definition decode (b : N) : fval :=
  let sign := N.testbit b 63 in
  let e := N.land (N.shiftr b 52) 2047 in
  let m := N.land b (2 ^ 52 - 1) in
  if (e =? 2047)%N then (if (m =? 0)%N then FInf sign else FNaN)
  else
    let mant := if (e =? 0)%N then m else (m + 2 ^ 52)%N in
    let ex := if (e =? 0)%N then (-1074)%Z else (Z.of_N e - 1075)%Z in
    let z := if sign then (- Z.of_N mant)%Z else Z.of_N mant in
    FNum (Qred (if (0 <=? ex)%Z then inject_Z (z * 2 ^ ex)
                else Qmake z (Z.to_pos (2 ^ (- ex))))).

(* a finite input value; the harness never sends NaN/Inf (JSON cannot carry them) *)
Definition QB (b : N) : Q := match decode b with FNum q => q | _ => 0 end.

(* ---------- observations -------------------------------------------------- *)

Record osnap := mkO { o_n : nat; o_min : N; o_max : N; o_avg : N; o_sum : N; o_dev : N }.

Inductive oout :=
| ObsNone
| ObsHeader (fields : list string)
| ObsValues (csv : list string) (rows : list (string * osnap))
| ObsGet (found : bool) (rows : list (string * osnap))
| ObsCrash
| ObsDeadlock
| ObsTransport.   (* the monitor refused / never registered the reporting connections, or Listen
                     did not return after all of them were closed: no result could be read *)

(* CaseN: the recorded VALUES are not known to the harness (CPU times sent by
   TimeMeasure.Record of the client API; the operations carry 0 in their
   place): only the count of every reported measure, the set of measures of
   every result set (bucket membership by host) and the CSV layout are compared *)
Inductive case :=
| Case (st : list (string * string)) (ops : list op) (obs : list oout)
| CaseN (st : list (string * string)) (ops : list op) (obs : list oout).

(* ---------- tolerances ---------------------------------------------------- *)

Definition eps : Q := 1 # 1000000000.        (* relative, for sum / mean / dev^2 *)
Definition csv_ulp : Q := 1 # 1000000.       (* "%f" prints 6 decimals *)

Definition qabs_le (a b tol : Q) : bool := Qle_bool (Qabs (a - b)) tol.

Definition mag_of (s : snap) : Q :=
  let a := Qabs (s_min s) in let b := Qabs (s_max s) in if Qle_bool a b then b else a.

(* compare a reported snapshot with an expected one; returns the numbers of
   the statistics that differ: 1 count 2 min 3 max 4 sum 5 mean 6 deviation *)
Definition num_close (e : Q) (o : fval) (tol : Q) : bool :=
  match o with FNum q => qabs_le q e tol | _ => false end.

Definition dev_close (e : dev) (o : fval) (tol : Q) : bool :=
  match e, o with
  | DNaN, FNaN => true
  | DInf, FInf false => true
  | DSq q, FNum d => Qle_bool 0 d && qabs_le (d * d) q tol
  | _, _ => false
  end.

(* The deviation of a reported measure: the squared reported value d against
   the exact variance v.  Rounding in the streaming recurrence perturbs the
   variance by about  n * 2^-53 * (v + sqrt v * mag)  (mag = largest |value|),
   which for the generated data (n <= 500) is below 1e-13 * (v + sqrt v * mag).
   Accepted:  |d^2 - v| <= eps * (v + sqrt v * mag),  eps = 1e-9,  tested
   without a square root as  D <= 0 \/ D^2 <= eps^2 * v * mag^2  for
   D = |d^2 - v| - eps * v.  (A tolerance proportional to mag^2 alone would
   accept ANY deviation for data with a large offset and a small spread; this
   one rejects n instead of n-1 in the variance for every n <= 10^8.) *)
Definition var_close (v d mag : Q) : bool :=
  Qle_bool 0 d &&
  (let D := Qabs (d * d - v) - eps * v in
   Qle_bool D 0 || Qle_bool (D * D) (eps * eps * v * mag * mag)).

Definition dev_close_v (e : dev) (o : fval) (mag : Q) : bool :=
  match e, o with
  | DNaN, FNaN => true
  | DInf, FInf false => true
  | DSq v, FNum d => var_close v d mag
  | _, _ => false
  end.

Definition snap_diff (e : snap) (o : osnap) : list nat :=
  let mag := mag_of e in
  let nq := qofnat (Nat.max 1 (s_n e)) in
  clause 1 (Nat.eqb (s_n e) (o_n o)) ++
  clause 2 (num_close (s_min e) (decode (o_min o)) 0) ++
  clause 3 (num_close (s_max e) (decode (o_max o)) 0) ++
  clause 4 (num_close (s_sum e) (decode (o_sum o)) (eps * mag * nq)) ++
  clause 5 (num_close (s_avg e) (decode (o_avg o)) (eps * mag)) ++
  clause 6 (dev_close_v (s_dev e) (decode (o_dev o)) mag).

(* A measure whose recorded VALUES the harness cannot know (CaseN, wall / CPU
   times of TimeMeasure.Record): the count against the expected one, and
   everything the reported numbers must satisfy among themselves:
   min <= max, min <= mean <= max, sum = mean * count, deviation undefined for
   one value and otherwise a number with 0 <= dev <= max - min. *)
Definition snap_sane (o : osnap) : list nat :=
  match decode (o_min o), decode (o_max o), decode (o_avg o), decode (o_sum o) with
  | FNum mn, FNum mx, FNum av, FNum sm =>
      let a := Qabs mn in let b := Qabs mx in
      let mag := if Qle_bool a b then b else a in
      let nq := qofnat (o_n o) in
      clause 2 (Qle_bool mn mx) ++
      clause 5 (Qle_bool (mn - eps * mag) av && Qle_bool av (mx + eps * mag)) ++
      clause 4 (qabs_le sm (av * nq) (eps * mag * nq)) ++
      clause 6 (match o_n o, decode (o_dev o) with
                | 1%nat, FNaN => true
                | S (S _), FNum d => Qle_bool 0 d && Qle_bool d ((mx - mn) * (1 + eps))
                | _, _ => false
                end)
  | _, _, _, _ => [2%nat]
  end.

Definition snap_diff_n (e : snap) (o : osnap) : list nat :=
  clause 1 (Nat.eqb (s_n e) (o_n o)) ++ snap_sane o.
Definition dsel (cnt : bool) := if cnt then snap_diff_n else snap_diff.

(* in a CaseN only the measures sent by TimeMeasure.Record have unknown values *)
Definition ends_with (s suf : string) : bool :=
  let ls := String.length s in let lf := String.length suf in
  Nat.leb lf ls && String.eqb (substring (ls - lf) lf s) suf.
Definition is_time_name (k : string) : bool :=
  ends_with k "_wall" || ends_with k "_system" || ends_with k "_user".

(* ---------- the CSV line --------------------------------------------------- *)

Fixpoint cut_dot (s : string) : option (string * string) :=
  match s with
  | EmptyString => None
  | String c r =>
      if Ascii.eqb c "."%char then Some (EmptyString, r)
      else match cut_dot r with
           | None => None
           | Some (a, b) => Some (String c a, b)
           end
  end.

(* fmt.Sprintf("%f", x) read back *)
Definition parse_dec (s : string) : option fval :=
  if String.eqb s "NaN" then Some FNaN
  else if String.eqb s "+Inf" then Some (FInf false)
  else if String.eqb s "-Inf" then Some (FInf true)
  else
    let '(neg, body) := match s with String "-"%char r => (true, r) | _ => (false, s) end in
    match cut_dot body with
    | None => None
    | Some (ip, fp) =>
        match ip, fp with
        | EmptyString, _ | _, EmptyString => None
        | _, _ =>
            match digits_val ip 0, digits_val fp 0 with
            | Some a, Some b =>
                let d := (10 ^ Z.of_nat (String.length fp))%Z in
                let q := Qred (Qmake (a * d + b) (Z.to_pos d)) in
                Some (FNum (if neg then - q else q))
            | _, _ => None
            end
        end
    end.

Definition csv_num (e : Q) (f : string) (tol : Q) : bool :=
  match parse_dec f with Some o => num_close e o tol | None => false end.

Definition csv_dev (e : dev) (f : string) (tol : Q) : bool :=
  match parse_dec f with Some o => dev_close e o tol | None => false end.

(* the five printed fields min,max,avg,sum,dev of one measure *)
Definition csv_row_ok (e : snap) (fs : list string) : bool :=
  let mag := mag_of e in
  let nq := qofnat (Nat.max 1 (s_n e)) in
  match fs with
  | [fmin; fmax; favg; fsum; fdev] =>
      csv_num (s_min e) fmin csv_ulp &&
      csv_num (s_max e) fmax csv_ulp &&
      csv_num (s_avg e) favg (csv_ulp + eps * mag) &&
      csv_num (s_sum e) fsum (csv_ulp + eps * mag * nq) &&
      csv_dev (s_dev e) fdev (csv_ulp * (4 * mag + 1) + 4 * eps * mag * mag)
  | _ => false
  end.

Fixpoint csv_rows_ok (es : list snap) (fs : list string) : bool :=
  match es with
  | [] => match fs with [] => true | _ => false end
  | e :: r => csv_row_ok e (firstn 5 fs) && csv_rows_ok r (skipn 5 fs)
  end.

Fixpoint strs_eqb (a b : list string) : bool :=
  match a, b with
  | [], [] => true
  | x :: a', y :: b' => String.eqb x y && strs_eqb a' b'
  | _, _ => false
  end.

(* CSV values line = static values, then five fields per row *)
Definition csv_ok (st : list string) (es : list snap) (csv : list string) : bool :=
  strs_eqb st (firstn (List.length st) csv) && csv_rows_ok es (skipn (List.length st) csv).

(* the CSV line against the REPORTED accessor values (printing only): each
   printed field is the "%f" rendering of the float the accessor returns *)
Definition csv_f (o : fval) (f : string) : bool :=
  match parse_dec f, o with
  | Some FNaN, FNaN => true
  | Some (FInf a), FInf b => Bool.eqb a b
  | Some (FNum p), FNum q => qabs_le p q csv_ulp
  | _, _ => false
  end.

Definition csv_orow_ok (o : osnap) (fs : list string) : bool :=
  match fs with
  | [fmin; fmax; favg; fsum; fdev] =>
      csv_f (decode (o_min o)) fmin && csv_f (decode (o_max o)) fmax &&
      csv_f (decode (o_avg o)) favg && csv_f (decode (o_sum o)) fsum &&
      csv_f (decode (o_dev o)) fdev
  | _ => false
  end.

Fixpoint csv_orows_ok (os : list osnap) (fs : list string) : bool :=
  match os with
  | [] => match fs with [] => true | _ => false end
  | o :: r => csv_orow_ok o (firstn 5 fs) && csv_orows_ok r (skipn 5 fs)
  end.

Definition csv_obs_ok (st : list string) (os : list osnap) (csv : list string) : bool :=
  strs_eqb st (firstn (List.length st) csv) && csv_orows_ok os (skipn (List.length st) csv).

(* ---------- agree: model vs observation ----------------------------------- *)

Fixpoint rows_agree (cnt : bool) (m : list (string * snap)) (o : list (string * osnap)) : bool :=
  match m, o with
  | [], [] => true
  | (k, e) :: m', (k', s) :: o' =>
      String.eqb k k' && match dsel (cnt && is_time_name k) e s with [] => true | _ => false end &&
      rows_agree cnt m' o'
  | _, _ => false
  end.

Definition out_agree (cnt : bool) (m : out) (o : oout) : bool :=
  match m, o with
  | OutNone, ObsNone => true
  | OutHeader f, ObsHeader g => strs_eqb f g
  | OutValues st rows, ObsValues csv orows =>
      rows_agree cnt rows orows &&
      (if cnt then csv_obs_ok st (map snd orows) csv else csv_ok st (map snd rows) csv)
  | OutGet b rows, ObsGet b' orows => Bool.eqb b b' && rows_agree cnt rows orows
  | OutCrash, ObsCrash => true
  | OutDeadlock, ObsDeadlock => true
  | _, _ => false
  end.

Fixpoint outs_agree (cnt : bool) (m : list out) (o : list oout) : bool :=
  match m, o with
  | [], [] => true
  | x :: m', y :: o' => out_agree cnt x y && outs_agree cnt m' o'
  | _, _ => false
  end.

Definition model (c : case) : list out :=
  match c with Case st ops _ | CaseN st ops _ => run_outs code_fixes st ops end.

Definition agree (c : case) : bool :=
  match c with
  | Case _ _ obs => outs_agree false (model c) obs
  | CaseN _ _ obs => outs_agree true (model c) obs
  end.

Definition mismatches (l : list case) : list nat := mism_idx agree l.

Local Close Scope Q_scope.

(* ---------- check: the property on the observation ------------------------- *)
(* Book-keeping of what was RECORDED, independent of the accumulators of the
   implementation: per result set (object) the values recorded per measure
   name, in arrival order. *)

Definition recs := list (string * list Q).

Fixpoint rec_add (r : recs) (k : string) (x : Q) : recs :=
  match r with
  | [] => [(k, [x])]
  | (k', l) :: t => if String.eqb k k' then (k', l ++ [x]) :: t else (k', l) :: rec_add t k x
  end.

Fixpoint rec_find (r : recs) (k : string) : option (list Q) :=
  match r with
  | [] => None
  | (k', l) :: t => if String.eqb k k' then Some l else rec_find t k
  end.

(* result set: recorded values, or None = the property says nothing about it
   (average over different measure sets, bucket with a malformed rule) *)
Record sbucket := mkSB { sb_idx : Z; sb_rules : option (list rule); sb_obj : nat }.

Record sstate := mkSS { s_objs : list (option recs); s_bks : list sbucket; s_dead : bool }.

Fixpoint sb_set (l : list sbucket) (b : sbucket) : list sbucket :=
  match l with
  | [] => [b]
  | x :: r => if (sb_idx x =? sb_idx b)%Z then b :: r else x :: sb_set r b
  end.

Fixpoint sb_find (l : list sbucket) (idx : Z) : option sbucket :=
  match l with
  | [] => None
  | x :: r => if (sb_idx x =? idx)%Z then Some x else sb_find r idx
  end.

(* the hosts a range list names: 0 <= low <= h < high for one of the ranges *)
Definition in_ranges (rr : list rule) (h : Z) : bool :=
  (0 <=? h)%Z && existsb (fun r => (fst r <=? h)%Z && (h <? snd r)%Z) rr.

Definition obj_add (os : list (option recs)) (i : nat) (k : string) (x : Q) : list (option recs) :=
  match nth_error os i with
  | Some (Some r) => set_nth os i (Some (rec_add r k x))
  | _ => os
  end.

Fixpoint route (bl : list sbucket) (os : list (option recs)) (k : string) (x : Q) (h : Z)
  : list (option recs) :=
  match bl with
  | [] => os
  | b :: r =>
      match sb_rules b with
      | Some rr => if in_ranges rr h then route r (obj_add os (sb_obj b) k x) k x h
                   else route r os k x h
      | None => route r (set_nth os (sb_obj b) None) k x h
      end
  end.

Fixpoint insert_str (k : string) (l : list string) : list string :=
  match l with
  | [] => [k]
  | x :: r => if String.leb k x then k :: l else x :: insert_str k r
  end.
Definition sort_strs (l : list string) : list string := fold_right insert_str [] l.

Definition keys_of (r : recs) : list string := sort_strs (map fst r).

Definition same_keys (a b : recs) : bool := strs_eqb (keys_of a) (keys_of b).

Fixpoint all_some {A} (l : list (option A)) : option (list A) :=
  match l with
  | [] => Some []
  | Some x :: r => match all_some r with Some t => Some (x :: t) | None => None end
  | None :: _ => None
  end.

(* union of result sets over the same measures *)
Definition union_recs (srcs : list recs) : option recs :=
  match srcs with
  | [] => Some []
  | r0 :: _ =>
      if forallb (same_keys r0) srcs then
        Some (map (fun k => (k, List.concat (map (fun r => match rec_find r k with Some l => l | None => [] end) srcs)))
                  (keys_of r0))
      else None
  end.

Definition sstep (s : sstate) (o : op) : sstate :=
  match o with
  | ONew => mkSS (s_objs s ++ [Some []]) (s_bks s) (s_dead s)
  | OSetBucket idx rules =>
      let i := List.length (s_objs s) in
      let '(rs, ok) := parse_rules rules in
      (* a malformed specification keeps the bucket's previous result set under
         partial rules: the property says nothing about either object *)
      let os := match sb_find (s_bks s) idx with
                | Some b => if ok then s_objs s else set_nth (s_objs s) (sb_obj b) None
                | None => s_objs s
                end in
      mkSS (os ++ [if ok then Some [] else None])
           (sb_set (s_bks s) (mkSB idx (if ok then Some rs else None) i)) (s_dead s)
  | OWire k x h =>
      if String.eqb (lower k) "end" then s
      else mkSS (route (s_bks s) (obj_add (s_objs s) 0 k x) k x h) (s_bks s) (s_dead s)
  | OMeasure k x h => mkSS (route (s_bks s) (obj_add (s_objs s) 0 k x) k x h) (s_bks s) (s_dead s)
  | ODirect i k x => mkSS (obj_add (s_objs s) i k x) (s_bks s) (s_dead s)
  | OCollect _ | OString _ | OHeader _ | OValues _ | OGet _ => s
  | OWireErr _ _ _ => s          (* a message that could not be decoded records nothing *)
  | OAverage srcs =>
      let rs := map (fun i => match nth_error (s_objs s) i with Some (Some r) => Some r | _ => None end) srcs in
      let n := match all_some rs with Some l => union_recs l | None => None end in
      mkSS (s_objs s ++ [n]) (s_bks s) (s_dead s)
  end.

(* compare the reported rows of one result set with the recorded values.
   [kc] is the clause reported when the SET of measures differs. *)
Fixpoint rows_check (cnt : bool) (kc : nat) (keys : list string) (r : recs) (o : list (string * osnap)) : list nat :=
  match keys, o with
  | [], [] => []
  | k :: keys', (k', s) :: o' =>
      if String.eqb k k' then
        match rec_find r k with
        | Some l => dsel (cnt && is_time_name k) (exact l) s ++ rows_check cnt kc keys' r o'
        | None => [kc]
        end
      else [kc]
  | _, _ => [kc]
  end.

Definition exact_rows (r : recs) : list snap :=
  map (fun k => match rec_find r k with Some l => exact l | None => exact [] end) (keys_of r).

(* clause numbers
   1..6  count / min / max / sum / mean / sample deviation of a reported measure
         differ from the statistics of the values recorded for it
   7     CSV header does not name the recorded measures in order, or the values
         line does not carry the reported statistics in those columns
   8     a bucket does not hold exactly the measures of the hosts its ranges name
         (measure missing or foreign, bucket missing)
   9     a result set reports a measure that was never recorded for it, or misses one
   10    the statistics code crashed or blocked forever: no result was produced
   11    the observation does not have one entry per operation (harness fault) *)
Definition is_bucket_obj (s : sstate) (i : nat) : bool :=
  existsb (fun b => Nat.eqb (sb_obj b) i) (s_bks s).

Definition ocheck (cnt : bool) (st : list (string * string)) (s : sstate) (o : op) (ob : oout) : list nat :=
  match ob with
  | ObsCrash | ObsDeadlock | ObsTransport => [10]
  | _ =>
    match o, ob with
    | OHeader i, ObsHeader f =>
        match nth_error (s_objs s) i with
        | Some (Some r) =>
            clause 7 (strs_eqb f (map fst st ++ flat_map header_fields (keys_of r)))
        | _ => []
        end
    | OValues i, ObsValues csv rows =>
        match nth_error (s_objs s) i with
        | Some (Some r) =>
            rows_check cnt (if is_bucket_obj s i then 8 else 9) (keys_of r) r rows ++
            clause 7 (csv_obs_ok (map snd st) (map snd rows) csv)
        | _ => []
        end
    | OGet idx, ObsGet found rows =>
        match sb_find (s_bks s) idx with
        | None => clause 8 (negb found)
        | Some b =>
            match sb_rules b, nth_error (s_objs s) (sb_obj b) with
            | Some _, Some (Some r) =>
                if found then rows_check cnt 8 (keys_of r) r rows else [8]
            | _, _ => []
            end
        end
    | OHeader _, _ | OValues _, _ | OGet _, _ => [11]
    | _, ObsNone => []
    | _, _ => [11]
    end
  end.

Fixpoint scheck (cnt : bool) (st : list (string * string)) (s : sstate) (ops : list op) (obs : list oout) : list nat :=
  match ops, obs with
  | [], [] => []
  | o :: ops', ob :: obs' =>
      let s' := sstep s o in
      match ocheck cnt st s' o ob with
      | [] => scheck cnt st s' ops' obs'
      | l => match ob with
             | ObsCrash | ObsDeadlock | ObsTransport => l   (* nothing happens afterwards *)
             | _ => l ++ scheck cnt st s' ops' obs'
             end
      end
  | _, _ => [11]
  end.

Fixpoint dedup (l : list nat) : list nat :=
  match l with
  | [] => []
  | x :: r => if existsb (Nat.eqb x) r then dedup r else x :: dedup r
  end.

Definition check (c : case) : list nat :=
  match c with
  | Case st ops obs => dedup (scheck false st (mkSS [Some []] [] false) ops obs)
  | CaseN st ops obs => dedup (scheck true st (mkSS [Some []] [] false) ops obs)
  end.

Definition violations (l : list case) : list (nat * nat) := viols check l.

(* compact notation for long runs of operations in generated cases: a block of
   operations repeated n times, and the (empty) observations of n*len operations *)
Definition rep_ops (n : nat) (b : list op) : list op := List.concat (repeat b n).
Definition rep_none (n len : nat) : list oout := repeat ObsNone (n * len).
