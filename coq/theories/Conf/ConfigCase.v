(* C18 -- case type, model-vs-observation comparison [gagree18] and property
   checker [gcheck18] of the correspondence, generic in the literal type L (see
   Tree/IdsCase.v).  Executable definitions only.

   A case is one abstract private.toml / group.toml with the service entries in
   FILE order, the registry, and the observation: the SET of distinct results of
   many parses (both file orders, this process and fresh ones) and the set of
   results of re-reading what the real writer wrote for the first result.

   gagree18 : every observed result is the model's result for SOME iteration order
              of the Services maps (all permutations are tried); with the fix F20
              the model's results coincide.  The roster id is C13's NewRoster run
              with the oracle (Go's SHA-256 / uuid on the observed pre-images).
   gcheck18 : the property on the observation alone. *)
From Coq Require Import List Arith Bool Ascii String NArith ZArith.
Import ListNotations.
From Onet Require Import Base.Corr.
From Onet Require Export Base.C13Bytes Tree.Ids Tree.IdsCheck Tree.IdsCase Conf.Config.

(* ---- all orders ------------------------------------------------------------- *)
Fixpoint insert_all {A} (x : A) (l : list A) : list (list A) :=
  match l with
  | [] => [[x]]
  | y :: r => (x :: l) :: map (cons y) (insert_all x r)
  end.

Fixpoint perms {A} (l : list A) : list (list A) :=
  match l with
  | [] => [[]]
  | x :: r => flat_map (insert_all x) (perms r)
  end.

Definition with_srv (s : server_toml) (o : list svc_conf) : server_toml :=
  {| st_addr := st_addr s; st_suite := st_suite s; st_suite_known := st_suite_known s;
     st_pub := st_pub s; st_desc := st_desc s; st_url := st_url s; st_srv := o |}.

Fixpoint all_orders (l : list server_toml) : list (list server_toml) :=
  match l with
  | [] => [[]]
  | s :: r =>
      flat_map (fun o => map (cons (with_srv s o)) (all_orders r)) (perms (st_srv s))
  end.

Definition co_with_srv (c : cothority) (o : list svc_conf) : cothority :=
  {| co_suite_known := co_suite_known c; co_pub := co_pub c; co_priv := co_priv c;
     co_addr := co_addr c; co_host := co_host c; co_port := co_port c; co_desc := co_desc c;
     co_url := co_url c; co_tlskey := co_tlskey c; co_srv := o |}.

(* ---- boolean equality on results -------------------------------------------- *)
Definition opt_bytes_eqb (a b : option bytes) : bool :=
  match a, b with
  | None, None => true
  | Some x, Some y => bytes_eqb x y
  | _, _ => false
  end.

Definition sid_eqb (a b : sid) : bool :=
  bytes_eqb (sid_name a) (sid_name b) && bytes_eqb (sid_suite a) (sid_suite b) &&
  key_eqb (sid_pub a) (sid_pub b) && opt_bytes_eqb (sid_priv a) (sid_priv b).

Definition identity_eqb (a b : identity) : bool :=
  key_eqb (i_pub a) (i_pub b) && opt_bytes_eqb (i_priv a) (i_priv b) &&
  bytes_eqb (i_addr a) (i_addr b) && bytes_eqb (i_desc a) (i_desc b) &&
  bytes_eqb (i_url a) (i_url b) && list_eqb sid_eqb (i_srv a) (i_srv b).

Definition gres_eqb (a b : gres) : bool :=
  match a, b with
  | GErr, GErr => true
  | GPanic, GPanic => true
  | GOther a, GOther b => a =? b
  | GOk i1 r1, GOk i2 r2 => list_eqb identity_eqb i1 i2 && res_eqb r1 r2
  | _, _ => false
  end.

(* normal forms used to classify a difference *)
Definition sort_identity (i : identity) : identity :=
  {| i_pub := i_pub i; i_priv := i_priv i; i_addr := i_addr i; i_desc := i_desc i;
     i_url := i_url i; i_srv := sort_sids (i_srv i) |}.

Definition default_desc_identity (i : identity) : identity :=
  {| i_pub := i_pub i; i_priv := i_priv i; i_addr := i_addr i;
     i_desc := match i_desc i with [] => default_description | d => d end;
     i_url := i_url i; i_srv := i_srv i |}.

(* forget the order of the service identities and the roster id *)
Definition norm_order (g : gres) : gres :=
  match g with
  | GOk ids _ => GOk (map sort_identity ids) RNil
  | x => x
  end.

(* ... and additionally read an empty description as the writer's default text *)
Definition norm_desc (g : gres) : gres :=
  match g with
  | GOk ids _ => GOk (map (fun i => default_desc_identity (sort_identity i)) ids) RNil
  | x => x
  end.

Section Lit.
Context {L : Type}.
Variable unlit : L -> bytes.
Variable code_fixed_F20 : bool.

(* ---- literals ----------------------------------------------------------------- *)
Inductive ipriv := PNone | PBad | PSome (s : L).
Inductive isvc := ISvc (name suite : L) (pub : option nat) (priv : ipriv).
Inductive iserver := ISrv (addr suite : L) (known : bool) (pub : option nat) (desc url : L) (srv : list isvc).
Inductive icoth := ICo (known : bool) (pub : option nat) (priv : option L) (addr host : L)
                       (port : option Z) (desc url tlskey : L) (srv : list isvc).
Inductive osid := OS (name suite : L) (pub : nat) (priv : option L).
Inductive oid := OI (pub : nat) (priv : option L) (addr desc url : L) (srv : list osid).
Inductive oresult := ORErr | ORPanic | OROther (code : nat) | OROk (ids : list oid) (roster : @ores L).

Inductive gcase18 :=
| CGroup (kt : @ktab L) (reg : list (L * option L)) (servers : list iserver) (wsuite : L)
         (parses roundtrip : list oresult) (h256 u : list (L * L))
| CPrivate (kt : @ktab L) (reg : list (L * option L)) (c : icoth)
         (parses roundtrip : list oresult) (h256 u : list (L * L))
(* a roster with ID field [stored] and members [ids], written with Roster.Toml +
   WriteTomlConfig and read back (ReadTomlConfig + RosterToml.Roster) several times in
   fresh processes: the distinct results *)
| CRosterFile (kt : @ktab L) (stored : L) (ids : list oid) (reads : list oresult).

(* ---- decoding ------------------------------------------------------------------ *)
Definition dec_keyref (ks : list key) (r : option nat) : option (option key) :=
  match r with
  | None => Some None
  | Some i => match nth_error ks i with Some k => Some (Some k) | None => None end
  end.

Definition dec_reg (r : list (L * option L)) : registry :=
  map (fun p => (unlit (fst p), match snd p with Some s => Some (unlit s) | None => None end)) r.

Definition dec_svc (ks : list key) (s : isvc) : option svc_conf :=
  match s with
  | ISvc name suite pub priv =>
      match dec_keyref ks pub with
      | None => None
      | Some k =>
          Some {| sc_name := unlit name; sc_suite := unlit suite; sc_pub := k;
                  sc_priv := match priv with
                             | PNone => None
                             | PBad => Some None
                             | PSome x => Some (Some (unlit x))
                             end |}
      end
  end.

Definition dec_server (ks : list key) (s : iserver) : option server_toml :=
  match s with
  | ISrv addr suite known pub desc url srv =>
      match dec_keyref ks pub, opt_all (map (dec_svc ks) srv) with
      | Some k, Some l =>
          Some {| st_addr := unlit addr; st_suite := unlit suite; st_suite_known := known; st_pub := k;
                  st_desc := unlit desc; st_url := unlit url; st_srv := l |}
      | _, _ => None
      end
  end.

Definition dec_coth (ks : list key) (c : icoth) : option cothority :=
  match c with
  | ICo known pub priv addr host port desc url tlskey srv =>
      match dec_keyref ks pub, opt_all (map (dec_svc ks) srv) with
      | Some k, Some l =>
          Some {| co_suite_known := known; co_pub := k;
                  co_priv := match priv with Some x => Some (unlit x) | None => None end;
                  co_addr := unlit addr; co_host := unlit host; co_port := port;
                  co_desc := unlit desc; co_url := unlit url; co_tlskey := unlit tlskey; co_srv := l |}
      | _, _ => None
      end
  end.

Definition dec_optL (x : option L) : option bytes :=
  match x with Some y => Some (unlit y) | None => None end.

Definition dec_osid (ks : list key) (s : osid) : option sid :=
  match s with
  | OS name suite pub priv =>
      match nth_error ks pub with
      | Some k => Some {| sid_name := unlit name; sid_suite := unlit suite; sid_pub := k; sid_priv := dec_optL priv |}
      | None => None
      end
  end.

Definition dec_oid (ks : list key) (i : oid) : option identity :=
  match i with
  | OI pub priv addr desc url srv =>
      match nth_error ks pub, opt_all (map (dec_osid ks) srv) with
      | Some k, Some l =>
          Some {| i_pub := k; i_priv := dec_optL priv; i_addr := unlit addr; i_desc := unlit desc;
                  i_url := unlit url; i_srv := l |}
      | _, _ => None
      end
  end.

Definition dec_oresult (ks : list key) (r : oresult) : option gres :=
  match r with
  | ORErr => Some GErr
  | ORPanic => Some GPanic
  | OROther n => Some (GOther n)
  | OROk ids ro =>
      match opt_all (map (dec_oid ks) ids), dec_res unlit ro with
      | Some l, Some x => Some (GOk l x)
      | _, _ => None
      end
  end.

Definition dec_oracle (t : list (L * L)) : bytes -> bytes :=
  lookup (map (fun p => (unlit (fst p), unlit (snd p))) t).

(* ---- the model's result sets ---------------------------------------------------- *)
(* a private file: one identity; its "roster id" is NewRoster over that identity *)
Definition read_private (H256 U5 : bytes -> bytes) (r : registry) (c : cothority) : gres :=
  match get_server_identity code_fixed_F20 r c with
  | IErr => GErr
  | IPanic => GPanic
  | IOk i => GOk [i] (new_roster H256 U5 [gmember_of i])
  end.

Definition group_results (H256 U5 : bytes -> bytes) (r : registry) (servers : list server_toml) : list gres :=
  map (read_group code_fixed_F20 H256 U5 r) (all_orders servers).

Definition private_results (H256 U5 : bytes -> bytes) (r : registry) (c : cothority) : list gres :=
  map (fun o => read_private H256 U5 r (co_with_srv c o)) (perms (co_srv c)).

(* re-reading what the writer produced from a result (the set does not depend on
   which of the model's results is written: they differ in service order only) *)
Definition group_roundtrip_results (H256 U5 : bytes -> bytes) (r : registry) (wsuite : bytes)
           (first : gres) : list gres :=
  match first with
  | GOk ids _ =>
      match write_group r wsuite true ids with
      | Some ws => group_results H256 U5 r ws
      | None => [GPanic]
      end
  | _ => []
  end.

(* ---- roster files ------------------------------------------------------------------- *)
Definition all_equal_g (l : list gres) : bool :=
  match l with
  | [] => true
  | p :: rest => forallb (gres_eqb p) rest
  end.

Definition strip_gres (g : gres) : gres :=
  match g with
  | GOk ids r => GOk (map strip_identity ids) r
  | x => x
  end.

(* clauses 9 and 11 for one result read back from a roster file.  The format holds,
   per member, the public key and the address and nothing else: what is demanded is
   exactly that -- the members come back BARE with the key and address that were
   written (for bare members that is the identity round trip) *)
Definition roster_file_clause (stored : bytes) (ids : list identity) (r : gres) : list nat :=
  match r with
  | GOk got ro =>
      clause 9 (res_eqb ro (RId stored)) ++
      clause 11 (list_eqb identity_eqb (map strip_identity ids) got)
  | _ => [11]
  end.

Definition check_roster_file (stored : bytes) (ids : list identity) (rs : list gres) : list nat :=
  dedup (match rs with [] => [7] | _ => [] end ++
         (if all_equal_g rs then [] else [2]) ++
         flat_map (roster_file_clause stored ids) rs).

Definition subset_of (obs model : list gres) : bool :=
  forallb (fun o => existsb (gres_eqb o) model) obs.

Definition nonempty {A} (l : list A) : bool := match l with [] => false | _ => true end.

Definition gagree18 (c : gcase18) : bool :=
  match c with
  | CGroup kt reg servers wsuite parses rts h u =>
      match dec_ktab unlit kt with
      | None => false
      | Some ks =>
          match opt_all (map (dec_server ks) servers),
                opt_all (map (dec_oresult ks) parses), opt_all (map (dec_oresult ks) rts) with
          | Some ss, Some ps, Some rs =>
              let H := dec_oracle h in let U := dec_oracle u in
              let model := group_results H U (dec_reg reg) ss in
              nonempty ps && subset_of ps model &&
              match model with
              | [] => false
              | m0 :: _ => subset_of rs (group_roundtrip_results H U (dec_reg reg) (unlit wsuite) m0) &&
                           (* something is written and re-read exactly when a first result exists *)
                           Bool.eqb (nonempty rs)
                                    (match m0 with GOk (_ :: _) _ => true | _ => false end)
              end
          | _, _, _ => false
          end
      end
  | CPrivate kt reg co parses rts h u =>
      match dec_ktab unlit kt with
      | None => false
      | Some ks =>
          match dec_coth ks co,
                opt_all (map (dec_oresult ks) parses), opt_all (map (dec_oresult ks) rts) with
          | Some c0, Some ps, Some rs =>
              let H := dec_oracle h in let U := dec_oracle u in
              let model := private_results H U (dec_reg reg) c0 in
              nonempty ps && subset_of ps model && subset_of rs model &&
              match model with
              | [] => false
              | m0 :: _ => Bool.eqb (nonempty rs) (match m0 with GOk _ _ => true | _ => false end)
              end
          | _, _, _ => false
          end
      end
  | CRosterFile kt stored ids reads =>
      match dec_ktab unlit kt with
      | None => false
      | Some ks =>
          match opt_all (map (dec_oid ks) ids), opt_all (map (dec_oresult ks) reads) with
          | Some is, Some rs =>
              nonempty rs && forallb (gres_eqb (roster_file_roundtrip (unlit stored) is)) rs
          | _, _ => false
          end
      end
  end.

(* ---- check: the property on the observation --------------------------------------
   clause numbers:
    1 repeated parses of one file differ, but only in the ORDER of the service
      identities (and hence in the roster id)                                    (F20)
    2 repeated parses of one file differ in some other way
    3 what is re-read after writing differs from what was read, but only in the order
      of the service identities / the roster id                                  (F20)
    4 what is re-read after writing differs from what was read in some other way
    5 what is re-read after writing differs from what was read only in that an empty
      description has become the writer's default text
    6 a well-formed file is rejected (error or panic)
    9 roster file: the roster id read back is not the ID field that was written
   11 roster file: the members read back are not the written members' public keys and
      addresses (all the format holds), or the file could not be read back
    7 undecodable case / no observation (harness error)
    8 a well-formed file was accepted with identities, but nothing could be written
      back and re-read *)

Definition all_equal (l : list gres) : bool :=
  match l with
  | [] => true
  | p :: rest => forallb (gres_eqb p) rest
  end.

Definition parses_clauses (ps : list gres) : list nat :=
  match ps with
  | [] => [7]
  | _ => if all_equal ps then []
         else if all_equal (map norm_order ps) then [1] else [2]
  end.

Definition roundtrip_clause (ps : list gres) (r : gres) : list nat :=
  if existsb (gres_eqb r) ps then []
  else if existsb (fun p => gres_eqb (norm_order r) (norm_order p)) ps then [3]
  else if existsb (fun p => gres_eqb (norm_desc r) (norm_desc p)) ps then [5]
  else [4].

(* accepted: identities, and for a non-empty list a 16-byte roster id *)
Definition is_ok (g : gres) : bool :=
  match g with
  | GOk [] _ => true
  | GOk (_ :: _) (RId b) => List.length b =? 16
  | _ => false
  end.

Definition has_ids (g : gres) : bool := match g with GOk (_ :: _) _ => true | _ => false end.

Definition svc_wellformed (r : registry) (c : svc_conf) : bool :=
  match reg_suite r (sc_name c) with
  | Some su => bytes_eqb su (sc_suite c)
  | None => true
  end.

Definition server_wellformed (r : registry) (s : server_toml) : bool :=
  st_suite_known s && (match st_pub s with Some _ => true | None => false end) &&
  forallb (svc_wellformed r) (st_srv s).

Definition coth_wellformed (r : registry) (c : cothority) : bool :=
  co_suite_known c && (match co_pub c with Some _ => true | None => false end) &&
  (match co_priv c with Some _ => true | None => false end) &&
  forallb (svc_wellformed r) (co_srv c) &&
  (match co_tlskey c, co_url c, co_port c with
   | _ :: _, [], None => false
   | _, _, _ => true
   end).

Definition check_obs (wellformed : bool) (ps rs : list gres) : list nat :=
  dedup (parses_clauses ps ++ flat_map (roundtrip_clause ps) rs ++
         clause 6 (negb wellformed || forallb is_ok ps) ++
         clause 8 (negb wellformed || negb (existsb has_ids ps) || nonempty rs)).

Definition gcheck18 (c : gcase18) : list nat :=
  match c with
  | CGroup kt reg servers _ parses rts _ _ =>
      match dec_ktab unlit kt with
      | None => [7]
      | Some ks =>
          match opt_all (map (dec_server ks) servers),
                opt_all (map (dec_oresult ks) parses), opt_all (map (dec_oresult ks) rts) with
          | Some ss, Some ps, Some rs =>
              check_obs (forallb (server_wellformed (dec_reg reg)) ss) ps rs
          | _, _, _ => [7]
          end
      end
  | CPrivate kt reg co parses rts _ _ =>
      match dec_ktab unlit kt with
      | None => [7]
      | Some ks =>
          match dec_coth ks co,
                opt_all (map (dec_oresult ks) parses), opt_all (map (dec_oresult ks) rts) with
          | Some c0, Some ps, Some rs => check_obs (coth_wellformed (dec_reg reg) c0) ps rs
          | _, _, _ => [7]
          end
      end
  | CRosterFile kt stored ids reads =>
      match dec_ktab unlit kt with
      | None => [7]
      | Some ks =>
          match opt_all (map (dec_oid ks) ids), opt_all (map (dec_oresult ks) reads) with
          | Some is, Some rs => check_roster_file (unlit stored) is rs
          | _, _ => [7]
          end
      end
  end.

End Lit.
