(* C18 -- proofs about Conf/Config.v.

   Main results: with the identities sorted by service name (fix F20) the result of
   the readers does not depend on the order in which Go visits the Services map
   (any permutation of the entries; map keys are unique); without the sort it does
   (refutation witness, for every hash function); what the writer writes is read
   back to the same identities (descriptions non-empty), and an empty description
   is not (refutation witness). *)
From Coq Require Import String.
From Coq Require Import List Arith Bool Ascii NArith ZArith Lia Permutation.
Import ListNotations.
From Onet Require Import Base.Corr Base.C13Bytes Base.C13BytesProofs Tree.Ids Tree.IdsCheck Tree.IdsProofs
     Conf.Config Conf.ConfigCase.

(* ======================================================================== *)
(* the byte-wise order is a strict total order                               *)

Lemma N_of_ascii_inj x y : N_of_ascii x = N_of_ascii y -> x = y.
Proof. intros H. rewrite <- (ascii_N_embedding x), <- (ascii_N_embedding y), H. reflexivity. Qed.

Lemma bytes_ltb_irrefl a : bytes_ltb a a = false.
Proof. induction a as [|x a IH]; simpl; [reflexivity|]. rewrite N.ltb_irrefl. exact IH. Qed.

Lemma bytes_ltb_asym a : forall b, bytes_ltb a b = true -> bytes_ltb b a = false.
Proof.
  induction a as [|x a IH]; intros [|y b] H; simpl in *; try discriminate; auto.
  destruct (N_of_ascii x <? N_of_ascii y)%N eqn:E1.
  - apply N.ltb_lt in E1. destruct (N_of_ascii y <? N_of_ascii x)%N eqn:E2; [apply N.ltb_lt in E2; lia|reflexivity].
  - destruct (N_of_ascii y <? N_of_ascii x)%N eqn:E2; [discriminate|]. apply IH; exact H.
Qed.

Lemma bytes_ltb_total a : forall b, a <> b -> bytes_ltb a b = true \/ bytes_ltb b a = true.
Proof.
  induction a as [|x a IH]; intros [|y b] H; simpl; auto; try congruence.
  destruct (N_of_ascii x <? N_of_ascii y)%N eqn:E1; [left; reflexivity|].
  destruct (N_of_ascii y <? N_of_ascii x)%N eqn:E2; [right; reflexivity|].
  apply N.ltb_ge in E1, E2. assert (x = y) by (apply N_of_ascii_inj; lia). subst y.
  apply IH. congruence.
Qed.

Lemma bytes_ltb_trans a : forall b c, bytes_ltb a b = true -> bytes_ltb b c = true -> bytes_ltb a c = true.
Proof.
  induction a as [|x a IH]; intros [|y b] [|z c] H1 H2; simpl in *; try discriminate; auto.
  destruct (N_of_ascii x <? N_of_ascii y)%N eqn:E1.
  - apply N.ltb_lt in E1.
    destruct (N_of_ascii y <? N_of_ascii z)%N eqn:E2.
    + apply N.ltb_lt in E2. assert (E : (N_of_ascii x <? N_of_ascii z)%N = true) by (apply N.ltb_lt; lia).
      rewrite E. reflexivity.
    + destruct (N_of_ascii z <? N_of_ascii y)%N eqn:E3; [discriminate|].
      apply N.ltb_ge in E2, E3. assert (E : (N_of_ascii x <? N_of_ascii z)%N = true) by (apply N.ltb_lt; lia).
      rewrite E. reflexivity.
  - destruct (N_of_ascii y <? N_of_ascii x)%N eqn:E1'; [discriminate|].
    apply N.ltb_ge in E1, E1'. assert (Exy : N_of_ascii x = N_of_ascii y) by lia.
    rewrite Exy.
    destruct (N_of_ascii y <? N_of_ascii z)%N eqn:E2; [reflexivity|].
    destruct (N_of_ascii z <? N_of_ascii y)%N eqn:E3; [discriminate|].
    apply (IH b c); assumption.
Qed.

(* a <= b < c  =>  a < c *)
Lemma bytes_le_lt_trans a b c : bytes_ltb b a = false -> bytes_ltb b c = true -> bytes_ltb a c = true.
Proof.
  intros H1 H2. destruct (bytes_eq_dec a b) as [->|N]; [exact H2|].
  destruct (bytes_ltb_total a b N) as [H|H]; [|congruence].
  apply (bytes_ltb_trans a b c); assumption.
Qed.

(* ======================================================================== *)
(* insertion sort by name is invariant under permutation                      *)

Lemma insert_comm x y l : sid_name x <> sid_name y ->
  insert_sid x (insert_sid y l) = insert_sid y (insert_sid x l).
Proof.
  intros D. induction l as [|z r IH]; simpl.
  - destruct (bytes_ltb (sid_name y) (sid_name x)) eqn:E1.
    + rewrite (bytes_ltb_asym _ _ E1). reflexivity.
    + destruct (bytes_ltb_total _ _ D) as [H|H]; [rewrite H; reflexivity | congruence].
  - destruct (bytes_ltb (sid_name z) (sid_name y)) eqn:Ezy;
    destruct (bytes_ltb (sid_name z) (sid_name x)) eqn:Ezx; simpl; rewrite ?Ezy, ?Ezx.
    + rewrite IH. reflexivity.
    + (* x <= z < y *)
      rewrite (bytes_le_lt_trans _ _ _ Ezx Ezy). simpl. rewrite ?Ezy. reflexivity.
    + (* y <= z < x *)
      rewrite (bytes_le_lt_trans _ _ _ Ezy Ezx). simpl. rewrite ?Ezx. reflexivity.
    + destruct (bytes_ltb (sid_name y) (sid_name x)) eqn:E1.
      * rewrite (bytes_ltb_asym _ _ E1). simpl. rewrite ?Ezx. reflexivity.
      * destruct (bytes_ltb_total _ _ D) as [H|H]; [|congruence]. rewrite H. simpl. rewrite ?Ezy. reflexivity.
Qed.

Lemma insert_perm x l : Permutation (insert_sid x l) (x :: l).
Proof.
  induction l as [|y r IH]; simpl; [reflexivity|].
  destruct (bytes_ltb (sid_name y) (sid_name x)); [|reflexivity].
  rewrite IH. apply perm_swap.
Qed.

Lemma sort_perm l : Permutation (sort_sids l) l.
Proof. induction l as [|x r IH]; simpl; [constructor|]. rewrite insert_perm. constructor. exact IH. Qed.

Theorem sort_perm_eq l1 l2 :
  Permutation l1 l2 -> NoDup (map sid_name l1) -> sort_sids l1 = sort_sids l2.
Proof.
  intros P. induction P as [|x l l' P IH|x y l|l l' l'' P1 IH1 P2 IH2]; intros ND.
  - reflexivity.
  - simpl in *. inversion ND; subst. rewrite IH; auto.
  - simpl in *. inversion ND as [|? ? Hy ND']; subst. apply insert_comm.
    intros E. apply Hy. simpl. left. symmetry. exact E.
  - rewrite IH1 by exact ND. apply IH2.
    apply (Permutation_NoDup (l := map sid_name l)); [apply Permutation_map; exact P1 | exact ND].
Qed.

Lemma sort_idempotent l : NoDup (map sid_name l) -> sort_sids (sort_sids l) = sort_sids l.
Proof.
  intros ND. apply sort_perm_eq; [apply sort_perm|].
  apply (Permutation_NoDup (l := map sid_name l)); [apply Permutation_map; symmetry; apply sort_perm | exact ND].
Qed.

(* ======================================================================== *)
(* collecting the identities in any iteration order                           *)

Lemma parse_ok_name r c s : parse_service_identity r c = SOk s -> sid_name s = sc_name c.
Proof.
  unfold parse_service_identity. destruct (reg_suite r (sc_name c)); [|discriminate].
  destruct (negb _); [discriminate|].
  destruct (sc_priv c) as [[?|]|]; destruct (sc_pub c); intros H; inversion H; reflexivity.
Qed.

Lemma collect_perm r o o' : Permutation o o' ->
  match collect_services r o, collect_services r o' with
  | None, None => True
  | Some l, Some l' => Permutation l l'
  | _, _ => False
  end.
Proof.
  intros P. induction P as [|x l l' P IH|x y l|l l' l'' P1 IH1 P2 IH2]; simpl.
  - constructor.
  - destruct (parse_service_identity r x); [exact IH | exact I |].
    destruct (collect_services r l), (collect_services r l'); try contradiction; auto.
  - destruct (parse_service_identity r x), (parse_service_identity r y);
      destruct (collect_services r l); auto; try reflexivity. apply perm_swap.
  - destruct (collect_services r l), (collect_services r l'), (collect_services r l''); try contradiction; auto.
    etransitivity; eassumption.
Qed.

Lemma collect_names r o : forall l, collect_services r o = Some l ->
  exists o', map sid_name l = map sc_name o' /\ (forall n, In n (map sc_name o') -> In n (map sc_name o)) /\
             (NoDup (map sc_name o) -> NoDup (map sc_name o')).
Proof.
  induction o as [|c rest IH]; simpl; intros l H.
  - inversion H; subst. exists []. split; [reflexivity|]. split; [intros n Hn; exact Hn | intros _; constructor].
  - destruct (parse_service_identity r c) eqn:E; [|discriminate|].
    + destruct (IH l H) as (o' & E1 & E2 & E3). exists o'. split; [exact E1|]. split.
      * intros n Hn. right. apply E2; exact Hn.
      * intros ND. inversion ND; subst. apply E3; assumption.
    + destruct (collect_services r rest) as [l0|]; [|discriminate]. inversion H; subst.
      destruct (IH l0 eq_refl) as (o' & E1 & E2 & E3). exists (c :: o'). split; [|split].
      * simpl. rewrite (parse_ok_name r c s E), E1. reflexivity.
      * simpl. intros n [Hn|Hn]; [left; exact Hn | right; apply E2; exact Hn].
      * simpl. intros ND. inversion ND as [|? ? Hc ND']; subst. constructor; [|apply E3; exact ND'].
        intros Hin. apply Hc. apply E2. exact Hin.
Qed.

Lemma collect_nodup r o l : NoDup (map sc_name o) -> collect_services r o = Some l -> NoDup (map sid_name l).
Proof.
  intros ND H. destruct (collect_names r o l H) as (o' & E1 & _ & E3). rewrite E1. apply E3. exact ND.
Qed.

(* F20 fixed: the identities do not depend on the iteration order *)
Theorem parse_services_order_independent r o o' :
  NoDup (map sc_name o) -> Permutation o o' ->
  parse_services true r o = parse_services true r o'.
Proof.
  intros ND P. unfold parse_services. pose proof (collect_perm r o o' P) as C.
  destruct (collect_services r o) as [l|] eqn:E1, (collect_services r o') as [l'|] eqn:E2; try contradiction; auto.
  f_equal. apply sort_perm_eq; [exact C | apply (collect_nodup r o l ND E1)].
Qed.

(* panics do not depend on the order either, fixed or not *)
Theorem parse_services_panic_order_independent f r o o' :
  Permutation o o' -> (parse_services f r o = None <-> parse_services f r o' = None).
Proof.
  intros P. unfold parse_services. pose proof (collect_perm r o o' P) as C.
  destruct (collect_services r o), (collect_services r o'); try contradiction; split; intros H; try discriminate; auto.
Qed.

(* servers whose Services maps are visited in another order *)
Definition same_server_up_to_order (s s' : server_toml) : Prop :=
  st_addr s = st_addr s' /\ st_suite s = st_suite s' /\ st_suite_known s = st_suite_known s' /\
  st_pub s = st_pub s' /\ st_desc s = st_desc s' /\ st_url s = st_url s' /\
  Permutation (st_srv s) (st_srv s') /\ NoDup (map sc_name (st_srv s)).

Theorem to_server_identity_order_independent r s s' :
  same_server_up_to_order s s' -> to_server_identity true r s = to_server_identity true r s'.
Proof.
  intros (E1 & E2 & E3 & E4 & E5 & E6 & P & ND). unfold to_server_identity.
  rewrite E1, E3, E4, E5, E6, (parse_services_order_independent r _ _ ND P). reflexivity.
Qed.

Theorem read_group_order_independent (H256 U5 : bytes -> bytes) r l l' :
  Forall2 same_server_up_to_order l l' ->
  read_group true H256 U5 r l = read_group true H256 U5 r l'.
Proof.
  intros F. unfold read_group.
  assert (E : read_servers true r l = read_servers true r l').
  { induction F as [|s s' l l' Hs F IH]; simpl; [reflexivity|].
    rewrite (to_server_identity_order_independent r s s' Hs), IH. reflexivity. }
  rewrite E. reflexivity.
Qed.

Definition same_cothority_up_to_order (c c' : cothority) : Prop :=
  c' = co_with_srv c (co_srv c') /\ Permutation (co_srv c) (co_srv c') /\ NoDup (map sc_name (co_srv c)).

Theorem get_server_identity_order_independent r c c' :
  same_cothority_up_to_order c c' -> get_server_identity true r c = get_server_identity true r c'.
Proof.
  intros (E & P & ND). rewrite E. unfold get_server_identity, co_with_srv; simpl.
  rewrite (parse_services_order_independent r _ _ ND P). reflexivity.
Qed.

(* ---- the pinned code: the order shows ------------------------------------ *)
Definition f20_reg : registry := [(bs "a", Some (bs "Ed25519")); (bs "b", Some (bs "Ed25519"))].
Definition f20_sa : svc_conf := {| sc_name := bs "a"; sc_suite := bs "Ed25519"; sc_pub := Some (k32 "A"); sc_priv := None |}.
Definition f20_sb : svc_conf := {| sc_name := bs "b"; sc_suite := bs "Ed25519"; sc_pub := Some (k32 "B"); sc_priv := None |}.
Definition f20_server (o : list svc_conf) : server_toml :=
  {| st_addr := bs "tls://10.0.0.1:7770"; st_suite := bs "Ed25519"; st_suite_known := true;
     st_pub := Some (k32 "S"); st_desc := bs "d"; st_url := []; st_srv := o |}.

Lemma k32_len c : length (kbin (k32 c)) = 32.
Proof. reflexivity. Qed.

Theorem map_order_refuted :
  exists r s s',
    same_server_up_to_order s s' /\
    to_server_identity false r s <> to_server_identity false r s' /\
    forall H256 U5, exists ids ids' a a',
      read_group false H256 U5 r [s] = GOk ids (RId a) /\
      read_group false H256 U5 r [s'] = GOk ids' (RId a') /\
      ids <> ids' /\
      (a = a' ->
       Collision H256 (roster_pre (roster_of ids)) (roster_pre (roster_of ids')) \/
       Collision U5 (roster_uuid_pre H256 (roster_of ids)) (roster_uuid_pre H256 (roster_of ids'))).
Proof.
  exists f20_reg, (f20_server [f20_sa; f20_sb]), (f20_server [f20_sb; f20_sa]).
  split; [|split].
  - repeat split; try reflexivity; [apply perm_swap | repeat constructor; simpl; intuition discriminate].
  - discriminate.
  - intros H256 U5. eexists _, _, _, _. split; [reflexivity|]. split; [reflexivity|]. split; [discriminate|].
    intros E.
    set (r1 := [ {| m_key := k32 "S"; m_srv := [k32 "A"; k32 "B"] |} ]) in *.
    set (r2 := [ {| m_key := k32 "S"; m_srv := [k32 "B"; k32 "A"] |} ]) in *.
    assert (E' : roster_id H256 U5 r1 = roster_id H256 U5 r2) by exact E.
    destruct (roster_flat_injective H256 U5 32 r1 r2) as [F|[C|C]]; try exact E'.
    + lia.
    + repeat constructor.
    + repeat constructor.
    + discriminate F.
    + left. exact C.
    + right. exact C.
Qed.

Example order_hypotheses_satisfiable :
  same_server_up_to_order (f20_server [f20_sa; f20_sb]) (f20_server [f20_sb; f20_sa]).
Proof. repeat split; try reflexivity; [apply perm_swap | repeat constructor; simpl; intuition discriminate]. Qed.

(* ======================================================================== *)
(* the registry is a table: the ORDER in which services were registered        *)
(* (the order of onet.ServiceFactory's list) does not show in any result       *)

Lemma reg_suite_perm r r' : Permutation r r' -> NoDup (map fst r) ->
  forall n, reg_suite r n = reg_suite r' n.
Proof.
  intros P. induction P as [|x l l' P IH|x y l|l l' l'' P1 IH1 P2 IH2]; intros ND n.
  - reflexivity.
  - destruct x as [xn xs]. simpl in *. inversion ND; subst.
    destruct (bytes_eqb xn n); [reflexivity | apply IH; assumption].
  - destruct x as [xn xs], y as [yn ys]. simpl in *.
    destruct (bytes_eqb yn n) eqn:Ey, (bytes_eqb xn n) eqn:Ex; try reflexivity.
    apply bytes_eqb_eq in Ey, Ex. subst. inversion ND as [|? ? Hn _]; subst.
    exfalso. apply Hn. left. reflexivity.
  - rewrite IH1 by exact ND. apply IH2.
    apply (Permutation_NoDup (l := map fst l)); [apply Permutation_map; exact P1 | exact ND].
Qed.

Section RegExt.
  Variables r r' : registry.
  Hypothesis E : forall n, reg_suite r n = reg_suite r' n.

  Lemma parse_identity_reg_ext c : parse_service_identity r c = parse_service_identity r' c.
  Proof. unfold parse_service_identity. rewrite E. reflexivity. Qed.

  Lemma collect_reg_ext o : collect_services r o = collect_services r' o.
  Proof.
    induction o as [|c rest IH]; [reflexivity|]. simpl. rewrite parse_identity_reg_ext, IH. reflexivity.
  Qed.

  Lemma parse_services_reg_ext f o : parse_services f r o = parse_services f r' o.
  Proof. unfold parse_services. rewrite collect_reg_ext. reflexivity. Qed.

  Lemma to_server_identity_reg_ext f s : to_server_identity f r s = to_server_identity f r' s.
  Proof. unfold to_server_identity. rewrite parse_services_reg_ext. reflexivity. Qed.

  Lemma read_servers_reg_ext f l : read_servers f r l = read_servers f r' l.
  Proof.
    induction l as [|s rest IH]; [reflexivity|]. simpl. rewrite to_server_identity_reg_ext, IH. reflexivity.
  Qed.

  Lemma read_group_reg_ext f (H256 U5 : bytes -> bytes) l : read_group f H256 U5 r l = read_group f H256 U5 r' l.
  Proof. unfold read_group. rewrite read_servers_reg_ext. reflexivity. Qed.

  Lemma get_server_identity_reg_ext f c : get_server_identity f r c = get_server_identity f r' c.
  Proof. unfold get_server_identity. rewrite parse_services_reg_ext. reflexivity. Qed.
End RegExt.

(* two processes that registered the same services in another order read every group
   file and every private configuration to the same identities and roster id *)
Theorem registry_order_independent f (H256 U5 : bytes -> bytes) r r' :
  Permutation r r' -> NoDup (map fst r) ->
  (forall l, read_group f H256 U5 r l = read_group f H256 U5 r' l) /\
  (forall c, get_server_identity f r c = get_server_identity f r' c).
Proof.
  intros P ND. pose proof (reg_suite_perm r r' P ND) as E. split.
  - intros l. apply read_group_reg_ext. exact E.
  - intros c. apply get_server_identity_reg_ext. exact E.
Qed.

Example registry_order_example :
  Permutation f20_reg (rev f20_reg) /\ NoDup (map fst f20_reg) /\ f20_reg <> rev f20_reg.
Proof.
  split; [apply Permutation_rev|]. split; [repeat constructor; simpl; intuition discriminate | discriminate].
Qed.

(* ======================================================================== *)
(* write, then read                                                           *)

Definition svc_of_sid (s : sid) : svc_conf :=
  {| sc_name := sid_name s; sc_suite := sid_suite s; sc_pub := Some (sid_pub s); sc_priv := None |}.

(* a service identity as the group reader produces it under registry r *)
Definition sid_canonical (r : registry) (s : sid) : Prop :=
  reg_suite r (sid_name s) = Some (sid_suite s) /\ sid_priv s = None.

Lemma write_services_canonical r l :
  Forall (sid_canonical r) l -> write_services r l = Some (map svc_of_sid l).
Proof.
  induction l as [|s l IH]; intros F; [reflexivity|]. inversion F as [|? ? [Hr Hp] F']; subst.
  simpl. unfold write_service. rewrite Hr, (IH F'). reflexivity.
Qed.

Lemma map_put_fresh c m : ~ In (sc_name c) (map sc_name m) -> map_put c m = m ++ [c].
Proof.
  induction m as [|x m IH]; intros H; simpl; [reflexivity|].
  destruct (bytes_eqb (sc_name x) (sc_name c)) eqn:E.
  - apply bytes_eqb_eq in E. exfalso. apply H. simpl. left. exact E.
  - rewrite IH; [reflexivity|]. intros Hin. apply H. simpl. right. exact Hin.
Qed.

Lemma to_map_nodup_aux l : forall acc,
  NoDup (map sc_name (acc ++ l)) -> fold_left (fun m c => map_put c m) l acc = acc ++ l.
Proof.
  induction l as [|c l IH]; intros acc ND; simpl; [rewrite app_nil_r; reflexivity|].
  rewrite map_put_fresh.
  - rewrite IH; rewrite <- app_assoc; [reflexivity | exact ND].
  - rewrite map_app in ND. simpl in ND. apply NoDup_remove_2 in ND.
    intros Hin. apply ND. apply in_or_app. left. exact Hin.
Qed.

Lemma to_map_nodup l : NoDup (map sc_name l) -> to_map l = l.
Proof. intros ND. unfold to_map. apply (to_map_nodup_aux l []). exact ND. Qed.

Lemma parse_canonical r s : sid_canonical r s -> parse_service_identity r (svc_of_sid s) = SOk s.
Proof.
  intros [Hr Hp]. unfold parse_service_identity, svc_of_sid; simpl. rewrite Hr, bytes_eqb_refl. simpl.
  destruct s; simpl in *; subst. reflexivity.
Qed.

Lemma collect_canonical r l : Forall (sid_canonical r) l -> collect_services r (map svc_of_sid l) = Some l.
Proof.
  induction l as [|s l IH]; intros F; [reflexivity|]. inversion F; subst.
  simpl. rewrite parse_canonical by assumption. rewrite IH by assumption. reflexivity.
Qed.

(* services: written, visited in any order, read back *)
Theorem services_roundtrip r l :
  Forall (sid_canonical r) l -> NoDup (map sid_name l) -> sort_sids l = l ->
  exists cs, write_services r l = Some cs /\
    forall o, Permutation (to_map cs) o -> parse_services true r o = Some l.
Proof.
  intros F ND S. exists (map svc_of_sid l). split; [apply write_services_canonical; exact F|].
  intros o P.
  assert (NDc : NoDup (map sc_name (map svc_of_sid l))) by (rewrite map_map; exact ND).
  rewrite to_map_nodup in P by exact NDc.
  rewrite <- (parse_services_order_independent r _ _ NDc P).
  unfold parse_services. rewrite collect_canonical by exact F. rewrite S. reflexivity.
Qed.

Definition identity_canonical (r : registry) (i : identity) : Prop :=
  i_priv i = None /\ i_desc i <> [] /\
  Forall (sid_canonical r) (i_srv i) /\ NoDup (map sid_name (i_srv i)) /\ sort_sids (i_srv i) = i_srv i.

Theorem server_roundtrip r suite i :
  identity_canonical r i ->
  exists st, write_server r suite true i = Some st /\
    forall st', same_server_up_to_order st st' -> to_server_identity true r st' = IOk i.
Proof.
  intros (Hp & Hd & F & ND & S).
  destruct (services_roundtrip r (i_srv i) F ND S) as (cs & Hw & Hr).
  unfold write_server. rewrite Hw. eexists. split; [reflexivity|].
  intros st' (E1 & E2 & E3 & E4 & E5 & E6 & P & _). simpl in *.
  unfold to_server_identity. rewrite <- E3, <- E4, <- E1, <- E5, <- E6. simpl.
  rewrite (Hr _ P). destruct i as [pub priv addr desc url srv]; simpl in *. subst priv.
  destruct desc; [contradiction|]. reflexivity.
Qed.

(* the whole group: read (write ids) = ids, and the same roster id *)
Theorem group_roundtrip (H256 U5 : bytes -> bytes) r suite ids :
  Forall (identity_canonical r) ids ->
  exists ws, write_group r suite true ids = Some ws /\
    forall ws', Forall2 same_server_up_to_order ws ws' ->
      read_group true H256 U5 r ws' = GOk ids (new_roster H256 U5 (map gmember_of ids)).
Proof.
  intros F.
  assert (A : exists ws, write_group r suite true ids = Some ws /\
            forall ws', Forall2 same_server_up_to_order ws ws' -> read_servers true r ws' = Some (Some ids)).
  { induction ids as [|i ids IH].
    - exists []. split; [reflexivity|]. intros ws' F2. inversion F2. reflexivity.
    - inversion F as [|? ? Hi F']; subst.
      destruct (server_roundtrip r suite i Hi) as (st & Hw & Hr).
      destruct (IH F') as (ws & Hws & Hrs).
      exists (st :: ws). simpl. rewrite Hw, Hws. split; [reflexivity|].
      intros ws' F2. inversion F2 as [|? st' ? wt' Hst Hrest]; subst.
      simpl. rewrite (Hr st' Hst), (Hrs wt' Hrest). reflexivity. }
  destruct A as (ws & Hw & Hr). exists ws. split; [exact Hw|].
  intros ws' F2. unfold read_group. rewrite (Hr ws' F2). reflexivity.
Qed.

(* what the (fixed) reader returns is canonical, so reading is a fixpoint of write-then-read *)
Lemma parse_ok_canonical r c s : sc_priv c = None -> parse_service_identity r c = SOk s -> sid_canonical r s.
Proof.
  intros Hp. unfold parse_service_identity. destruct (reg_suite r (sc_name c)) as [su|] eqn:E; [|discriminate].
  destruct (negb _); [discriminate|]. rewrite Hp. destruct (sc_pub c); [|discriminate].
  intros H. inversion H; subst. split; simpl; [exact E | reflexivity].
Qed.

Lemma collect_canonical_out r o : Forall (fun c => sc_priv c = None) o ->
  forall l, collect_services r o = Some l -> Forall (sid_canonical r) l.
Proof.
  induction o as [|c rest IH]; simpl; intros F l H.
  - inversion H; constructor.
  - inversion F as [|? ? Hc F']; subst.
    destruct (parse_service_identity r c) eqn:E; [apply IH; assumption | discriminate |].
    destruct (collect_services r rest) as [l0|]; [|discriminate]. inversion H; subst.
    constructor; [apply (parse_ok_canonical r c s Hc E) | apply IH; auto].
Qed.

Theorem reader_output_canonical r s i :
  NoDup (map sc_name (st_srv s)) -> Forall (fun c => sc_priv c = None) (st_srv s) -> st_desc s <> [] ->
  to_server_identity true r s = IOk i -> identity_canonical r i.
Proof.
  intros ND Fp Hd. unfold to_server_identity. destruct (negb _); [discriminate|].
  destruct (st_pub s); [|discriminate]. unfold parse_services.
  destruct (collect_services r (st_srv s)) as [l|] eqn:E; [|discriminate].
  intros H. inversion H; subst; clear H. unfold identity_canonical; simpl.
  pose proof (collect_nodup r _ _ ND E) as NDl.
  pose proof (collect_canonical_out r _ Fp l E) as Fl.
  repeat split; auto.
  - rewrite Forall_forall in *. intros x Hx. apply Fl.
    apply (Permutation_in (l := sort_sids l)); [apply sort_perm | exact Hx].
  - apply (Permutation_NoDup (l := map sid_name l)); [apply Permutation_map; symmetry; apply sort_perm | exact NDl].
  - apply sort_idempotent. exact NDl.
Qed.

(* ---- the private configuration: Save, then LoadCothority + GetServerIdentity ----
   whatever order the next reader visits the written Services map in, it returns the
   identity the first reader returned -- public and PRIVATE key, address, description,
   URL, and every per-service key PAIR -- and hence the same roster id *)
Lemma co_with_srv_id c : co_with_srv c (co_srv c) = c.
Proof. destruct c; reflexivity. Qed.

Lemma write_private_nodup c : NoDup (map sc_name (co_srv c)) -> write_private c = c.
Proof. intros ND. unfold write_private. rewrite (to_map_nodup _ ND). destruct c; reflexivity. Qed.

Theorem private_roundtrip r c c' :
  NoDup (map sc_name (co_srv c)) ->
  same_cothority_up_to_order (write_private c) c' ->
  get_server_identity true r c' = get_server_identity true r c.
Proof.
  intros ND S. rewrite (write_private_nodup c ND) in S. symmetry.
  apply get_server_identity_order_independent. exact S.
Qed.

Corollary private_roundtrip_roster (H256 U5 : bytes -> bytes) r c c' :
  NoDup (map sc_name (co_srv c)) ->
  same_cothority_up_to_order (write_private c) c' ->
  read_private true H256 U5 r c' = read_private true H256 U5 r c.
Proof. intros ND S. unfold read_private. rewrite (private_roundtrip r c c' ND S). reflexivity. Qed.

(* the theorem is not vacuous: a configuration with a private key and two service key
   pairs, re-read in the other order *)
Definition secret_s : bytes := bs "secret-s".
Definition secret_a : bytes := bs "secret-a".
Definition secret_b : bytes := bs "secret-b".
Definition priv_sa : svc_conf := {| sc_name := bs "a"; sc_suite := bs "Ed25519"; sc_pub := Some (k32 "A"); sc_priv := Some (Some secret_a) |}.
Definition priv_sb : svc_conf := {| sc_name := bs "b"; sc_suite := bs "Ed25519"; sc_pub := Some (k32 "B"); sc_priv := Some (Some secret_b) |}.
Definition priv_conf (o : list svc_conf) : cothority :=
  {| co_suite_known := true; co_pub := Some (k32 "S"); co_priv := Some secret_s;
     co_addr := bs "tls://10.0.0.1:7770"; co_host := bs "10.0.0.1"; co_port := Some 7770%Z;
     co_desc := bs "d"; co_url := []; co_tlskey := []; co_srv := o |}.

Example private_roundtrip_example :
  NoDup (map sc_name (co_srv (priv_conf [priv_sa; priv_sb]))) /\
  same_cothority_up_to_order (write_private (priv_conf [priv_sa; priv_sb])) (priv_conf [priv_sb; priv_sa]) /\
  exists i, get_server_identity true f20_reg (priv_conf [priv_sb; priv_sa]) = IOk i /\
            i_priv i = Some secret_s /\
            map sid_priv (i_srv i) = [Some secret_a; Some secret_b].
Proof.
  assert (ND : NoDup (map sc_name [priv_sa; priv_sb])) by (repeat constructor; simpl; intuition discriminate).
  split; [exact ND|]. split.
  - rewrite write_private_nodup by exact ND. split; [reflexivity|]. split; [apply perm_swap | exact ND].
  - eexists. split; [reflexivity|]. split; reflexivity.
Qed.

(* an empty description does not survive the writer *)
Definition f48_identity : identity :=
  {| i_pub := k32 "S"; i_priv := None; i_addr := bs "tls://10.0.0.1:7770"; i_desc := []; i_url := []; i_srv := [] |}.

Theorem empty_description_roundtrip_refuted :
  exists r suite i st, write_server r suite true i = Some st /\
    exists i', to_server_identity true r st = IOk i' /\ i' <> i /\ i_desc i = [] /\ i_desc i' = default_description.
Proof.
  exists [], (bs "Ed25519"), f48_identity. eexists. split; [reflexivity|].
  eexists. split; [reflexivity|]. repeat split; discriminate.
Qed.

(* ---- the URL derived for a TLS web socket: built from the WRITTEN host ----------
   (Address.Host() of the file's address, an input of the model: no resolver occurs
   anywhere in the model, so no result depends on the reading process's name service) *)
Definition tls_url_prefix : bytes := bs "https://".
Definition colon : bytes := bs ":".

Theorem tls_url_from_written_host f r c k sk p l :
  co_suite_known c = true -> co_pub c = Some k -> co_priv c = Some sk ->
  parse_services f r (co_srv c) = Some l ->
  co_tlskey c <> [] -> co_url c = [] -> co_port c = Some p ->
  exists i, get_server_identity f r c = IOk i /\
            i_url i = tls_url_prefix ++ co_host c ++ colon ++ dec_of_Z (p + 1).
Proof.
  intros Hs Hk Hsk Hl Ht Hu Hp. unfold get_server_identity. rewrite Hs, Hk, Hsk, Hl, Hu, Hp. simpl.
  destruct (co_tlskey c); [contradiction|]. eexists. split; reflexivity.
Qed.

(* ======================================================================== *)
(* roster files                                                               *)

(* the id written is the id read back -- whatever it is, derived from the list or not --
   and the members come back with their public key and address *)
Theorem roster_file_roundtrip_spec id ids :
  roster_file_roundtrip id ids = GOk (map strip_identity ids) (RId id).
Proof.
  unfold roster_file_roundtrip, roster_of_toml, roster_to_toml; simpl.
  rewrite map_map. reflexivity.
Qed.

Definition identity_bare (i : identity) : Prop :=
  i_priv i = None /\ i_desc i = [] /\ i_url i = [] /\ i_srv i = [].

Lemma strip_bare i : identity_bare i -> strip_identity i = i.
Proof. intros (A & B & C & D). destruct i; simpl in *; subst. reflexivity. Qed.

Theorem roster_file_roundtrip_bare id ids :
  Forall identity_bare ids -> roster_file_roundtrip id ids = GOk ids (RId id).
Proof.
  intros F. rewrite roster_file_roundtrip_spec. f_equal.
  induction F as [|i l Hi F IH]; [reflexivity|]. simpl. rewrite (strip_bare i Hi), IH. reflexivity.
Qed.

(* Observation, not a finding: a format limitation of the neighbouring roster-file path,
   outside the statement of C18 (which is about the private configuration and the group
   definition read by the app package).  The format has no place for per-service keys:
   they do not come back, and the id that was written is then not the id of the list
   that was read -- for every hash function, unless SHA-256 / uuid-SHA1 collide on
   exactly the two pre-images *)
Definition n1_identity : identity :=
  {| i_pub := k32 "S"; i_priv := None; i_addr := bs "tls://10.0.0.1:7770"; i_desc := []; i_url := [];
     i_srv := [ {| sid_name := bs "a"; sid_suite := bs "Ed25519"; sid_pub := k32 "A"; sid_priv := None |} ] |}.

Theorem roster_file_services_refuted :
  exists ids, forall H256 U5, exists a got,
    new_roster H256 U5 (map gmember_of ids) = RId a /\
    roster_file_roundtrip a ids = GOk got (RId a) /\
    got <> ids /\
    exists a', new_roster H256 U5 (map gmember_of got) = RId a' /\
      (a' = a ->
       Collision H256 (roster_pre (roster_of got)) (roster_pre (roster_of ids)) \/
       Collision U5 (roster_uuid_pre H256 (roster_of got)) (roster_uuid_pre H256 (roster_of ids))).
Proof.
  exists [n1_identity]. intros H256 U5. eexists _, _. split; [reflexivity|]. split; [reflexivity|].
  split; [discriminate|]. eexists. split; [reflexivity|]. intros E.
  set (r1 := roster_of [strip_identity n1_identity]) in *.
  set (r2 := roster_of [n1_identity]) in *.
  assert (E' : roster_id H256 U5 r1 = roster_id H256 U5 r2) by exact E.
  destruct (roster_flat_injective H256 U5 32 r1 r2) as [F|[C|C]]; try exact E'.
  - lia.
  - repeat constructor.
  - repeat constructor.
  - discriminate F.
  - left. exact C.
  - right. exact C.
Qed.

Lemma check_roster_file_nil stored ids rs :
  check_roster_file stored ids rs = [] <->
  rs <> [] /\ all_equal_g rs = true /\
  forall r, In r rs -> exists got ro, r = GOk got ro /\ res_eqb ro (RId stored) = true /\
                                     list_eqb identity_eqb (map strip_identity ids) got = true.
Proof.
  unfold check_roster_file. rewrite dedup_nil. split.
  - intros H. apply app_eq_nil in H as [H1 H2]. apply app_eq_nil in H2 as [H2 H3].
    split; [destruct rs; [discriminate H1 | discriminate]|].
    split; [destruct (all_equal_g rs); [reflexivity | discriminate H2]|].
    intros r Hr. clear H1 H2. induction rs as [|x rs IH]; [contradiction|].
    simpl in H3. apply app_eq_nil in H3 as [Hx Hrs]. destruct Hr as [->|Hr]; [|apply IH; assumption].
    unfold roster_file_clause in Hx. destruct r as [| |n|got ro]; try discriminate Hx.
    apply app_eq_nil in Hx as [Ha Hb]. apply clause_nil in Ha. apply clause_nil in Hb.
    exists got, ro. split; [reflexivity|]. split; [exact Ha | exact Hb].
  - intros (Hne & Heq & Hall).
    assert (E1 : match rs with [] => [7] | _ => [] end = []) by (destruct rs; [contradiction|reflexivity]).
    rewrite E1, Heq. simpl. clear E1 Heq Hne.
    induction rs as [|x rs IH]; [reflexivity|]. simpl.
    destruct (Hall x (or_introl eq_refl)) as (got & ro & -> & Hro & Hids).
    unfold roster_file_clause at 1. rewrite Hro, Hids. simpl.
    apply IH. intros r Hr. apply Hall. right. exact Hr.
Qed.

(* ======================================================================== *)
(* the checker                                                                *)

Lemma check_obs_nil w ps rs :
  check_obs w ps rs = [] <->
  ps <> [] /\ all_equal ps = true /\
  forallb (fun r => existsb (gres_eqb r) ps) rs = true /\
  (w = true -> forallb is_ok ps = true) /\
  (w = true -> existsb has_ids ps = true -> nonempty rs = true).
Proof.
  unfold check_obs. rewrite dedup_nil. split.
  - intros H. apply app_eq_nil in H as [H1 H2]. apply app_eq_nil in H2 as [H2 H3].
    apply app_eq_nil in H3 as [H3 H4].
    apply clause_nil in H3. apply clause_nil in H4.
    assert (Hps : ps <> [] /\ all_equal ps = true).
    { unfold parses_clauses in H1. destruct ps; [discriminate|]. split; [discriminate|].
      destruct (all_equal (g :: ps)); [reflexivity|]. destruct (all_equal _); discriminate. }
    destruct Hps as [Hne Heq]. repeat split; auto.
    + clear H1 H3 H4. induction rs as [|r rs IH]; [reflexivity|]. simpl in *.
      apply app_eq_nil in H2 as [Hr Hrs]. rewrite (IH Hrs), andb_true_r.
      unfold roundtrip_clause in Hr. destruct (existsb (gres_eqb r) ps); [reflexivity|].
      destruct (existsb _ ps); [discriminate|]. destruct (existsb _ ps); discriminate.
    + intros ->. simpl in H3. exact H3.
    + intros -> Hex. rewrite Hex in H4. simpl in H4. exact H4.
  - intros (Hne & Heq & Hrs & Hw & Hwb).
    assert (E1 : parses_clauses ps = []) by (unfold parses_clauses; destruct ps; [contradiction | rewrite Heq; reflexivity]).
    rewrite E1. simpl.
    assert (E2 : flat_map (roundtrip_clause ps) rs = []).
    { clear E1 Hw Hwb. induction rs as [|r rs IH]; [reflexivity|]. simpl in *.
      apply andb_true_iff in Hrs as [Hr Hrs]. rewrite (IH Hrs). unfold roundtrip_clause. rewrite Hr. reflexivity. }
    rewrite E2. simpl.
    assert (E3 : clause 6 (negb w || forallb is_ok ps) = []) by (apply clause_nil; destruct w; simpl; auto).
    rewrite E3. simpl. apply clause_nil. destruct w; simpl; [|reflexivity].
    destruct (existsb has_ids ps); simpl; auto.
Qed.
