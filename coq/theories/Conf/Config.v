(* C18 -- executable mirror of the configuration readers / writers of app/config.go:

     parseServiceIdentity / parseServiceConfig / parseServerServiceConfig   504-566
     CothorityConfig.GetServerIdentity (after LoadCothority)                 70-123
     ServerToml.ToServerIdentity, ReadGroupDescToml                          283-307, 340-358
     Group.Toml, GroupToml.String (writer)                                   230-281, 325-338

   Abstraction: a file is what the TOML decoder delivers (trusted library); a key
   text is given together with what kyber's hex codec makes of it ([None] = does
   not parse in that suite); the service registry (onet.ServiceFactory) is a
   table name -> suite name.  Go ranges over the Services MAP: the order in which
   the entries are visited is an explicit argument -- the model takes the entries
   as a list IN ITERATION ORDER, and the theorems quantify over all permutations.
   [fix_f20] selects the repair F20 (sort the identities by service name; in /repo
   since commit 52bede4 -- the unrepaired variant is kept for the refutation).
   Go panics are [.. Panic], returned errors [.. Err]. *)
From Coq Require Import List Arith Bool Ascii String NArith ZArith.
From Coq Require DecimalString.
Import ListNotations.
From Onet Require Export Base.C13Bytes Tree.Ids.

(* ---------- byte-wise string order: strings.Compare(a, b) == -1 ------------ *)
Fixpoint bytes_ltb (a b : bytes) : bool :=
  match a, b with
  | [], [] => false
  | [], _ :: _ => true
  | _ :: _, [] => false
  | x :: a', y :: b' =>
      if (N_of_ascii x <? N_of_ascii y)%N then true
      else if (N_of_ascii y <? N_of_ascii x)%N then false
      else bytes_ltb a' b'
  end.

(* ---------- services --------------------------------------------------------- *)
(* one entry of a Services table.  [sc_priv]: None = no private text (group files,
   or an empty string), Some None = text that does not parse, Some (Some s) = scalar *)
Record svc_conf := { sc_name : bytes; sc_suite : bytes; sc_pub : option key;
                     sc_priv : option (option bytes) }.

(* onet.ServiceFactory: registered name -> name of the suite it was registered
   with (None: registered without a suite, Suite(name) is nil) *)
Definition registry := list (bytes * option bytes).

Fixpoint reg_suite (r : registry) (name : bytes) : option bytes :=
  match r with
  | [] => None
  | (n, s) :: r' => if bytes_eqb n name then s else reg_suite r' name
  end.

(* network.ServiceIdentity; [sid_priv = None] is the zero scalar suite.Scalar() *)
Record sid := { sid_name : bytes; sid_suite : bytes; sid_pub : key; sid_priv : option bytes }.

Inductive sres := SIgnored | SPanic | SOk (s : sid).

Definition parse_service_identity (r : registry) (c : svc_conf) : sres :=
  match reg_suite r (sc_name c) with
  | None => SIgnored                                   (* not registered with a suite *)
  | Some su =>
      if negb (bytes_eqb su (sc_suite c)) then SPanic   (* panic("Using suite ...") *)
      else
        match sc_priv c with
        | Some None => SIgnored                         (* private key does not parse *)
        | p =>
            match sc_pub c with
            | None => SIgnored                          (* public key does not parse *)
            | Some k =>
                SOk {| sid_name := sc_name c; sid_suite := su; sid_pub := k;
                       sid_priv := match p with Some (Some s) => Some s | _ => None end |}
            end
        end
  end.

(* the loop  for name, sc := range configs  over the entries in iteration order *)
Fixpoint collect_services (r : registry) (order : list svc_conf) : option (list sid) :=
  match order with
  | [] => Some []
  | c :: rest =>
      match parse_service_identity r c with
      | SPanic => None
      | SIgnored => collect_services r rest
      | SOk s => match collect_services r rest with
                 | Some l => Some (s :: l)
                 | None => None
                 end
      end
  end.

(* sort.Sort(network.ServiceIdentities(si)): by name *)
Fixpoint insert_sid (s : sid) (l : list sid) : list sid :=
  match l with
  | [] => [s]
  | x :: r => if bytes_ltb (sid_name x) (sid_name s) then x :: insert_sid s r else s :: l
  end.

Fixpoint sort_sids (l : list sid) : list sid :=
  match l with
  | [] => []
  | x :: r => insert_sid x (sort_sids r)
  end.

(* parseServiceConfig / parseServerServiceConfig; None = panic *)
Definition parse_services (fix_f20 : bool) (r : registry) (order : list svc_conf) : option (list sid) :=
  match collect_services r order with
  | None => None
  | Some l => Some (if fix_f20 then sort_sids l else l)
  end.

(* ---------- identities -------------------------------------------------------- *)
Record identity := { i_pub : key; i_priv : option bytes; i_addr : bytes; i_desc : bytes;
                     i_url : bytes; i_srv : list sid }.

Inductive ires := IErr | IPanic | IOk (i : identity).

(* one [[servers]] entry of a group file, as decoded *)
Record server_toml := { st_addr : bytes; st_suite : bytes; st_suite_known : bool;
                        st_pub : option key; st_desc : bytes; st_url : bytes;
                        st_srv : list svc_conf (* in iteration order *) }.

(* ServerToml.ToServerIdentity (the Ed25519 default for an empty suite is applied
   by the caller: st_suite_known / st_pub refer to the suite actually used) *)
Definition to_server_identity (fix_f20 : bool) (r : registry) (s : server_toml) : ires :=
  if negb (st_suite_known s) then IErr else
  match st_pub s with
  | None => IErr
  | Some k =>
      match parse_services fix_f20 r (st_srv s) with
      | None => IPanic
      | Some l => IOk {| i_pub := k; i_priv := None; i_addr := st_addr s; i_desc := st_desc s;
                         i_url := st_url s; i_srv := l |}
      end
  end.

(* the private configuration of one server, as decoded by LoadCothority *)
Record cothority := { co_suite_known : bool; co_pub : option key; co_priv : option bytes;
                      co_addr : bytes; co_host : bytes; co_port : option Z;  (* Address.Host(), Atoi(Address.Port()) *)
                      co_desc : bytes; co_url : bytes; co_tlskey : bytes;
                      co_srv : list svc_conf (* in iteration order *) }.

Definition dec_of_Z (z : Z) : bytes :=
  bs (DecimalString.NilZero.string_of_int (Z.to_int z)).

(* CothorityConfig.GetServerIdentity.  strings.Replace(url, "http://", "https://", 0)
   replaces nothing (n = 0), so the URL is taken as it is. *)
Definition get_server_identity (fix_f20 : bool) (r : registry) (c : cothority) : ires :=
  if negb (co_suite_known c) then IErr else
  match co_priv c, co_pub c with
  | None, _ => IErr
  | _, None => IErr
  | Some sk, Some k =>
      match parse_services fix_f20 r (co_srv c) with
      | None => IPanic
      | Some l =>
          let mk url := IOk {| i_pub := k; i_priv := Some sk; i_addr := co_addr c; i_desc := co_desc c;
                               i_url := url; i_srv := l |} in
          match co_tlskey c with
          | [] => mk (co_url c)
          | _ :: _ =>
              match co_url c with
              | _ :: _ => mk (co_url c)
              | [] => match co_port c with
                      | None => IErr
                      | Some p => mk (bs "https://" ++ co_host c ++ bs ":" ++ dec_of_Z (p + 1))
                      end
              end
          end
      end
  end.

(* ---------- group files --------------------------------------------------------- *)
(* [GOther code] is never produced by the model: it stands for outcomes of the real
   readers that are neither an identity error nor a panic (1 = the process died or did
   not answer, 2 = the TOML text itself was refused), so that they are not merged
   with the outcomes the model does produce *)
Inductive gres := GErr | GPanic | GOther (code : nat) | GOk (ids : list identity) (roster : res).

Fixpoint read_servers (fix_f20 : bool) (r : registry) (l : list server_toml) : option (option (list identity)) :=
  (* None = panic, Some None = error *)
  match l with
  | [] => Some (Some [])
  | s :: rest =>
      match to_server_identity fix_f20 r s with
      | IPanic => None
      | IErr => Some None
      | IOk i => match read_servers fix_f20 r rest with
                 | Some (Some l') => Some (Some (i :: l'))
                 | x => x
                 end
      end
  end.

Definition gmember_of (i : identity) : gmember :=
  {| g_key := Some (i_pub i); g_srv := map (fun s => Some (sid_pub s)) (i_srv i) |}.

(* ReadGroupDescToml: the roster id is C13's NewRoster over the identities *)
Definition read_group (fix_f20 : bool) (H256 U5 : bytes -> bytes) (r : registry)
           (servers : list server_toml) : gres :=
  match read_servers fix_f20 r servers with
  | None => GPanic
  | Some None => GErr
  | Some (Some ids) => GOk ids (new_roster H256 U5 (map gmember_of ids))
  end.

(* the roster NewRoster hashes for a list of identities *)
Definition roster_of (ids : list identity) : roster :=
  map (fun i => {| m_key := i_pub i; m_srv := map sid_pub (i_srv i) |}) ids.

(* ---------- writer: Group.Toml + GroupToml.String, then the TOML encoder ------ *)
Definition default_description : bytes := bs "Description of your server".

(* the service entry written for a service identity: the suite written is the one
   the service is registered with NOW; an unregistered service makes
   ServiceFactory.Suite return nil and the writer dereference it *)
Definition write_service (r : registry) (s : sid) : option svc_conf :=
  match reg_suite r (sid_name s) with
  | None => None
  | Some su => Some {| sc_name := sid_name s; sc_suite := su; sc_pub := Some (sid_pub s); sc_priv := None |}
  end.

Fixpoint write_services (r : registry) (l : list sid) : option (list svc_conf) :=
  match l with
  | [] => Some []
  | s :: rest => match write_service r s, write_services r rest with
                 | Some c, Some l' => Some (c :: l')
                 | _, _ => None
                 end
  end.

(* services[sid.Name] = ... : a later identity of the same name overwrites an earlier one *)
Fixpoint map_put (c : svc_conf) (m : list svc_conf) : list svc_conf :=
  match m with
  | [] => [c]
  | x :: r => if bytes_eqb (sc_name x) (sc_name c) then c :: r else x :: map_put c r
  end.

Definition to_map (l : list svc_conf) : list svc_conf := fold_left (fun m c => map_put c m) l [].

(* one server of the written file; [suite] is the suite argument of Group.Toml,
   written for every server; None = panic *)
Definition write_server (r : registry) (suite : bytes) (suite_known : bool) (i : identity) : option server_toml :=
  match write_services r (i_srv i) with
  | None => None
  | Some l =>
      Some {| st_addr := i_addr i; st_suite := suite; st_suite_known := suite_known;
              st_pub := Some (i_pub i);
              st_desc := match i_desc i with [] => default_description | d => d end;
              st_url := i_url i; st_srv := to_map l |}
  end.

Fixpoint write_group (r : registry) (suite : bytes) (suite_known : bool) (ids : list identity) : option (list server_toml) :=
  match ids with
  | [] => Some []
  | i :: rest => match write_server r suite suite_known i, write_group r suite suite_known rest with
                 | Some s, Some l => Some (s :: l)
                 | _, _ => None
                 end
  end.

(* ---------- writer of the private configuration: CothorityConfig.Save -----------
   Save encodes the CothorityConfig that LoadCothority returned, field by field
   (Suite -- already defaulted by LoadCothority --, Public, Private, Address,
   ListenAddress, Description, URL, the two certificate fields) and the Services
   map, one table per name with Suite / Public / Private.  At the level of the
   model (a file = what the TOML decoder delivers, a key text = its parsed key) the
   written file holds the same fields, and the Services as a map: entries keyed by
   name (a later entry of the same name would replace an earlier one), which the
   next reader visits in an arbitrary order. *)
Definition write_private (c : cothority) : cothority :=
  {| co_suite_known := co_suite_known c; co_pub := co_pub c; co_priv := co_priv c;
     co_addr := co_addr c; co_host := co_host c; co_port := co_port c; co_desc := co_desc c;
     co_url := co_url c; co_tlskey := co_tlskey c; co_srv := to_map (co_srv c) |}.

(* ---------- roster files: Roster.Toml, WriteTomlConfig / ReadTomlConfig (utils.go:16-43),
   RosterToml.Roster (tree.go:1006-1035) -------------------------------------------
   A RosterToml holds the roster's ID field AS IT IS (whether or not it is the id
   NewRoster would derive) and, per member, only the public key text and the address
   (network.ServerIdentityToml).  Reading it back builds &Roster{ID: rot.ID, List: ids}:
   the written id is carried through, the identities are bare.  (A key text that does
   not parse is logged and yields a nil key: not generated, not modelled.) *)
Record roster_toml := { rt_id : bytes; rt_list : list (key * bytes) }.

Definition roster_to_toml (id : bytes) (ids : list identity) : roster_toml :=
  {| rt_id := id; rt_list := map (fun i => (i_pub i, i_addr i)) ids |}.

Definition bare_identity (k : key) (addr : bytes) : identity :=
  {| i_pub := k; i_priv := None; i_addr := addr; i_desc := []; i_url := []; i_srv := [] |}.

Definition strip_identity (i : identity) : identity := bare_identity (i_pub i) (i_addr i).

Definition roster_of_toml (t : roster_toml) : gres :=
  GOk (map (fun e => bare_identity (fst e) (snd e)) (rt_list t)) (RId (rt_id t)).

Definition roster_file_roundtrip (id : bytes) (ids : list identity) : gres :=
  roster_of_toml (roster_to_toml id ids).
