(* C13 -- executable mirrors of the identifier derivations of onet:

     NewRoster / Roster.GetID            tree.go:417-479
     NewTree                             tree.go:69-97  (+ computeSubtreeAggregate, tree.go:286-299)
     Token.ID                            messages.go:115-123
     ProtocolNameToID                    protocol.go:115-119
     serviceFactory.Register             service.go:127-141
     ServerIdentity.GetID                network/struct.go:181-189
     NewTreeNode (node id)               tree.go:894-903

   The model produces the PRE-IMAGE byte strings the Go code feeds to its hash
   functions.  The hash functions themselves are parameters (never axioms):
     H256 : sha256.Sum of a byte string                      (32 bytes in Go)
     U5   : uuid.NewSHA1(uuid.NameSpaceURL, .) as 16 bytes
     U3   : uuid.NewMD5 (uuid.NameSpaceURL, .) as 16 bytes
   A kyber public key is abstract: [kbin] is what Point.MarshalTo writes,
   [kstr] what Point.String() returns, [ktype] the concrete Go point type
   (Add between different point types panics).  A nil Public is [None].
   Go panics are [RCrash], a nil result is [RNil].  [RErr] (a returned error) is
   never produced by the model: it exists so that an implementation that
   returns an error where the pinned code panics is told apart, not merged. *)
From Coq Require Import List Arith Bool Ascii String NArith.
Import ListNotations.
From Onet Require Export Base.C13Bytes.

Record key := { kbin : bytes; kstr : bytes; ktype : nat }.

Inductive res := RCrash | RNil | RErr | RId (id : bytes).

(* network.NamespaceURL *)
Definition ns_url : bytes := bs "https://dedis.epfl.ch/".
Definition dash : bytes := bs "-".

(* uuid.UUID.String(): xxxxxxxx-xxxx-xxxx-xxxx-xxxxxxxxxxxx over the 16 bytes *)
Definition uuid_str (u : bytes) : bytes :=
  hex (firstn 4 u) ++ dash ++
  hex (firstn 2 (skipn 4 u)) ++ dash ++
  hex (firstn 2 (skipn 6 u)) ++ dash ++
  hex (firstn 2 (skipn 8 u)) ++ dash ++
  hex (skipn 10 u).

(* ---------- rosters ------------------------------------------------------ *)

(* a server identity as far as identifiers see it: its key and the keys of
   its service identities, in slice order *)
Record member := { m_key : key; m_srv : list key }.
Definition roster := list member.

(* the same with nil-able Public fields, as the Go constructors receive it *)
Record gmember := { g_key : option key; g_srv : list (option key) }.

Fixpoint resolve_keys (l : list (option key)) : option (list key) :=
  match l with
  | [] => Some []
  | None :: _ => None
  | Some k :: r => match resolve_keys r with
                   | Some r' => Some (k :: r')
                   | None => None
                   end
  end.

Definition resolve_member (g : gmember) : option member :=
  match g_key g, resolve_keys (g_srv g) with
  | Some k, Some s => Some {| m_key := k; m_srv := s |}
  | _, _ => None
  end.

Fixpoint resolve_roster (l : list gmember) : option roster :=
  match l with
  | [] => Some []
  | g :: r => match resolve_member g, resolve_roster r with
              | Some m, Some r' => Some (m :: r')
              | _, _ => None
              end
  end.

(* the key sequence in hashing order: member key, then its service keys *)
Definition member_keys (m : member) : list key := m_key m :: m_srv m.
Definition roster_keys (r : roster) : list key := flat_map member_keys r.

(* bytes written to the SHA-256 state by the loops of NewRoster / GetID *)
Definition roster_pre (r : roster) : bytes := flat_map kbin (roster_keys r).

(* argument of uuid.NewSHA1: the hex text of the digest *)
Definition roster_uuid_pre (H256 : bytes -> bytes) (r : roster) : bytes :=
  hex (H256 (roster_pre r)).

Definition roster_id (H256 U5 : bytes -> bytes) (r : roster) : bytes :=
  U5 (roster_uuid_pre H256 r).

Definition same_type (k0 : key) (ks : list key) : bool :=
  forallb (fun k => ktype k =? ktype k0) ks.

(* NewRoster(ids).ID : nil for an empty list or a first member without key;
   a later nil key panics in MarshalTo; the aggregate computation panics when a
   member key is of another point type than the first one *)
Definition new_roster (H256 U5 : bytes -> bytes) (g : list gmember) : res :=
  match g with
  | [] => RNil
  | g0 :: _ =>
      match g_key g0 with
      | None => RNil
      | Some k0 =>
          match resolve_roster g with
          | None => RCrash
          | Some r =>
              if same_type k0 (map m_key r) then RId (roster_id H256 U5 r) else RCrash
          end
      end
  end.

(* Roster.GetID() on a roster whose List is g *)
Definition roster_get_id (H256 U5 : bytes -> bytes) (g : list gmember) : res :=
  match resolve_roster g with
  | None => RCrash
  | Some r => RId (roster_id H256 U5 r)
  end.

(* ---------- the Roster value and the caller's slice ----------------------
   NewRoster stores a COPY of the slice it is given (r.List = append(r.List, ids...)):
   the value it returns -- its ID field and its own member list -- is one object,
   the caller's slice another.  Later edits of the caller's slice are steps of a
   two-component world that change the first component only. *)
Record roster_val := { rv_id : bytes; rv_list : list gmember }.

Definition new_roster_val (H256 U5 : bytes -> bytes) (g : list gmember) : option roster_val :=
  match new_roster H256 U5 g with
  | RId b => Some {| rv_id := b; rv_list := g |}
  | _ => None
  end.

Inductive slice_edit := ESwap (i j : nat) | ESet (i : nat) (m : gmember).

Fixpoint set_nth {A} (l : list A) (i : nat) (x : A) : list A :=
  match l, i with
  | [], _ => []
  | _ :: r, 0 => x :: r
  | y :: r, S i' => y :: set_nth r i' x
  end.

(* an index outside the slice would panic in the CALLER's code; the edit is then void *)
Definition apply_edit (s : list gmember) (e : slice_edit) : list gmember :=
  match e with
  | ESwap i j =>
      match nth_error s i, nth_error s j with
      | Some a, Some b => set_nth (set_nth s i b) j a
      | _, _ => s
      end
  | ESet i m => set_nth s i m
  end.

Definition edit_world (w : list gmember * roster_val) (e : slice_edit) : list gmember * roster_val :=
  (apply_edit (fst w) e, snd w).

(* Roster.Search(id of a member with key k): position of the first member with that key *)
Fixpoint roster_search (l : list gmember) (k : key) (pos : nat) : option nat :=
  match l with
  | [] => None
  | m :: r =>
      match g_key m with
      | Some k' => if bytes_eqb (kbin k') (kbin k) then Some pos else roster_search r k (S pos)
      | None => roster_search r k (S pos)
      end
  end.

(* ---------- trees -------------------------------------------------------- *)

Inductive tree := TNode (k : key) (ch : list tree).
Inductive gtree := GNode (k : option key) (ch : list gtree).

Fixpoint resolve_tree (g : gtree) : option tree :=
  match g with
  | GNode k ch =>
      let fix go (l : list gtree) : option (list tree) :=
        match l with
        | [] => Some []
        | c :: r => match resolve_tree c, go r with
                    | Some c', Some r' => Some (c' :: r')
                    | _, _ => None
                    end
        end in
      match k, go ch with
      | Some k', Some ch' => Some (TNode k' ch')
      | _, _ => None
      end
  end.

(* what the visitor of NewTree writes after the key of a node:
   pinned code: the byte 1 for a leaf, nothing otherwise;
   with the proposed fix F15: the number of children as a little-endian uint32 *)
Definition node_mark (fix_f15 : bool) (nchildren : nat) : bytes :=
  if fix_f15 then le32 nchildren
  else match nchildren with 0 => [ascii_of_nat 1] | S _ => [] end.

(* bytes written to the SHA-256 state by root.Visit (pre-order) *)
Fixpoint tree_stream (fix_f15 : bool) (t : tree) : bytes :=
  match t with
  | TNode k ch =>
      kbin k ++ node_mark fix_f15 (List.length ch) ++
      (fix go (l : list tree) : bytes :=
         match l with
         | [] => []
         | c :: r => tree_stream fix_f15 c ++ go r
         end) ch
  end.

Fixpoint tree_keys (t : tree) : list key :=
  match t with
  | TNode k ch =>
      k :: (fix go (l : list tree) : list key :=
              match l with
              | [] => []
              | c :: r => tree_keys c ++ go r
              end) ch
  end.

Definition tree_root_key (t : tree) : key := match t with TNode k _ => k end.

(* argument of uuid.NewSHA1 *)
Definition tree_url (fix_f15 : bool) (H256 : bytes -> bytes) (rid : bytes) (t : tree) : bytes :=
  ns_url ++ bs "tree/" ++ uuid_str rid ++ hex (H256 (tree_stream fix_f15 t)).

Definition tree_id (fix_f15 : bool) (H256 U5 : bytes -> bytes) (rid : bytes) (t : tree) : bytes :=
  U5 (tree_url fix_f15 H256 rid t).

(* NewTree(roster, root).ID; [rid = None] is a nil roster.  A nil key panics in
   the visitor; computeSubtreeAggregate adds the keys of the whole tree, which
   panics when they are not all of one point type. *)
Definition new_tree (fix_f15 : bool) (H256 U5 : bytes -> bytes) (rid : option bytes) (g : gtree) : res :=
  match resolve_tree g with
  | None => RCrash
  | Some t =>
      match rid with
      | None => RCrash
      | Some r =>
          if same_type (tree_root_key t) (tree_keys t)
          then RId (tree_id fix_f15 H256 U5 r t) else RCrash
      end
  end.

(* ---------- tokens -------------------------------------------------------- *)

Record token := { tk_roster : bytes; tk_tree : bytes; tk_proto : bytes;
                  tk_service : bytes; tk_round : bytes; tk_node : bytes }.

Definition token_url (t : token) : bytes :=
  ns_url ++ bs "token/" ++ uuid_str (tk_roster t) ++ uuid_str (tk_round t) ++
  uuid_str (tk_service t) ++ uuid_str (tk_proto t) ++ uuid_str (tk_tree t) ++
  uuid_str (tk_node t).

Definition token_id (U5 : bytes -> bytes) (t : token) : bytes := U5 (token_url t).

(* ---------- names and keys ------------------------------------------------ *)

Definition proto_url (name : bytes) : bytes := ns_url ++ bs "protocolname/" ++ name.
Definition proto_id (U3 : bytes -> bytes) (name : bytes) : bytes := U3 (proto_url name).

(* serviceFactory.Register hashes the bare name *)
Definition service_pre (name : bytes) : bytes := name.
Definition service_id (U5 : bytes -> bytes) (name : bytes) : bytes := U5 (service_pre name).

Definition server_url (k : key) : bytes := ns_url ++ bs "id/" ++ kstr k.
(* ServerIdentity.GetID(): the nil uuid for a nil key *)
Definition nil_uuid : bytes := repeat zero 16.
Definition server_id (U5 : bytes -> bytes) (k : option key) : bytes :=
  match k with
  | None => nil_uuid
  | Some k' => U5 (server_url k')
  end.

(* NewTreeNode: the node id hashes the bare text form of the key *)
Definition node_pre (k : key) : bytes := kstr k.
Definition node_id (U5 : bytes -> bytes) (k : key) : bytes := U5 (node_pre k).

(* edwards25519 point.String() is the hex text of the marshalled point *)
Definition ed25519_str (kb : bytes) : bytes := hex kb.
