(* C12 -- the big generator always returns, and uses every member once when the node count equals the roster size *)
From Coq Require Import List Arith Bool Lia Permutation.
Import ListNotations.
From Onet Require Import Tree.Gen Tree.GenProofs.

(* ---- the inner search loop always ends, within 2n+2 iterations ------------- *)

Section Search.
Variables (hosts : list nat) (used : list bool) (n ph first : nat).
Hypothesis Hh : length hosts = n.
Hypothesis Hu : length used = n.
Hypothesis Hn : 1 <= n.
Hypothesis Hf : first < n.

Lemma nth_used r : r < n -> exists u, nth_error used r = Some u.
Proof. intros H. destruct (nth_error used r) eqn:E; eauto. apply nth_error_None in E. lia. Qed.
Lemma nth_hosts r : r < n -> exists h, nth_error hosts r = Some h.
Proof. intros H. destruct (nth_error hosts r) eqn:E; eauto. apply nth_error_None in E. lia. Qed.

Lemma next_lt r : (r + 1) mod n < n.
Proof. apply Nat.mod_upper_bound. lia. Qed.

(* position after j steps from [first] *)
Lemma step_pos j : ((first + j) mod n + 1) mod n = (first + (j + 1)) mod n.
Proof.
  rewrite Nat.add_mod_idemp_l by lia. f_equal. lia.
Qed.

Lemma wrap : (first + n) mod n = first.
Proof. rewrite <- Nat.add_mod_idemp_r by lia. rewrite Nat.mod_same by lia. rewrite Nat.add_0_r. apply Nat.mod_small. exact Hf. Qed.

(* not using all members: at most n iterations *)
Lemma search_plain fuel : forall j ch ns,
  j < n -> n - j < fuel ->
  exists ri, search fuel hosts used false n ph first ((first + j) mod n) ch ns = Some ri /\ ri < n.
Proof.
  induction fuel as [|f IH]; intros j ch ns Hj Hfu; [lia|].
  cbn [search].
  assert (Hr : (first + j) mod n < n) by (apply Nat.mod_upper_bound; lia).
  destruct (nth_used _ Hr) as (u & ->).
  rewrite andb_false_l, orb_false_r.
  destruct (ns && (ch =? ph) && (1 <? n)) eqn:Ec; [|eauto].
  rewrite step_pos.
  assert (Hr' : (first + (j + 1)) mod n < n) by (apply Nat.mod_upper_bound; lia).
  destruct (nth_used _ Hr') as (u' & ->). destruct (nth_hosts _ Hr') as (h' & ->).
  cbn [andb].
  destruct ((first + (j + 1)) mod n =? first) eqn:Ef; [eauto|].
  assert (j + 1 < n).
  { destruct (Nat.eq_dec (j + 1) n) as [E|]; [|lia]. rewrite E, wrap, Nat.eqb_refl in Ef. discriminate. }
  apply IH; lia.
Qed.

(* using all members, after the walk has come back to [first] (notSame = false):
   ends at the next unused member *)
Hypothesis Hfree : exists u, u < n /\ nth_error used u = Some false.

(* distance from r to the next unused member *)
Lemma free_ahead r : r < n -> exists d, d < n /\ nth_error used ((r + d) mod n) = Some false /\
  forall k, k < d -> nth_error used ((r + k) mod n) = Some true.
Proof.
  intros Hr. destruct Hfree as (u & Hu1 & Hu2).
  (* some d0 < n hits u; take the least d with a free slot *)
  assert (Hex : exists d0, d0 < n /\ nth_error used ((r + d0) mod n) = Some false).
  { destruct (le_lt_dec r u) as [H|H].
    - exists (u - r). split; [lia|]. replace (r + (u - r)) with u by lia. now rewrite Nat.mod_small.
    - exists (u + n - r). split; [lia|]. replace (r + (u + n - r)) with (u + 1 * n) by lia.
      rewrite Nat.mod_add by lia. now rewrite Nat.mod_small. }
  destruct Hex as (d0 & Hd0 & Hd0f). clear Hu1 Hu2.
  induction d0 as [d0 IH] using lt_wf_ind.
  destruct (existsb (fun k => match nth_error used ((r + k) mod n) with Some false => true | _ => false end) (seq 0 d0)) eqn:E.
  - apply existsb_exists in E as (k & Hk & Hkf). apply in_seq in Hk.
    destruct (nth_error used ((r + k) mod n)) as [[|]|] eqn:Ek; try discriminate.
    apply (IH k); lia || assumption.
  - exists d0. repeat split; auto. intros k Hk.
    assert (Hin : In k (seq 0 d0)) by (apply in_seq; lia).
    assert (Hr2 : (r + k) mod n < n) by (apply Nat.mod_upper_bound; lia).
    destruct (nth_used _ Hr2) as (b & Hb). rewrite Hb. destruct b; auto.
    exfalso. assert (existsb (fun k => match nth_error used ((r + k) mod n) with Some false => true | _ => false end) (seq 0 d0) = true).
    { apply existsb_exists. exists k. split; auto. now rewrite Hb. }
    congruence.
Qed.

Lemma step_mod r d : ((r + d) mod n + 1) mod n = (r + (d + 1)) mod n.
Proof. rewrite Nat.add_mod_idemp_l by lia. f_equal. lia. Qed.

Lemma search_all_tail fuel : forall r d ch,
  r < n -> nth_error used ((r + d) mod n) = Some false ->
  (forall k, k < d -> nth_error used ((r + k) mod n) = Some true) ->
  d + 1 < fuel ->
  exists ri, search fuel hosts used true n ph first r ch false = Some ri /\ ri < n /\ nth_error used ri = Some false.
Proof.
  induction fuel as [|f IH]; intros r d ch Hr Hd Hlt Hfu; [lia|].
  cbn [search]. destruct (nth_used _ Hr) as (u & Eu). rewrite Eu. cbn [andb orb].
  destruct u.
  - (* r is used: d > 0, move on *)
    destruct d as [|d].
    { rewrite Nat.add_0_r, Nat.mod_small in Hd by lia. congruence. }
    pose proof (next_lt r) as Hr'.
    destruct (nth_used _ Hr') as (u' & Eu'). destruct (nth_hosts _ Hr') as (h' & Eh'). rewrite Eu', Eh'. cbn [andb].
    assert (Hshift : forall k, ((r + 1) mod n + k) mod n = (r + (k + 1)) mod n).
    { intros k. rewrite Nat.add_mod_idemp_l by lia. f_equal. lia. }
    destruct u'.
    + replace (if (r + 1) mod n =? first then false else false) with false by (destruct (_ =? _); reflexivity).
      apply (IH _ d); auto; try lia.
      * rewrite Hshift. replace (d + 1) with (S d) by lia. exact Hd.
      * intros k Hk. rewrite Hshift. apply Hlt. lia.
    + (* next member is free *)
      destruct ((r + 1) mod n =? first); [eauto|].
      destruct f as [|f']; [lia|]. cbn [search]. rewrite Eu'. cbn [andb orb]. eauto.
  - eauto.
Qed.

(* using all members, first pass (notSame = true) *)
Lemma search_all fuel : forall j ch,
  j < n -> (n - j) + n < fuel ->
  exists ri, search fuel hosts used true n ph first ((first + j) mod n) ch true = Some ri /\ ri < n /\ nth_error used ri = Some false.
Proof.
  induction fuel as [|f IH]; intros j ch Hj Hfu; [lia|].
  cbn [search].
  assert (Hr : (first + j) mod n < n) by (apply Nat.mod_upper_bound; lia).
  destruct (nth_used _ Hr) as (u & Eu). rewrite Eu. cbn [andb].
  destruct ((ch =? ph) && (1 <? n) || u) eqn:Ec.
  - rewrite step_pos.
    assert (Hr' : (first + (j + 1)) mod n < n) by (apply Nat.mod_upper_bound; lia).
    destruct (nth_used _ Hr') as (u' & Eu'). destruct (nth_hosts _ Hr') as (h' & Eh'). rewrite Eu', Eh'. cbn [andb].
    destruct u'.
    + destruct ((first + (j + 1)) mod n =? first) eqn:Ef.
      * (* back at first, which is used: second pass *)
        destruct (free_ahead _ Hr') as (d & Hd1 & Hd2 & Hd3).
        apply (search_all_tail f _ d); auto. lia.
      * assert (j + 1 < n).
        { destruct (Nat.eq_dec (j + 1) n) as [E|]; [|lia]. rewrite E, wrap, Nat.eqb_refl in Ef. discriminate. }
        apply IH; lia.
    + destruct ((first + (j + 1)) mod n =? first) eqn:Ef; [eauto|].
      assert (j + 1 < n).
      { destruct (Nat.eq_dec (j + 1) n) as [E|]; [|lia]. rewrite E, wrap, Nat.eqb_refl in Ef. discriminate. }
      apply IH; lia.
  - apply orb_false_iff in Ec as [_ ->]. eauto.
Qed.

End Search.

(* ---- the loops around it ----------------------------------------------------- *)

Fixpoint count_true (l : list bool) : nat :=
  match l with [] => 0 | b :: r => (if b then 1 else 0) + count_true r end.

Lemma count_true_le l : count_true l <= length l.
Proof. induction l as [|b r IH]; cbn; [lia|]. destruct b; lia. Qed.

Lemma free_exists l : count_true l < length l -> exists u, u < length l /\ nth_error l u = Some false.
Proof.
  induction l as [|b r IH]; cbn; [lia|]. destruct b; cbn.
  - intros H. destruct IH as (u & Hu & E); [lia|]. exists (S u). split; [lia|exact E].
  - intros _. exists 0. split; [lia|reflexivity].
Qed.

Lemma set_true_length l i : length (set_true l i) = length l.
Proof. revert i; induction l as [|b r IH]; intros [|i]; cbn; auto. Qed.

Lemma set_true_count l i : nth_error l i = Some false -> count_true (set_true l i) = S (count_true l).
Proof.
  revert i; induction l as [|b r IH]; intros [|i]; cbn; try discriminate.
  - intros H. inversion H; subst. reflexivity.
  - intros H. rewrite (IH _ H). destruct b; lia.
Qed.

Lemma set_true_count_le l i : count_true l <= count_true (set_true l i).
Proof.
  revert i; induction l as [|b r IH]; intros [|i]; cbn; auto.
  - destruct b; lia.
  - specialize (IH i). destruct b; lia.
Qed.

Lemma set_true_keeps l i j : nth_error l j = Some true -> nth_error (set_true l i) j = Some true.
Proof.
  revert i j; induction l as [|b r IH]; intros [|i] [|j]; cbn; auto; try discriminate.
Qed.

Lemma set_true_sets l i : i < length l -> nth_error (set_true l i) i = Some true.
Proof.
  revert i; induction l as [|b r IH]; intros [|i]; cbn; try lia; auto. intros H. apply IH. lia.
Qed.

Record PInv (useAll : bool) (n : nat) (st : bst) : Prop := {
  p_len : length (used st) = n;
  p_ro : roIndex st < n;
  p_cnt : useAll = true -> count_true (used st) = total st;
  p_bacc : Forall (fun e => fst e < n) (bacc st);
  p_used : useAll = true -> forall i, In i (map fst (bacc st)) -> nth_error (used st) i = Some true;
  p_nodup : useAll = true -> NoDup (map fst (bacc st)) }.

Lemma place_ok cnt : forall hosts useAll n parent ph st created,
  length hosts = n -> 1 <= n -> PInv useAll n st ->
  (useAll = true -> total st + cnt <= n) ->
  exists st' created', place cnt hosts useAll n parent ph st created = Some (st', created') /\ PInv useAll n st'.
Proof.
  induction cnt as [|c IH]; intros hosts useAll n parent ph st created Hh Hn [I1 I2 I3 I4 I5 I6] Hroom.
  - cbn. eexists. eexists. split; [reflexivity|]. constructor; auto.
  - cbn [place].
    destruct (nth_error hosts (roIndex st)) as [ch|] eqn:Ech.
    2: { apply nth_error_None in Ech. lia. }
    assert (Hs : exists ri, search (2 * n + 2) hosts (used st) useAll n ph (roIndex st) (roIndex st) ch true = Some ri /\
                            ri < n /\ (useAll = true -> nth_error (used st) ri = Some false)).
    { destruct useAll.
      - assert (Hfr : exists u, u < n /\ nth_error (used st) u = Some false).
        { rewrite <- I1. apply free_exists. rewrite I1, (I3 eq_refl). specialize (Hroom eq_refl). lia. }
        destruct (search_all hosts (used st) n ph (roIndex st) Hh I1 Hn I2 Hfr (2 * n + 2) 0 ch)
          as (ri & E & H1 & H2); try lia.
        rewrite Nat.add_0_r, Nat.mod_small in E by lia. exists ri. auto.
      - destruct (search_plain hosts (used st) n ph (roIndex st) Hh I1 Hn I2 (2 * n + 2) 0 ch true) as (ri & E & H1); try lia.
        rewrite Nat.add_0_r, Nat.mod_small in E by lia. exists ri. repeat split; auto. discriminate. }
    destruct Hs as (ri & -> & Hri & Hfree).
    apply IH; auto.
    + constructor; cbn.
      * now rewrite set_true_length.
      * apply Nat.mod_upper_bound. lia.
      * intros E. rewrite (set_true_count _ _ (Hfree E)), (I3 E). reflexivity.
      * constructor; auto.
      * intros E j [<-|Hj]; [apply set_true_sets; lia|apply set_true_keeps, (I5 E j Hj)].
      * intros E. constructor; [|apply (I6 E)]. intros Hin.
        pose proof (I5 E ri Hin) as Hu. rewrite (Hfree E) in Hu. discriminate.
    + cbn. intros E. specialize (Hroom E). lia.
Qed.

Definition lvl_ok (n : nat) (l : list (nat * nat)) : Prop := Forall (fun e => snd e < n) l.

Lemma level_ok hosts useAll n N nodes L : forall lvl i st newlvl,
  length hosts = n -> 1 <= n -> 1 <= N -> (useAll = true -> nodes = n) ->
  i + length lvl = L -> PInv useAll n st -> total st <= nodes ->
  lvl_ok n lvl -> lvl_ok n newlvl ->
  exists st' newlvl', level hosts useAll n N nodes L lvl i st newlvl = Some (st', newlvl') /\
                      PInv useAll n st' /\ lvl_ok n newlvl'.
Proof.
  induction lvl as [|[p pr] rest IH]; intros i st newlvl Hh Hn HN Hall HL I Hle Hl Hnl.
  - cbn. eauto.
  - cbn [level]. rewrite share_is_cnt. cbn [length] in HL.
    pose proof (Forall_inv Hl) as Hpr. pose proof (Forall_inv_tail Hl) as Hrest. cbn in Hpr.
    destruct (nth_error hosts pr) as [phh|] eqn:Eph.
    2: { apply nth_error_None in Eph. lia. }
    assert (Hcnt : share N L (nodes - total st) i <= nodes - total st) by (apply share_le_rem; lia).
    destruct (place_ok (share N L (nodes - total st) i) hosts useAll n p phh st [] Hh Hn I) as (st1 & created & Hp & I1).
    { intros E. specialize (Hall E). lia. }
    rewrite Hp. pose proof (place_total _ _ _ _ _ _ _ _ _ _ Hp) as [Ht _].
    apply IH; auto; try lia.
    apply Forall_app. split; [exact Hnl|].
    apply Forall_forall. intros e He. apply in_map_iff in He as (k & <- & _). cbn.
    destruct (nth_error (rev (bacc st1)) k) as [[r q]|] eqn:Ek; [|lia].
    apply nth_error_In in Ek. apply in_rev in Ek.
    pose proof (p_bacc _ _ _ I1) as Hb. rewrite Forall_forall in Hb. apply (Hb (r, q) Ek).
Qed.

Lemma levels_ok fuel : forall hosts useAll n N nodes lvl st sizes,
  length hosts = n -> 1 <= n -> 1 <= N -> (useAll = true -> nodes = n) ->
  PInv useAll n st -> total st <= nodes -> length (bacc st) = total st ->
  lvl_ok n lvl -> lvl <> [] -> nodes - total st < fuel ->
  exists st' sizes', levels fuel hosts useAll n N nodes lvl st sizes = Some (st', sizes') /\ PInv useAll n st'.
Proof.
  induction fuel as [|f IH]; intros hosts useAll n N nodes lvl st sizes Hh Hn HN Hall I Hle Hlen Hl Hne Hfu; [lia|].
  cbn [levels]. destruct (nodes <=? total st) eqn:E; [eauto|]. apply Nat.leb_gt in E.
  destruct (level_ok hosts useAll n N nodes (length lvl) lvl 0 st [] Hh Hn HN Hall eq_refl I Hle Hl (Forall_nil _))
    as (st1 & newlvl & Hlv & I1 & Hnl).
  rewrite Hlv.
  pose proof (level_total _ _ _ _ _ _ _ _ _ _ _ _ HN eq_refl Hlv Hle Hlen) as (T1 & T2 & T3).
  destruct (level_fill _ _ _ _ _ _ _ _ _ _ _ _ HN eq_refl Hlv Hle) as (_ & F1 & _).
  specialize (T3 Hne E). cbn [length] in F1.
  apply IH; auto; try lia.
  destruct newlvl; [cbn in F1; lia|discriminate].
Qed.

(* the big generator never crashes and always returns a tree *)
Lemma gen_big_returns hosts N nodes : hosts <> [] -> 1 <= N ->
  exists l, gen_big hosts N nodes = GTree l.
Proof.
  intros Hh HN. unfold gen_big, gen_big_full.
  destruct hosts as [|h0 hr] eqn:Eh; [congruence|]. rewrite <- Eh.
  assert (Hn : 1 <= length hosts) by (rewrite Eh; cbn; lia).
  destruct (length hosts =? 0) eqn:E0; [apply Nat.eqb_eq in E0; lia|].
  set (n := length hosts) in *.
  set (st0 := {| used := true :: repeat false (n - 1); roIndex := 1 mod n; total := 1; bacc := [(0, 0)] |}).
  assert (I0 : PInv (n =? nodes) n st0).
  { constructor; cbn.
    - rewrite repeat_length. lia.
    - apply Nat.mod_upper_bound. lia.
    - intros _. f_equal. clear. induction (n - 1); cbn; auto.
    - constructor; [cbn; lia|constructor].
    - intros _ i [<-|[]]. reflexivity.
    - intros _. constructor; [intros []|constructor]. }
  destruct (Nat.le_gt_cases nodes 1) as [Hsmall|Hbig].
  - (* nothing to place: the loop test fails at once *)
    destruct nodes as [|[|?]]; cbn [levels total st0 Nat.leb]; eauto; lia.
  - destruct (levels_ok (S nodes) hosts (n =? nodes) n N nodes [(0, 0)] st0 [1]) as (st' & sizes' & -> & _); auto; try (cbn; lia).
    + intros E. apply Nat.eqb_eq in E. lia.
    + constructor; [cbn; lia|constructor].
    + discriminate.
    + eauto.
Qed.

(* when the node count equals the roster size every member is used exactly once *)
Lemma gen_big_use_all hosts N : hosts <> [] -> 1 <= N ->
  exists l, gen_big hosts N (length hosts) = GTree l /\ Permutation (map fst l) (seq 0 (length hosts)).
Proof.
  intros Hh HN.
  destruct hosts as [|h0 hr] eqn:Eh; [congruence|]. rewrite <- Eh.
  assert (Hn : 1 <= length hosts) by (rewrite Eh; cbn; lia).
  set (n := length hosts) in *.
  unfold gen_big. destruct (gen_big_full hosts N n) as [[st sizes]|] eqn:Ef.
  2: { destruct (gen_big_returns hosts N n) as (l & Hl); [rewrite Eh; discriminate|exact HN|].
       unfold gen_big in Hl. rewrite Ef in Hl. discriminate. }
  exists (rev (bacc st)). split; [reflexivity|].
  destruct (gen_big_full_spec hosts N n st sizes HN Hn Ef) as (Hlen & _ & _).
  (* re-run the loop with the invariant *)
  unfold gen_big_full in Ef. fold n in Ef.
  destruct (n =? 0) eqn:E0; [apply Nat.eqb_eq in E0; lia|].
  set (st0 := {| used := true :: repeat false (n - 1); roIndex := 1 mod n; total := 1; bacc := [(0, 0)] |}) in Ef.
  assert (I0 : PInv (n =? n) n st0).
  { constructor; cbn.
    - rewrite repeat_length. lia.
    - apply Nat.mod_upper_bound. lia.
    - intros _. f_equal. clear. induction (n - 1); cbn; auto.
    - constructor; [cbn; lia|constructor].
    - intros _ i [<-|[]]. reflexivity.
    - intros _. constructor; [intros []|constructor]. }
  assert (I : PInv (n =? n) n st).
  { destruct (levels_ok (S n) hosts (n =? n) n N n [(0, 0)] st0 [1]) as (st' & sizes' & E & I'); auto; try (cbn; lia).
    + constructor; [cbn; lia|constructor].
    + discriminate.
    + rewrite Ef in E. inversion E; subst. exact I'. }
  rewrite Nat.eqb_refl in I.
  rewrite map_rev. symmetry. apply Permutation_sym. etransitivity; [symmetry; apply Permutation_rev|].
  apply NoDup_Permutation_bis.
  - apply (p_nodup _ _ _ I eq_refl).
  - rewrite seq_length, map_length. lia.
  - intros x Hx. apply in_seq. split; [lia|]. cbn.
    apply in_map_iff in Hx as (e & <- & He).
    pose proof (p_bacc _ _ _ I) as Hb. rewrite Forall_forall in Hb. apply (Hb e He).
Qed.
