(* C13 -- case type, model-vs-observation comparison [gagree] and the property
   checker [gcheck] of the correspondence, generic in the type [L] of byte-string
   literals and its decoder [unlit] (Corr/C13.v instantiates L with chunks of
   primitive 63-bit integers, which Coq parses quickly).  Keeping L abstract
   keeps primitive integers out of the statements proved about the checker.
   Executable definitions only; specification in Corr/C13Proofs.v.

   A case is a GROUP of objects of one kind with, per object, what the real code
   returned (several computations of the same id: twice in-process, by a second
   route where one exists, once in a fresh process) and an ORACLE: Go's own
   SHA-256 / uuid.NewSHA1 / uuid.NewMD5 evaluated on candidate pre-images.

   gagree : the model of Tree/Ids.v, run with the oracle as its hash function
            (a pre-image that is not in the oracle hashes to [], which is never a
            16-byte id), returns exactly the observed results.  So the model's
            pre-image is one Go's hash maps to the observed id.
   gcheck : the property on the OBSERVED ids alone -- recomputation gives the same
            id, equal objects have equal ids, different objects different ids. *)
From Coq Require Import List Arith Bool Ascii String NArith.
Import ListNotations.
From Onet Require Import Base.Corr.
From Onet Require Export Base.C13Bytes Tree.Ids Tree.IdsCheck.

Section Lit.
Context {L : Type}.
Variable unlit : L -> bytes.
(* which variant of NewTree the implementation is expected to be *)
Variable code_fixed_F15 : bool.

Inductive ores := OCrash | ONil | OErr | OId (id : L).
Record obs := Obs { o_runs : list ores; o_alt : list ores;
                    o_h256 : list (L * L); o_u : list (L * L) }.
Inductive itree := IN (k : option nat) (ch : list itree).
Inductive itoken := Tok (roster tree proto service round node : L).
Definition ktab := list (L * L * nat).     (* kbin, kstr, point type *)
Definition iroster := list (option nat * list (option nat)).

(* a roster built by NewRoster from a slice the caller then edits: the edits, and what
   the roster shows afterwards (several runs: twice in-process, once in a fresh
   process): its ID field, GetID(), its member list, and for every ORIGINAL member
   the position Search finds it at *)
Inductive iedit := ISwap (i j : nat) | ISet (i : nat) (m : option nat * list (option nat)).
Inductive aobs := AObs (idfield getid : ores) (members : iroster) (search : list (option nat))
                       (h256 u : list (L * L)).

Inductive gcase :=
| CRosters (kt : ktab) (items : list (iroster * obs))
| CTrees (kt : ktab) (items : list ((option L * itree) * obs))
| CTokens (items : list (itoken * obs))
| CProtos (items : list (L * obs))
| CServices (items : list (L * obs))
| CKeys (kind : nat) (kt : ktab) (items : list (option nat * obs))   (* 0 server id, 1 node id *)
| CAlias (kt : ktab) (items : list (iroster * list iedit * list aobs)).

(* ---- decoding ------------------------------------------------------------ *)
Fixpoint opt_all {A} (l : list (option A)) : option (list A) :=
  match l with
  | [] => Some []
  | None :: _ => None
  | Some x :: r => match opt_all r with Some r' => Some (x :: r') | None => None end
  end.

Definition dec_key (e : L * L * nat) : key :=
  match e with
  | (b, s, t) => {| kbin := unlit b; kstr := unlit s; ktype := t |}
  end.

Definition dec_ktab (kt : ktab) : option (list key) := Some (map dec_key kt).

(* a key reference: None = nil Public; an index outside the table is a broken literal *)
Definition dec_ref (ks : list key) (r : option nat) : option (option key) :=
  match r with
  | None => Some None
  | Some i => match nth_error ks i with Some k => Some (Some k) | None => None end
  end.

Definition dec_member (ks : list key) (m : option nat * list (option nat)) : option gmember :=
  match dec_ref ks (fst m), opt_all (map (dec_ref ks) (snd m)) with
  | Some k, Some s => Some {| g_key := k; g_srv := s |}
  | _, _ => None
  end.

Definition dec_roster (ks : list key) (r : iroster) : option (list gmember) :=
  opt_all (map (dec_member ks) r).

Fixpoint dec_tree (ks : list key) (t : itree) : option gtree :=
  match t with
  | IN k ch =>
      let fix go (l : list itree) : option (list gtree) :=
        match l with
        | [] => Some []
        | c :: r => match dec_tree ks c, go r with
                    | Some c', Some r' => Some (c' :: r')
                    | _, _ => None
                    end
        end in
      match dec_ref ks k, go ch with
      | Some k', Some ch' => Some (GNode k' ch')
      | _, _ => None
      end
  end.

Definition dec_token (t : itoken) : option token :=
  match t with
  | Tok a b c d e f =>
      Some {| tk_roster := unlit a; tk_tree := unlit b; tk_proto := unlit c; tk_service := unlit d;
              tk_round := unlit e; tk_node := unlit f |}
  end.

Definition dec_res (o : ores) : option res :=
  match o with
  | OCrash => Some RCrash
  | ONil => Some RNil
  | OErr => Some RErr
  | OId h => Some (RId (unlit h))
  end.

Definition dec_pair (p : L * L) : option (bytes * bytes) :=
  Some (unlit (fst p), unlit (snd p)).

(* the oracle as a hash function *)
Fixpoint lookup (tbl : list (bytes * bytes)) (p : bytes) : bytes :=
  match tbl with
  | [] => []
  | (q, d) :: r => if bytes_eqb p q then d else lookup r p
  end.

Record dobs := { d_runs : list res; d_alt : list res;
                 d_h : bytes -> bytes; d_u : bytes -> bytes }.

Definition dec_obs (o : obs) : option dobs :=
  match opt_all (map dec_res (o_runs o)), opt_all (map dec_res (o_alt o)),
        opt_all (map dec_pair (o_h256 o)), opt_all (map dec_pair (o_u o)) with
  | Some r, Some a, Some h, Some u =>
      Some {| d_runs := r; d_alt := a; d_h := lookup h; d_u := lookup u |}
  | _, _, _, _ => None
  end.

Definition dec_rid (r : option L) : option (option bytes) :=
  match r with
  | None => Some None
  | Some h => Some (Some (unlit h))
  end.

(* ---- agree ---------------------------------------------------------------- *)
Definition all_are (m : res) (l : list res) : bool := forallb (res_eqb m) l.

(* an observed id must be a 16-byte uuid *)
Definition res_wf (r : res) : bool :=
  match r with RId b => List.length b =? 16 | _ => true end.

Definition runs_ok (m : res) (l : list res) : bool :=
  negb (match l with [] => true | _ => false end) && all_are m l && forallb res_wf l.

Definition agree_roster (ks : list key) (it : iroster * obs) : bool :=
  match dec_roster ks (fst it), dec_obs (snd it) with
  | Some g, Some o =>
      runs_ok (new_roster (d_h o) (d_u o) g) (d_runs o) &&
      runs_ok (roster_get_id (d_h o) (d_u o) g) (d_alt o)
  | _, _ => false
  end.

Definition agree_tree (ks : list key) (it : (option L * itree) * obs) : bool :=
  match dec_rid (fst (fst it)), dec_tree ks (snd (fst it)), dec_obs (snd it) with
  | Some rid, Some g, Some o =>
      runs_ok (new_tree code_fixed_F15 (d_h o) (d_u o) rid g) (d_runs o)
  | _, _, _ => false
  end.

Definition agree_token (it : itoken * obs) : bool :=
  match dec_token (fst it), dec_obs (snd it) with
  | Some t, Some o => runs_ok (RId (token_id (d_u o) t)) (d_runs o)
  | _, _ => false
  end.

Definition agree_name (f : (bytes -> bytes) -> bytes -> bytes) (it : L * obs) : bool :=
  match dec_obs (snd it) with
  | Some o => runs_ok (RId (f (d_u o) (unlit (fst it)))) (d_runs o)
  | None => false
  end.

(* point type 0 is edwards25519: Point.String() must be the hex of the marshalled point
   (the hypothesis under which distinct keys get distinct server / node ids) *)
Definition key_str_ok (k : key) : bool :=
  if ktype k =? 0 then bytes_eqb (kstr k) (ed25519_str (kbin k)) else true.

Definition agree_key (kind : nat) (ks : list key) (it : option nat * obs) : bool :=
  match dec_ref ks (fst it), dec_obs (snd it) with
  | Some k, Some o =>
      match kind, k with
      | 0, _ => runs_ok (RId (server_id (d_u o) k)) (d_runs o)
      | _, Some k' => runs_ok (RId (node_id (d_u o) k')) (d_runs o)
      | _, None => false      (* NewTreeNode is never called without a key by the harness *)
      end
  | _, _ => false
  end.

(* ---- the roster value after edits of the caller's slice ------------------------ *)
Definition okey_eqb (a b : option key) : bool :=
  match a, b with
  | None, None => true
  | Some x, Some y => key_eqb x y
  | _, _ => false
  end.

Definition gmember_eqb (a b : gmember) : bool :=
  okey_eqb (g_key a) (g_key b) && list_eqb okey_eqb (g_srv a) (g_srv b).

Definition onat_eqb (a b : option nat) : bool :=
  match a, b with
  | None, None => true
  | Some x, Some y => x =? y
  | _, _ => false
  end.

Definition dec_edit (ks : list key) (e : iedit) : option slice_edit :=
  match e with
  | ISwap i j => Some (ESwap i j)
  | ISet i m => match dec_member ks m with Some g => Some (ESet i g) | None => None end
  end.

Definition expected_search (g : list gmember) : list (option nat) :=
  map (fun m => match g_key m with Some k => roster_search g k 0 | None => None end) g.

(* model vs observation: the world after the edits still holds the value NewRoster
   returned; ID field and GetID() are the id of the ORIGINAL list *)
Definition agree_aobs (ks : list key) (g : list gmember) (edits : list slice_edit) (a : aobs) : bool :=
  match a with
  | AObs idf gid members search h u =>
      let H := lookup (map (fun p => (unlit (fst p), unlit (snd p))) h) in
      let U := lookup (map (fun p => (unlit (fst p), unlit (snd p))) u) in
      match new_roster_val H U g, dec_res idf, dec_res gid, dec_roster ks members with
      | Some v, Some oid, Some ogid, Some om =>
          let v' := snd (fold_left edit_world edits (g, v)) in
          res_eqb (RId (rv_id v')) oid && res_wf oid &&
          res_eqb (roster_get_id H U (rv_list v')) ogid &&
          list_eqb gmember_eqb (rv_list v') om &&
          list_eqb onat_eqb (expected_search (rv_list v')) search
      | _, _, _, _ => false
      end
  end.

Definition agree_alias (ks : list key) (it : iroster * list iedit * list aobs) : bool :=
  match dec_roster ks (fst (fst it)), opt_all (map (dec_edit ks) (snd (fst it))) with
  | Some g, Some es =>
      negb (match snd it with [] => true | _ => false end) && forallb (agree_aobs ks g es) (snd it)
  | _, _ => false
  end.

Definition gagree (c : gcase) : bool :=
  match c with
  | CRosters kt items =>
      match dec_ktab kt with Some ks => forallb (agree_roster ks) items | None => false end
  | CTrees kt items =>
      match dec_ktab kt with Some ks => forallb (agree_tree ks) items | None => false end
  | CTokens items => forallb agree_token items
  | CProtos items => forallb (agree_name proto_id) items
  | CServices items => forallb (agree_name service_id) items
  | CKeys kind kt items =>
      match dec_ktab kt with
      | Some ks => forallb (agree_key kind ks) items && forallb key_str_ok ks
      | None => false
      end
  | CAlias kt items =>
      match dec_ktab kt with Some ks => forallb (agree_alias ks) items | None => false end
  end.


(* ---- check: the property on the observation ------------------------------
   clause numbers:
    1 the same object's id recomputed (same call again, second route, fresh process) differs
    2 two equal objects of a group carry different ids
    3 two rosters with different key sequences share a roster id
    4 two different rosters with the same concatenated key bytes share a roster id      (F16)
    5 two different trees over the same roster id with the same pre-order sequence of
      (key, leaf?) share a tree id                                                       (F15)
    6 two different trees (other roster id, or other pre-order keys / leaves) share a tree id
    7 two tokens differing in a field share a token id
    8 two different protocol (service) names share an id
    9 two different keys share a server (node) id
   10 crash / nil / malformed id on a legal object
   11 undecodable case (harness error) *)

(* observation of one object: first result and whether all recomputations agree *)
Definition first_res (o : dobs) : option res :=
  match d_runs o with r :: _ => Some r | [] => None end.

Definition stable (o : dobs) (with_alt : bool) : bool :=
  match d_runs o with
  | [] => false
  | r :: rest => all_are r rest && (negb with_alt || all_are r (d_alt o))
  end.

(* per legal object: clause 1 and clause 10, and its (object, id) entry *)
Definition legal_entry {X} (x : X) (o : dobs) (with_alt : bool) : list nat * list (X * bytes) :=
  match first_res o with
  | Some (RId b) =>
      (clause 1 (stable o with_alt) ++ clause 10 (List.length b =? 16), [(x, b)])
  | _ => ([10], [])
  end.

(* illegal object: only repeatability of the same call *)
Definition illegal_entry {X} (o : dobs) : list nat * list (X * bytes) :=
  (clause 1 (stable o false), []).

Definition combine_entries {X} (l : list (option (list nat * list (X * bytes)))) :
  option (list nat * list (X * bytes)) :=
  match opt_all l with
  | None => None
  | Some es => Some (flat_map fst es, flat_map snd es)
  end.

Definition finish {X} (eqX : X -> X -> bool) (cls : X -> X -> nat)
  (e : option (list nat * list (X * bytes))) : list nat :=
  match e with
  | None => [11]
  | Some (cl, entries) => dedup (cl ++ group_clauses X eqX cls entries)
  end.

Definition roster_legal (g : list gmember) : option roster :=
  match g with
  | [] => None
  | g0 :: _ =>
      match g_key g0, resolve_roster g with
      | Some k0, Some r => if same_type k0 (map m_key r) then Some r else None
      | _, _ => None
      end
  end.

Definition entry_roster (ks : list key) (it : iroster * obs) :=
  match dec_roster ks (fst it), dec_obs (snd it) with
  | Some g, Some o =>
      Some (match roster_legal g with
            | Some r => legal_entry r o true
            | None => illegal_entry o
            end)
  | _, _ => None
  end.

Definition tree_legal (rid : option bytes) (g : gtree) : option (bytes * tree) :=
  match rid, resolve_tree g with
  | Some r, Some t =>
      if (List.length r =? 16) && same_type (tree_root_key t) (tree_keys t) then Some (r, t) else None
  | _, _ => None
  end.

Definition bad_rid (rid : option bytes) : bool :=
  match rid with Some r => negb (List.length r =? 16) | None => false end.

Definition entry_tree (ks : list key) (it : (option L * itree) * obs) :=
  match dec_rid (fst (fst it)), dec_tree ks (snd (fst it)), dec_obs (snd it) with
  | Some rid, Some g, Some o =>
      (* a roster id that is present but not 16 bytes: the harness writes the empty id
         when a LEGAL roster did not get an id from NewRoster (nil or panic) *)
      Some (if bad_rid rid then ([10], [])
            else match tree_legal rid g with
                 | Some x => legal_entry x o false
                 | None => illegal_entry o
                 end)
  | _, _, _ => None
  end.

Definition token_legal (t : token) : bool :=
  (List.length (tk_roster t) =? 16) && (List.length (tk_tree t) =? 16) &&
  (List.length (tk_proto t) =? 16) && (List.length (tk_service t) =? 16) &&
  (List.length (tk_round t) =? 16) && (List.length (tk_node t) =? 16).

Definition entry_token (it : itoken * obs) :=
  match dec_token (fst it), dec_obs (snd it) with
  | Some t, Some o => Some (if token_legal t then legal_entry t o false else illegal_entry o)
  | _, _ => None
  end.

Definition entry_name (it : L * obs) :=
  match dec_obs (snd it) with
  | Some o => Some (legal_entry (unlit (fst it)) o false)
  | None => None
  end.

Definition entry_key (ks : list key) (it : option nat * obs) :=
  match dec_ref ks (fst it), dec_obs (snd it) with
  | Some (Some k), Some o => Some (legal_entry k o false)
  | Some None, Some o => Some (illegal_entry o)
  | _, _ => None
  end.

(* the property on the observation: whatever the caller did to its slice afterwards,
   the roster still has the members it was built from, finds each of them where it
   was, and its id is the id of its own list (ID field = GetID() = a 16-byte id) *)
Definition aobs_ok (ks : list key) (g : list gmember) (a : aobs) : bool :=
  match a with
  | AObs idf gid members search _ _ =>
      match dec_res idf, dec_res gid, dec_roster ks members with
      | Some (RId b), Some (RId b'), Some om =>
          (List.length b =? 16) && bytes_eqb b b' &&
          list_eqb gmember_eqb g om && list_eqb onat_eqb (expected_search g) search
      | _, _, _ => false
      end
  end.

Definition alias_item_ok (ks : list key) (it : iroster * list iedit * list aobs) : bool :=
  match dec_roster ks (fst (fst it)) with
  | Some g =>
      match roster_legal g with
      | Some _ => negb (match snd it with [] => true | _ => false end) && forallb (aobs_ok ks g) (snd it)
      | None => true        (* only legal rosters are generated; nothing is demanded of others *)
      end
  | None => false
  end.

Definition gcheck (c : gcase) : list nat :=
  match c with
  | CRosters kt items =>
      match dec_ktab kt with
      | Some ks => finish roster_eqb roster_cls (combine_entries (map (entry_roster ks) items))
      | None => [11]
      end
  | CTrees kt items =>
      match dec_ktab kt with
      | Some ks => finish ridtree_eqb tree_cls (combine_entries (map (entry_tree ks) items))
      | None => [11]
      end
  | CTokens items =>
      finish token_eqb (fun _ _ => 7) (combine_entries (map entry_token items))
  | CProtos items | CServices items =>
      finish bytes_eqb (fun _ _ => 8) (combine_entries (map entry_name items))
  | CKeys _ kt items =>
      match dec_ktab kt with
      | Some ks => finish key_eqb (fun _ _ => 9) (combine_entries (map (entry_key ks) items))
      | None => [11]
      end
  | CAlias kt items =>
      match dec_ktab kt with
      | Some ks => clause 12 (forallb (alias_item_ok ks) items)
      | None => [11]
      end
  end.

End Lit.
