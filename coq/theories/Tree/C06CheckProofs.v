(* C06 -- the property checker of Corr/C06.v and the model agree: whatever the
   (repaired) model answers to a description passes clauses 2 and 3 of the checker,
   and what the pinned model answers fails them exactly on the root-less descriptions.
   This ties the boolean checker that is run on the implementation's observations to
   the theorems of Tree/TreeMarshalProofs.v. *)
From Coq Require Import List Arith Bool ZArith Lia.
Import ListNotations.
From Onet Require Import Tree.TreeMarshal Tree.TreeMarshalProofs Corr.C06.

Local Notation zrebuild := (@rebuild Z).

Lemma list_eqb_refl : forall A (e : A -> A -> bool) l, (forall x, e x x = true) -> list_eqb e l l = true.
Proof. intros A e l H. induction l as [|x r IH]; cbn; [reflexivity|]. rewrite H, IH. reflexivity. Qed.

Lemma server_eqb_refl : forall s, server_eqb s s = true.
Proof.
  intros s. unfold server_eqb. rewrite Nat.eqb_refl, Z.eqb_refl, Bool.eqb_reflx. cbn.
  rewrite andb_true_r. apply list_eqb_refl. apply Z.eqb_refl.
Qed.

Lemma roster_eqb_refl : forall r, roster_eqb r r = true.
Proof.
  intros r. unfold roster_eqb. rewrite Nat.eqb_refl. cbn. apply list_eqb_refl, server_eqb_refl.
Qed.

(* the checker's notion of "unusable description" is the one of the theorems *)
Lemma all_members_ok : forall l m, all_members l m = members_ok Z l m.
Proof.
  intros l m. induction m as [nid tid sid rid ch IH] using tm_ind2. cbn [all_members members_ok].
  assert (E : forallb (all_members l) ch = forallb (members_ok Z l) ch).
  { induction IH as [|c r Hc _ IHr]; cbn [forallb]; [reflexivity|]. rewrite Hc, IHr. reflexivity. }
  rewrite E. reflexivity.
Qed.

Lemma malformed_same : forall m ro, C06.malformed m ro = TreeMarshalProofs.malformed Z m ro.
Proof.
  intros m ro. unfold C06.malformed, TreeMarshalProofs.malformed.
  destruct (tm_children m); [reflexivity|]. rewrite all_members_ok. reflexivity.
Qed.

Definition keys (n : znode) : list Z := map (fun x => s_key (n_srv x)) (flat n).

Lemma keys_with_aggs : forall n, keys (with_aggs Z.add n) = keys n.
Proof.
  induction n as [id srv i g ch IH] using tnode_ind2. unfold keys in *. cbn [with_aggs flat map n_srv]. f_equal.
  induction IH as [|c r Hc _ IHr]; cbn [map flat_map]; [reflexivity|].
  rewrite !map_app, Hc, IHr. reflexivity.
Qed.

Lemma agg_is_key_sum : forall n, agg_of Z.add n = key_sum n.
Proof.
  intros n. unfold key_sum.
  rewrite (agg_of_sum Z Z.add 0%Z Z.add_assoc Z.add_0_r Z.add_0_l n). reflexivity.
Qed.

Lemma key_sum_with_aggs : forall n, key_sum (with_aggs Z.add n) = key_sum n.
Proof. intros n. unfold key_sum. fold (keys (with_aggs Z.add n)). rewrite keys_with_aggs. reflexivity. Qed.

(* what the rebuild returns is the described tree, placed on the roster, with the
   aggregates the checker recomputes from the keys *)
Lemma rebuilt_passes : forall l m n,
  zrebuild l m = Some n ->
  node_matches (with_aggs Z.add n) m = true /\ node_wf l (with_aggs Z.add n) = true.
Proof.
  intros l m. induction m as [nid tid sid rid ch IH] using tm_ind2. intros n H.
  rewrite rebuild_eq in H. destruct (search_from l sid 0) as [[i e]|] eqn:Es; [|discriminate].
  destruct (s_nokey e) eqn:Ek; [discriminate|].
  destruct (rebuild_all Z l ch) as [ns|] eqn:Er; [|discriminate]. inversion H; subst n. clear H.
  pose proof (search_from_some Z _ _ _ _ _ Es) as (_ & Hnth & Hid & _). rewrite Nat.sub_0_r in Hnth.
  apply rebuild_all_inv in Er.
  assert (Hch : (fix go (x : list znode) (y : list tmarshal) : bool :=
                   match x, y with
                   | [], [] => true
                   | p :: x', q :: y' => node_matches p q && go x' y'
                   | _, _ => false
                   end) (map (with_aggs Z.add) ns) ch = true /\
                forallb (node_wf l) (map (with_aggs Z.add) ns) = true).
  { clear Es Hnth. induction Er as [|c n cs ns' Hc _ IHr]; [split; reflexivity|].
    inversion IH as [|? ? Hc0 IH']; subst. destruct (Hc0 _ Hc) as [Hm Hw]. destruct (IHr IH') as [Hms Hws].
    cbn [map forallb]. rewrite Hm, Hw, Hms, Hws. split; reflexivity. }
  destruct Hch as [Hms Hws].
  change (with_aggs Z.add (Node nid e i None ns)) with
    (Node nid e i (Some (agg_of Z.add (Node nid e i None ns))) (map (with_aggs Z.add) ns)).
  split.
  - cbn [node_matches]. rewrite Nat.eqb_refl, Hid, Nat.eqb_refl. cbn. exact Hms.
  - cbn [node_wf]. rewrite Hnth, server_eqb_refl, Hws, Ek. cbn [negb andb].
    rewrite agg_is_key_sum.
    replace (key_sum (Node nid e i (Some (key_sum (Node nid e i None ns))) (map (with_aggs Z.add) ns)))
      with (key_sum (Node nid e i None ns)).
    + cbn. rewrite Z.eqb_refl. reflexivity.
    + symmetry. rewrite <- (key_sum_with_aggs (Node nid e i None ns)). reflexivity.
Qed.

Definition obs_of (r : res ztree) (goeq : bool) : rres :=
  match r with
  | Ok t => ROk t true goeq
  | Err => RErr 0
  | Crash => RCrash
  end.

(* the repaired model passes the checker on EVERY description and roster *)
Theorem repaired_model_passes_checker : forall n2 m ro goeq,
  check (CMake m (Some ro) (obs_of (make_tree Z.add true n2 m (Some ro)) goeq)) = [].
Proof.
  intros n2 m ro goeq. cbn [check check_make]. rewrite malformed_same.
  destruct (make_tree_fixed_total Z Z.add n2 m ro) as [Hbad Hgood].
  destruct (TreeMarshalProofs.malformed Z m ro) eqn:Em.
  - rewrite (Hbad eq_refl). reflexivity.
  - destruct (Hgood eq_refl) as (t & Ht & _). rewrite Ht. cbn [obs_of].
    apply make_tree_ok_inv in Ht as (ro' & c & rest & n & Ero & Hrid & Hch & Hr & ->).
    inversion Ero; subst ro'.
    destruct (rebuilt_passes _ _ _ Hr) as [Hm Hw].
    unfold describes. cbn [t_id t_ro t_root]. rewrite Nat.eqb_refl, Hch, Hm, Hw.
    cbn. rewrite roster_eqb_refl. reflexivity.
Qed.

(* the pinned model fails the checker exactly where it crashes: root-less descriptions
   that name the right roster (F06), and then with clause 2 *)
Theorem pinned_model_checker : forall n2 m ro goeq,
  check (CMake m (Some ro) (obs_of (make_tree Z.add false n2 m (Some ro)) goeq)) =
  if (r_id ro =? tm_rid m) && match tm_children m with [] => true | _ => false end then [2] else [].
Proof.
  intros n2 m ro goeq.
  destruct (make_tree_pinned Z Z.add n2 m ro) as [Hne Hempty].
  destruct (tm_children m) as [|c rest] eqn:Ec.
  - destruct (r_id ro =? tm_rid m) eqn:Er; cbn [andb].
    + apply Nat.eqb_eq in Er. rewrite (Hempty eq_refl Er). cbn [check check_make obs_of].
      unfold C06.malformed. rewrite Ec. rewrite orb_true_r. reflexivity.
    + unfold make_tree. rewrite Er. cbn [negb obs_of check check_make].
      unfold C06.malformed. rewrite Er. reflexivity.
  - rewrite andb_false_r. rewrite Hne by discriminate.
    apply repaired_model_passes_checker.
Qed.

(* round trip, through the checker: for a well-formed sender tree the model's three
   rebuilds pass clause 1 *)
Theorem roundtrip_passes_checker : forall f06 n2 (t : ztree) ro,
  t_ro t = Some ro -> NoDup (map s_id (r_list ro)) ->
  (forall x, In x (flat (t_root t)) -> nth_error (r_list ro) (n_ridx x) = Some (n_srv x)) ->
  (forall x, In x (flat (t_root t)) -> s_nokey (n_srv x) = false) ->
  aggs_computed Z Z.add (t_root t) ->
  forall t', make_tree Z.add f06 n2 (to_marshal t) (Some ro) = Ok t' -> t' = t.
Proof.
  intros f06 n2 t ro Hro Hnd Hall Hkey Hagg t' H.
  destruct (roundtrip Z Z.add f06 n2 t ro Hro Hnd Hall Hkey) as (_ & E & _). rewrite (E Hagg) in H.
  inversion H; reflexivity.
Qed.
