(* C06 -- proofs about Tree/TreeMarshal.v (pure part: flatten to ids / rebuild
   against a roster / aggregates / bytes layer under a codec hypothesis). *)
From Coq Require Import List Arith Bool Lia Permutation.
Import ListNotations.
From Onet Require Import Tree.TreeMarshal.

(* ---------- induction principles for the nested types -------------------------- *)

Section Ind.
Variable G : Type.

Section tnode_ind2.
  Variable P : tnode G -> Prop.
  Hypothesis H : forall id srv i g ch, Forall P ch -> P (Node id srv i g ch).
  Fixpoint tnode_ind2 (n : tnode G) : P n :=
    match n with
    | Node id srv i g ch =>
        H id srv i g ch
          ((fix go (l : list (tnode G)) : Forall P l :=
              match l with
              | [] => Forall_nil P
              | x :: r => Forall_cons x (tnode_ind2 x) (go r)
              end) ch)
    end.
End tnode_ind2.
End Ind.

Section tm_ind2.
  Variable P : tmarshal -> Prop.
  Hypothesis H : forall nid tid sid rid ch, Forall P ch -> P (TM nid tid sid rid ch).
  Fixpoint tm_ind2 (m : tmarshal) : P m :=
    match m with
    | TM nid tid sid rid ch =>
        H nid tid sid rid ch
          ((fix go (l : list tmarshal) : Forall P l :=
              match l with
              | [] => Forall_nil P
              | x :: r => Forall_cons x (tm_ind2 x) (go r)
              end) ch)
    end.
End tm_ind2.

Section Proofs.
Variable G : Type.
Variable gadd : G -> G -> G.

Notation server := (server G).
Notation roster := (roster G).
Notation tnode := (tnode G).
Notation stree := (stree G).

(* ---------- rebuild, unfolded ---------------------------------------------------- *)

Fixpoint rebuild_all (l : list server) (cs : list tmarshal) : option (list tnode) :=
  match cs with
  | [] => Some []
  | c :: r =>
      match rebuild l c with
      | None => None
      | Some n => match rebuild_all l r with
                  | None => None
                  | Some ns => Some (n :: ns)
                  end
      end
  end.

Lemma rebuild_eq : forall l nid tid sid rid ch,
  rebuild l (TM nid tid sid rid ch) =
  match search_from l sid 0 with
  | None => None
  | Some (i, e) =>
      if s_nokey e then None else
      match rebuild_all l ch with
      | None => None
      | Some ns => Some (Node nid e i None ns)
      end
  end.
Proof.
  intros l nid tid sid rid ch. cbn [rebuild].
  destruct (search_from l sid 0) as [[i e]|]; [|reflexivity].
  destruct (s_nokey e); [reflexivity|].
  assert (E : forall cs,
    (fix go (cs : list tmarshal) : option (list tnode) :=
       match cs with
       | [] => Some []
       | c :: r =>
           match rebuild l c with
           | Some n => match go r with
                       | Some ns => Some (n :: ns)
                       | None => None
                       end
           | None => None
           end
       end) cs = rebuild_all l cs).
  { induction cs as [|c r IH]; cbn; [reflexivity|].
    destruct (rebuild l c); [|reflexivity]. rewrite IH. reflexivity. }
  rewrite E. reflexivity.
Qed.

(* ---------- roster search ----------------------------------------------------------- *)

Lemma search_from_some : forall (l : list server) sid k i e,
  search_from l sid k = Some (i, e) ->
  k <= i /\ nth_error l (i - k) = Some e /\ s_id e = sid /\
  (forall j e', j < i - k -> nth_error l j = Some e' -> s_id e' <> sid).
Proof.
  induction l as [|x r IH]; intros sid k i e Hs; cbn in Hs; [discriminate|].
  destruct (s_id x =? sid) eqn:E.
  - inversion Hs; subst. rewrite Nat.sub_diag. apply Nat.eqb_eq in E.
    repeat split; auto. intros j e' Hj; lia.
  - apply IH in Hs as (Hle & Hn & Hid & Hfirst).
    apply Nat.eqb_neq in E.
    assert (Hik : i - k = S (i - S k)) by lia.
    repeat split; [lia| rewrite Hik; exact Hn | exact Hid |].
    intros j e' Hj Hnth. destruct j as [|j]; cbn in Hnth.
    + inversion Hnth; subst. exact E.
    + apply (Hfirst j e'); [lia|exact Hnth].
Qed.

Lemma search_from_none : forall (l : list server) sid k,
  search_from l sid k = None <-> (forall e, In e l -> s_id e <> sid).
Proof.
  induction l as [|x r IH]; intros sid k; cbn.
  - split; [intros _ e []|reflexivity].
  - destruct (s_id x =? sid) eqn:E.
    + apply Nat.eqb_eq in E. split; [discriminate|]. intros H. exfalso. apply (H x); auto.
    + apply Nat.eqb_neq in E. rewrite IH. split.
      * intros H e [<-|He]; auto.
      * intros H e He. apply H. auto.
Qed.

(* in a roster of pairwise distinct ids, the member at position i is found at i *)
Lemma search_from_nodup : forall (l : list server) i e k,
  NoDup (map s_id l) -> nth_error l i = Some e ->
  search_from l (s_id e) k = Some (i + k, e).
Proof.
  induction l as [|x r IH]; intros i e k Hnd Hn.
  - destruct i; discriminate.
  - cbn [map] in Hnd. inversion Hnd as [|? ? Hnotin Hnd']; subst.
    destruct i as [|i]; cbn in Hn.
    + inversion Hn; subst. cbn. rewrite Nat.eqb_refl. reflexivity.
    + cbn. destruct (s_id x =? s_id e) eqn:E.
      * apply Nat.eqb_eq in E. exfalso. apply Hnotin. rewrite E.
        apply in_map. eapply nth_error_In; eauto.
      * rewrite (IH i e (S k) Hnd' Hn). f_equal. f_equal. lia.
Qed.

(* ---------- well-placed nodes -------------------------------------------------------- *)

(* the node's server is what the roster search finds for its id, at the recorded index,
   and it has a public key *)
Inductive placed (l : list server) : tnode -> Prop :=
| placed_node : forall id srv i g ch,
    search_from l (s_id srv) 0 = Some (i, srv) ->
    s_nokey srv = false ->
    Forall (placed l) ch ->
    placed l (Node id srv i g ch).

Fixpoint strip (n : tnode) : tnode :=
  match n with
  | Node id srv i _ ch => Node id srv i None (map strip ch)
  end.

Lemma flat_in_cons : forall id srv i g ch (x : tnode),
  In x (flat (Node id srv i g ch)) <->
  x = Node id srv i g ch \/ exists c, In c ch /\ In x (flat c).
Proof.
  intros. cbn [flat]. split.
  - intros [<-|H]; [left; reflexivity|].
    right. apply in_flat_map in H. exact H.
  - intros [->|H]; [left; reflexivity|]. right. apply in_flat_map. exact H.
Qed.

Lemma placed_of_nodup : forall (l : list server) n,
  NoDup (map s_id l) ->
  (forall x, In x (flat n) -> nth_error l (n_ridx x) = Some (n_srv x)) ->
  (forall x, In x (flat n) -> s_nokey (n_srv x) = false) ->
  placed l n.
Proof.
  intros l n Hnd. induction n as [id srv i g ch IH] using tnode_ind2. intros Hall Hkey.
  constructor.
  - specialize (Hall (Node id srv i g ch)). cbn in Hall.
    rewrite (search_from_nodup l i srv 0 Hnd (Hall (or_introl eq_refl))). f_equal. f_equal. lia.
  - apply (Hkey (Node id srv i g ch)). left. reflexivity.
  - rewrite Forall_forall in IH |- *. intros c Hc. apply IH; [exact Hc| |].
    + intros x Hx. apply Hall. apply flat_in_cons. right. exists c. auto.
    + intros x Hx. apply Hkey. apply flat_in_cons. right. exists c. auto.
Qed.

Lemma rebuild_all_map : forall l (ch : list tnode) (f : tnode -> tnode),
  Forall (fun c => rebuild l (copy_tree c) = Some (f c)) ch ->
  rebuild_all l (map copy_tree ch) = Some (map f ch).
Proof.
  intros l ch f H. induction H as [|c r Hc _ IH]; cbn; [reflexivity|].
  rewrite Hc, IH. reflexivity.
Qed.

(* flatten then rebuild gives the node back (without stored aggregates) *)
Lemma rebuild_copy : forall l n, placed l n -> rebuild l (copy_tree n) = Some (strip n).
Proof.
  intros l n. induction n as [id srv i g ch IH] using tnode_ind2. intros Hp.
  inversion Hp as [? ? ? ? ? Hs Hk Hch]; subst.
  cbn [copy_tree strip]. rewrite rebuild_eq, Hs, Hk.
  rewrite (rebuild_all_map l ch strip).
  - reflexivity.
  - rewrite Forall_forall in *. intros c Hc. apply IH; auto.
Qed.

(* ---------- aggregates -------------------------------------------------------------------- *)

Lemma agg_of_strip : forall n, agg_of gadd (strip n) = agg_of gadd n.
Proof.
  induction n as [id srv i g ch IH] using tnode_ind2. cbn [strip agg_of].
  generalize (s_key srv) as a. induction IH as [|c r Hc _ IHr]; intros a; cbn; [reflexivity|].
  rewrite Hc. apply IHr.
Qed.

Lemma fold_agg_strip : forall (ch : list tnode) a,
  fold_left (fun a c => gadd a (agg_of gadd c)) (map strip ch) a =
  fold_left (fun a c => gadd a (agg_of gadd c)) ch a.
Proof.
  induction ch as [|c r IH]; intros a; cbn; [reflexivity|]. rewrite agg_of_strip. apply IH.
Qed.

Lemma with_aggs_strip : forall n, with_aggs gadd (strip n) = with_aggs gadd n.
Proof.
  induction n as [id srv i g ch IH] using tnode_ind2. cbn [strip with_aggs].
  rewrite fold_agg_strip. f_equal. rewrite map_map. apply map_ext_in.
  rewrite Forall_forall in IH. exact IH.
Qed.

Lemma agg_of_with_aggs : forall n, agg_of gadd (with_aggs gadd n) = agg_of gadd n.
Proof.
  induction n as [id srv i g ch IH] using tnode_ind2. cbn [with_aggs agg_of].
  generalize (s_key srv) as a. induction IH as [|c r Hc _ IHr]; intros a; cbn; [reflexivity|].
  rewrite Hc. apply IHr.
Qed.

Lemma with_aggs_idem : forall n, with_aggs gadd (with_aggs gadd n) = with_aggs gadd n.
Proof.
  induction n as [id srv i g ch IH] using tnode_ind2. cbn [with_aggs].
  f_equal.
  - f_equal. generalize (s_key srv) as a.
    clear IH. induction ch as [|c r IHr]; intros a; cbn; [reflexivity|].
    rewrite agg_of_with_aggs. apply IHr.
  - rewrite map_map. apply map_ext_in. rewrite Forall_forall in IH. exact IH.
Qed.

(* after with_aggs EVERY node stores the aggregate of its own subtree *)
Lemma with_aggs_all : forall n x, In x (flat (with_aggs gadd n)) -> n_agg x = Some (agg_of gadd x).
Proof.
  induction n as [id srv i g ch IH] using tnode_ind2. intros x Hx.
  change (with_aggs gadd (Node id srv i g ch)) with
    (Node id srv i (Some (fold_left (fun a c => gadd a (agg_of gadd c)) ch (s_key srv))) (map (with_aggs gadd) ch)) in Hx.
  apply flat_in_cons in Hx as [->|(c & Hc & Hx)].
  - cbn [n_agg agg_of]. f_equal.
    generalize (s_key srv) as a. clear IH. induction ch as [|c r IHr]; intros a; cbn; [reflexivity|].
    rewrite agg_of_with_aggs. apply IHr.
  - apply in_map_iff in Hc as (c0 & <- & Hc0). rewrite Forall_forall in IH. eapply IH; eauto.
Qed.

(* the stored aggregates are the computed ones (what NewTree / MakeTree leave behind) *)
Definition aggs_computed (n : tnode) : Prop := with_aggs gadd n = n.

(* ---------- round trip ------------------------------------------------------------------------ *)

Theorem roundtrip_placed : forall f06 n2 (t : stree) ro,
  t_ro t = Some ro -> placed (r_list ro) (t_root t) ->
  make_tree gadd f06 n2 (to_marshal t) (Some ro) =
  Ok (mkTree (t_id t) (Some ro) (with_aggs gadd (t_root t))).
Proof.
  intros f06 n2 t ro Hro Hp. unfold make_tree, to_marshal. rewrite Hro. cbn.
  rewrite Nat.eqb_refl. cbn. rewrite (rebuild_copy _ _ Hp), with_aggs_strip. reflexivity.
Qed.

(* headline: roster ids pairwise distinct, every node on the member recorded in it, and
   these members have a public key (NewTree needs it for the aggregates) *)
Theorem roundtrip : forall f06 n2 (t : stree) ro,
  t_ro t = Some ro ->
  NoDup (map s_id (r_list ro)) ->
  (forall x, In x (flat (t_root t)) -> nth_error (r_list ro) (n_ridx x) = Some (n_srv x)) ->
  (forall x, In x (flat (t_root t)) -> s_nokey (n_srv x) = false) ->
  make_tree gadd f06 n2 (to_marshal t) (Some ro) =
    Ok (mkTree (t_id t) (Some ro) (with_aggs gadd (t_root t))) /\
  (aggs_computed (t_root t) -> make_tree gadd f06 n2 (to_marshal t) (Some ro) = Ok t) /\
  (forall x, In x (flat (with_aggs gadd (t_root t))) -> n_agg x = Some (agg_of gadd x)).
Proof.
  intros f06 n2 t ro Hro Hnd Hall Hkey.
  pose proof (roundtrip_placed f06 n2 t ro Hro (placed_of_nodup _ _ Hnd Hall Hkey)) as E.
  split; [exact E|]. split.
  - intros Hagg. rewrite E. unfold aggs_computed in Hagg. rewrite Hagg.
    destruct t as [tid tro troot]. cbn in *. subst tro. reflexivity.
  - apply with_aggs_all.
Qed.

(* ---------- what a successful rebuild guarantees (also when roster ids repeat) ------------------ *)

(* the description of a rebuilt node: ids, server ids, children in order *)
Fixpoint norm (m : tmarshal) : tmarshal :=
  match m with
  | TM nid _ sid _ ch => TM nid 0 sid 0 (map norm ch)
  end.

Lemma norm_copy : forall n : tnode, norm (copy_tree n) = copy_tree n.
Proof.
  induction n as [id srv i g ch IH] using tnode_ind2. cbn [copy_tree norm]. f_equal.
  rewrite map_map. apply map_ext_in. rewrite Forall_forall in IH. exact IH.
Qed.

Lemma rebuild_all_inv : forall l cs ns,
  rebuild_all l cs = Some ns -> Forall2 (fun c n => rebuild l c = Some n) cs ns.
Proof.
  induction cs as [|c r IH]; intros ns H; cbn in H.
  - inversion H. constructor.
  - destruct (rebuild l c) eqn:Ec; [|discriminate].
    destruct (rebuild_all l r) eqn:Er; [|discriminate]. inversion H; subst.
    constructor; auto.
Qed.

(* every rebuilt node sits on the FIRST member carrying the described id, and the
   rebuilt tree has exactly the described ids, servers, shape and child order *)
Theorem rebuild_sound : forall l m n,
  rebuild l m = Some n -> placed l n /\ copy_tree n = norm m.
Proof.
  intros l m. induction m as [nid tid sid rid ch IH] using tm_ind2. intros n H.
  rewrite rebuild_eq in H. destruct (search_from l sid 0) as [[i e]|] eqn:Es; [|discriminate].
  destruct (s_nokey e) eqn:Ek; [discriminate|].
  destruct (rebuild_all l ch) as [ns|] eqn:Er; [|discriminate]. inversion H; subst n. clear H.
  apply rebuild_all_inv in Er.
  pose proof (search_from_some _ _ _ _ _ Es) as (_ & _ & Hid & _).
  assert (Hboth : Forall (placed l) ns /\ map copy_tree ns = map norm ch).
  { clear Es. induction Er as [|c n cs ns' Hc _ IHr]; [split; constructor|].
    inversion IH as [|? ? Hc0 IH']; subst.
    destruct (Hc0 _ Hc) as [Hp He]. destruct (IHr IH') as [Hps Hes].
    split; [constructor; auto|]. cbn. rewrite He, Hes. reflexivity. }
  destruct Hboth as [Hps Hes]. split.
  - constructor; [rewrite Hid; exact Es|exact Ek|exact Hps].
  - cbn [copy_tree norm]. rewrite Hid, Hes. reflexivity.
Qed.

(* re-serialising and rebuilding what was learnt gives the same tree again *)
Theorem relearn_same : forall f06 n2 (t t' : stree) ro,
  t_ro t = Some ro ->
  make_tree gadd f06 n2 (to_marshal t) (Some ro) = Ok t' ->
  make_tree gadd f06 n2 (to_marshal t') (Some ro) = Ok t'.
Proof.
  intros f06 n2 t t' ro Hro H. unfold make_tree, to_marshal in H. rewrite Hro in H. cbn in H.
  rewrite Nat.eqb_refl in H. cbn in H.
  destruct (rebuild (r_list ro) (copy_tree (t_root t))) as [n|] eqn:E; [|discriminate].
  inversion H; subst t'. clear H.
  apply rebuild_sound in E as [Hp _].
  assert (Hp' : placed (r_list ro) (with_aggs gadd n)).
  { clear -Hp. induction n as [id srv i g ch IH] using tnode_ind2.
    inversion Hp as [? ? ? ? ? Hs Hk Hch]; subst. cbn [with_aggs]. constructor; [exact Hs|exact Hk|].
    rewrite Forall_forall in *. intros c Hc. apply in_map_iff in Hc as (c0 & <- & Hc0). auto. }
  match goal with
  | |- make_tree _ _ _ (to_marshal ?x) _ = _ => rewrite (roundtrip_placed f06 n2 x ro eq_refl Hp')
  end. cbn. rewrite with_aggs_idem. reflexivity.
Qed.

(* ---------- which descriptions are refused ---------------------------------------------------------- *)

(* every described node finds a member, and that member has a public key *)
Fixpoint members_ok (l : list server) (m : tmarshal) : bool :=
  match m with
  | TM _ _ sid _ ch =>
      match search_from l sid 0 with
      | Some (_, e) => negb (s_nokey e)
      | None => false
      end && forallb (members_ok l) ch
  end.

Lemma rebuild_some_iff : forall l m,
  members_ok l m = true <-> exists n, rebuild l m = Some n.
Proof.
  intros l m. induction m as [nid tid sid rid ch IH] using tm_ind2.
  rewrite rebuild_eq. cbn [members_ok].
  assert (Hch : forallb (members_ok l) ch = true <-> exists ns, rebuild_all l ch = Some ns).
  { induction IH as [|c r Hc _ IHr]; cbn.
    - split; eauto.
    - rewrite andb_true_iff, Hc, IHr. split.
      + intros [[n Hn] [ns Hns]]. rewrite Hn, Hns. eauto.
      + intros [ns H]. destruct (rebuild l c); [|discriminate].
        destruct (rebuild_all l r); [|discriminate]. eauto. }
  destruct (search_from l sid 0) as [[i e]|]; cbn.
  - destruct (s_nokey e); cbn.
    + split; [discriminate|intros [n H]; discriminate].
    + rewrite Hch. split.
      * intros [ns Hns]. rewrite Hns. eauto.
      * intros [n H]. destruct (rebuild_all l ch); [eauto|discriminate].
  - split; [discriminate|intros [n H]; discriminate].
Qed.

(* the description is unusable with this roster: the roster id differs, there is no root
   element, or some node names a server for which the roster search finds no member or a
   member without public key *)
Definition malformed (m : tmarshal) (ro : roster) : bool :=
  negb (r_id ro =? tm_rid m) ||
  match tm_children m with
  | [] => true
  | c :: _ => negb (members_ok (r_list ro) c)
  end.

(* with the length check in place: an unusable description gives an error, any
   other description gives a tree; never a crash *)
Theorem make_tree_fixed_total : forall n2 m ro,
  (malformed m ro = true -> make_tree gadd true n2 m (Some ro) = Err) /\
  (malformed m ro = false -> exists t, make_tree gadd true n2 m (Some ro) = Ok t /\
                                        t_id t = tm_tid m /\ t_ro t = Some ro).
Proof.
  intros n2 m ro. unfold malformed, make_tree.
  destruct (r_id ro =? tm_rid m); cbn.
  2:{ split; [reflexivity|discriminate]. }
  destruct (tm_children m) as [|c r]; cbn.
  { split; [reflexivity|discriminate]. }
  destruct (members_ok (r_list ro) c) eqn:E; cbn.
  - apply rebuild_some_iff in E as [n Hn]. rewrite Hn. split; [discriminate|].
    intros _. eexists. split; [reflexivity|]. cbn. auto.
  - split; [|discriminate]. intros _.
    destruct (rebuild (r_list ro) c) eqn:Er; [|reflexivity].
    assert (members_ok (r_list ro) c = true) by (apply rebuild_some_iff; eauto). congruence.
Qed.

(* the code as it is: identical outside descriptions without root element, where it panics *)
Theorem make_tree_pinned : forall n2 m ro,
  (tm_children m <> [] -> make_tree gadd false n2 m (Some ro) = make_tree gadd true n2 m (Some ro)) /\
  (tm_children m = [] -> r_id ro = tm_rid m -> make_tree gadd false n2 m (Some ro) = Crash).
Proof.
  intros n2 m ro. unfold make_tree. split.
  - intros H. destruct (tm_children m); [congruence|reflexivity].
  - intros H Hid. rewrite H, Hid, Nat.eqb_refl. reflexivity.
Qed.

(* what an accepted description yields, in any variant *)
Theorem make_tree_ok_inv : forall f06 n2 m oro t,
  make_tree gadd f06 n2 m oro = Ok t ->
  exists ro c rest n,
    oro = Some ro /\ r_id ro = tm_rid m /\ tm_children m = c :: rest /\
    rebuild (r_list ro) c = Some n /\
    t = mkTree (tm_tid m) (Some ro) (with_aggs gadd n).
Proof.
  intros f06 n2 m oro t H. unfold make_tree in H.
  destruct oro as [ro|]; [|destruct n2; discriminate].
  destruct (r_id ro =? tm_rid m) eqn:E; cbn in H; [|discriminate].
  destruct (tm_children m) as [|c rest] eqn:Ec; [destruct f06; discriminate|].
  destruct (rebuild (r_list ro) c) as [n|] eqn:Er; [|discriminate].
  inversion H; subst. apply Nat.eqb_eq in E. exists ro, c, rest, n. auto.
Qed.

(* ---------- bytes layer, under the codec hypothesis ------------------------------------------------------ *)

Section Codec.
Variable B : Type.
Variable enc_tm : tmarshal -> B.
Variable dec_tm : B -> option tmarshal.
Hypothesis dec_enc_tm : forall m, dec_tm (enc_tm m) = Some m.
Variable enc_outer : B * option roster -> B.
Variable dec_outer : B -> option (B * option roster).
Hypothesis dec_enc_outer : forall x, dec_outer (enc_outer x) = Some x.

(* Tree.Marshal ; NewTreeFromMarshal *)
Theorem bytes_roundtrip : forall f06 n2 (t : stree) ro,
  t_ro t = Some ro -> NoDup (map s_id (r_list ro)) ->
  (forall x, In x (flat (t_root t)) -> nth_error (r_list ro) (n_ridx x) = Some (n_srv x)) ->
  (forall x, In x (flat (t_root t)) -> s_nokey (n_srv x) = false) ->
  aggs_computed (t_root t) ->
  from_bytes gadd f06 n2 (dec_tm (enc_tm (to_marshal t))) (Some ro) = Ok t.
Proof.
  intros f06 n2 t ro Hro Hnd Hall Hkey Hagg. rewrite dec_enc_tm. unfold from_bytes.
  destruct (roundtrip f06 n2 t ro Hro Hnd Hall Hkey) as (_ & E & _). rewrite (E Hagg).
  unfold aggs_computed in Hagg. rewrite Hagg. destruct t; reflexivity.
Qed.

(* Tree.BinaryMarshaler ; Tree.BinaryUnmarshaler: the roster travels with the bytes *)
Theorem binary_roundtrip : forall f06 n2 (t : stree) ro,
  t_ro t = Some ro -> NoDup (map s_id (r_list ro)) ->
  (forall x, In x (flat (t_root t)) -> nth_error (r_list ro) (n_ridx x) = Some (n_srv x)) ->
  (forall x, In x (flat (t_root t)) -> s_nokey (n_srv x) = false) ->
  aggs_computed (t_root t) ->
  binary_unmarshal gadd f06 n2
    (option_map (fun p => (dec_tm (fst p), snd p))
                (dec_outer (enc_outer (enc_tm (to_marshal t), t_ro t)))) = Ok t.
Proof.
  intros f06 n2 t ro Hro Hnd Hall Hkey Hagg. rewrite dec_enc_outer. cbn. rewrite Hro.
  apply bytes_roundtrip; assumption.
Qed.

(* undecodable bytes are refused *)
Theorem bytes_undecodable : forall f06 n2 b oro, dec_tm b = None -> from_bytes gadd f06 n2 (dec_tm b) oro = Err.
Proof. intros f06 n2 b oro H. rewrite H. reflexivity. Qed.
End Codec.

(* ---------- aggregates over a commutative monoid ------------------------------------------------------------ *)

Section Monoid.
Variable gzero : G.
Hypothesis gadd_assoc : forall a b c, gadd a (gadd b c) = gadd (gadd a b) c.
Hypothesis gadd_zero_r : forall a, gadd a gzero = a.
Hypothesis gadd_zero_l : forall a, gadd gzero a = a.
Hypothesis gadd_comm : forall a b, gadd a b = gadd b a.

Definition gsum (l : list G) : G := fold_right gadd gzero l.

Lemma gsum_app : forall a b, gsum (a ++ b) = gadd (gsum a) (gsum b).
Proof.
  induction a as [|x r IH]; intros b; cbn; [rewrite gadd_zero_l; reflexivity|].
  rewrite IH, gadd_assoc. reflexivity.
Qed.

Lemma fold_left_gadd : forall (l : list G) a, fold_left gadd l a = gadd a (gsum l).
Proof.
  induction l as [|x r IH]; intros a; cbn; [rewrite gadd_zero_r; reflexivity|].
  rewrite IH, gadd_assoc. reflexivity.
Qed.

(* the stored aggregate is the sum of the keys of the subtree (TreeNode.AggregatePublic) *)
Theorem agg_of_sum : forall n : tnode, agg_of gadd n = gsum (map (fun x => s_key (n_srv x)) (flat n)).
Proof.
  induction n as [id srv i g ch IH] using tnode_ind2. cbn [agg_of flat map n_srv gsum fold_right].
  change (fold_right gadd gzero) with gsum.
  assert (E : forall a, fold_left (fun a c => gadd a (agg_of gadd c)) ch a =
                        gadd a (gsum (map (fun x => s_key (n_srv x)) (flat_map (@flat G) ch)))).
  { induction IH as [|c r Hc _ IHr]; intros a; cbn [fold_left flat_map].
    - cbn. rewrite gadd_zero_r. reflexivity.
    - rewrite IHr, map_app, gsum_app, Hc, gadd_assoc. reflexivity. }
  apply E.
Qed.

Lemma gsum_perm : forall a b, Permutation a b -> gsum a = gsum b.
Proof.
  unfold gsum. induction 1; cbn [fold_right]; try congruence.
Qed.

(* ... hence it does not depend on the order of the children *)
Theorem agg_of_children_perm : forall id srv i g (ch ch' : list tnode),
  Permutation ch ch' -> agg_of gadd (Node id srv i g ch) = agg_of gadd (Node id srv i g ch').
Proof.
  intros id srv i g ch ch' Hp. rewrite !agg_of_sum. cbn [flat map gsum fold_right]. f_equal.
  apply gsum_perm. apply Permutation_map.
  induction Hp; cbn; auto.
  - apply Permutation_app_head. exact IHHp.
  - rewrite !app_assoc. apply Permutation_app_tail. apply Permutation_app_comm.
  - eapply perm_trans; eauto.
Qed.
End Monoid.

End Proofs.

(* ---------- concrete witnesses (keys = nat) -------------------------------------------------------------------- *)

Definition sA : server nat := mkSrv 1 10 [] false.
Definition sB : server nat := mkSrv 2 20 [] false.
Definition sA' : server nat := mkSrv 1 30 [] false.      (* carries A's id, another key *)

(* the hypotheses of the round trip are satisfiable *)
Definition ex_ro : roster nat := mkRo 7 [sA; sB].
Definition ex_tree : stree nat :=
  mkTree 9 (Some ex_ro) (Node 100 sA 0 (Some 30) [Node 101 sB 1 (Some 20) []]).

Example roundtrip_example :
  NoDup (map s_id (r_list ex_ro)) /\
  (forall x, In x (flat (t_root ex_tree)) -> nth_error (r_list ex_ro) (n_ridx x) = Some (n_srv x)) /\
  (forall x, In x (flat (t_root ex_tree)) -> s_nokey (n_srv x) = false) /\
  aggs_computed nat Nat.add (t_root ex_tree) /\
  make_tree Nat.add false false (to_marshal ex_tree) (Some ex_ro) = Ok ex_tree.
Proof.
  split; [repeat constructor; cbn; intuition discriminate|].
  split; [intros x [<-|[<-|[]]]; reflexivity|].
  split; [intros x [<-|[<-|[]]]; reflexivity|].
  split; reflexivity.
Qed.

(* a member without public key: a description that places a node on it is refused (also by
   the code as it is), one that does not use it is rebuilt *)
Definition sC_nokey : server nat := mkSrv 3 0 [] true.
Definition nokey_ro : roster nat := mkRo 7 [sA; sB; sC_nokey].

Theorem keyless_member_refused :
  malformed nat (TM 0 9 0 7 [TM 100 0 1 0 [TM 101 0 3 0 []]]) nokey_ro = true /\
  make_tree Nat.add false false (TM 0 9 0 7 [TM 100 0 1 0 [TM 101 0 3 0 []]]) (Some nokey_ro) = Err /\
  exists t, make_tree Nat.add false false (TM 0 9 0 7 [TM 100 0 1 0 [TM 101 0 2 0 []]]) (Some nokey_ro) = Ok t.
Proof. split; [reflexivity|]. split; [reflexivity|]. eexists. reflexivity. Qed.

(* roster ids repeat: every node sits on the member recorded in it, yet the node on
   the SECOND member with that id comes back on the first one (other index, other key,
   other aggregate) *)
Definition rep_ro : roster nat := mkRo 7 [sA; sB; sA'].
Definition rep_tree : stree nat :=
  mkTree 9 (Some rep_ro) (Node 100 sB 1 (Some 50) [Node 101 sA' 2 (Some 30) []]).

Theorem repeated_ids_first_match :
  (forall x, In x (flat (t_root rep_tree)) -> nth_error (r_list rep_ro) (n_ridx x) = Some (n_srv x)) /\
  aggs_computed nat Nat.add (t_root rep_tree) /\
  make_tree Nat.add false false (to_marshal rep_tree) (Some rep_ro) =
    Ok (mkTree 9 (Some rep_ro) (Node 100 sB 1 (Some 30) [Node 101 sA 0 (Some 10) []])) /\
  make_tree Nat.add false false (to_marshal rep_tree) (Some rep_ro) <> Ok rep_tree.
Proof.
  split; [intros x [<-|[<-|[]]]; reflexivity|].
  split; [reflexivity|]. split; [reflexivity|]. vm_compute. discriminate.
Qed.

(* F06: a description without root element crashes the pinned MakeTree *)
Theorem empty_description_crashes :
  make_tree Nat.add false false (TM 0 9 0 7 []) (Some ex_ro) = Crash /\
  make_tree Nat.add true false (TM 0 9 0 7 []) (Some ex_ro) = Err.
Proof. split; reflexivity. Qed.

(* N2: a nil roster is dereferenced by the pinned MakeTree *)
Theorem nil_roster_crashes :
  binary_unmarshal Nat.add false false (Some (Some (to_marshal ex_tree), None)) = Crash /\
  binary_unmarshal Nat.add false true (Some (Some (to_marshal ex_tree), None)) = Err.
Proof. split; reflexivity. Qed.
