(* C06 -- a tree built by the n-ary generator (Tree/TreeGenNary.v) over a roster of pairwise
   distinct servers with keys satisfies the hypotheses of the round-trip theorem, whatever the
   root: what the sender generates is what every receiver rebuilds. *)
From Coq Require Import List Arith Bool Lia.
Import ListNotations.
From Onet Require Import Tree.TreeMarshal Tree.TreeMarshalProofs Tree.TreeGenNary.

Section Proofs.
Variable G : Type.
Variable gadd : G -> G -> G.
Variable idf : server G -> nat.

Notation tnode := (tnode G).

Fixpoint collect (g : nat -> option tnode) (cs : list nat) : option (list tnode) :=
  match cs with
  | [] => Some []
  | c :: r => match g c with
              | None => None
              | Some t => match collect g r with None => None | Some ts => Some (t :: ts) end
              end
  end.

Lemma nary_node_eq : forall f l N root k,
  nary_node idf (S f) l N root k =
  match nth_error l ((k + root) mod length l) with
  | None => None
  | Some srv =>
      match collect (nary_node idf f l N root) (filter (fun c => c <? length l) (seq (N * k + 1) N)) with
      | None => None
      | Some ch => Some (Node (idf srv) srv ((k + root) mod length l) None ch)
      end
  end.
Proof.
  intros f l N root k. cbn [nary_node].
  destruct (nth_error l ((k + root) mod length l)); [|reflexivity].
  generalize (filter (fun c => c <? length l) (seq (N * k + 1) N)) as cs. intros cs.
  assert (E : (fix go (cs : list nat) : option (list tnode) :=
                 match cs with
                 | [] => Some []
                 | c :: r => match nary_node idf f l N root c with
                             | Some t => match go r with Some ts => Some (t :: ts) | None => None end
                             | None => None
                             end
                 end) cs = collect (nary_node idf f l N root) cs).
  { induction cs as [|c r IH]; cbn; [reflexivity|]. destruct (nary_node idf f l N root c); [|reflexivity].
    rewrite IH. reflexivity. }
  rewrite E. reflexivity.
Qed.

Lemma collect_inv : forall g cs ts, collect g cs = Some ts -> forall t, In t ts -> exists c, In c cs /\ g c = Some t.
Proof.
  intros g. induction cs as [|c r IH]; intros ts H t Ht; cbn in H.
  - inversion H; subst. destruct Ht.
  - destruct (g c) eqn:Ec; [|discriminate]. destruct (collect g r) eqn:Er; [|discriminate].
    inversion H; subst. destruct Ht as [<-|Ht]; [exists c; split; [left|]; auto|].
    destruct (IH _ eq_refl _ Ht) as (c' & Hc & Hg). exists c'. split; [right|]; auto.
Qed.

(* every node of a generated tree records the roster position of its own server *)
Theorem nary_node_positions : forall f l N root k t,
  nary_node idf f l N root k = Some t ->
  forall x, In x (flat t) -> nth_error l (n_ridx x) = Some (n_srv x).
Proof.
  induction f as [|f IH]; intros l N root k t H x Hx; [discriminate|].
  rewrite nary_node_eq in H.
  destruct (nth_error l ((k + root) mod length l)) as [srv|] eqn:En; [|discriminate].
  destruct (collect _ _) as [ch|] eqn:Ec; [|discriminate]. inversion H; subst t. clear H.
  apply flat_in_cons in Hx as [->|(c & Hc & Hx)]; [exact En|].
  destruct (collect_inv _ _ _ Ec _ Hc) as (c' & _ & Hg). eapply IH; eauto.
Qed.

Lemma placed_with_aggs : forall l (n : tnode), placed G l n -> placed G l (with_aggs gadd n).
Proof.
  intros l n. induction n as [id srv i g ch IH] using tnode_ind2. intros Hp.
  inversion Hp as [? ? ? ? ? Hs Hk Hch]; subst. cbn [with_aggs]. constructor; [exact Hs|exact Hk|].
  rewrite Forall_forall in *. intros c Hc. apply in_map_iff in Hc as (c0 & <- & Hc0). auto.
Qed.

(* headline: for any branching factor and ANY root position, the generated tree comes back
   from flatten-and-rebuild exactly as it was sent (ids, shape, child order, roster positions,
   aggregates) -- also with the code as it is (any f06, n2) *)
Theorem generated_tree_roundtrips : forall f06 n2 tid (ro : roster G) N root t,
  NoDup (map s_id (r_list ro)) ->
  (forall e, In e (r_list ro) -> s_nokey e = false) ->
  nary_tree gadd idf tid ro N root = Some t ->
  make_tree gadd f06 n2 (to_marshal t) (Some ro) = Ok t /\
  (forall x, In x (flat (t_root t)) -> nth_error (r_list ro) (n_ridx x) = Some (n_srv x)).
Proof.
  intros f06 n2 tid ro N root t Hnd Hkey H. unfold nary_tree in H.
  destruct (length (r_list ro) =? 0); [discriminate|].
  destruct (nary_node idf (length (r_list ro)) (r_list ro) N root 0) as [t0|] eqn:E; [|discriminate].
  inversion H; subst t. clear H.
  pose proof (nary_node_positions _ _ _ _ _ _ E) as Hpos.
  assert (Hp : placed G (r_list ro) t0).
  { apply placed_of_nodup; [exact Hnd|exact Hpos|].
    intros x Hx. apply Hkey. eapply nth_error_In. apply Hpos. exact Hx. }
  pose proof (placed_with_aggs _ _ Hp) as Hp'.
  split.
  - rewrite (roundtrip_placed G gadd f06 n2 (mkTree tid (Some ro) (with_aggs gadd t0)) ro eq_refl Hp').
    cbn. rewrite with_aggs_idem. reflexivity.
  - cbn [t_root]. clear -Hp'. induction (with_aggs gadd t0) as [id srv i g ch IH] using tnode_ind2.
    intros x Hx. inversion Hp' as [? ? ? ? ? Hs Hk Hch]; subst.
    apply flat_in_cons in Hx as [->|(c & Hc & Hx)].
    + pose proof (search_from_some G _ _ _ _ _ Hs) as (_ & Hn & _). rewrite Nat.sub_0_r in Hn. exact Hn.
    + rewrite Forall_forall in IH, Hch. eapply IH; eauto.
Qed.

(* ---------- NewTree ; AddChild ... ; NewTree ------------------------------------------------------ *)

Lemma strip_with_aggs : forall n : tnode, strip G (with_aggs gadd n) = strip G n.
Proof.
  induction n as [id srv i g ch IH] using tnode_ind2. cbn [with_aggs strip]. f_equal.
  rewrite map_map. apply map_ext_in. rewrite Forall_forall in IH. exact IH.
Qed.

Lemma strip_add_child : forall path (c n : tnode),
  strip G (add_child path c n) = add_child path (strip G c) (strip G n).
Proof.
  induction path as [|k r IH]; intros c n; destruct n as [id srv i g ch]; cbn [add_child strip].
  - rewrite map_app. reflexivity.
  - f_equal. generalize 0 as j. induction ch as [|x l IHl]; intros j; cbn; [reflexivity|].
    rewrite IHl. f_equal. destruct (j =? k); [apply IH|reflexivity].
Qed.

(* the aggregates NewTree stores after an extension are those of the final tree: whatever an
   earlier NewTree left in the nodes (stale values on the path to the root) is overwritten *)
Theorem newtree_after_extension : forall path (c n : tnode),
  with_aggs gadd (add_child path c (with_aggs gadd n)) = with_aggs gadd (add_child path c n).
Proof.
  intros path c n.
  rewrite <- (with_aggs_strip G gadd (add_child path c (with_aggs gadd n))).
  rewrite <- (with_aggs_strip G gadd (add_child path c n)).
  rewrite !strip_add_child, strip_with_aggs. reflexivity.
Qed.

End Proofs.

(* a tree used, extended under the root and under a child, and made into a tree again: every
   node on the path to the root gets its new aggregate *)
Example extension_example :
  let s := fun i k => mkSrv i k [] false in
  let t1 := with_aggs Nat.add (Node 101 (s 1 10) 0 None [Node 102 (s 2 20) 1 None []]) in
  let t2 := with_aggs Nat.add (add_child [0] (Node 104 (s 4 40) 3 None [])
                                 (add_child [] (Node 103 (s 3 30) 2 None []) t1)) in
  map (fun x => n_agg x) (flat t1) = [Some 30; Some 20] /\
  map (fun x => n_agg x) (flat t2) = [Some 100; Some 60; Some 40; Some 30].
Proof. split; reflexivity. Qed.

(* the hypotheses are satisfiable, with a root that is not member 0: 5 servers, binary, root 3 *)
Definition g_ro : roster nat :=
  mkRo 7 [mkSrv 1 10 [] false; mkSrv 2 20 [] false; mkSrv 3 30 [] false; mkSrv 4 40 [] false; mkSrv 5 50 [] false].

Example generated_example :
  exists t, nary_tree Nat.add (fun s => 100 + s_id s) 9 g_ro 2 3 = Some t /\
            map (fun x => n_ridx x) (flat (t_root t)) = [3; 4; 1; 2; 0] /\
            make_tree Nat.add false false (to_marshal t) (Some g_ro) = Ok t.
Proof. eexists. split; [vm_compute; reflexivity|]. split; vm_compute; reflexivity. Qed.

(* the seeded slip (loop counter recorded instead of the roster position) is exactly what the
   round trip does not preserve: same servers, positions 0 1 2 3 4 recorded, rebuilt with the
   true positions *)
Example wrong_positions_do_not_roundtrip :
  let s := fun i k => mkSrv i k [] false in
  let t := mkTree 9 (Some g_ro)
             (with_aggs Nat.add (Node 104 (s 4 40) 3 None [Node 105 (s 5 50) 1 None []; Node 101 (s 1 10) 2 None []])) in
  exists t', make_tree Nat.add false false (to_marshal t) (Some g_ro) = Ok t' /\ t' <> t /\
             map (fun x => n_ridx x) (flat (t_root t')) = [3; 4; 0].
Proof. eexists. split; [vm_compute; reflexivity|]. split; [discriminate|reflexivity]. Qed.
