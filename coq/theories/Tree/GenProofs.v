(* C12 -- proofs about the tree generators of Tree/Gen.v *)
From Coq Require Import List ListDec Arith Bool Lia.
Import ListNotations.
From Onet Require Import Tree.Gen.

(* ------------------------------------------------------------------------ *)
(* n-ary generator: the loop computes the closed form                        *)

Definition zeros (a len : nat) : list (nat * nat) := map (fun k => (k, 0)) (seq a len).

Definition spec_entry (n N root k : nat) : nat * nat := ((k + root) mod n, (k - 1) / N).

(* loop invariant before iteration i (i >= 1) *)
Definition NInv (n N root i : nat) (st : nst) : Prop :=
  exists p q,
    parents st = (p, i - 1 - N * p) :: zeros (S p) (q - S p) /\
    children st = seq q (i - q) /\
    p < q /\ q <= i /\ N * p <= i - 1 /\ i - 1 <= N * p + N /\
    acc st = rev ((root, 0) :: map (spec_entry n N root) (seq 1 (i - 1))).

Lemma div_unique_lt a b q : b * q <= a -> a < b * q + b -> a / b = q.
Proof.
  intros H1 H2. symmetry. apply (Nat.div_unique a b q (a - b * q)); lia.
Qed.

Lemma nary_step_inv n N root i st :
  1 <= N -> 1 <= i -> NInv n N root i st ->
  exists st', nary_step n N root st i = Some st' /\ NInv n N root (S i) st'.
Proof.
  intros HN Hi (p & q & Hpar & Hch & Hpq & Hqi & Hlo & Hhi & Hacc).
  unfold nary_step. rewrite Hpar.
  assert (Hacc' : forall par, par = (i - 1) / N ->
            ((i + root) mod n, par) :: acc st =
            rev ((root, 0) :: map (spec_entry n N root) (seq 1 (S i - 1)))).
  { intros par ->. rewrite Hacc. replace (S i - 1) with (S (i - 1)) by lia.
    rewrite seq_S, map_app. cbn [map]. replace (1 + (i - 1)) with i by lia.
    change ((root, 0) :: map (spec_entry n N root) (seq 1 (i - 1)) ++ [spec_entry n N root i])
      with (((root, 0) :: map (spec_entry n N root) (seq 1 (i - 1))) ++ [spec_entry n N root i]).
    rewrite rev_app_distr. reflexivity. }
  destruct (Nat.eqb_spec (i - 1 - N * p) N) as [Hfull|Hnot].
  - (* parents[0] is full: pop it *)
    destruct (q - S p) as [|m] eqn:Hm.
    + (* no parent left: the children become the parents *)
      cbn [zeros seq map]. rewrite Hch.
      assert (q = S p) by lia. subst q.
      destruct (i - S p) as [|m'] eqn:Hm'; [nia|].
      cbn [seq map]. eexists. split; [reflexivity|].
      exists (S p), i. cbn [parents children acc]. repeat split.
      * f_equal; [f_equal; nia|]. unfold zeros. f_equal. f_equal. lia.
      * replace (S i - i) with 1 by lia. replace (i - i) with 0 by lia. reflexivity.
      * lia.
      * lia.
      * nia.
      * nia.
      * apply Hacc'. symmetry. apply div_unique_lt; nia.
    + cbn [zeros seq map]. eexists. split; [reflexivity|].
      exists (S p), q. cbn [parents children acc]. repeat split.
      * f_equal; [f_equal; nia|]. unfold zeros. f_equal. f_equal. lia.
      * rewrite Hch. replace (S i - q) with (S (i - q)) by lia. rewrite seq_S. f_equal. f_equal. lia.
      * lia.
      * lia.
      * nia.
      * nia.
      * apply Hacc'. symmetry. apply div_unique_lt; nia.
  - eexists. split; [reflexivity|].
    exists p, q. cbn [parents children acc]. repeat split.
    * f_equal. f_equal. lia.
    * rewrite Hch. replace (S i - q) with (S (i - q)) by lia. rewrite seq_S. f_equal. f_equal. lia.
    * lia.
    * lia.
    * lia.
    * lia.
    * apply Hacc'. symmetry. apply div_unique_lt; nia.
Qed.

Lemma nary_loop_inv n N root len : forall i st,
  1 <= N -> 1 <= i -> NInv n N root i st ->
  exists st', nary_loop n N root (seq i len) st = Some st' /\ NInv n N root (i + len) st'.
Proof.
  induction len as [|len IH]; intros i st HN Hi Hinv.
  - exists st. split; [reflexivity|]. now rewrite Nat.add_0_r.
  - cbn [seq nary_loop].
    destruct (nary_step_inv n N root i st HN Hi Hinv) as (st1 & -> & Hinv1).
    destruct (IH (S i) st1 HN ltac:(lia) Hinv1) as (st2 & Hl & Hinv2).
    exists st2. split; [exact Hl|]. now replace (i + S len) with (S i + len) by lia.
Qed.

Lemma gen_nary_from_spec n N root : 1 <= N -> 1 <= n ->
  gen_nary_from n N root = GTree (nary_spec n N root).
Proof.
  intros HN Hn. unfold gen_nary_from.
  set (st0 := {| parents := [(0, 0)]; children := []; acc := [(root, 0)] |}).
  assert (H0 : NInv n N root 1 st0).
  { exists 0, 1. cbn. repeat split; try lia. }
  destruct (nary_loop_inv n N root (n - 1) 1 st0 HN ltac:(lia) H0) as (st' & -> & Hinv).
  destruct Hinv as (p & q & _ & _ & _ & _ & _ & _ & Hacc).
  rewrite Hacc, rev_involutive. unfold nary_spec.
  replace (1 + (n - 1) - 1) with (n - 1) by lia. reflexivity.
Qed.

(* ------------------------------------------------------------------------ *)
(* consequences of the closed form                                           *)

Lemma nary_spec_length n N root : length (nary_spec n N root) = S (n - 1).
Proof. unfold nary_spec. cbn [length]. now rewrite map_length, seq_length. Qed.

Lemma nary_spec_nth n N root k : 1 <= k -> k < n ->
  nth_error (nary_spec n N root) k = Some ((k + root) mod n, (k - 1) / N).
Proof.
  intros H1 H2. unfold nary_spec. destruct k as [|k]; [lia|]. cbn [nth_error].
  rewrite nth_error_map. rewrite nth_error_nth' with (d := 0) by (rewrite seq_length; lia).
  rewrite seq_nth by lia. cbn [option_map]. reflexivity.
Qed.

(* parent of node k (k >= 1) is (k-1)/N < k : consistent parent links, BFS filling *)
Lemma nary_parent_lt N k : 1 <= N -> 1 <= k -> (k - 1) / N < k.
Proof.
  intros HN Hk. apply Nat.le_lt_trans with (k - 1); [|lia].
  apply Nat.div_le_upper_bound; nia.
Qed.

(* node p has exactly the children N*p+1 .. N*p+N (those below n): at most N *)
Lemma nary_children_range N p k : 1 <= N -> 1 <= k ->
  (k - 1) / N = p <-> N * p + 1 <= k <= N * p + N.
Proof.
  intros HN Hk. split.
  - intros <-. pose proof (Nat.div_mod (k - 1) N ltac:(lia)).
    pose proof (Nat.mod_upper_bound (k - 1) N ltac:(lia)). nia.
  - intros [H1 H2]. apply div_unique_lt; nia.
Qed.

(* roster positions: node k sits on member (k+root) mod n; this is a bijection of 0..n-1 *)
Lemma rot_inj n root a b : a < n -> b < n -> (a + root) mod n = (b + root) mod n -> a = b.
Proof.
  intros Ha Hb H.
  assert (Hn : n <> 0) by lia.
  pose proof (Nat.div_mod (a + root) n Hn) as Da.
  pose proof (Nat.div_mod (b + root) n Hn) as Db.
  rewrite H in Da.
  assert ((a + root) / n = (b + root) / n \/ (a + root) / n < (b + root) / n \/ (b + root) / n < (a + root) / n) as [E|[E|E]] by lia.
  - rewrite E in Da. lia.
  - exfalso. pose proof (Nat.mod_upper_bound (b + root) n Hn). nia.
  - exfalso. pose proof (Nat.mod_upper_bound (b + root) n Hn). nia.
Qed.

Lemma rot_lt n root k : 1 <= n -> (k + root) mod n < n.
Proof. intros. apply Nat.mod_upper_bound. lia. Qed.

(* every member r < n is hit by exactly one k < n *)
Lemma rot_surj n root r : r < n -> root < n -> exists k, k < n /\ (k + root) mod n = r.
Proof.
  intros Hr Hroot. destruct (le_lt_dec root r) as [H|H].
  - exists (r - root). split; [lia|]. replace (r - root + root) with r by lia. now apply Nat.mod_small.
  - exists (r + n - root). split; [lia|].
    replace (r + n - root + root) with (r + 1 * n) by lia.
    rewrite Nat.mod_add by lia. now apply Nat.mod_small.
Qed.

(* star: with N = n-1 every non-root node hangs off the root *)
Lemma star_parent n k : 2 <= n -> 1 <= k -> k < n -> (k - 1) / (n - 1) = 0.
Proof. intros. apply Nat.div_small. lia. Qed.

(* ------------------------------------------------------------------------ *)
(* big generator: node count                                                  *)

Lemma place_total cnt : forall hosts useAll ilLen parent ph st created st' created',
  place cnt hosts useAll ilLen parent ph st created = Some (st', created') ->
  total st' = total st + cnt /\ length (bacc st') = length (bacc st) + cnt.
Proof.
  induction cnt as [|c IH]; intros hosts useAll ilLen parent ph st created st' created' H.
  - cbn in H. inversion H; subst. lia.
  - cbn [place] in H.
    destruct (nth_error hosts (roIndex st)); [|discriminate].
    destruct (search _ _ _ _ _ _ _ _ _ _) as [ri|]; [|discriminate].
    apply IH in H. cbn [total bacc length] in H. lia.
Qed.

(* the level loop never overshoots, and places at least one node if it starts below [nodes] *)
Lemma level_total hosts useAll ilLen N nodes L : forall lvl i st newlvl st' newlvl',
  1 <= N -> i + length lvl = L ->
  level hosts useAll ilLen N nodes L lvl i st newlvl = Some (st', newlvl') ->
  total st <= nodes ->
  length (bacc st) = total st ->
  total st <= total st' <= nodes /\ length (bacc st') = total st' /\
  (lvl <> [] -> total st < nodes -> total st < total st').
Proof.
  induction lvl as [|[p pr] rest IH]; intros i st newlvl st' newlvl' HN HL H Hle Hlen.
  - cbn in H. inversion H; subst. repeat split; try lia. intros; congruence.
  - cbn [level] in H. cbn [length] in HL.
    set (want := (nodes - total st) * (i + 1) / L) in H.
    set (cnt := if N <? want then N else want) in H.
    destruct (nth_error hosts pr); [|discriminate].
    destruct (place cnt hosts useAll ilLen p n st []) as [[st1 created]|] eqn:Hp; [|discriminate].
    apply place_total in Hp. destruct Hp as [Ht Hb].
    assert (Hwant : want <= nodes - total st).
    { unfold want. apply Nat.div_le_upper_bound; [lia|]. nia. }
    assert (Hcnt : cnt <= nodes - total st).
    { unfold cnt. destruct (N <? want) eqn:E; [apply Nat.ltb_lt in E|]; lia. }
    apply IH in H; try lia.
    destruct H as (H1 & H2 & H3). repeat split; try lia.
    intros _ Hlt.
    destruct rest as [|x rest'].
    + (* last parent of the level takes min N (remaining) >= 1 *)
      cbn [length] in HL.
      assert (want = nodes - total st).
      { unfold want. replace (i + 1) with L by lia. apply Nat.div_mul. lia. }
      assert (1 <= cnt).
      { unfold cnt. destruct (N <? want) eqn:E; [apply Nat.ltb_lt in E|]; lia. }
      lia.
    + assert (total st1 < nodes -> total st1 < total st') by (apply H3; congruence).
      destruct (Nat.eq_dec (total st1) nodes); lia.
Qed.


(* ---- level sizes of the big generator ----------------------------------------- *)

(* share of parent i (0-based) out of L when [rem] nodes remain: min N (rem*(i+1)/L) *)
Definition share (N L rem i : nat) : nat := Nat.min N (rem * (i + 1) / L).

Lemma share_is_cnt N L rem i : (if N <? rem * (i + 1) / L then N else rem * (i + 1) / L) = share N L rem i.
Proof. unfold share. destruct (Nat.ltb_spec N (rem * (i + 1) / L)); [now rewrite Nat.min_l by lia|now rewrite Nat.min_r]. Qed.

Lemma share_le_rem N L rem i : i < L -> share N L rem i <= rem.
Proof.
  intros H. unfold share. etransitivity; [apply Nat.le_min_r|].
  apply Nat.div_le_upper_bound; [lia|]. nia.
Qed.

(* full case: enough nodes remain for every later parent to get N *)
Lemma share_full N L rem i : 1 <= N -> i < L -> N * (L - i) <= rem -> share N L rem i = N.
Proof.
  intros HN Hi Hrem. unfold share. apply Nat.min_l.
  apply Nat.div_le_lower_bound; [lia|].
  (* L*N <= rem*(i+1) ; rem >= N*(L-i), (L-i)*(i+1) >= L *)
  remember (L - i - 1) as k eqn:Hk. assert (E : L - i = k + 1) by lia. rewrite E in Hrem.
  assert (HL : L = i + 1 + k) by lia. clear Hk E. subst L.
  assert (H1 : (k + 1) * (i + 1) >= i + 1 + k) by nia.
  assert (H2 : N * ((k + 1) * (i + 1)) >= N * (i + 1 + k)) by (apply Nat.mul_le_mono_l; lia).
  assert (H3 : rem * (i + 1) >= N * (k + 1) * (i + 1)) by (apply Nat.mul_le_mono_r; lia).
  nia.
Qed.

(* capacity invariant: if rem <= N*(L-i) then after the share, rem' <= N*(L-i-1) *)
Lemma share_capacity N L rem i : 1 <= N -> i < L -> rem <= N * (L - i) ->
  rem - share N L rem i <= N * (L - i - 1).
Proof.
  intros HN Hi Hrem. unfold share.
  remember (L - i - 1) as k eqn:Hk. assert (E : L - i = k + 1) by lia. rewrite E in Hrem.
  assert (HL : L = i + 1 + k) by lia. clear Hk E.
  destruct (Nat.le_gt_cases N (rem * (i + 1) / L)) as [Hge|Hlt].
  - rewrite Nat.min_l by assumption. nia.
  - rewrite Nat.min_r by lia.
    set (q := rem * (i + 1) / L) in *.
    assert (Hq1 : L * q <= rem * (i + 1)) by (apply Nat.mul_div_le; lia).
    assert (Hq2 : rem * (i + 1) < L * (q + 1)).
    { pose proof (Nat.div_mod (rem * (i + 1)) L ltac:(lia)) as Hd.
      pose proof (Nat.mod_upper_bound (rem * (i + 1)) L ltac:(lia)). fold q in Hd. nia. }
    destruct (Nat.le_gt_cases (rem - q) (N * k)) as [|Hbad]; [assumption|exfalso].
    assert (rem >= q + N * k + 1) by lia.
    assert ((q + N * k + 1) * (i + 1) <= rem * (i + 1)) by nia.
    assert (N * (i + 1) >= q + 1) by nia.
    subst L. nia.
Qed.

(* the last parent takes everything that is left when it fits *)
Lemma share_last N L rem : 1 <= L -> rem <= N -> share N L rem (L - 1) = rem.
Proof.
  intros HL Hrem. unfold share. replace (L - 1 + 1) with L by lia.
  rewrite Nat.div_mul by lia. now apply Nat.min_r.
Qed.

Lemma place_created cnt : forall hosts useAll ilLen parent ph st created st' created',
  place cnt hosts useAll ilLen parent ph st created = Some (st', created') ->
  length created' = length created + cnt.
Proof.
  induction cnt as [|c IH]; intros hosts useAll ilLen parent ph st created st' created' H.
  - cbn in H. inversion H; subst. lia.
  - cbn [place] in H.
    destruct (nth_error hosts (roIndex st)); [|discriminate].
    destruct (search _ _ _ _ _ _ _ _ _ _) as [ri|]; [|discriminate].
    apply IH in H. rewrite app_length in H. cbn in H. lia.
Qed.

(* one pass over the parents of a level: either every remaining parent gets N children
   (enough nodes remain), or the pass ends exactly at [nodes] *)
Lemma level_fill hosts useAll ilLen N nodes L : forall lvl i st newlvl st' newlvl',
  1 <= N -> i + length lvl = L ->
  level hosts useAll ilLen N nodes L lvl i st newlvl = Some (st', newlvl') ->
  total st <= nodes ->
  total st <= total st' /\
  length newlvl' = length newlvl + (total st' - total st) /\
  (N * (L - i) <= nodes - total st -> total st' = total st + N * length lvl) /\
  (nodes - total st <= N * (L - i) -> lvl <> [] -> total st' = nodes).
Proof.
  induction lvl as [|[p pr] rest IH]; intros i st newlvl st' newlvl' HN HL H Hle.
  - cbn in H. inversion H; subst. split; [lia|]. split; [lia|]. split; [intros _; cbn; lia|]. intros _ Hc. congruence.
  - cbn [level] in H. cbn [length] in HL.
    rewrite share_is_cnt in H.
    set (cnt := share N L (nodes - total st) i) in H.
    destruct (nth_error hosts pr); [|discriminate].
    destruct (place cnt hosts useAll ilLen p n st []) as [[st1 created]|] eqn:Hp; [|discriminate].
    pose proof (place_created _ _ _ _ _ _ _ _ _ _ Hp) as Hc. cbn in Hc.
    apply place_total in Hp. destruct Hp as [Ht Hb].
    assert (Hcnt : cnt <= nodes - total st) by (apply share_le_rem; lia).
    destruct (IH (S i) st1 _ st' newlvl' HN ltac:(lia) H ltac:(lia)) as (H0 & H1 & H2 & H3).
    rewrite app_length, map_length in H1.
    repeat split.
    + lia.
    + lia.
    + intros Hfull. assert (cnt = N) by (apply share_full; lia). cbn [length].
      rewrite H2; [nia|]. replace (L - S i) with (L - i - 1) by lia.
      remember (L - i - 1) as k. assert (L - i = k + 1) by lia. nia.
    + intros Hcap _.
      assert (Hcap1 : nodes - total st - cnt <= N * (L - i - 1)) by (apply share_capacity; lia).
      destruct rest as [|x rest'].
      * cbn in H1. cbn [length] in HL.
        assert (cnt = nodes - total st).
        { unfold cnt. replace i with (L - 1) by lia. apply share_last; [lia|].
          replace (L - i) with 1 in Hcap by lia. lia. }
        assert (total st' = total st1).
        { rewrite H2; [cbn; lia|]. replace (L - S i) with 0 by lia. lia. }
        lia.
      * apply H3; [|congruence]. replace (L - S i) with (L - i - 1) by lia. lia.
Qed.

(* level sizes, most recent level first: every level is N times the one before it *)
Fixpoint rfull (N : nat) (l : list nat) : Prop :=
  match l with
  | [] => False
  | [c] => c = 1
  | c :: ((d :: _) as r) => c = N * d /\ rfull N r
  end.

(* ... except that the most recent (= last, deepest) level may be partly filled *)
Definition rshape (N : nat) (l : list nat) : Prop :=
  match l with
  | [] => False
  | [c] => c = 1
  | c :: ((d :: _) as r) => 1 <= c <= N * d /\ rfull N r
  end.

Lemma rfull_pos N l : 1 <= N -> rfull N l -> 1 <= hd 0 l.
Proof.
  intros HN. induction l as [|c [|d r] IH]; cbn; intros H; try tauto; try lia.
  destruct H as [-> H]. specialize (IH H). cbn in IH. nia.
Qed.

Lemma rfull_rshape N l : 1 <= N -> rfull N l -> rshape N l.
Proof.
  intros HN. destruct l as [|c [|d r]]; cbn; auto. intros [-> H]. split; auto.
  pose proof (rfull_pos N (d :: r) HN H). cbn in *. nia.
Qed.

Lemma levels_shape fuel : forall hosts useAll ilLen N nodes lvl st sizes st' sizes',
  1 <= N ->
  levels fuel hosts useAll ilLen N nodes lvl st sizes = Some (st', sizes') ->
  total st <= nodes -> length (bacc st) = total st ->
  length lvl = hd 0 sizes -> total st = list_sum sizes -> rfull N sizes ->
  total st' = nodes /\ length (bacc st') = nodes /\ list_sum sizes' = nodes /\ rshape N sizes'.
Proof.
  induction fuel as [|f IH]; intros hosts useAll ilLen N nodes lvl st sizes st' sizes' HN H Hle Hlen Hl Hs Hf.
  - cbn in H. destruct (nodes <=? total st) eqn:E; [|discriminate].
    apply Nat.leb_le in E. inversion H; subst. repeat split; try lia. now apply rfull_rshape.
  - cbn [levels] in H. destruct (nodes <=? total st) eqn:E.
    + apply Nat.leb_le in E. inversion H; subst. repeat split; try lia. now apply rfull_rshape.
    + apply Nat.leb_gt in E.
      destruct (level _ _ _ _ _ _ _ _ _ _) as [[st1 newlvl]|] eqn:Hlv; [|discriminate].
      pose proof (rfull_pos N sizes HN Hf) as Hpos.
      assert (Hne : lvl <> []) by (destruct lvl; cbn in *; [lia|discriminate]).
      pose proof (level_total _ _ _ _ _ _ _ _ _ _ _ _ HN eq_refl Hlv Hle Hlen) as (T1 & T2 & T3).
      destruct (level_fill _ _ _ _ _ _ _ _ _ _ _ _ HN eq_refl Hlv Hle) as (F0 & F1 & F2 & F3).
      cbn [length] in F1. rewrite Nat.sub_0_r in F2, F3.
      destruct (Nat.le_gt_cases (N * length lvl) (nodes - total st)) as [Hfull|Hpart].
      * (* a full level *)
        specialize (F2 Hfull).
        assert (A3 : length newlvl = total st1 - total st) by (cbn in F1; lia).
        apply (IH _ _ _ _ _ _ _ _ _ _ HN H); [lia|lia|reflexivity| |].
        -- cbn [list_sum fold_right]. change (fold_right Init.Nat.add 0 sizes) with (list_sum sizes). lia.
        -- destruct sizes as [|d r]; [cbn in Hf; tauto|]. cbn in Hl. cbn [rfull]. split; [|exact Hf]. cbn. nia.
      * (* the last level: the pass ends at [nodes], the loop stops *)
        specialize (F3 ltac:(lia) Hne).
        assert (A3 : length newlvl = total st1 - total st) by (cbn in F1; lia).
        destruct f as [|f'].
        -- cbn in H. rewrite F3, Nat.leb_refl in H. inversion H; subst.
           repeat split; try lia.
           ++ cbn [list_sum fold_right]. change (fold_right Init.Nat.add 0 sizes) with (list_sum sizes). lia.
           ++ destruct sizes as [|d r]; [cbn in Hf; tauto|]. cbn in Hl. cbn [rshape]. split; [|exact Hf]. cbn in *. nia.
        -- cbn [levels] in H. rewrite F3, Nat.leb_refl in H. inversion H; subst.
           repeat split; try lia.
           ++ cbn [list_sum fold_right]. change (fold_right Init.Nat.add 0 sizes) with (list_sum sizes). lia.
           ++ destruct sizes as [|d r]; [cbn in Hf; tauto|]. cbn in Hl. cbn [rshape]. split; [|exact Hf]. cbn in *. nia.
Qed.

Lemma gen_big_full_spec hosts N nodes st sizes : 1 <= N -> 1 <= nodes ->
  gen_big_full hosts N nodes = Some (st, sizes) ->
  length (bacc st) = nodes /\ list_sum sizes = nodes /\ rshape N sizes.
Proof.
  intros HN Hn. unfold gen_big_full.
  destruct (length hosts =? 0); [discriminate|]. intros H.
  apply levels_shape in H; cbn; try lia; auto. tauto.
Qed.

Lemma gen_big_count hosts N nodes l : 1 <= N -> 1 <= nodes ->
  gen_big hosts N nodes = GTree l -> length l = nodes.
Proof.
  intros HN Hn. unfold gen_big. destruct (gen_big_full hosts N nodes) as [[st sizes]|] eqn:E; [|discriminate].
  intros H. inversion H; subst. rewrite rev_length. now apply (gen_big_full_spec hosts N nodes st sizes).
Qed.

(* all levels but the deepest are full (N children per node of the level above), the
   deepest holds what is left; [sizes] lists the level sizes root level first *)
Lemma gen_big_levels hosts N nodes sizes : 1 <= N -> 1 <= nodes ->
  gen_big_sizes hosts N nodes = Some sizes ->
  list_sum sizes = nodes /\ rshape N (rev sizes).
Proof.
  intros HN Hn. unfold gen_big_sizes. destruct (gen_big_full hosts N nodes) as [[st sz]|] eqn:E; [|discriminate].
  intros H. inversion H; subst. destruct (gen_big_full_spec hosts N nodes st sz HN Hn E) as (_ & H1 & H2).
  rewrite rev_involutive. split; [|exact H2].
  rewrite <- H1. clear. induction sz as [|x r IH]; [reflexivity|].
  cbn [rev]. rewrite list_sum_app, IH. unfold list_sum. cbn [fold_right]. lia.
Qed.

Example big_sizes_example : gen_big_sizes [0; 1; 2] 2 12 = Some [1; 2; 4; 5].
Proof. vm_compute. reflexivity. Qed.

(* ------------------------------------------------------------------------ *)
(* node identifiers                                                           *)

(* a node id is a function of the server placed on the node; with an id
   function that is injective on the roster, ids are distinct iff positions are *)
Lemma ids_distinct_iff (idf : nat -> nat) (l : list nat) :
  (forall a b, In a l -> In b l -> idf a = idf b -> a = b) ->
  NoDup l -> NoDup (map idf l).
Proof.
  intros Hinj Hnd. induction Hnd as [|x l Hx Hnd IH]; cbn; constructor.
  - intros Hin. apply in_map_iff in Hin as (y & Hy & Hyl).
    assert (y = x) by (apply Hinj; cbn; auto). subst. contradiction.
  - apply IH. intros a b Ha Hb. apply Hinj; cbn; auto.
Qed.

Lemma ids_repeat (idf : nat -> nat) (l : list nat) :
  ~ NoDup l -> ~ NoDup (map idf l).
Proof.
  intros H Hn. apply H. clear H. induction l as [|x l IH]; [constructor|].
  cbn in Hn. inversion Hn; subst. constructor.
  - intros Hin. apply H1. now apply in_map.
  - now apply IH.
Qed.

(* ------------------------------------------------------------------------ *)
(* statements used by Properties/C12.v                                        *)

Definition nary_root (r : root_arg) : nat := match r with RIdx k => k | _ => 0 end.

Lemma nary_shape n N root : 1 <= N -> 1 <= n ->
  (root = RNil \/ exists k, root = RIdx k /\ k < n) ->
  gen_nary n N root = GTree (nary_spec n N (nary_root root)).
Proof.
  intros HN Hn [->|(k & -> & Hk)]; unfold gen_nary; cbn [nary_root].
  - destruct (Nat.eqb_spec n 0); [lia|]. now apply gen_nary_from_spec.
  - apply Nat.ltb_lt in Hk. rewrite Hk. now apply gen_nary_from_spec.
Qed.

(* what the closed form means: a well-formed, breadth-first filled N-ary tree
   holding every roster member exactly once *)
Lemma nary_spec_wellformed n N root : 1 <= N -> 1 <= n -> root < n ->
  let l := nary_spec n N root in
  length l = n /\
  nth_error l 0 = Some (root, 0) /\
  (forall k, 1 <= k -> k < n ->
     nth_error l k = Some ((k + root) mod n, (k - 1) / N) /\ (k - 1) / N < k /\ (k + root) mod n < n) /\
  (forall p k, 1 <= k -> ((k - 1) / N = p <-> N * p + 1 <= k <= N * p + N)) /\
  (forall a b, a < n -> b < n -> (a + root) mod n = (b + root) mod n -> a = b) /\
  (forall r, r < n -> exists k, k < n /\ (k + root) mod n = r).
Proof.
  intros HN Hn Hr l.
  split; [unfold l; rewrite nary_spec_length; lia|].
  split; [reflexivity|].
  split.
  { intros k Hk1 Hk2. split; [apply nary_spec_nth; lia|].
    split; [apply nary_parent_lt; lia|apply rot_lt; lia]. }
  split; [intros p k Hk; now apply nary_children_range|].
  split; [intros a b; apply rot_inj|].
  intros r Hr'. now apply rot_surj.
Qed.

Lemma binary_star_special n :
  gen_binary n = gen_nary n 2 RNil /\ gen_star n = gen_nary n (n - 1) RNil /\
  (2 <= n -> gen_star n = GTree ((0, 0) :: map (fun k => (k mod n, 0)) (seq 1 (n - 1)))).
Proof.
  split; [reflexivity|]. split; [reflexivity|]. intros Hn.
  unfold gen_star. rewrite nary_shape by (try lia; now left).
  unfold nary_spec. cbn [nary_root]. f_equal. f_equal.
  apply map_ext_in. intros k Hk. apply in_seq in Hk.
  rewrite Nat.add_0_r. f_equal. apply star_parent; lia.
Qed.

Lemma bad_root_none n N k : n <= k ->
  gen_nary n N RForeign = GNone /\ gen_nary n N (RIdx k) = GNone.
Proof.
  intros H; split; [reflexivity|]. unfold gen_nary.
  destruct (k <? n) eqn:E; [apply Nat.ltb_lt in E; lia|reflexivity].
Qed.

Lemma ids_distinct_or_collision (idf : nat -> nat) (l : list (nat * nat)) :
  NoDup (map fst l) ->
  NoDup (map idf (map fst l)) \/
  exists a b, In a (map fst l) /\ In b (map fst l) /\ a <> b /\ idf a = idf b.
Proof.
  intros Hnd.
  destruct (NoDup_dec Nat.eq_dec (map idf (map fst l))) as [H|H]; [now left|right].
  revert H. generalize (map fst l) Hnd. clear. intros m Hnd. induction Hnd as [|x m Hx Hnd IH]; intros H.
  - exfalso. apply H. constructor.
  - cbn in H.
    destruct (in_dec Nat.eq_dec (idf x) (map idf m)) as [Hin|Hnin].
    + apply in_map_iff in Hin as (y & Hy & Hym). exists x, y. cbn. repeat split; auto.
      intros ->. contradiction.
    + destruct IH as (a & b & Ha & Hb & Hab & He).
      * intros Hn. apply H. now constructor.
      * exists a, b. cbn. auto.
Qed.

Lemma big_repeats_ids :
  exists hosts N nodes l, gen_big hosts N nodes = GTree l /\ length l = 7 /\ length hosts = 3 /\
    forall idf : nat -> nat, ~ NoDup (map idf (map fst l)).
Proof.
  exists [0; 1; 2], 2, 7. eexists. split; [vm_compute; reflexivity|].
  split; [reflexivity|]. split; [reflexivity|].
  intros idf. apply ids_repeat. cbn. intros H.
  inversion H as [|? ? H1 H2]; subst. inversion H2 as [|? ? H3 H4]; subst.
  inversion H4 as [|? ? H5 H6]; subst. apply H1. cbn. auto.
Qed.

Example nary_example :
  gen_nary 7 2 (RIdx 3) = GTree [(3,0); (4,0); (5,0); (6,1); (0,1); (1,2); (2,2)].
Proof. vm_compute. reflexivity. Qed.

Example big_example :
  gen_big [0; 0; 1; 1; 2] 2 5 = GTree [(0,0); (2,0); (3,0); (4,1); (1,2)].
Proof. vm_compute. reflexivity. Qed.
