(* C12: the callers of the generators (local.go LocalTest.GenBigTree / GenTree,
   simulation.go SimulationBFTree.CreateTree) inherit the generators' theorems: what they
   return is a tree of exactly the requested number of nodes over the servers they made. *)
From Coq Require Import List Arith Bool Lia.
Import ListNotations.
From Onet Require Import Tree.Gen Tree.GenProofs Tree.GenBigProofs Tree.GenBigShape Corr.C12
  Tree.GenBigLevels.

Lemma repeat_nonempty : forall (A : Type) (a : A) n, 1 <= n -> repeat a n <> [].
Proof. intros A a n Hn; destruct n as [|n]; [lia|]; discriminate. Qed.

(* LocalTest.GenBigTree(nodes, servers, bf): always a tree, of exactly [nodes] nodes, rooted at
   server 0, well formed over the [servers] servers, levels filled breadth-first *)
Lemma lt_gen_big_tree_spec : forall nodes servers bf,
  1 <= nodes -> 1 <= servers -> 1 <= bf ->
  exists l, lt_gen_big_tree nodes servers bf = GTree l /\
    length l = nodes /\
    wf_tree servers bf l = true /\ hd_error l = Some (0, 0) /\
    list_sum (level_sizes l) = nodes /\ rshape bf (rev (level_sizes l)).
Proof.
  intros nodes servers bf Hn Hs Hb. unfold lt_gen_big_tree.
  pose proof (repeat_nonempty nat 0 servers Hs) as Hne.
  destruct (gen_big_returns (repeat 0 servers) bf nodes Hne Hb) as [l Hl].
  exists l. split; [exact Hl|].
  split; [exact (gen_big_count _ _ _ _ Hb Hn Hl)|].
  destruct (gen_big_wellformed _ _ _ _ Hne Hb Hl) as [Hwf Hhd].
  rewrite repeat_length in Hwf.
  split; [exact Hwf|]. split; [exact Hhd|].
  exact (gen_big_tree_levels _ _ _ _ Hne Hb Hn Hl).
Qed.

(* with as many nodes as servers every server carries exactly one node *)
Lemma lt_gen_big_tree_use_all : forall servers bf, 1 <= servers -> 1 <= bf ->
  exists l, lt_gen_big_tree servers servers bf = GTree l /\
    Permutation.Permutation (map fst l) (seq 0 servers).
Proof.
  intros servers bf Hs Hb. unfold lt_gen_big_tree.
  pose proof (repeat_nonempty nat 0 servers Hs) as Hne.
  destruct (gen_big_use_all (repeat 0 servers) bf Hne Hb) as [l [Hl Hp]].
  rewrite repeat_length in Hl, Hp. exists l; split; assumption.
Qed.

(* SimulationBFTree.CreateTree: a tree of exactly Hosts nodes with branching factor BF *)
Lemma sim_create_tree_spec : forall hosts bf nhosts,
  hosts <> [] -> 1 <= bf -> 1 <= nhosts ->
  exists l, sim_create_tree hosts bf nhosts = GTree l /\
    length l = nhosts /\
    wf_tree (length hosts) bf l = true /\ hd_error l = Some (0, 0) /\
    list_sum (level_sizes l) = nhosts /\ rshape bf (rev (level_sizes l)).
Proof.
  intros hosts bf nhosts Hne Hb Hn. unfold sim_create_tree.
  destruct (gen_big_returns hosts bf nhosts Hne Hb) as [l Hl].
  exists l. split; [exact Hl|].
  split; [exact (gen_big_count _ _ _ _ Hb Hn Hl)|].
  destruct (gen_big_wellformed _ _ _ _ Hne Hb Hl) as [Hwf Hhd].
  split; [exact Hwf|]. split; [exact Hhd|].
  exact (gen_big_tree_levels _ _ _ _ Hne Hb Hn Hl).
Qed.

(* LocalTest.GenTree is the binary generator *)
Lemma lt_gen_tree_is_binary : forall n, lt_gen_tree n = gen_nary n 2 RNil.
Proof. reflexivity. Qed.

Example lt_gen_big_tree_example :
  lt_gen_big_tree 7 3 2 = GTree [(0,0);(1,0);(2,0);(0,1);(1,1);(2,2);(0,2)].
Proof. vm_compute. reflexivity. Qed.
