(* C12 -- executable mirrors of the roster's tree generators (tree.go):
     GenerateNaryTreeWithRoot / GenerateNaryTree / GenerateBinaryTree / GenerateStar
     GenerateBigNaryTree
   A generated tree is reported in CREATION order, which for both loops is
   breadth-first (level) order: entry k is (roster index of node k, index of
   its parent in the same list); entry 0 is the root and carries parent 0.
   Go panics (index out of range) are [GCrash]; a nil tree is [GNone]. *)
From Coq Require Import List Arith Bool Lia.
Import ListNotations.

Inductive gres := GCrash | GNone | GTree (nodes : list (nat * nat)).

(* ---------- GenerateNaryTreeWithRoot ------------------------------------ *)

Inductive root_arg := RNil | RIdx (k : nat) | RForeign.

Record nst := { parents : list (nat * nat);   (* (node, #children so far), head = parents[0] *)
                children : list nat;           (* nodes of the level being created *)
                acc : list (nat * nat) }.      (* reversed output *)

(* one iteration of  for i := 1; i < len(ro.List); i++  *)
Definition nary_step (n N root : nat) (st : nst) (i : nat) : option nst :=
  match parents st with
  | [] => None                                   (* parents[0]: index out of range *)
  | (p, c) :: ps =>
      let ps1 := if c =? N then ps else (p, c) :: ps in
      let '(ps2, ch2) :=
        match ps1 with
        | [] => (map (fun k => (k, 0)) (children st), [])
        | _ => (ps1, children st)
        end in
      match ps2 with
      | [] => None                               (* parents[0]: index out of range *)
      | (q, d) :: qs =>
          Some {| parents := (q, S d) :: qs;
                  children := ch2 ++ [i];
                  acc := ((i + root) mod n, q) :: acc st |}
      end
  end.

Fixpoint nary_loop (n N root : nat) (is : list nat) (st : nst) : option nst :=
  match is with
  | [] => Some st
  | i :: r => match nary_step n N root st i with
              | None => None
              | Some st' => nary_loop n N root r st'
              end
  end.

Definition gen_nary_from (n N rootIndex : nat) : gres :=
  let st0 := {| parents := [(0, 0)]; children := []; acc := [(rootIndex, 0)] |} in
  match nary_loop n N rootIndex (seq 1 (n - 1)) st0 with
  | None => GCrash
  | Some st => GTree (rev (acc st))
  end.

Definition gen_nary (n N : nat) (root : root_arg) : gres :=
  match root with
  | RForeign => GNone
  | RNil => if n =? 0 then GCrash else gen_nary_from n N 0
  | RIdx k => if k <? n then gen_nary_from n N k else GNone
  end.

Definition gen_binary (n : nat) : gres := gen_nary n 2 RNil.
Definition gen_star (n : nat) : gres := gen_nary n (n - 1) RNil.

(* ---------- GenerateBigNaryTree ----------------------------------------- *)

(* hosts : one host identifier per roster member (equality of Address.Host()) *)

Definition bor3 (a b : bool) := orb a b.

(* the inner  for (notSameHost && childHost == parentHost && ilLen > 1) || (useAll && used[roIndex])  loop;
   returns the roIndex at loop exit; None = out of fuel or index out of range *)
Fixpoint search (fuel : nat) (hosts : list nat) (used : list bool) (useAll : bool)
         (ilLen parentHost first : nat) (roIndex childHost : nat) (notSame : bool) : option nat :=
  match fuel with
  | 0 => None
  | S f =>
      match nth_error used roIndex with
      | None => None
      | Some u =>
          if (notSame && (childHost =? parentHost) && (1 <? ilLen)) || (useAll && u) then
            let ro' := (roIndex + 1) mod ilLen in
            match nth_error used ro', nth_error hosts ro' with
            | Some u', Some h' =>
                if useAll && u' then
                  search f hosts used useAll ilLen parentHost first ro' childHost
                         (if ro' =? first then false else notSame)
                else if ro' =? first then Some ro'
                else search f hosts used useAll ilLen parentHost first ro' h' notSame
            | _, _ => None
            end
          else Some roIndex
      end
  end.

Fixpoint set_true (l : list bool) (i : nat) : list bool :=
  match l, i with
  | [], _ => []
  | _ :: r, 0 => true :: r
  | b :: r, S j => b :: set_true r j
  end.

Record bst := { used : list bool; roIndex : nat; total : nat;
                bacc : list (nat * nat) }.    (* reversed output *)

(* the  for n := 0; n < children; n++  loop for one parent; returns the new
   state and the (node index) list of the children created, in order *)
Fixpoint place (cnt : nat) (hosts : list nat) (useAll : bool) (ilLen parent parentHost : nat)
         (st : bst) (created : list nat) : option (bst * list nat) :=
  match cnt with
  | 0 => Some (st, created)
  | S c =>
      match nth_error hosts (roIndex st) with
      | None => None
      | Some ch =>
          match search (2 * ilLen + 2) hosts (used st) useAll ilLen parentHost (roIndex st)
                       (roIndex st) ch true with
          | None => None
          | Some ri =>
              let st' := {| used := set_true (used st) ri;
                            roIndex := (ri + 1) mod ilLen;
                            total := S (total st);
                            bacc := (ri, parent) :: bacc st |} in
              place c hosts useAll ilLen parent parentHost st' (created ++ [total st])
          end
      end
  end.

(* the  for i, parent := range levelNodes  loop. [lvl] = remaining parents as
   (node index, roster index); [i] = position of the head in the level; [L] = len(levelNodes) *)
Fixpoint level (hosts : list nat) (useAll : bool) (ilLen N nodes L : nat)
         (lvl : list (nat * nat)) (i : nat) (st : bst) (newlvl : list (nat * nat))
  : option (bst * list (nat * nat)) :=
  match lvl with
  | [] => Some (st, newlvl)
  | (p, pr) :: rest =>
      let want := (nodes - total st) * (i + 1) / L in
      let cnt := if N <? want then N else want in
      match nth_error hosts pr with
      | None => None
      | Some ph =>
          match place cnt hosts useAll ilLen p ph st [] with
          | None => None
          | Some (st', created) =>
              (* roster index of a created node k is recorded in bacc st' *)
              let ridx_of k := match nth_error (rev (bacc st')) k with
                               | Some (r, _) => r | None => 0 end in
              level hosts useAll ilLen N nodes L rest (S i) st'
                    (newlvl ++ map (fun k => (k, ridx_of k)) created)
          end
      end
  end.

(* the  for totalNodes < nodes  loop, on explicit fuel; also returns the sizes of the
   levels created (most recent first) *)
Fixpoint levels (fuel : nat) (hosts : list nat) (useAll : bool) (ilLen N nodes : nat)
         (lvl : list (nat * nat)) (st : bst) (sizes : list nat) : option (bst * list nat) :=
  if nodes <=? total st then Some (st, sizes) else
  match fuel with
  | 0 => None
  | S f =>
      match level hosts useAll ilLen N nodes (length lvl) lvl 0 st [] with
      | None => None
      | Some (st', newlvl) => levels f hosts useAll ilLen N nodes newlvl st' (length newlvl :: sizes)
      end
  end.

Definition gen_big_full (hosts : list nat) (N nodes : nat) : option (bst * list nat) :=
  let ilLen := length hosts in
  if ilLen =? 0 then None else
  let st0 := {| used := true :: repeat false (ilLen - 1);
                roIndex := 1 mod ilLen; total := 1; bacc := [(0, 0)] |} in
  levels (S nodes) hosts (ilLen =? nodes) ilLen N nodes [(0, 0)] st0 [1].

Definition gen_big (hosts : list nat) (N nodes : nat) : gres :=
  match gen_big_full hosts N nodes with
  | None => GCrash
  | Some (st, _) => GTree (rev (bacc st))
  end.

(* sizes of the levels, root level first *)
Definition gen_big_sizes (hosts : list nat) (N nodes : nat) : option (list nat) :=
  match gen_big_full hosts N nodes with
  | None => None
  | Some (_, sizes) => Some (rev sizes)
  end.

(* ---------- the callers of the generators the property is anchored in ------ *)

(* local.go, LocalTest.GenBigTree(nbrTreeNodes, nbrServers, bf): nbrServers servers, all on
   the local host, and a tree of nbrTreeNodes nodes over them. *)
Definition lt_gen_big_tree (nbrTreeNodes nbrServers bf : nat) : gres :=
  gen_big (repeat 0 nbrServers) bf nbrTreeNodes.

(* local.go, LocalTest.GenTree(n): n servers and the binary tree over them. *)
Definition lt_gen_tree (n : nat) : gres := gen_binary n.

(* simulation.go, SimulationBFTree.CreateTree: a tree of s.Hosts nodes with branching
   factor s.BF over the configured roster. *)
Definition sim_create_tree (hosts : list nat) (bf nhosts : nat) : gres :=
  gen_big hosts bf nhosts.

(* ---------- verified well-formedness checker (run on the Go result) ------- *)

(* children count of node k in a parent list *)
Definition nchildren (l : list (nat * nat)) (k : nat) : nat :=
  length (filter (fun '(j, e) => (0 <? j) && (snd e =? k))
                 (combine (seq 0 (length l)) l)).

(* BFS order: parent indices are non-decreasing and strictly below the node *)
Fixpoint parents_bfs (l : list (nat * nat)) (k prev : nat) : bool :=
  match l with
  | [] => true
  | (_, p) :: r => (p <? k) && (prev <=? p) && parents_bfs r (S k) p
  end.

Definition wf_tree (n N : nat) (l : list (nat * nat)) : bool :=
  match l with
  | [] => false
  | (_, p0) :: r =>
      (p0 =? 0) && parents_bfs r 1 0 &&
      forallb (fun e => fst e <? n) l &&
      forallb (fun k => nchildren l k <=? N) (seq 0 (length l))
  end.

(* each roster member used exactly once *)
Definition is_perm_of_roster (n : nat) (l : list (nat * nat)) : bool :=
  (length l =? n) &&
  forallb (fun r => length (filter (fun e => fst e =? r) l) =? 1) (seq 0 n).

(* closed form of the n-ary generator *)
Definition nary_spec (n N root : nat) : list (nat * nat) :=
  (root, 0) :: map (fun k => ((k + root) mod n, (k - 1) / N)) (seq 1 (n - 1)).

(* "levels filled breadth-first": in BFS order, node k>=1 has parent (k-1)/N *)
Definition complete_nary (N : nat) (l : list (nat * nat)) : bool :=
  forallb (fun '(k, e) => (k =? 0) || (snd e =? (k - 1) / N))
          (combine (seq 0 (length l)) l).
