(* C12 -- the tree that the big generator returns is well formed: root = member 0 without parent,
   every other node's parent is an earlier node, parents are non-decreasing in breadth-first order,
   no node has more than N children, every roster position is in range. For every roster, host
   pattern, branching factor >= 1 and node count. (The n-ary generator's shape is in GenProofs.) *)
From Coq Require Import List Arith Bool Lia.
Import ListNotations.
From Onet Require Import Tree.Gen Tree.GenProofs Tree.GenBigProofs.

Definition kids (r : list (nat * nat)) (k : nat) : nat := length (filter (fun e => snd e =? k) r).

Lemma kids_app r1 r2 k : kids (r1 ++ r2) k = kids r1 k + kids r2 k.
Proof. unfold kids. now rewrite filter_app, app_length. Qed.

Lemma kids_block (ris : list nat) p k :
  kids (map (fun ri => (ri, p)) ris) k = if p =? k then length ris else 0.
Proof.
  unfold kids. induction ris as [|x r IH]; cbn; [now destruct (p =? k)|].
  destruct (p =? k) eqn:E; cbn; rewrite IH; reflexivity.
Qed.

Lemma kids_zero r k : (forall e, In e r -> snd e <> k) -> kids r k = 0.
Proof.
  unfold kids. induction r as [|e r IH]; cbn; intros H; [reflexivity|].
  destruct (snd e =? k) eqn:E; [apply Nat.eqb_eq in E; exfalso; apply (H e); auto|].
  apply IH. intros x Hx. apply H. now right.
Qed.

Lemma filter_combine_from (r : list (nat * nat)) k : forall a, 1 <= a ->
  length (filter (fun '(j, e) => (0 <? j) && (snd e =? k)) (combine (seq a (length r)) r)) = kids r k.
Proof.
  unfold kids. induction r as [|e r IH]; intros a Ha; cbn [length seq combine filter]; [reflexivity|].
  replace (0 <? a) with true by (symmetry; apply Nat.ltb_lt; lia). cbn [andb].
  destruct (snd e =? k); cbn [length]; rewrite IH by lia; reflexivity.
Qed.

Lemma nchildren_cons x r k : nchildren (x :: r) k = kids r k.
Proof.
  unfold nchildren. cbn [length seq combine filter]. cbn [Nat.ltb Nat.leb andb].
  apply filter_combine_from. lia.
Qed.

Fixpoint last_par (r : list (nat * nat)) (d : nat) : nat :=
  match r with [] => d | (_, p) :: r' => last_par r' p end.

Lemma parents_bfs_app r1 : forall r2 k prev,
  parents_bfs (r1 ++ r2) k prev =
  parents_bfs r1 k prev && parents_bfs r2 (k + length r1) (last_par r1 prev).
Proof.
  induction r1 as [|[x p] r1 IH]; intros r2 k prev; cbn [app parents_bfs length last_par].
  - now rewrite Nat.add_0_r.
  - rewrite IH. replace (S k + length r1) with (k + S (length r1)) by lia. now rewrite andb_assoc.
Qed.

Lemma parents_bfs_block (ris : list nat) p : forall k prev, prev <= p -> p < k ->
  parents_bfs (map (fun ri => (ri, p)) ris) k prev = true.
Proof.
  induction ris as [|x r IH]; intros k prev H1 H2; cbn [map parents_bfs]; [reflexivity|].
  replace (p <? k) with true by (symmetry; apply Nat.ltb_lt; lia).
  replace (prev <=? p) with true by (symmetry; apply Nat.leb_le; lia). cbn [andb].
  apply IH; lia.
Qed.

Lemma last_par_bound r m : forall d, d < m -> (forall e, In e r -> snd e < m) -> last_par r d < m.
Proof.
  induction r as [|[x p] r IH]; intros d Hd H; cbn; [exact Hd|].
  apply IH; [apply (H (x, p)); now left|]. intros e He. apply H. now right.
Qed.

(* the list without its root: [r]; [m] = every parent used so far is below m *)
Definition Shape (N : nat) (st : bst) (m : nat) : Prop :=
  exists r, rev (bacc st) = (0, 0) :: r /\
            S (length r) = total st /\
            parents_bfs r 1 0 = true /\
            (forall e, In e r -> snd e < m) /\
            (forall k, kids r k <= N).

Lemma place_shape cnt : forall hosts useAll ilLen parent ph st created st' created',
  place cnt hosts useAll ilLen parent ph st created = Some (st', created') ->
  exists ris, length ris = cnt /\
              bacc st' = rev (map (fun ri => (ri, parent)) ris) ++ bacc st /\
              created' = created ++ seq (total st) cnt.
Proof.
  induction cnt as [|c IH]; intros hosts useAll ilLen parent ph st created st' created' H.
  - cbn in H. inversion H; subst. exists []. cbn. now rewrite app_nil_r.
  - cbn [place] in H.
    destruct (nth_error hosts (roIndex st)); [|discriminate].
    destruct (search _ _ _ _ _ _ _ _ _ _) as [ri|]; [|discriminate].
    apply IH in H. destruct H as (ris & Hl & Hb & Hc). cbn [bacc total] in *.
    exists (ri :: ris). split; [cbn; lia|]. split.
    + rewrite Hb. cbn [map rev]. now rewrite <- app_assoc.
    + rewrite Hc, <- app_assoc. reflexivity.
Qed.

Lemma shape_block N st m p (ris : list nat) st' :
  Shape N st m -> m <= p -> p < total st -> length ris <= N ->
  bacc st' = rev (map (fun ri => (ri, p)) ris) ++ bacc st ->
  total st' = total st + length ris ->
  Shape N st' (S p).
Proof.
  intros (r & Hrev & Hlen & Hbfs & Hbelow & Hkids) Hm Hp HN Hb Ht.
  exists (r ++ map (fun ri => (ri, p)) ris). repeat apply conj.
  - rewrite Hb, rev_app_distr, rev_involutive, Hrev. reflexivity.
  - rewrite app_length, map_length. lia.
  - rewrite parents_bfs_app, Hbfs. cbn [andb].
    apply parents_bfs_block; [|lia].
    destruct (Nat.eq_dec m 0) as [->|Hm0].
    + (* no parent used yet below 0: r has no element *)
      destruct r as [|e r']; [cbn; lia|]. specialize (Hbelow e (or_introl eq_refl)). lia.
    + assert (last_par r 0 < m) by (apply last_par_bound; [lia|exact Hbelow]). lia.
  - intros e He. apply in_app_or in He as [He|He]; [specialize (Hbelow e He); lia|].
    apply in_map_iff in He as (ri & <- & _). cbn. lia.
  - intros k. rewrite kids_app, kids_block. destruct (p =? k) eqn:E.
    + apply Nat.eqb_eq in E. subst k. rewrite kids_zero; [lia|].
      intros e He. specialize (Hbelow e He). lia.
    + specialize (Hkids k). lia.
Qed.

Lemma shape_weaken N st m m' : Shape N st m -> m <= m' -> Shape N st m'.
Proof.
  intros (r & H1 & H2 & H3 & H4 & H5) Hm. exists r. repeat apply conj; auto.
  intros e He. specialize (H4 e He). lia.
Qed.

(* one pass over the parents a, a+1, ... of a level *)
Lemma level_shape hosts useAll ilLen N nodes L : forall lvl i st newlvl st' newlvl' a,
  1 <= N ->
  level hosts useAll ilLen N nodes L lvl i st newlvl = Some (st', newlvl') ->
  map fst lvl = seq a (length lvl) -> a + length lvl <= total st ->
  Shape N st a ->
  Shape N st' (a + length lvl) /\
  map fst newlvl' = map fst newlvl ++ seq (total st) (total st' - total st) /\
  total st <= total st'.
Proof.
  induction lvl as [|[p pr] rest IH]; intros i st newlvl st' newlvl' a HN H Hseq Hle Hs.
  - cbn in H. inversion H; subst. rewrite Nat.add_0_r, Nat.sub_diag, app_nil_r. auto.
  - cbn [level] in H. rewrite share_is_cnt in H.
    cbn [map fst length seq] in Hseq. inversion Hseq as [[Hp Hrest]]. subst p. cbn [length] in Hle.
    destruct (nth_error hosts pr); [|discriminate].
    destruct (place _ _ _ _ _ _ _ _) as [[st1 created]|] eqn:Hpl; [|discriminate].
    destruct (place_shape _ _ _ _ _ _ _ _ _ _ Hpl) as (ris & Hl & Hb & Hc).
    pose proof (place_total _ _ _ _ _ _ _ _ _ _ Hpl) as [Ht _].
    cbn [app] in Hc.
    assert (Hshare : length ris <= N) by (rewrite Hl; unfold share; apply Nat.le_min_l).
    assert (S1 : Shape N st1 (S a)).
    { apply (shape_block N st a a ris st1 Hs); auto; try lia. }
    apply IH with (a := S a) in H; auto; try lia.
    destruct H as (H1 & H2 & H3).
    split; [cbn [length]; replace (a + S (length rest)) with (S a + length rest) by lia; exact H1|].
    split; [|lia].
    rewrite H2, map_app, map_map. cbn [fst]. rewrite map_id, Hc, <- app_assoc. f_equal.
    rewrite Ht. rewrite <- Hl. rewrite <- seq_app. f_equal. lia.
Qed.

Lemma levels_wf fuel : forall hosts useAll ilLen N nodes lvl st sizes st' sizes' a,
  1 <= N ->
  levels fuel hosts useAll ilLen N nodes lvl st sizes = Some (st', sizes') ->
  map fst lvl = seq a (length lvl) -> a + length lvl = total st ->
  Shape N st a ->
  exists m, Shape N st' m.
Proof.
  induction fuel as [|f IH]; intros hosts useAll ilLen N nodes lvl st sizes st' sizes' a HN H Hseq Hle Hs.
  - cbn in H. destruct (nodes <=? total st); [|discriminate]. inversion H; subst. eauto.
  - cbn [levels] in H. destruct (nodes <=? total st); [inversion H; subst; eauto|].
    destruct (level _ _ _ _ _ _ _ _ _ _) as [[st1 newlvl]|] eqn:Hlv; [|discriminate].
    destruct (level_shape _ _ _ _ _ _ _ _ _ _ _ _ a HN Hlv Hseq ltac:(lia) Hs) as (S1 & F1 & T1).
    cbn [map app] in F1.
    apply (IH _ _ _ _ _ _ _ _ _ _ (total st) HN H).
    + rewrite F1. f_equal. rewrite <- (map_length fst newlvl), F1, seq_length. reflexivity.
    + rewrite <- (map_length fst newlvl), F1, seq_length. lia.
    + rewrite Hle in S1. exact S1.
Qed.

(* the tree returned by the big generator is well formed *)
Theorem gen_big_wellformed hosts N nodes l :
  hosts <> [] -> 1 <= N -> gen_big hosts N nodes = GTree l ->
  wf_tree (length hosts) N l = true /\ hd_error l = Some (0, 0).
Proof.
  intros Hh HN. unfold gen_big.
  destruct (gen_big_full hosts N nodes) as [[st sizes]|] eqn:Ef; [|discriminate].
  intros Hl. inversion Hl; subst l. clear Hl.
  assert (Hn : 1 <= length hosts) by (destruct hosts; [congruence|cbn; lia]).
  set (n := length hosts) in *.
  unfold gen_big_full in Ef. fold n in Ef.
  destruct (n =? 0) eqn:E0; [apply Nat.eqb_eq in E0; lia|].
  set (st0 := {| used := true :: repeat false (n - 1); roIndex := 1 mod n; total := 1; bacc := [(0, 0)] |}) in Ef.
  assert (S0 : Shape N st0 0).
  { exists []. cbn. repeat apply conj; auto; try tauto. intros; lia. }
  destruct (levels_wf _ _ _ _ _ _ _ _ _ _ _ 0 HN Ef eq_refl eq_refl S0) as (m & r & Hrev & Hlen & Hbfs & Hbelow & Hkids).
  (* roster positions: the invariant of GenBigProofs *)
  assert (I0 : PInv (n =? nodes) n st0).
  { constructor; cbn.
    - rewrite repeat_length. lia.
    - apply Nat.mod_upper_bound. lia.
    - intros _. f_equal. clear. induction (n - 1); cbn; auto.
    - constructor; [cbn; lia|constructor].
    - intros _ i [<-|[]]. reflexivity.
    - intros _. constructor; [intros []|constructor]. }
  assert (I : Forall (fun e => fst e < n) (bacc st)).
  { destruct (Nat.le_gt_cases nodes 1) as [Hsmall|Hbig].
    - assert (st = st0).
      { destruct nodes as [|[|?]]; cbn [levels total st0 Nat.leb] in Ef; try lia; inversion Ef; reflexivity. }
      subst st. apply (p_bacc _ _ _ I0).
    - destruct (levels_ok (S nodes) hosts (n =? nodes) n N nodes [(0, 0)] st0 [1]) as (st' & sizes' & E & I'); auto; try (cbn; lia).
      + intros E. apply Nat.eqb_eq in E. lia.
      + constructor; [cbn; lia|constructor].
      + discriminate.
      + rewrite Ef in E. inversion E; subst. apply (p_bacc _ _ _ I'). }
  rewrite Hrev. split; [|reflexivity].
  unfold wf_tree. rewrite Nat.eqb_refl, Hbfs. cbn [andb].
  apply andb_true_iff. split.
  - apply forallb_forall. intros e He. apply Nat.ltb_lt.
    rewrite Forall_forall in I. apply I. apply in_rev. rewrite Hrev. exact He.
  - apply forallb_forall. intros k _. apply Nat.leb_le. rewrite nchildren_cons. apply Hkids.
Qed.

(* ---- node identifiers ---------------------------------------------------------------------- *)

Lemma NoDup_map_in {A B} (f : A -> B) (l : list A) :
  (forall a b, In a l -> In b l -> f a = f b -> a = b) -> NoDup l -> NoDup (map f l).
Proof.
  intros Hinj ND. induction ND as [|x r Hx ND IH]; cbn; constructor.
  - intros Hin. apply in_map_iff in Hin as (y & Ey & Hy).
    assert (y = x) by (apply Hinj; [now right|now left|exact Ey]). subst. contradiction.
  - apply IH. intros a b Ha Hb. apply Hinj; now right.
Qed.

(* the n-ary generator puts every member on exactly one node, so with an injective identifier
   function (ids are derived from the member's key) node identifiers are pairwise distinct *)
Theorem nary_ids_distinct n N root l (idf : nat -> nat) :
  1 <= N -> 1 <= n -> (root = RNil \/ exists k, root = RIdx k /\ k < n) ->
  (forall a b, idf a = idf b -> a = b) ->
  gen_nary n N root = GTree l -> NoDup (map fst l) /\ NoDup (map idf (map fst l)).
Proof.
  intros HN Hn Hroot Hinj Hl. rewrite nary_shape in Hl by assumption. inversion Hl; subst l. clear Hl.
  assert (Hr : nary_root root < n) by (destruct Hroot as [->|(k & -> & Hk)]; cbn; lia).
  set (r := nary_root root) in *.
  assert (ND : NoDup (map fst (nary_spec n N r))).
  { assert (E : map fst (nary_spec n N r) = map (fun k => (k + r) mod n) (seq 0 n)).
    { unfold nary_spec. cbn [map fst]. rewrite map_map. cbn [fst].
      assert (Es : seq 0 n = 0 :: seq 1 (n - 1)) by (replace n with (S (n - 1)) at 1 by lia; reflexivity).
      rewrite Es. cbn [map]. f_equal. cbn. symmetry. apply Nat.mod_small. exact Hr. }
    rewrite E. apply NoDup_map_in; [|apply seq_NoDup].
    intros a b Ha Hb Hab. apply in_seq in Ha, Hb. apply (rot_inj n r); lia. }
  split; [exact ND|]. apply NoDup_map_in; [|exact ND].
  intros a b _ _. apply Hinj.
Qed.

(* the same for the big generator when the node count equals the roster size *)
Theorem big_ids_distinct hosts N (idf : nat -> nat) :
  hosts <> [] -> 1 <= N -> (forall a b, idf a = idf b -> a = b) ->
  exists l, gen_big hosts N (length hosts) = GTree l /\ NoDup (map fst l) /\ NoDup (map idf (map fst l)).
Proof.
  intros Hh HN Hinj. destruct (gen_big_use_all hosts N Hh HN) as (l & Hl & Hp).
  exists l. split; [exact Hl|].
  assert (ND : NoDup (map fst l)).
  { apply (Permutation.Permutation_NoDup (Permutation.Permutation_sym Hp)). apply seq_NoDup. }
  split; [exact ND|]. apply NoDup_map_in; [|exact ND]. intros a b _ _. apply Hinj.
Qed.
