(* C06 -- the tree that Roster.GenerateNaryTreeWithRoot (tree.go) builds, as a value of the
   tree type of Tree/TreeMarshal.v, so that "what the generator hands to the sender" can be
   fed to the round-trip theorems and compared with the implementation.

   The Go loop (mirrored step by step in Tree/Gen.v, C12, and proved there equal to its
   closed form [nary_spec]) creates node k = 0 .. n-1 in breadth-first order: node k sits on
   roster member (k + root) mod n, RECORDS THAT POSITION as its RosterIndex, and its children
   are the nodes N*k+1 .. N*k+N that exist, in that order. GenerateNaryTree / Binary / Star
   are the cases root = 0, N = 2, N = n-1. Node ids are a function [idf] of the server
   (NewTreeNode derives them from the public key). Aggregates are computed by NewTree
   ([with_aggs]). Model only, no proofs. *)
From Coq Require Import List Arith Bool.
Import ListNotations.
From Onet Require Export Tree.TreeMarshal.

Section Gen.
Variable G : Type.
Variable gadd : G -> G -> G.
Variable idf : server G -> nat.

(* node k and everything below it; fuel bounds the depth (n suffices); None = out of fuel or a
   position outside the roster *)
Fixpoint nary_node (fuel : nat) (l : list (server G)) (N root k : nat) : option (tnode G) :=
  match fuel with
  | 0 => None
  | S f =>
      let n := length l in
      let idx := (k + root) mod n in
      match nth_error l idx with
      | None => None
      | Some srv =>
          match (fix go (cs : list nat) : option (list (tnode G)) :=
                   match cs with
                   | [] => Some []
                   | c :: r =>
                       match nary_node f l N root c with
                       | None => None
                       | Some t => match go r with None => None | Some ts => Some (t :: ts) end
                       end
                   end) (filter (fun c => c <? n) (seq (N * k + 1) N)) with
          | None => None
          | Some ch => Some (Node (idf srv) srv idx None ch)
          end
      end
  end.

(* the tree NewTree(ro, root) returns for it; tid = the tree id NewTree computes (a hash, C13) *)
Definition nary_tree (tid : nat) (ro : roster G) (N root : nat) : option (stree G) :=
  if length (r_list ro) =? 0 then None else
  match nary_node (length (r_list ro)) (r_list ro) N root 0 with
  | None => None
  | Some t => Some (mkTree tid (Some ro) (with_aggs gadd t))
  end.

(* ---------- trees extended by hand ------------------------------------------------------------

   TreeNode.AddChild appends a child to a node of an existing tree (here: the node reached by
   following [path] = child positions from the root; a position that does not exist leaves the
   tree as it is). The nodes keep whatever aggregate an earlier NewTree stored in them.
   NewTree afterwards = [with_aggs] again on the same nodes. *)
Fixpoint add_child (path : list nat) (c : tnode G) (n : tnode G) : tnode G :=
  match n with
  | Node id srv i g ch =>
      match path with
      | [] => Node id srv i g (ch ++ [c])
      | k :: r =>
          Node id srv i g
            ((fix go (j : nat) (l : list (tnode G)) : list (tnode G) :=
                match l with
                | [] => []
                | x :: l' => (if j =? k then add_child r c x else x) :: go (S j) l'
                end) 0 ch)
      end
  end.

End Gen.

Arguments add_child {G}.

Arguments nary_node {G}.
Arguments nary_tree {G}.
