(* C06 -- executable mirror of the tree (de)serialisation of tree.go:
     MakeTreeMarshal / TreeMarshalCopyTree        (to_marshal / copy_tree)
     TreeMarshal.MakeTree / MakeTreeFromList       (make_tree / rebuild)
     Roster.Search                                 (search_from: FIRST match)
     Tree.computeSubtreeAggregate                  (agg_of / with_aggs)
     Tree.Marshal / NewTreeFromMarshal             (from_bytes: codec given as decoded value)
     Tree.BinaryMarshaler / BinaryUnmarshaler      (binary_unmarshal)
     Tree.Equal / TreeNode.Equal                   (go_tree_equal)
     Tree.Search / Tree.List                       (find_node / list_ids)
   Identifiers (tree, roster, node and server ids: UUIDs in Go) are natural
   numbers, 0 standing for the nil UUID. Keys and aggregate keys live in a type
   [G] with an addition [gadd]; nothing else is assumed about it in this file.
   A Go panic is [Crash], a returned error is [Err]. Model only, no proofs. *)
From Coq Require Import List Arith Bool.
Import ListNotations.

Inductive res (A : Type) := Ok (a : A) | Err | Crash.
Arguments Ok {A} a.
Arguments Err {A}.
Arguments Crash {A}.

Section Model.
Variable G : Type.
Variable gadd : G -> G -> G.

(* network.ServerIdentity: the (deprecated, but compared by Roster.Search) ID
   field, the public key, the per-service public keys *)
(* s_nokey: the Public field is nil (it is optional on the wire); s_key is then meaningless *)
Record server := mkSrv { s_id : nat; s_key : G; s_svc : list G; s_nokey : bool }.

(* onet.Roster: the ID FIELD (never recomputed by a receiver) and the list *)
Record roster := mkRo { r_id : nat; r_list : list server }.

(* onet.TreeNode; the Parent pointer is implied by the nesting *)
Inductive tnode := Node (id : nat) (srv : server) (ridx : nat) (agg : option G) (ch : list tnode).

(* onet.Tree *)
Record stree := mkTree { t_id : nat; t_ro : option roster; t_root : tnode }.

(* onet.TreeMarshal: ONE Go type serves for the top element (TreeID, RosterID,
   Children = [root]) and for the nodes (TreeNodeID, ServerIdentityID, Children) *)
Inductive tmarshal := TM (nid tid sid rid : nat) (ch : list tmarshal).

Definition tm_tid (m : tmarshal) : nat := match m with TM _ t _ _ _ => t end.
Definition tm_rid (m : tmarshal) : nat := match m with TM _ _ _ r _ => r end.
Definition tm_children (m : tmarshal) : list tmarshal := match m with TM _ _ _ _ c => c end.

Definition n_id (n : tnode) : nat := match n with Node i _ _ _ _ => i end.
Definition n_srv (n : tnode) : server := match n with Node _ s _ _ _ => s end.
Definition n_ridx (n : tnode) : nat := match n with Node _ _ r _ _ => r end.
Definition n_agg (n : tnode) : option G := match n with Node _ _ _ a _ => a end.
Definition n_children (n : tnode) : list tnode := match n with Node _ _ _ _ c => c end.

(* ---------- sender side --------------------------------------------------- *)

(* TreeMarshalCopyTree *)
Fixpoint copy_tree (n : tnode) : tmarshal :=
  match n with
  | Node id srv _ _ ch => TM id 0 (s_id srv) 0 (map copy_tree ch)
  end.

(* Tree.MakeTreeMarshal: a tree without roster gives the empty description *)
Definition to_marshal (t : stree) : tmarshal :=
  match t_ro t with
  | None => TM 0 0 0 0 []
  | Some ro => TM 0 (t_id t) 0 (r_id ro) [copy_tree (t_root t)]
  end.

(* ---------- receiver side ------------------------------------------------- *)

(* Roster.Search: index and entry of the FIRST member whose ID field matches *)
Fixpoint search_from (l : list server) (sid i : nat) : option (nat * server) :=
  match l with
  | [] => None
  | e :: r => if s_id e =? sid then Some (i, e) else search_from r sid (S i)
  end.

Definition search (ro : roster) (sid : nat) : option (nat * server) :=
  search_from (r_list ro) sid 0.

(* TreeMarshal.MakeTreeFromList: the node gets the roster's entry and ITS index;
   the first failing lookup (pre-order) -- no member with that id, or a member without
   public key -- aborts with an error *)
Fixpoint rebuild (l : list server) (m : tmarshal) : option tnode :=
  match m with
  | TM nid _ sid _ ch =>
      match search_from l sid 0 with
      | None => None
      | Some (i, e) =>
          if s_nokey e then None else          (* "roster member without public key" *)
          match (fix go (cs : list tmarshal) : option (list tnode) :=
                   match cs with
                   | [] => Some []
                   | c :: r =>
                       match rebuild l c with
                       | None => None
                       | Some n => match go r with
                                   | None => None
                                   | Some ns => Some (n :: ns)
                                   end
                       end
                   end) ch with
          | None => None
          | Some ns => Some (Node nid e i None ns)
          end
      end
  end.

(* Tree.computeSubtreeAggregate: own key, then the children's aggregates added
   from left to right; the value is STORED in every node *)
Fixpoint agg_of (n : tnode) : G :=
  match n with
  | Node _ srv _ _ ch => fold_left (fun a c => gadd a (agg_of c)) ch (s_key srv)
  end.

Fixpoint with_aggs (n : tnode) : tnode :=
  match n with
  | Node id srv i _ ch =>
      Node id srv i (Some (fold_left (fun a c => gadd a (agg_of c)) ch (s_key srv)))
           (map with_aggs ch)
  end.

(* TreeMarshal.MakeTree.
   fix_f06 = false: the pinned code indexes Children[0] without a length check.
   fix_n2  = false: a nil roster ([None]) is dereferenced (ro.ID panics). *)
Definition make_tree (fix_f06 fix_n2 : bool) (m : tmarshal) (oro : option roster) : res stree :=
  match oro with
  | None => if fix_n2 then Err else Crash
  | Some ro =>
      if negb (r_id ro =? tm_rid m) then Err else
      match tm_children m with
      | [] => if fix_f06 then Err else Crash
      | c :: _ =>
          match rebuild (r_list ro) c with
          | None => Err
          | Some n => Ok (mkTree (tm_tid m) (Some ro) (with_aggs n))
          end
      end
  end.

(* NewTreeFromMarshal: the codec (network.Unmarshal, protobuf) is not modelled;
   [dec] is what the bytes decode to: None = undecodable or not a TreeMarshal.
   The second computeSubtreeAggregate recomputes the same stored values. *)
Definition from_bytes (fix_f06 fix_n2 : bool) (dec : option tmarshal) (oro : option roster) : res stree :=
  match dec with
  | None => Err
  | Some m =>
      match make_tree fix_f06 fix_n2 m oro with
      | Ok t => Ok (mkTree (t_id t) (t_ro t) (with_aggs (t_root t)))
      | r => r
      end
  end.

(* Tree.BinaryUnmarshaler: outer = what the bytes decode to: None = not a
   tbmStruct; Some (inner, ro) = the decoding of its T field and its roster *)
Definition binary_unmarshal (fix_f06 fix_n2 : bool)
           (outer : option (option tmarshal * option roster)) : res stree :=
  match outer with
  | None => Err
  | Some (inner, oro) => from_bytes fix_f06 fix_n2 inner oro
  end.

(* ---------- equality as Go tests it, search, list --------------------------- *)

(* TreeNode.Equal: node id, server id, number and order of children.
   (Roster index and aggregate are NOT compared by the Go code.) *)
Fixpoint go_node_equal (a b : tnode) : bool :=
  match a, b with
  | Node ia sa _ _ ca, Node ib sb _ _ cb =>
      (ia =? ib) && (s_id sa =? s_id sb) &&
      (fix go (x : list tnode) (y : list tnode) : bool :=
         match x, y with
         | [], [] => true
         | p :: x', q :: y' => go_node_equal p q && go x' y'
         | _, _ => false
         end) ca cb
  end.

(* Tree.Equal; a nil roster on either side is a nil dereference *)
Definition go_tree_equal (a b : stree) : res bool :=
  match t_ro a, t_ro b with
  | Some ra, Some rb =>
      if (t_id a =? t_id b) && (r_id ra =? r_id rb)
      then Ok (go_node_equal (t_root a) (t_root b)) else Ok false
  | _, _ => if t_id a =? t_id b then Crash else Ok false
  end.

(* Tree.List: pre-order *)
Fixpoint flat (n : tnode) : list tnode :=
  match n with
  | Node _ _ _ _ ch => n :: flat_map flat ch
  end.

Definition list_ids (n : tnode) : list nat := map n_id (flat n).

(* Tree.Search visits every node and keeps the LAST one whose id matches *)
Definition find_node (n : tnode) (id : nat) : option tnode :=
  fold_left (fun acc x => if n_id x =? id then Some x else acc) (flat n) None.

Fixpoint size (n : tnode) : nat :=
  match n with
  | Node _ _ _ _ ch => S (fold_left (fun a c => a + size c) ch 0)
  end.

End Model.

Arguments mkSrv {G}.
Arguments s_id {G}.
Arguments s_key {G}.
Arguments s_svc {G}.
Arguments s_nokey {G}.
Arguments mkRo {G}.
Arguments r_id {G}.
Arguments r_list {G}.
Arguments Node {G}.
Arguments mkTree {G}.
Arguments t_id {G}.
Arguments t_ro {G}.
Arguments t_root {G}.
Arguments n_id {G}.
Arguments n_srv {G}.
Arguments n_ridx {G}.
Arguments n_agg {G}.
Arguments n_children {G}.
Arguments copy_tree {G}.
Arguments to_marshal {G}.
Arguments search_from {G}.
Arguments search {G}.
Arguments rebuild {G}.
Arguments agg_of {G}.
Arguments with_aggs {G}.
Arguments make_tree {G}.
Arguments from_bytes {G}.
Arguments binary_unmarshal {G}.
Arguments go_node_equal {G}.
Arguments go_tree_equal {G}.
Arguments flat {G}.
Arguments list_ids {G}.
Arguments find_node {G}.
Arguments size {G}.
