(* C13 -- the executable checker of the property on OBSERVED identifiers:
   within a group of objects of one kind, equal objects must carry equal ids and
   different objects different ids.  Used by Corr/C13.v; its specification is
   proved in Tree/IdsProofs.v.  Executable definitions only.
   Objects are compared through what the identifier is meant to identify: a key
   is its marshalled form [kbin]. *)
From Coq Require Import List Arith Bool Ascii String NArith.
Import ListNotations.
From Onet Require Import Base.Corr.
From Onet Require Export Tree.Ids.

Fixpoint list_eqb {A} (e : A -> A -> bool) (a b : list A) : bool :=
  match a, b with
  | [], [] => true
  | x :: a', y :: b' => e x y && list_eqb e a' b'
  | _, _ => false
  end.

Definition key_eqb (a b : key) : bool := bytes_eqb (kbin a) (kbin b).

Definition member_eqb (a b : member) : bool :=
  key_eqb (m_key a) (m_key b) && list_eqb key_eqb (m_srv a) (m_srv b).

Definition roster_eqb (a b : roster) : bool := list_eqb member_eqb a b.

Fixpoint tree_eqb (a b : tree) : bool :=
  match a, b with
  | TNode k1 c1, TNode k2 c2 =>
      key_eqb k1 k2 &&
      (fix go (l1 l2 : list tree) : bool :=
         match l1, l2 with
         | [], [] => true
         | x :: r1, y :: r2 => tree_eqb x y && go r1 r2
         | _, _ => false
         end) c1 c2
  end.

(* pre-order list of (key, is it a leaf) *)
Fixpoint tree_profile (t : tree) : list (bytes * bool) :=
  match t with
  | TNode k ch =>
      (kbin k, match ch with [] => true | _ => false end) ::
      (fix go (l : list tree) : list (bytes * bool) :=
         match l with
         | [] => []
         | c :: r => tree_profile c ++ go r
         end) ch
  end.

Definition profile_eqb (a b : list (bytes * bool)) : bool :=
  list_eqb (fun x y => bytes_eqb (fst x) (fst y) && Bool.eqb (snd x) (snd y)) a b.

Definition token_eqb (a b : token) : bool :=
  bytes_eqb (tk_roster a) (tk_roster b) && bytes_eqb (tk_tree a) (tk_tree b) &&
  bytes_eqb (tk_proto a) (tk_proto b) && bytes_eqb (tk_service a) (tk_service b) &&
  bytes_eqb (tk_round a) (tk_round b) && bytes_eqb (tk_node a) (tk_node b).

Definition res_eqb (a b : res) : bool :=
  match a, b with
  | RCrash, RCrash => true
  | RNil, RNil => true
  | RErr, RErr => true
  | RId x, RId y => bytes_eqb x y
  | _, _ => false
  end.

(* ---- pairwise check of a group: [(object, observed id)] ------------------ *)
Section Group.
  Variable X : Type.
  Variable eqX : X -> X -> bool.
  (* the clause reported when two DIFFERENT objects share an id *)
  Variable cls : X -> X -> nat.

  Definition pair_clause (a b : X * bytes) : list nat :=
    if eqX (fst a) (fst b)
    then clause 2 (bytes_eqb (snd a) (snd b))
    else clause (cls (fst a) (fst b)) (negb (bytes_eqb (snd a) (snd b))).

  Fixpoint against (a : X * bytes) (l : list (X * bytes)) : list nat :=
    match l with
    | [] => []
    | b :: r => pair_clause a b ++ against a r
    end.

  Fixpoint group_clauses (l : list (X * bytes)) : list nat :=
    match l with
    | [] => []
    | a :: r => against a r ++ group_clauses r
    end.
End Group.

Fixpoint dedup (l : list nat) : list nat :=
  match l with
  | [] => []
  | x :: r => if existsb (Nat.eqb x) r then dedup r else x :: dedup r
  end.

(* which clause a collision between two different objects falls under *)
Definition roster_cls (a b : roster) : nat :=
  if bytes_eqb (roster_pre a) (roster_pre b) then 4 else 3.

Definition tree_cls (a b : bytes * tree) : nat :=
  if bytes_eqb (fst a) (fst b) && profile_eqb (tree_profile (snd a)) (tree_profile (snd b))
  then 5 else 6.

Definition ridtree_eqb (a b : bytes * tree) : bool :=
  bytes_eqb (fst a) (fst b) && tree_eqb (snd a) (snd b).
