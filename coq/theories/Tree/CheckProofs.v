(* C12 -- the boolean checker of Corr/C12.v accepts what the theorems describe: on the closed form
   of the n-ary generator (which the generator is proved to produce, GenProofs.nary_shape) every
   clause of [check_nary] holds, for every roster size, branching factor and root. Together with
   the correspondence run this says: an implementation that agrees with the model is never
   reported, whatever the input -- the checker demands nothing the proved shape does not give. *)
From Coq Require Import List Arith Bool Lia Permutation.
Import ListNotations.
From Onet Require Import Tree.Gen Tree.GenProofs Corr.C12.

Lemma combine_seq_map {A} (f : nat -> A) m : forall a,
  combine (seq a m) (map f (seq a m)) = map (fun k => (k, f k)) (seq a m).
Proof. induction m as [|m IH]; intros a; cbn; [reflexivity|]. now rewrite IH. Qed.

Lemma forallb_map {A B} (f : A -> B) p l : forallb p (map f l) = forallb (fun x => p (f x)) l.
Proof. induction l as [|x r IH]; cbn; [reflexivity|]. now rewrite IH. Qed.

Lemma forallb_seq_true p a m : (forall k, a <= k < a + m -> p k = true) -> forallb p (seq a m) = true.
Proof.
  intros H. apply forallb_forall. intros k Hk. apply in_seq in Hk. apply H. lia.
Qed.

Lemma filter_map_len {A B} (f : A -> B) p l :
  length (filter p (map f l)) = length (filter (fun x => p (f x)) l).
Proof.
  induction l as [|x r IH]; cbn; [reflexivity|]. destruct (p (f x)); cbn; now rewrite IH.
Qed.

(* a predicate that holds for at most the numbers of an interval of width w selects at most w
   elements of a duplicate-free list *)
Lemma filter_interval_len (p : nat -> bool) lo w (l : list nat) :
  NoDup l -> (forall k, In k l -> p k = true -> lo <= k < lo + w) -> length (filter p l) <= w.
Proof.
  intros ND H.
  assert (Hin : incl (filter p l) (seq lo w)).
  { intros k Hk. apply filter_In in Hk as [Hk Hp]. apply in_seq. now apply H. }
  assert (ND' : NoDup (filter p l)) by now apply NoDup_filter.
  pose proof (NoDup_incl_length ND' Hin) as L. now rewrite seq_length in L.
Qed.

(* exactly one element of a duplicate-free list satisfies p *)
Lemma filter_unique_len (p : nat -> bool) (l : list nat) (x : nat) :
  NoDup l -> In x l -> p x = true -> (forall y, In y l -> p y = true -> y = x) ->
  length (filter p l) = 1.
Proof.
  intros ND Hx Hp Hu. induction l as [|y r IH]; [destruct Hx|].
  inversion ND as [|? ? Hny NDr]; subst. cbn. destruct (p y) eqn:Ey.
  - assert (y = x) by (apply Hu; [now left|exact Ey]). subst y. cbn. f_equal.
    assert (Hnone : forall z, In z r -> p z = false).
    { intros z Hz. destruct (p z) eqn:Ez; auto. assert (z = x) by (apply Hu; [now right|exact Ez]). subst. contradiction. }
    clear - Hnone. induction r as [|z r IH]; cbn; [reflexivity|].
    rewrite (Hnone z (or_introl eq_refl)). apply IH. intros w Hw. apply Hnone. now right.
  - destruct Hx as [->|Hx]; [congruence|]. apply IH; auto. intros z Hz. apply Hu. now right.
Qed.

Lemma parents_bfs_spec N f m : 1 <= N -> forall a prev,
  1 <= a -> prev <= (a - 1) / N ->
  parents_bfs (map (fun k => (f k, (k - 1) / N)) (seq a m)) a prev = true.
Proof.
  intros HN. induction m as [|m IH]; intros a prev Ha Hp; cbn [seq map parents_bfs]; [reflexivity|].
  assert (H1 : (a - 1) / N < a) by (apply nary_parent_lt; lia).
  apply Nat.ltb_lt in H1. rewrite H1. apply Nat.leb_le in Hp. rewrite Hp. cbn [andb].
  apply IH; [lia|]. replace (S a - 1) with (a - 1 + 1) by lia.
  apply Nat.div_le_mono; lia.
Qed.

Section Nary.
  Variables (n N r : nat).
  Hypothesis (HN : 1 <= N) (Hn : 1 <= n) (Hr : r < n).

  Let l := nary_spec n N r.

  Lemma spec_len : length l = n.
  Proof. unfold l. rewrite nary_spec_length. lia. Qed.

  Lemma spec_root : (0 + r) mod n = r.
  Proof. cbn. apply Nat.mod_small. exact Hr. Qed.

  (* the list in indexed form: position k holds ((k + r) mod n, parent) *)
  Lemma spec_indexed :
    combine (seq 0 (length l)) l =
    (0, (r, 0)) :: map (fun k => (k, ((k + r) mod n, (k - 1) / N))) (seq 1 (n - 1)).
  Proof.
    rewrite spec_len. unfold l, nary_spec. replace n with (S (n - 1)) at 1 by lia. cbn [seq combine].
    f_equal. apply (combine_seq_map (fun k => ((k + r) mod n, (k - 1) / N))).
  Qed.

  Lemma spec_nchildren k : nchildren l k <= N.
  Proof.
    unfold nchildren. rewrite spec_indexed. cbn [filter Nat.ltb Nat.leb andb].
    rewrite filter_map_len. cbn [fst snd].
    apply (filter_interval_len _ (N * k + 1) N); [apply seq_NoDup|].
    intros j Hj Hp. apply in_seq in Hj. apply andb_true_iff in Hp as [_ Hp]. apply Nat.eqb_eq in Hp.
    pose proof (nary_children_range N k j HN ltac:(lia)) as [H _]. specialize (H Hp). lia.
  Qed.

  Lemma spec_wf : wf_tree n N l = true.
  Proof.
    unfold wf_tree. unfold l at 1. unfold nary_spec. cbn [Nat.eqb andb].
    rewrite (parents_bfs_spec N (fun k => (k + r) mod n)) by (cbn; lia). cbn [andb].
    apply andb_true_iff. split.
    - apply forallb_forall. intros e He. unfold l, nary_spec in He. destruct He as [<-|He].
      + cbn. now apply Nat.ltb_lt.
      + apply in_map_iff in He as (k & <- & _). cbn. apply Nat.ltb_lt. apply rot_lt. lia.
    - apply forallb_forall. intros k _. apply Nat.leb_le. apply spec_nchildren.
  Qed.

  Lemma spec_fst : map fst l = map (fun k => (k + r) mod n) (seq 0 n).
  Proof.
    unfold l, nary_spec. cbn [map fst]. rewrite map_map. cbn [fst].
    assert (E : seq 0 n = 0 :: seq 1 (n - 1)) by (replace n with (S (n - 1)) at 1 by lia; reflexivity).
    rewrite E. cbn [map]. rewrite spec_root. reflexivity.
  Qed.

  Lemma spec_perm : is_perm_of_roster n l = true.
  Proof.
    unfold is_perm_of_roster. rewrite spec_len, Nat.eqb_refl. cbn [andb].
    apply forallb_forall. intros r' Hr'. apply in_seq in Hr'. apply Nat.eqb_eq.
    assert (E : length (filter (fun e => fst e =? r') l) = length (filter (fun x => x =? r') (map fst l))).
    { symmetry. apply filter_map_len. }
    rewrite E, spec_fst, filter_map_len.
    destruct (rot_surj n r r' ltac:(lia) Hr) as (k & Hk & Ek).
    apply (filter_unique_len _ _ k); [apply seq_NoDup|apply in_seq; lia|now apply Nat.eqb_eq|].
    intros y Hy Ey. apply in_seq in Hy. apply Nat.eqb_eq in Ey. apply (rot_inj n r); try lia.
  Qed.

  Lemma spec_complete : complete_nary N l = true.
  Proof.
    unfold complete_nary. rewrite spec_indexed. cbn [forallb Nat.eqb orb andb].
    rewrite forallb_map. apply forallb_forall. intros k _. cbn. rewrite Nat.eqb_refl. apply orb_true_r.
  Qed.

  (* every clause of the checker holds on the closed form, for any duplicate-free identifiers *)
  Lemma check_nary_accepts ids :
    length ids = n -> nodupb ids = true -> check_nary n N r (GTree l) ids true true = [].
  Proof.
    intros Hl Hd. unfold check_nary. rewrite spec_wf, spec_perm, spec_complete. cbn [andb clause app].
    unfold l at 1. unfold nary_spec. rewrite Nat.eqb_refl. cbn [clause app].
    unfold ids_clauses. rewrite Hl, spec_len, Nat.eqb_refl, Hd. reflexivity.
  Qed.
End Nary.

(* the checker never reports the model's own output of the n-ary generator: for every roster
   size, branching factor and root (none, or a member), with pairwise different node ids *)
Theorem check_accepts_model_nary n N root ids :
  1 <= N -> 1 <= n -> (root = RNil \/ exists k, root = RIdx k /\ k < n) ->
  length ids = n -> nodupb ids = true ->
  check (CNary n N root (gen_nary n N root) ids true true) = [].
Proof.
  intros HN Hn Hroot Hl Hd. rewrite nary_shape by assumption. cbn [check].
  replace (N =? 0) with false by (symmetry; apply Nat.eqb_neq; lia).
  replace (n =? 0) with false by (symmetry; apply Nat.eqb_neq; lia). cbn [orb].
  destruct Hroot as [->|(k & -> & Hk)]; cbn [nary_root].
  - apply check_nary_accepts; auto; lia.
  - apply Nat.ltb_lt in Hk as Hk'. rewrite Hk'. apply check_nary_accepts; auto.
Qed.

(* and for a root outside the roster the checker accepts exactly the model's "no tree" *)
Theorem check_accepts_model_bad_root n N k ids links ridx :
  1 <= N -> 1 <= n -> n <= k ->
  check (CNary n N (RIdx k) (gen_nary n N (RIdx k)) ids links ridx) = [] /\
  check (CNary n N RForeign (gen_nary n N RForeign) ids links ridx) = [].
Proof.
  intros HN Hn Hk. destruct (bad_root_none n N k Hk) as [E1 E2]. rewrite E1, E2. cbn [check].
  replace (N =? 0) with false by (symmetry; apply Nat.eqb_neq; lia).
  replace (n =? 0) with false by (symmetry; apply Nat.eqb_neq; lia). cbn [orb].
  replace (k <? n) with false by (symmetry; apply Nat.ltb_ge; lia). split; reflexivity.
Qed.

Example check_accepts_example :
  check (CNary 7 2 (RIdx 3) (gen_nary 7 2 (RIdx 3)) [10; 11; 12; 13; 14; 15; 16] true true) = [].
Proof. vm_compute. reflexivity. Qed.
