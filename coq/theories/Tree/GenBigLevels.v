(* C12 -- the level sizes that the big generator's loop records ARE the level sizes of the tree it
   returns: [level_sizes] (Corr/C12.v) computes, from the parent links alone, the depth of every
   node and counts the nodes per depth; on the generator's output this gives exactly the recorded
   list. Together with GenProofs.gen_big_levels: in the returned tree every level but the
   deepest is full. For every roster, host pattern, branching factor >= 1 and node count. *)
From Coq Require Import List Arith Bool Lia.
Import ListNotations.
From Onet Require Import Tree.Gen Tree.GenProofs Tree.GenBigProofs Tree.GenBigShape Corr.C12.

(* depth list of a tree whose levels have the sizes [sz], first level at depth [j] *)
Fixpoint blocks (sz : list nat) (j : nat) : list nat :=
  match sz with
  | [] => []
  | s :: t => repeat j s ++ blocks t (S j)
  end.

Lemma blocks_app l1 : forall l2 j, blocks (l1 ++ l2) j = blocks l1 j ++ blocks l2 (j + length l1).
Proof.
  induction l1 as [|s t IH]; intros l2 j; cbn [app blocks length].
  - now rewrite Nat.add_0_r.
  - rewrite IH, <- app_assoc. replace (S j + length t) with (j + S (length t)) by lia. reflexivity.
Qed.

Lemma blocks_length sz : forall j, length (blocks sz j) = list_sum sz.
Proof.
  induction sz as [|s t IH]; intros j; cbn [blocks list_sum fold_right]; [reflexivity|].
  rewrite app_length, repeat_length, IH. reflexivity.
Qed.

Lemma depths_app r1 : forall r2 acc, depths (r1 ++ r2) acc = depths r2 (depths r1 acc).
Proof.
  induction r1 as [|[x p] r1 IH]; intros r2 acc; cbn [app depths]; [reflexivity|]. apply IH.
Qed.

Lemma depths_block (ris : list nat) p : forall acc, p < length acc ->
  depths (map (fun ri => (ri, p)) ris) acc = acc ++ repeat (S (nth p acc 0)) (length ris).
Proof.
  induction ris as [|x r IH]; intros acc Hp; cbn [map depths length repeat].
  - now rewrite app_nil_r.
  - rewrite IH by (rewrite app_length; cbn; lia).
    rewrite app_nth1 by exact Hp. rewrite <- app_assoc. reflexivity.
Qed.

Lemma nth_app_repeat (D : list nat) x n p : length D <= p -> p < length D + n -> nth p (D ++ repeat x n) 0 = x.
Proof.
  intros H1 H2. rewrite app_nth2 by lia.
  assert (Hq : p - length D < n) by lia. revert Hq. generalize (p - length D) as q.
  clear. induction n as [|m IH]; intros k Hk; [lia|]. destruct k; cbn; [reflexivity|apply IH; lia].
Qed.

(* one pass over the parents a, a+1, ... of a level, all of which have depth j *)
Lemma level_depths hosts useAll ilLen N nodes L : forall lvl i st newlvl st' newlvl' a j r,
  level hosts useAll ilLen N nodes L lvl i st newlvl = Some (st', newlvl') ->
  map fst lvl = seq a (length lvl) -> a + length lvl <= total st ->
  rev (bacc st) = (0, 0) :: r -> length (depths r [0]) = total st ->
  (forall p, a <= p < a + length lvl -> nth p (depths r [0]) 0 = j) ->
  exists r', rev (bacc st') = (0, 0) :: r' /\
             depths r' [0] = depths r [0] ++ repeat (S j) (total st' - total st) /\
             total st <= total st'.
Proof.
  induction lvl as [|[p pr] rest IH]; intros i st newlvl st' newlvl' a j r H Hseq Hle Hrev Hlen Hdep.
  - cbn in H. inversion H; subst. exists r. rewrite Nat.sub_diag. cbn. rewrite app_nil_r. auto.
  - cbn [level] in H.
    cbn [map fst length seq] in Hseq. inversion Hseq as [[Hp Hrest]]. subst p. cbn [length] in Hle, Hdep.
    destruct (nth_error hosts pr); [|discriminate].
    destruct (place _ _ _ _ _ _ _ _) as [[st1 created]|] eqn:Hpl; [|discriminate].
    destruct (place_shape _ _ _ _ _ _ _ _ _ _ Hpl) as (ris & Hl & Hb & _).
    pose proof (place_total _ _ _ _ _ _ _ _ _ _ Hpl) as [Ht _].
    set (cnt := if N <? (nodes - total st) * (i + 1) / L then N else (nodes - total st) * (i + 1) / L) in *.
    set (D := depths r [0]) in *.
    assert (Hrev1 : rev (bacc st1) = (0, 0) :: (r ++ map (fun ri => (ri, a)) ris)).
    { rewrite Hb, rev_app_distr, rev_involutive, Hrev. reflexivity. }
    assert (HD1 : depths (r ++ map (fun ri => (ri, a)) ris) [0] = D ++ repeat (S j) cnt).
    { rewrite depths_app. fold D. rewrite depths_block by lia. rewrite Hl, (Hdep a) by lia. reflexivity. }
    apply (IH _ _ _ _ _ (S a) j _ H) in Hrev1; auto; try lia.
    + destruct Hrev1 as (r' & H1 & H2 & H3). exists r'. split; [exact H1|]. split; [|lia].
      rewrite H2, HD1, <- app_assoc, <- repeat_app. do 2 f_equal. lia.
    + rewrite HD1, app_length, repeat_length. lia.
    + intros p Hp. rewrite HD1, app_nth1 by lia. apply Hdep. lia.
Qed.

(* the nodes a level pass creates are numbered consecutively from [total st] *)
Lemma level_newlvl hosts useAll ilLen N nodes L : forall lvl i st newlvl st' newlvl',
  level hosts useAll ilLen N nodes L lvl i st newlvl = Some (st', newlvl') ->
  map fst newlvl' = map fst newlvl ++ seq (total st) (total st' - total st) /\ total st <= total st'.
Proof.
  induction lvl as [|[p pr] rest IH]; intros i st newlvl st' newlvl' H.
  - cbn in H. inversion H; subst. rewrite Nat.sub_diag. cbn. rewrite app_nil_r. auto.
  - cbn [level] in H.
    destruct (nth_error hosts pr); [|discriminate].
    destruct (place _ _ _ _ _ _ _ _) as [[st1 created]|] eqn:Hpl; [|discriminate].
    destruct (place_shape _ _ _ _ _ _ _ _ _ _ Hpl) as (ris & Hl & _ & Hc).
    pose proof (place_total _ _ _ _ _ _ _ _ _ _ Hpl) as [Ht _].
    cbn [app] in Hc. apply IH in H. destruct H as (H2 & H3). split; [|lia].
    rewrite H2, map_app, map_map. cbn [fst]. rewrite map_id, Hc, <- app_assoc. f_equal.
    rewrite Ht. rewrite <- seq_app. f_equal. lia.
Qed.

Lemma levels_depths fuel : forall hosts useAll ilLen N nodes lvl st sizes st' sizes' r,
  1 <= N ->
  levels fuel hosts useAll ilLen N nodes lvl st sizes = Some (st', sizes') ->
  sizes <> [] -> length lvl = hd 0 sizes -> total st = list_sum sizes ->
  map fst lvl = seq (total st - length lvl) (length lvl) -> length lvl <= total st ->
  rev (bacc st) = (0, 0) :: r -> depths r [0] = blocks (rev sizes) 0 ->
  (forall p, total st - length lvl <= p < total st -> nth p (depths r [0]) 0 = length sizes - 1) ->
  exists r', rev (bacc st') = (0, 0) :: r' /\ depths r' [0] = blocks (rev sizes') 0.
Proof.
  induction fuel as [|f IH]; intros hosts useAll ilLen N nodes lvl st sizes st' sizes' r HN H Hne Hl Hs Hseq Hle Hrev HD Hdep.
  - cbn in H. destruct (nodes <=? total st); [|discriminate]. inversion H; subst. eauto.
  - cbn [levels] in H. destruct (nodes <=? total st); [inversion H; subst; eauto|].
    destruct (level _ _ _ _ _ _ _ _ _ _) as [[st1 newlvl]|] eqn:Hlv; [|discriminate].
    assert (Hlen : length (depths r [0]) = total st).
    { rewrite HD, blocks_length, Hs. clear. induction sizes as [|x t IH]; cbn [rev]; [reflexivity|].
      rewrite list_sum_app, IH. unfold list_sum. cbn [fold_right]. lia. }
    destruct (level_depths _ _ _ _ _ _ _ _ _ _ _ _ (total st - length lvl) (length sizes - 1) r Hlv Hseq ltac:(lia) Hrev Hlen)
      as (r1 & Hrev1 & HD1 & T1).
    { intros p Hp. apply Hdep. lia. }
    destruct (level_newlvl _ _ _ _ _ _ _ _ _ _ _ _ Hlv) as (F1 & _).
    cbn [map app] in F1.
    assert (Lnew : length newlvl = total st1 - total st) by (rewrite <- (map_length fst newlvl), F1, seq_length; reflexivity).
    apply (IH _ _ _ _ _ _ _ _ _ _ r1 HN H); auto.
    + discriminate.
    + cbn [list_sum fold_right]. change (fold_right Init.Nat.add 0 sizes) with (list_sum sizes). lia.
    + rewrite F1, Lnew. f_equal. lia.
    + lia.
    + rewrite HD1, HD. cbn [rev]. rewrite blocks_app. cbn [blocks]. rewrite app_nil_r, rev_length, Lnew.
      f_equal. f_equal. destruct sizes; [congruence|cbn; lia].
    + intros p Hp. rewrite HD1. cbn [length].
      replace (S (length sizes) - 1) with (S (length sizes - 1)) by (destruct sizes; [congruence|cbn; lia]).
      apply nth_app_repeat; lia.
Qed.

(* ---- from the depth list to the level sizes ------------------------------------------------ *)

Lemma count_repeat x n d : count_occ Nat.eq_dec (repeat x n) d = if x =? d then n else 0.
Proof.
  induction n as [|n IH]; cbn [repeat count_occ]; [now destruct (x =? d)|].
  destruct (Nat.eq_dec x d) as [->|Hne].
  - rewrite Nat.eqb_refl in *. now rewrite IH.
  - apply Nat.eqb_neq in Hne. rewrite Hne in *. exact IH.
Qed.

Lemma count_blocks sz : forall j d,
  count_occ Nat.eq_dec (blocks sz j) d = if (j <=? d) && (d <? j + length sz) then nth (d - j) sz 0 else 0.
Proof.
  induction sz as [|s t IH]; intros j d; cbn [blocks length].
  - cbn [count_occ]. destruct ((j <=? d) && (d <? j + 0)); [destruct (d - j)|]; reflexivity.
  - rewrite count_occ_app, count_repeat, IH.
    destruct (Nat.eqb_spec j d) as [->|Hne].
    + replace (d <=? d) with true by (symmetry; apply Nat.leb_le; lia).
      replace (d <? d + S (length t)) with true by (symmetry; apply Nat.ltb_lt; lia).
      replace (S d <=? d) with false by (symmetry; apply Nat.leb_gt; lia).
      cbn [andb]. rewrite Nat.sub_diag. cbn. lia.
    + destruct (j <=? d) eqn:E1.
      * apply Nat.leb_le in E1.
        replace (S j <=? d) with true by (symmetry; apply Nat.leb_le; lia).
        replace (d <? j + S (length t)) with (d <? S j + length t) by (f_equal; lia).
        cbn [andb]. destruct (d <? S j + length t); [|reflexivity].
        replace (d - j) with (S (d - S j)) by lia. reflexivity.
      * apply Nat.leb_gt in E1.
        replace (S j <=? d) with false by (symmetry; apply Nat.leb_gt; lia). reflexivity.
Qed.

Lemma fold_max_app a b :
  fold_right Nat.max 0 (a ++ b) = Nat.max (fold_right Nat.max 0 a) (fold_right Nat.max 0 b).
Proof. induction a as [|x r IH]; cbn; [reflexivity|]. rewrite IH. lia. Qed.

Lemma fold_max_repeat x n : 1 <= n -> fold_right Nat.max 0 (repeat x n) = x.
Proof.
  induction n as [|n IH]; intros H; [lia|]. cbn. destruct n; [cbn; lia|]. rewrite IH by lia. lia.
Qed.

Lemma max_blocks sz : forall j, sz <> [] -> Forall (fun s => 1 <= s) sz ->
  fold_right Nat.max 0 (blocks sz j) = j + length sz - 1.
Proof.
  induction sz as [|s t IH]; intros j Hne Hf; [congruence|]. cbn [blocks length].
  inversion Hf as [|? ? Hs Ht]; subst.
  rewrite fold_max_app, fold_max_repeat by exact Hs.
  destruct t as [|s' t'].
  - cbn. lia.
  - rewrite IH by (try discriminate; exact Ht). cbn [length]. lia.
Qed.

Lemma map_nth_seq (l : list nat) : map (fun d => nth d l 0) (seq 0 (length l)) = l.
Proof.
  induction l as [|x r IH]; cbn; [reflexivity|]. f_equal. rewrite <- seq_shift, map_map. exact IH.
Qed.

Lemma level_sizes_of_blocks x r sz :
  sz <> [] -> Forall (fun s => 1 <= s) sz -> depths r [0] = blocks sz 0 -> level_sizes (x :: r) = sz.
Proof.
  intros Hne Hf HD. unfold level_sizes. rewrite HD, max_blocks by assumption. cbn [Nat.add].
  replace (S (length sz - 1)) with (length sz) by (destruct sz; [congruence|cbn; lia]).
  transitivity (map (fun d => nth d sz 0) (seq 0 (length sz))); [|apply map_nth_seq].
  apply map_ext_in. intros d Hd. apply in_seq in Hd.
  rewrite count_blocks. cbn [Nat.add].
  replace (d <? length sz) with true by (symmetry; apply Nat.ltb_lt; lia).
  cbn. now rewrite Nat.sub_0_r.
Qed.

Lemma rfull_all_pos N l : 1 <= N -> rfull N l -> Forall (fun s => 1 <= s) l.
Proof.
  intros HN. induction l as [|c [|d r] IH]; cbn [rfull]; intros H; [tauto|subst; repeat constructor|].
  destruct H as [-> H]. specialize (IH H). constructor; [|exact IH].
  inversion IH; subst. nia.
Qed.

Lemma rshape_all_pos N l : 1 <= N -> rshape N l -> Forall (fun s => 1 <= s) l.
Proof.
  intros HN. destruct l as [|c [|d r]]; cbn [rshape]; intros H; [tauto|subst; repeat constructor|].
  destruct H as [H1 H2]. constructor; [lia|]. now apply (rfull_all_pos N).
Qed.

(* the level sizes of the returned tree, computed from its parent links, are the recorded sizes *)
Theorem gen_big_level_sizes hosts N nodes l sizes :
  1 <= N -> 1 <= nodes ->
  gen_big hosts N nodes = GTree l -> gen_big_sizes hosts N nodes = Some sizes ->
  level_sizes l = sizes.
Proof.
  intros HN Hn. unfold gen_big, gen_big_sizes.
  destruct (gen_big_full hosts N nodes) as [[st sz]|] eqn:Ef; [|discriminate].
  intros Hl Hs. inversion Hl; subst l. inversion Hs; subst sizes. clear Hl Hs.
  destruct (gen_big_full_spec hosts N nodes st sz HN Hn Ef) as (_ & _ & Hshape).
  unfold gen_big_full in Ef. destruct (length hosts =? 0); [discriminate|].
  set (st0 := {| used := _; roIndex := _; total := 1; bacc := [(0, 0)] |}) in Ef.
  destruct (levels_depths _ _ _ _ _ _ _ _ _ _ _ [] HN Ef) as (r' & Hrev & HD); cbn; auto; try discriminate.
  - intros p Hp. assert (p = 0) by lia. subst. reflexivity.
  - rewrite Hrev. apply level_sizes_of_blocks; [| |exact HD].
    + destruct sz; [cbn in Hshape; tauto|]. cbn. intros E. apply app_eq_nil in E as [_ E]. discriminate.
    + apply Forall_rev. now apply (rshape_all_pos N).
Qed.

(* hence, stated for the tree: the level sizes of the returned tree sum to the node count, the
   root level has one node, every level but the deepest holds N times the level above it, and
   the deepest between 1 and N times *)
Theorem gen_big_tree_levels hosts N nodes l :
  hosts <> [] -> 1 <= N -> 1 <= nodes -> gen_big hosts N nodes = GTree l ->
  list_sum (level_sizes l) = nodes /\ rshape N (rev (level_sizes l)).
Proof.
  intros Hh HN Hn Hl.
  destruct (gen_big_sizes hosts N nodes) as [sizes|] eqn:Es.
  - rewrite (gen_big_level_sizes hosts N nodes l sizes HN Hn Hl Es).
    now apply (gen_big_levels hosts N nodes sizes).
  - unfold gen_big, gen_big_sizes in *. destruct (gen_big_full hosts N nodes) as [[? ?]|]; discriminate.
Qed.
