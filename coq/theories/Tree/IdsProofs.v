(* C13 -- proofs about the identifier model of Tree/Ids.v.

   Every identifier is [hash (pre-image)].  The hash functions are arbitrary
   functions (section-free: universally quantified arguments); what is proved is
   that the PRE-IMAGE ENCODINGS are injective on what they are meant to
   identify, so that equal identifiers of different objects exhibit a collision
   of the hash function, stated as an explicit disjunct:

       Collision H x y  :=  x <> y /\ H x = H y.                                *)
From Coq Require Import List Arith Bool Ascii NArith Lia.
Import ListNotations.
From Onet Require Import Base.Corr Base.C13Bytes Base.C13BytesProofs Tree.Ids Tree.IdsCheck.

Definition Collision (H : bytes -> bytes) (x y : bytes) : Prop := x <> y /\ H x = H y.

Lemma hash_eq_cases (H : bytes -> bytes) x y : H x = H y -> x = y \/ Collision H x y.
Proof.
  intros E. destruct (bytes_eq_dec x y) as [e|n]; [left; exact e | right; split; assumption].
Qed.

(* ======================================================================== *)
(* uuid text form                                                            *)

Lemma dash_length : length dash = 1.
Proof. reflexivity. Qed.

Lemma uuid_str_length u : length u = 16 -> length (uuid_str u) = 36.
Proof.
  intros H. unfold uuid_str.
  rewrite !app_length, !hex_length, !firstn_length, !skipn_length, dash_length, H. reflexivity.
Qed.

Lemma split16 (u : bytes) : length u = 16 ->
  u = firstn 4 u ++ firstn 2 (skipn 4 u) ++ firstn 2 (skipn 6 u) ++ firstn 2 (skipn 8 u) ++ skipn 10 u.
Proof.
  intros H.
  do 16 (destruct u as [|? u]; [discriminate H|]).
  destruct u; [reflexivity | discriminate H].
Qed.

Lemma uuid_str_inj u v : length u = 16 -> length v = 16 -> uuid_str u = uuid_str v -> u = v.
Proof.
  intros Hu Hv H. unfold uuid_str in H.
  assert (L4 : forall w : bytes, length w = 16 -> length (hex (firstn 4 w)) = 8)
    by (intros w Hw; rewrite hex_length, firstn_length, Hw; reflexivity).
  assert (L2 : forall (w : bytes) k, length w = 16 -> k <= 14 -> length (hex (firstn 2 (skipn k w))) = 4).
  { intros w k Hw Hk. rewrite hex_length, firstn_length, skipn_length, Hw.
    replace (Nat.min 2 (16 - k)) with 2 by lia. reflexivity. }
  apply app_inj_len in H as [E1 H]; [|rewrite !L4 by assumption; reflexivity].
  apply app_inv_head in H.
  apply app_inj_len in H as [E2 H]; [|rewrite !L2 by (assumption || lia); reflexivity].
  apply app_inv_head in H.
  apply app_inj_len in H as [E3 H]; [|rewrite !L2 by (assumption || lia); reflexivity].
  apply app_inv_head in H.
  apply app_inj_len in H as [E4 H]; [|rewrite !L2 by (assumption || lia); reflexivity].
  apply app_inv_head in H.
  apply hex_inj in E1, E2, E3, E4, H.
  rewrite (split16 u Hu), (split16 v Hv). rewrite E1, E2, E3, E4, H. reflexivity.
Qed.

(* ======================================================================== *)
(* tokens                                                                    *)

Definition token_wf (t : token) : Prop :=
  length (tk_roster t) = 16 /\ length (tk_tree t) = 16 /\ length (tk_proto t) = 16 /\
  length (tk_service t) = 16 /\ length (tk_round t) = 16 /\ length (tk_node t) = 16.

Lemma token_url_inj t1 t2 : token_wf t1 -> token_wf t2 -> token_url t1 = token_url t2 -> t1 = t2.
Proof.
  intros (A1 & A2 & A3 & A4 & A5 & A6) (B1 & B2 & B3 & B4 & B5 & B6) H.
  unfold token_url in H.
  apply app_inv_head in H. apply app_inv_head in H.
  apply app_inj_len in H as [E1 H]; [|rewrite !uuid_str_length by assumption; reflexivity].
  apply app_inj_len in H as [E2 H]; [|rewrite !uuid_str_length by assumption; reflexivity].
  apply app_inj_len in H as [E3 H]; [|rewrite !uuid_str_length by assumption; reflexivity].
  apply app_inj_len in H as [E4 H]; [|rewrite !uuid_str_length by assumption; reflexivity].
  apply app_inj_len in H as [E5 E6]; [|rewrite !uuid_str_length by assumption; reflexivity].
  apply uuid_str_inj in E1, E2, E3, E4, E5, E6; try assumption.
  destruct t1, t2; simpl in *; subst; reflexivity.
Qed.

Theorem token_distinct (U5 : bytes -> bytes) t1 t2 :
  token_wf t1 -> token_wf t2 ->
  token_id U5 t1 = token_id U5 t2 ->
  t1 = t2 \/ Collision U5 (token_url t1) (token_url t2).
Proof.
  intros W1 W2 E. destruct (hash_eq_cases U5 _ _ E) as [e|c]; [left|right; exact c].
  apply token_url_inj; assumption.
Qed.

(* the form used in the property text: a difference in any one field *)
Corollary token_field_differs (U5 : bytes -> bytes) t1 t2 :
  token_wf t1 -> token_wf t2 ->
  (tk_roster t1 <> tk_roster t2 \/ tk_tree t1 <> tk_tree t2 \/ tk_proto t1 <> tk_proto t2 \/
   tk_service t1 <> tk_service t2 \/ tk_round t1 <> tk_round t2 \/ tk_node t1 <> tk_node t2) ->
  token_id U5 t1 <> token_id U5 t2 \/ Collision U5 (token_url t1) (token_url t2).
Proof.
  intros W1 W2 D.
  destruct (bytes_eq_dec (token_id U5 t1) (token_id U5 t2)) as [e|n]; [|left; exact n].
  destruct (token_distinct U5 t1 t2 W1 W2 e) as [E|C]; [|right; exact C].
  subst t2. exfalso. destruct D as [D|[D|[D|[D|[D|D]]]]]; apply D; reflexivity.
Qed.

Example token_wf_satisfiable : exists t1 t2, token_wf t1 /\ token_wf t2 /\ tk_round t1 <> tk_round t2.
Proof.
  exists {| tk_roster := repeat zero 16; tk_tree := repeat zero 16; tk_proto := repeat zero 16;
            tk_service := repeat zero 16; tk_round := repeat zero 16; tk_node := repeat zero 16 |},
         {| tk_roster := repeat zero 16; tk_tree := repeat zero 16; tk_proto := repeat zero 16;
            tk_service := repeat zero 16; tk_round := repeat one 16; tk_node := repeat zero 16 |}.
  repeat split; discriminate.
Qed.

(* ======================================================================== *)
(* names and keys                                                            *)

Theorem proto_distinct (U3 : bytes -> bytes) n1 n2 :
  proto_id U3 n1 = proto_id U3 n2 -> n1 = n2 \/ Collision U3 (proto_url n1) (proto_url n2).
Proof.
  intros E. destruct (hash_eq_cases U3 _ _ E) as [e|c]; [left|right; exact c].
  unfold proto_url in e. apply app_inv_head in e. apply app_inv_head in e. exact e.
Qed.

Theorem service_distinct (U5 : bytes -> bytes) n1 n2 :
  service_id U5 n1 = service_id U5 n2 -> n1 = n2 \/ Collision U5 (service_pre n1) (service_pre n2).
Proof. intros E. exact (hash_eq_cases U5 _ _ E). Qed.

Theorem server_distinct (U5 : bytes -> bytes) k1 k2 :
  server_id U5 (Some k1) = server_id U5 (Some k2) ->
  kstr k1 = kstr k2 \/ Collision U5 (server_url k1) (server_url k2).
Proof.
  intros E. simpl in E. destruct (hash_eq_cases U5 _ _ E) as [e|c]; [left|right; exact c].
  unfold server_url in e. apply app_inv_head in e. apply app_inv_head in e. exact e.
Qed.

Theorem node_distinct (U5 : bytes -> bytes) k1 k2 :
  node_id U5 k1 = node_id U5 k2 -> kstr k1 = kstr k2 \/ Collision U5 (node_pre k1) (node_pre k2).
Proof. intros E. exact (hash_eq_cases U5 _ _ E). Qed.

(* for Ed25519 the text form is the hex of the marshalled key, hence injective *)
Lemma ed25519_str_inj a b : ed25519_str a = ed25519_str b -> a = b.
Proof. apply hex_inj. Qed.

Corollary server_distinct_ed25519 (U5 : bytes -> bytes) k1 k2 :
  kstr k1 = ed25519_str (kbin k1) -> kstr k2 = ed25519_str (kbin k2) ->
  server_id U5 (Some k1) = server_id U5 (Some k2) ->
  kbin k1 = kbin k2 \/ Collision U5 (server_url k1) (server_url k2).
Proof.
  intros S1 S2 E. destruct (server_distinct U5 k1 k2 E) as [e|c]; [left|right; exact c].
  rewrite S1, S2 in e. apply ed25519_str_inj; exact e.
Qed.

(* ======================================================================== *)
(* rosters                                                                   *)

Definition keys_len (L : nat) (ks : list key) : Prop := Forall (fun k => length (kbin k) = L) ks.

Lemma roster_pre_concat r : roster_pre r = concat (map kbin (roster_keys r)).
Proof. unfold roster_pre. apply flat_map_concat_map. Qed.

(* purity: the id is a function of the flat sequence of marshalled keys *)
Theorem roster_id_pure (H256 U5 : bytes -> bytes) r1 r2 :
  map kbin (roster_keys r1) = map kbin (roster_keys r2) ->
  roster_id H256 U5 r1 = roster_id H256 U5 r2.
Proof.
  intros E. unfold roster_id, roster_uuid_pre. rewrite !roster_pre_concat, E. reflexivity.
Qed.

Theorem roster_flat_injective (H256 U5 : bytes -> bytes) (L : nat) r1 r2 :
  0 < L -> keys_len L (roster_keys r1) -> keys_len L (roster_keys r2) ->
  roster_id H256 U5 r1 = roster_id H256 U5 r2 ->
  map kbin (roster_keys r1) = map kbin (roster_keys r2) \/
  Collision H256 (roster_pre r1) (roster_pre r2) \/
  Collision U5 (roster_uuid_pre H256 r1) (roster_uuid_pre H256 r2).
Proof.
  intros HL K1 K2 E. unfold roster_id in E.
  destruct (hash_eq_cases U5 _ _ E) as [e|c]; [|right; right; exact c].
  unfold roster_uuid_pre in e. apply hex_inj in e.
  destruct (hash_eq_cases H256 _ _ e) as [e'|c]; [left|right; left; exact c].
  unfold roster_pre in e'. apply (flat_map_fixed_inj kbin L HL); assumption.
Qed.

(* the roster as a structure over marshalled keys *)
Definition member_bins (m : member) : bytes * list bytes := (kbin (m_key m), map kbin (m_srv m)).
Definition roster_bins (r : roster) : list (bytes * list bytes) := map member_bins r.

Lemma roster_keys_cons m r : roster_keys (m :: r) = m_key m :: m_srv m ++ roster_keys r.
Proof. reflexivity. Qed.

(* with the same number of service keys per member, the flat sequence determines the roster *)
Lemma flat_profile_determines r1 r2 :
  map (fun m => length (m_srv m)) r1 = map (fun m => length (m_srv m)) r2 ->
  map kbin (roster_keys r1) = map kbin (roster_keys r2) ->
  roster_bins r1 = roster_bins r2.
Proof.
  revert r2. induction r1 as [|m1 r1 IH]; intros [|m2 r2] HP HF; simpl in HP; try discriminate; auto.
  inversion HP as [[Hl HP']]. rewrite !roster_keys_cons in HF. simpl in HF.
  inversion HF as [[Hk HF']]. rewrite !map_app in HF'.
  apply app_inj_len in HF' as [Hs Hr]; [|rewrite !map_length; exact Hl].
  unfold roster_bins. cbn [map]. f_equal.
  - unfold member_bins. rewrite Hk, Hs. reflexivity.
  - apply IH; assumption.
Qed.

Theorem roster_injective_same_profile (H256 U5 : bytes -> bytes) (L : nat) r1 r2 :
  0 < L -> keys_len L (roster_keys r1) -> keys_len L (roster_keys r2) ->
  map (fun m => length (m_srv m)) r1 = map (fun m => length (m_srv m)) r2 ->
  roster_id H256 U5 r1 = roster_id H256 U5 r2 ->
  roster_bins r1 = roster_bins r2 \/
  Collision H256 (roster_pre r1) (roster_pre r2) \/
  Collision U5 (roster_uuid_pre H256 r1) (roster_uuid_pre H256 r2).
Proof.
  intros HL K1 K2 HP E.
  destruct (roster_flat_injective H256 U5 L r1 r2 HL K1 K2 E) as [e|c]; [left|right; exact c].
  apply flat_profile_determines; assumption.
Qed.

(* F16: the member boundaries are not part of the pre-image *)
Definition k32 (c : ascii) : key := {| kbin := repeat c 32; kstr := hex (repeat c 32); ktype := 0 |}.
Definition f16_r1 : roster := [ {| m_key := k32 "A"; m_srv := [k32 "B"] |} ].
Definition f16_r2 : roster := [ {| m_key := k32 "A"; m_srv := [] |}; {| m_key := k32 "B"; m_srv := [] |} ].

Theorem roster_structure_refuted :
  exists r1 r2,
    keys_len 32 (roster_keys r1) /\ keys_len 32 (roster_keys r2) /\
    NoDup (map kbin (roster_keys r1)) /\
    roster_bins r1 <> roster_bins r2 /\
    forall H256 U5, roster_id H256 U5 r1 = roster_id H256 U5 r2.
Proof.
  exists f16_r1, f16_r2. repeat apply conj.
  - repeat constructor.
  - repeat constructor.
  - repeat constructor; simpl; intuition discriminate.
  - discriminate.
  - intros. reflexivity.
Qed.

(* two DIFFERENT rosters (other keys, one service key each) satisfy the hypotheses of
   roster_injective_same_profile *)
Definition sat_r1 : roster := [ {| m_key := k32 "A"; m_srv := [k32 "B"] |}; {| m_key := k32 "C"; m_srv := [] |} ].
Definition sat_r2 : roster := [ {| m_key := k32 "D"; m_srv := [k32 "E"] |}; {| m_key := k32 "F"; m_srv := [] |} ].

Example roster_hypotheses_satisfiable :
  0 < 32 /\ keys_len 32 (roster_keys sat_r1) /\ keys_len 32 (roster_keys sat_r2) /\
  map (fun m => length (m_srv m)) sat_r1 = map (fun m => length (m_srv m)) sat_r2 /\
  roster_bins sat_r1 <> roster_bins sat_r2.
Proof. repeat apply conj; try (repeat constructor); discriminate. Qed.

(* legal rosters never crash *)
Lemma new_roster_legal (H256 U5 : bytes -> bytes) g r k0 rest :
  g = {| g_key := Some k0; g_srv := rest |} :: tl g ->
  resolve_roster g = Some r -> same_type k0 (map m_key r) = true ->
  new_roster H256 U5 g = RId (roster_id H256 U5 r) /\ roster_get_id H256 U5 g = RId (roster_id H256 U5 r).
Proof.
  intros Hg Hr Ht. unfold new_roster, roster_get_id. rewrite Hr.
  rewrite Hg at 1. simpl. rewrite Ht. split; reflexivity.
Qed.

(* ---- the roster value is independent of the slice it was built from --------- *)
(* whatever the caller does to its slice afterwards, the value NewRoster returned is
   the same value ... *)
Theorem roster_value_unaffected (v : roster_val) edits s :
  snd (fold_left edit_world edits (s, v)) = v.
Proof.
  revert s. induction edits as [|e r IH]; intros s; [reflexivity|]. simpl. apply IH.
Qed.

(* ... and its ID field is the id GetID() derives from its own member list *)
Theorem roster_value_consistent (H256 U5 : bytes -> bytes) g v :
  new_roster_val H256 U5 g = Some v ->
  rv_list v = g /\ roster_get_id H256 U5 (rv_list v) = RId (rv_id v).
Proof.
  unfold new_roster_val, new_roster. destruct g as [|g0 gr]; [discriminate|].
  destruct (g_key g0); [|discriminate].
  destruct (resolve_roster (g0 :: gr)) as [r|] eqn:R; [|discriminate].
  destruct (same_type _ _); [|discriminate]. intros E. inversion E; subst. simpl.
  split; [reflexivity|]. unfold roster_get_id. rewrite R. reflexivity.
Qed.

Corollary roster_value_after_edits (H256 U5 : bytes -> bytes) g v edits :
  new_roster_val H256 U5 g = Some v ->
  let v' := snd (fold_left edit_world edits (g, v)) in
  rv_list v' = g /\ rv_id v' = rv_id v /\ roster_get_id H256 U5 (rv_list v') = RId (rv_id v').
Proof.
  intros E v'. unfold v'. rewrite roster_value_unaffected.
  destruct (roster_value_consistent H256 U5 g v E) as [E1 E2]. auto.
Qed.

Example roster_value_example :
  exists g e, apply_edit g e <> g /\
    forall H256 U5, exists v, new_roster_val H256 U5 g = Some v.
Proof.
  exists [ {| g_key := Some (k32 "A"); g_srv := [] |}; {| g_key := Some (k32 "B"); g_srv := [] |} ], (ESwap 0 1).
  split; [discriminate|]. intros. eexists. reflexivity.
Qed.

(* ======================================================================== *)
(* trees                                                                     *)

Section TreeInd.
  Variable P : tree -> Prop.
  Hypothesis Hnode : forall k ch, Forall P ch -> P (TNode k ch).
  Fixpoint tree_ind2 (t : tree) : P t :=
    match t with
    | TNode k ch =>
        Hnode k ch ((fix go (l : list tree) : Forall P l :=
                       match l with
                       | [] => Forall_nil P
                       | c :: r => Forall_cons c (tree_ind2 c) (go r)
                       end) ch)
    end.
End TreeInd.

Inductive btree := BNode (b : bytes) (ch : list btree).

(* the tree as a structure over marshalled keys: shape and placement *)
Fixpoint tree_bins (t : tree) : btree :=
  match t with TNode k ch => BNode (kbin k) (map tree_bins ch) end.

Inductive shape := SNode (ch : list shape).
Fixpoint tree_shape (t : tree) : shape :=
  match t with TNode _ ch => SNode (map tree_shape ch) end.

Lemma tree_stream_eq f k ch :
  tree_stream f (TNode k ch) = kbin k ++ node_mark f (length ch) ++ flat_map (tree_stream f) ch.
Proof.
  reflexivity.
Qed.

Lemma tree_profile_eq k ch :
  tree_profile (TNode k ch) =
  (kbin k, match ch with [] => true | _ => false end) :: flat_map tree_profile ch.
Proof.
  reflexivity.
Qed.

(* every key has L marshalled bytes and every node fewer than 2^32 children *)
Inductive tree_ok (L : nat) : tree -> Prop :=
| tree_ok_node k ch :
    length (kbin k) = L -> (N.of_nat (length ch) < 4294967296)%N ->
    Forall (tree_ok L) ch -> tree_ok L (TNode k ch).

Inductive tree_keylen (L : nat) : tree -> Prop :=
| tree_keylen_node k ch :
    length (kbin k) = L -> Forall (tree_keylen L) ch -> tree_keylen L (TNode k ch).

Lemma tree_ok_keylen L t : tree_ok L t -> tree_keylen L t.
Proof.
  induction t as [k ch IH] using tree_ind2. intros H. inversion H as [k' ch' Hk Hn Hc]; subst k' ch'.
  constructor; [exact Hk|]. rewrite Forall_forall in *. intros c Hin. apply IH; auto.
Qed.

(* --- purity: the stream depends only on shape and marshalled keys --- *)
Lemma tree_stream_pure f t1 : forall t2, tree_bins t1 = tree_bins t2 -> tree_stream f t1 = tree_stream f t2.
Proof.
  induction t1 as [k1 ch1 IH] using tree_ind2. intros [k2 ch2] E.
  cbn [tree_bins] in E. inversion E as [[Hk Hc]]. rewrite !tree_stream_eq, Hk.
  assert (HL : length ch1 = length ch2) by (apply (f_equal (@length _)) in Hc; rewrite !map_length in Hc; exact Hc).
  rewrite HL. do 2 f_equal. clear Hk HL E.
  revert ch2 Hc. induction ch1 as [|c1 r1 IHl]; intros [|c2 r2] Hc; simpl in Hc; try discriminate; auto.
  inversion Hc as [[Hh Ht]]. inversion IH as [|? ? Hc1 Hr1]; subst.
  cbn [flat_map]. rewrite (Hc1 c2 Hh). f_equal. apply IHl; assumption.
Qed.

Theorem tree_id_pure f (H256 U5 : bytes -> bytes) rid t1 t2 :
  tree_bins t1 = tree_bins t2 -> tree_id f H256 U5 rid t1 = tree_id f H256 U5 rid t2.
Proof. intros E. unfold tree_id, tree_url. rewrite (tree_stream_pure f t1 t2 E). reflexivity. Qed.

(* --- unique parsing of the stream with child counts (fix F15) --- *)
Lemma node_mark_fixed_length n : length (node_mark true n) = 4.
Proof. reflexivity. Qed.

Lemma forest_parse (P : tree -> tree -> Prop) (str : tree -> bytes) :
  forall ch1, Forall (fun c1 => forall c2 r1 r2, P c1 c2 -> str c1 ++ r1 = str c2 ++ r2 ->
                                  tree_bins c1 = tree_bins c2 /\ r1 = r2) ch1 ->
  forall ch2 r1 r2, Forall2 P ch1 ch2 ->
    flat_map str ch1 ++ r1 = flat_map str ch2 ++ r2 ->
    map tree_bins ch1 = map tree_bins ch2 /\ r1 = r2.
Proof.
  induction ch1 as [|c1 t1 IHl]; intros HF ch2 r1 r2 H2 E; inversion H2; subst; simpl in *; auto.
  inversion HF as [|? ? Hc Ht]; subst.
  rewrite <- !app_assoc in E.
  match goal with Hp : P c1 ?y |- _ => destruct (Hc y _ _ Hp E) as [Eb Er] end.
  match goal with Hf : Forall2 P t1 ?l |- _ => destruct (IHl Ht l r1 r2 Hf Er) as [Em Err] end.
  split; [rewrite Eb, Em; reflexivity | exact Err].
Qed.

Lemma Forall2_same_length_ok {A} (P : A -> Prop) : forall l1 l2 : list A,
  length l1 = length l2 -> Forall P l1 -> Forall P l2 -> Forall2 (fun a b => P a /\ P b) l1 l2.
Proof.
  induction l1 as [|a l1 IH]; intros [|b l2] HL H1 H2; simpl in HL; try discriminate; constructor.
  - inversion H1; inversion H2; subst; auto.
  - inversion H1; inversion H2; subst. apply IH; auto.
Qed.

Lemma tree_parse_fixed L t1 : forall t2 r1 r2,
  tree_ok L t1 /\ tree_ok L t2 ->
  tree_stream true t1 ++ r1 = tree_stream true t2 ++ r2 ->
  tree_bins t1 = tree_bins t2 /\ r1 = r2.
Proof.
  induction t1 as [k1 ch1 IH] using tree_ind2. intros [k2 ch2] r1 r2 [O1 O2] E.
  inversion O1 as [k1' ch1' Hk1 Hn1 Hc1]; inversion O2 as [k2' ch2' Hk2 Hn2 Hc2]; subst k1' ch1' k2' ch2'.
  rewrite !tree_stream_eq in E. rewrite <- !app_assoc in E.
  apply app_inj_len in E as [Ek E]; [|congruence].
  apply app_inj_len in E as [En E]; [|reflexivity].
  apply le32_inj in En; [|assumption|assumption].
  destruct (forest_parse (fun a b => tree_ok L a /\ tree_ok L b) (tree_stream true) ch1 IH ch2 r1 r2
              (Forall2_same_length_ok _ ch1 ch2 En Hc1 Hc2) E) as [Em Er].
  split; [|exact Er]. cbn [tree_bins]. rewrite Ek, Em. reflexivity.
Qed.

Theorem tree_stream_fixed_injective L t1 t2 :
  tree_ok L t1 -> tree_ok L t2 ->
  tree_stream true t1 = tree_stream true t2 -> tree_bins t1 = tree_bins t2.
Proof.
  intros O1 O2 E.
  destruct (tree_parse_fixed L t1 t2 [] [] (conj O1 O2)) as [Eb _]; [rewrite !app_nil_r; exact E | exact Eb].
Qed.

(* --- the url: roster id text (36 characters) then the digest text --- *)
Lemma tree_url_inj f (H256 : bytes -> bytes) rid1 rid2 t1 t2 :
  length rid1 = 16 -> length rid2 = 16 ->
  tree_url f H256 rid1 t1 = tree_url f H256 rid2 t2 ->
  rid1 = rid2 /\ H256 (tree_stream f t1) = H256 (tree_stream f t2).
Proof.
  intros L1 L2 E. unfold tree_url in E.
  apply app_inv_head in E. apply app_inv_head in E.
  apply app_inj_len in E as [Er Eh]; [|rewrite !uuid_str_length by assumption; reflexivity].
  split; [apply uuid_str_inj; assumption | apply hex_inj; exact Eh].
Qed.

(* with the fix F15: same id => same roster id, same shape, same placement *)
Theorem tree_distinct_fixed (H256 U5 : bytes -> bytes) L rid1 rid2 t1 t2 :
  tree_ok L t1 -> tree_ok L t2 -> length rid1 = 16 -> length rid2 = 16 ->
  tree_id true H256 U5 rid1 t1 = tree_id true H256 U5 rid2 t2 ->
  (rid1 = rid2 /\ tree_bins t1 = tree_bins t2) \/
  Collision H256 (tree_stream true t1) (tree_stream true t2) \/
  Collision U5 (tree_url true H256 rid1 t1) (tree_url true H256 rid2 t2).
Proof.
  intros O1 O2 L1 L2 E. unfold tree_id in E.
  destruct (hash_eq_cases U5 _ _ E) as [e|c]; [|right; right; exact c].
  destruct (tree_url_inj true H256 rid1 rid2 t1 t2 L1 L2 e) as [Er Eh].
  destruct (hash_eq_cases H256 _ _ Eh) as [e'|c]; [left|right; left; exact c].
  split; [exact Er | apply (tree_stream_fixed_injective L); assumption].
Qed.

(* --- the pinned code: leaf markers only --- *)

(* trees of the same shape are told apart by their keys (placement) *)
Lemma tree_parse_same_shape f L t1 : forall t2 r1 r2,
  (tree_keylen L t1 /\ tree_keylen L t2 /\ tree_shape t1 = tree_shape t2) ->
  tree_stream f t1 ++ r1 = tree_stream f t2 ++ r2 ->
  tree_bins t1 = tree_bins t2 /\ r1 = r2.
Proof.
  induction t1 as [k1 ch1 IH] using tree_ind2. intros [k2 ch2] r1 r2 (O1 & O2 & S) E.
  inversion O1 as [k1' ch1' Hk1 Hc1]; inversion O2 as [k2' ch2' Hk2 Hc2]; subst k1' ch1' k2' ch2'.
  cbn [tree_shape] in S. inversion S as [S'].
  assert (HL : length ch1 = length ch2)
    by (apply (f_equal (@length _)) in S'; rewrite !map_length in S'; exact S').
  rewrite !tree_stream_eq in E. rewrite <- !app_assoc in E.
  apply app_inj_len in E as [Ek E]; [|congruence].
  rewrite HL in E. apply app_inv_head in E.
  assert (F2 : Forall2 (fun a b => tree_keylen L a /\ tree_keylen L b /\ tree_shape a = tree_shape b) ch1 ch2).
  { clear - S' Hc1 Hc2. revert ch2 S' Hc2.
    induction ch1 as [|a l1 IHl]; intros [|b l2] S' Hc2; simpl in S'; try discriminate; constructor.
    - inversion S'; inversion Hc1; inversion Hc2; subst; auto.
    - inversion S'; inversion Hc1; inversion Hc2; subst. apply IHl; auto. }
  destruct (forest_parse _ (tree_stream f) ch1 IH ch2 r1 r2 F2 E) as [Em Er].
  split; [|exact Er]. cbn [tree_bins]. rewrite Ek, Em. reflexivity.
Qed.

Theorem tree_distinct_same_shape f (H256 U5 : bytes -> bytes) L rid1 rid2 t1 t2 :
  tree_keylen L t1 -> tree_keylen L t2 -> tree_shape t1 = tree_shape t2 ->
  length rid1 = 16 -> length rid2 = 16 ->
  tree_id f H256 U5 rid1 t1 = tree_id f H256 U5 rid2 t2 ->
  (rid1 = rid2 /\ tree_bins t1 = tree_bins t2) \/
  Collision H256 (tree_stream f t1) (tree_stream f t2) \/
  Collision U5 (tree_url f H256 rid1 t1) (tree_url f H256 rid2 t2).
Proof.
  intros O1 O2 S L1 L2 E. unfold tree_id in E.
  destruct (hash_eq_cases U5 _ _ E) as [e|c]; [|right; right; exact c].
  destruct (tree_url_inj f H256 rid1 rid2 t1 t2 L1 L2 e) as [Er Eh].
  destruct (hash_eq_cases H256 _ _ Eh) as [e'|c]; [left|right; left; exact c].
  split; [exact Er|].
  destruct (tree_parse_same_shape f L t1 t2 [] [] (conj O1 (conj O2 S))) as [Eb _];
    [rewrite !app_nil_r; exact e' | exact Eb].
Qed.

(* different roster ids always separate trees, whatever the trees *)
Theorem tree_distinct_rosters f (H256 U5 : bytes -> bytes) rid1 rid2 t1 t2 :
  length rid1 = 16 -> length rid2 = 16 -> rid1 <> rid2 ->
  tree_id f H256 U5 rid1 t1 <> tree_id f H256 U5 rid2 t2 \/
  Collision U5 (tree_url f H256 rid1 t1) (tree_url f H256 rid2 t2).
Proof.
  intros L1 L2 D.
  destruct (bytes_eq_dec (tree_id f H256 U5 rid1 t1) (tree_id f H256 U5 rid2 t2)) as [e|n]; [|left; exact n].
  right. unfold tree_id in e. destruct (hash_eq_cases U5 _ _ e) as [e'|c]; [|exact c].
  exfalso. apply D. apply (tree_url_inj f H256 rid1 rid2 t1 t2 L1 L2 e').
Qed.

(* the pinned stream is a function of the pre-order (key, leaf?) sequence alone *)
Definition profile_bytes (p : bytes * bool) : bytes :=
  fst p ++ (if snd p then [ascii_of_nat 1] else []).

Lemma tree_stream_pinned_profile t :
  tree_stream false t = flat_map profile_bytes (tree_profile t).
Proof.
  induction t as [k ch IH] using tree_ind2.
  rewrite tree_stream_eq, tree_profile_eq. cbn [flat_map]. unfold profile_bytes at 1. cbn [fst snd].
  rewrite <- app_assoc. f_equal.
  assert (E : flat_map (tree_stream false) ch = flat_map profile_bytes (flat_map tree_profile ch)).
  { induction ch as [|c r IHl]; [reflexivity|]. inversion IH as [|? ? Hc Hr]; subst.
    cbn [flat_map]. rewrite flat_map_app, Hc, (IHl Hr). reflexivity. }
  rewrite E. destruct ch; reflexivity.
Qed.

(* F15 in general: equal pre-order (key, leaf?) sequences => equal TreeID, for every hash *)
Theorem tree_profile_collision (H256 U5 : bytes -> bytes) rid t1 t2 :
  tree_profile t1 = tree_profile t2 ->
  tree_id false H256 U5 rid t1 = tree_id false H256 U5 rid t2.
Proof.
  intros E. unfold tree_id, tree_url. rewrite !tree_stream_pinned_profile, E. reflexivity.
Qed.

(* F15: r(a(b,c)) and r(a(b),c) *)
Definition f15_t1 : tree :=
  TNode (k32 "r") [TNode (k32 "a") [TNode (k32 "b") []; TNode (k32 "c") []]].
Definition f15_t2 : tree :=
  TNode (k32 "r") [TNode (k32 "a") [TNode (k32 "b") []]; TNode (k32 "c") []].

Theorem tree_collision_refuted :
  exists t1 t2,
    tree_ok 32 t1 /\ tree_ok 32 t2 /\ NoDup (map kbin (tree_keys t1)) /\
    tree_keys t1 = tree_keys t2 /\
    tree_shape t1 <> tree_shape t2 /\ tree_bins t1 <> tree_bins t2 /\
    forall H256 U5 rid, tree_id false H256 U5 rid t1 = tree_id false H256 U5 rid t2.
Proof.
  exists f15_t1, f15_t2. repeat apply conj.
  - repeat constructor.
  - repeat constructor.
  - repeat constructor; simpl; intuition discriminate.
  - reflexivity.
  - discriminate.
  - discriminate.
  - intros. apply tree_profile_collision. reflexivity.
Qed.

(* ... and the same two trees are told apart once the child count is hashed *)
Example tree_fix_separates_witness :
  tree_stream true f15_t1 <> tree_stream true f15_t2.
Proof.
  intros E. apply (tree_stream_fixed_injective 32) in E; [discriminate | | ]; repeat constructor.
Qed.

(* legal trees never crash *)
Lemma new_tree_legal f (H256 U5 : bytes -> bytes) rid g t :
  resolve_tree g = Some t -> same_type (tree_root_key t) (tree_keys t) = true ->
  new_tree f H256 U5 (Some rid) g = RId (tree_id f H256 U5 rid t).
Proof. intros Hr Ht. unfold new_tree. rewrite Hr, Ht. reflexivity. Qed.

(* ======================================================================== *)
(* the checker of Tree/IdsCheck.v                                            *)

Lemma clause_nil n b : clause n b = [] <-> b = true.
Proof. destruct b; simpl; split; intros; congruence. Qed.

Section GroupSpec.
  Variable X : Type.
  Variable eqX : X -> X -> bool.
  Variable cls : X -> X -> nat.

  (* what a pair of observed (object, id) entries must satisfy *)
  Definition pair_ok (a b : X * bytes) : Prop :=
    if eqX (fst a) (fst b) then snd a = snd b else snd a <> snd b.

  Lemma pair_clause_nil a b : pair_clause X eqX cls a b = [] <-> pair_ok a b.
  Proof.
    unfold pair_clause, pair_ok. destruct (eqX (fst a) (fst b)); rewrite clause_nil.
    - apply bytes_eqb_eq.
    - rewrite negb_true_iff. apply bytes_eqb_neq.
  Qed.

  Lemma against_nil a l : against X eqX cls a l = [] <-> Forall (pair_ok a) l.
  Proof.
    induction l as [|b r IH]; simpl.
    - split; auto.
    - split.
      + intros H. apply app_eq_nil in H as [H1 H2]. constructor; [apply pair_clause_nil; exact H1 | apply IH; exact H2].
      + intros H. inversion H as [|? ? Hp Hr]; subst.
        apply pair_clause_nil in Hp. apply IH in Hr. rewrite Hp, Hr. reflexivity.
  Qed.

  Theorem group_clauses_nil l :
    group_clauses X eqX cls l = [] <-> ForallOrdPairs pair_ok l.
  Proof.
    induction l as [|a r IH]; simpl.
    - split; [constructor | reflexivity].
    - split.
      + intros H. apply app_eq_nil in H as [H1 H2].
        constructor; [apply against_nil; exact H1 | apply IH; exact H2].
      + intros H. inversion H as [|? ? Hp Hr]; subst.
        apply against_nil in Hp. apply IH in Hr. rewrite Hp, Hr. reflexivity.
  Qed.

  (* when eqX decides the sameness R of objects: the observed id is a well
     defined, injective function of the object (up to R) on the group *)
  Variable R : X -> X -> Prop.
  Hypothesis eqX_spec : forall x y, eqX x y = true <-> R x y.

  Corollary group_clauses_nil_iff l :
    group_clauses X eqX cls l = [] <->
    ForallOrdPairs (fun a b => R (fst a) (fst b) <-> snd a = snd b) l.
  Proof.
    rewrite group_clauses_nil.
    assert (E : forall a b, pair_ok a b <-> (R (fst a) (fst b) <-> snd a = snd b)).
    { intros a b. unfold pair_ok. destruct (eqX (fst a) (fst b)) eqn:Q.
      - apply eqX_spec in Q. tauto.
      - assert (~ R (fst a) (fst b)) by (intros e; apply eqX_spec in e; congruence). tauto. }
    split; intros H; induction H; constructor; auto.
    - rewrite Forall_forall in *. intros b Hb. apply E; auto.
    - rewrite Forall_forall in *. intros b Hb. apply E; auto.
  Qed.
End GroupSpec.

Lemma dedup_nil l : dedup l = [] <-> l = [].
Proof.
  split; [|intros ->; reflexivity].
  induction l as [|x r IH]; [reflexivity|]. simpl.
  destruct (existsb (Nat.eqb x) r) eqn:E; [|discriminate].
  intros H. apply IH in H. subst. discriminate.
Qed.

(* ---- what the object comparisons of the checker decide ------------------- *)
Lemma list_eqb_spec {A B} (e : A -> A -> bool) (f : A -> B) :
  (forall x y, e x y = true <-> f x = f y) ->
  forall a b, list_eqb e a b = true <-> map f a = map f b.
Proof.
  intros He. induction a as [|x a IH]; intros [|y b]; simpl; split; intros H; try discriminate; auto.
  - apply andb_true_iff in H as [H1 H2]. apply He in H1. apply IH in H2. congruence.
  - inversion H as [[H1 H2]]. apply andb_true_iff. split; [apply He; exact H1 | apply IH; exact H2].
Qed.

Lemma key_eqb_spec a b : key_eqb a b = true <-> kbin a = kbin b.
Proof. apply bytes_eqb_eq. Qed.

Lemma member_eqb_spec a b : member_eqb a b = true <-> member_bins a = member_bins b.
Proof.
  unfold member_eqb, member_bins. rewrite andb_true_iff, key_eqb_spec, (list_eqb_spec key_eqb kbin key_eqb_spec).
  split; [intros [-> ->]; reflexivity | intros H; inversion H; auto].
Qed.

Lemma roster_eqb_spec a b : roster_eqb a b = true <-> roster_bins a = roster_bins b.
Proof. apply list_eqb_spec, member_eqb_spec. Qed.

Lemma tree_eqb_eq k1 c1 k2 c2 :
  tree_eqb (TNode k1 c1) (TNode k2 c2) = key_eqb k1 k2 && list_eqb tree_eqb c1 c2.
Proof.
  cbn [tree_eqb]. f_equal. revert c2.
  induction c1 as [|x r IH]; intros [|y r2]; try reflexivity.
  cbn [list_eqb]. rewrite <- IH. reflexivity.
Qed.

Lemma tree_eqb_spec a : forall b, tree_eqb a b = true <-> tree_bins a = tree_bins b.
Proof.
  induction a as [k1 c1 IH] using tree_ind2. intros [k2 c2].
  rewrite tree_eqb_eq, andb_true_iff, key_eqb_spec. cbn [tree_bins].
  assert (E : list_eqb tree_eqb c1 c2 = true <-> map tree_bins c1 = map tree_bins c2).
  { clear k1 k2. revert c2. induction c1 as [|x r IHl]; intros [|y r2]; simpl; split; intros H; try discriminate; auto.
    - inversion IH as [|? ? Hx Hr]; subst. apply andb_true_iff in H as [H1 H2].
      apply Hx in H1. apply (IHl Hr) in H2. congruence.
    - inversion IH as [|? ? Hx Hr]; subst. inversion H as [[H1 H2]].
      apply andb_true_iff. split; [apply Hx; exact H1 | apply (IHl Hr); exact H2]. }
  rewrite E. split; [intros [-> ->]; reflexivity | intros H; inversion H; auto].
Qed.

Lemma ridtree_eqb_spec a b :
  ridtree_eqb a b = true <-> (fst a = fst b /\ tree_bins (snd a) = tree_bins (snd b)).
Proof. unfold ridtree_eqb. rewrite andb_true_iff, bytes_eqb_eq, tree_eqb_spec. reflexivity. Qed.

Lemma token_eqb_spec a b : token_eqb a b = true <-> a = b.
Proof.
  unfold token_eqb. rewrite !andb_true_iff, !bytes_eqb_eq. destruct a, b; simpl.
  split; [intros [[[[[-> ->] ->] ->] ->] ->]; reflexivity | intros H; inversion H; subst; repeat split].
Qed.

(* the classification of a collision between different trees: clause 5 exactly
   when the F15 mechanism applies (same roster id, same pre-order profile) *)
Lemma profile_eqb_spec a b : profile_eqb a b = true <-> a = b.
Proof.
  unfold profile_eqb. revert b. induction a as [|[x1 x2] a IH]; intros [|[y1 y2] b]; simpl; split; intros H; try discriminate; auto.
  - apply andb_true_iff in H as [H1 H2]. apply andb_true_iff in H1 as [H0 H1].
    apply bytes_eqb_eq in H0. apply Bool.eqb_prop in H1. apply IH in H2. congruence.
  - inversion H; subst. rewrite bytes_eqb_refl, Bool.eqb_reflx. simpl. apply IH. reflexivity.
Qed.

Lemma tree_cls_5 a b :
  tree_cls a b = 5 <-> (fst a = fst b /\ tree_profile (snd a) = tree_profile (snd b)).
Proof.
  unfold tree_cls.
  destruct (bytes_eqb (fst a) (fst b) && profile_eqb (tree_profile (snd a)) (tree_profile (snd b))) eqn:E.
  - apply andb_true_iff in E as [E1 E2]. apply bytes_eqb_eq in E1. apply profile_eqb_spec in E2. tauto.
  - split; [discriminate|]. intros [H1 H2]. apply bytes_eqb_eq in H1. apply profile_eqb_spec in H2.
    rewrite H1, H2 in E. discriminate.
Qed.

Lemma roster_cls_4 a b : roster_cls a b = 4 <-> roster_pre a = roster_pre b.
Proof.
  unfold roster_cls. destruct (bytes_eqb (roster_pre a) (roster_pre b)) eqn:E.
  - apply bytes_eqb_eq in E. tauto.
  - split; [discriminate|]. intros H. apply bytes_eqb_eq in H. congruence.
Qed.

Lemma checker_sameness :
  (forall a b, roster_eqb a b = true <-> roster_bins a = roster_bins b) /\
  (forall a b, ridtree_eqb a b = true <-> (fst a = fst b /\ tree_bins (snd a) = tree_bins (snd b))) /\
  (forall a b, token_eqb a b = true <-> a = b) /\
  (forall a b, bytes_eqb a b = true <-> a = b) /\
  (forall a b, key_eqb a b = true <-> kbin a = kbin b) /\
  (forall a b, tree_cls a b = 5 <-> (fst a = fst b /\ tree_profile (snd a) = tree_profile (snd b))) /\
  (forall a b, roster_cls a b = 4 <-> roster_pre a = roster_pre b).
Proof.
  repeat apply conj.
  - exact roster_eqb_spec.
  - exact ridtree_eqb_spec.
  - exact token_eqb_spec.
  - exact bytes_eqb_eq.
  - exact key_eqb_spec.
  - exact tree_cls_5.
  - exact roster_cls_4.
Qed.

(* ---- pre-images of different kinds of identifiers never coincide ---------
   (token / tree / server / protocol pre-images start with the name space URL and
   a kind tag; the tags differ in their first or second character) *)
Lemma kinds_separated f (H256 : bytes -> bytes) t rid tr k n :
  token_url t <> tree_url f H256 rid tr /\
  token_url t <> server_url k /\
  token_url t <> proto_url n /\
  tree_url f H256 rid tr <> server_url k /\
  tree_url f H256 rid tr <> proto_url n /\
  server_url k <> proto_url n.
Proof.
  unfold token_url, tree_url, server_url, proto_url.
  repeat apply conj; intros E; apply app_inv_head in E; discriminate E.
Qed.
