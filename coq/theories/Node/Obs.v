(* What the Go harness (harness/cmd/c02/nodeh) can OBSERVE of an instance, and
   the projection of the model's run onto it.  Shared by Corr/C02.v and
   Corr/C04.v.  Executable definitions only. *)
From Coq Require Import List Arith Bool.
Import ListNotations.
From Onet Require Export Node.Instance.

(* the *TreeNode a handler was given: nil, a node that is not in the instance's
   tree, or the node at a depth-first position of the tree *)
Inductive onode := ONil | OForeign | OPos (p : nat).

Record oelem := { o_node : onode; o_payload : nat }.

(* one handler call / one value read from a channel *)
Record odeliv := { od_inst : nat; od_type : nat; od_agg : bool; od_elems : list oelem }.

(* how the scenario ended: all messages dispatched / the process died / a
   dispatched message never came out *)
Inductive ofinal := FAlive | FCrashed | FHung.

(* registrations of the harness protocol (nodeh.go): type 0 is the harness's
   fence; 7 is a type the protocol does not register; 8 and 9 are aggregated
   channels of capacity 1 and 2 (4 and 6 have capacity 100) *)
Definition std_regs : regs :=
  [(0, (Handler, false)); (1, (Handler, false)); (2, (Handler, true));
   (3, (Channel, false)); (4, (Channel, true)); (5, (Handler, true)); (6, (Channel, true));
   (8, (Channel, true)); (9, (Channel, true))].

Definition proj_elem (e : elem) : oelem :=
  match e with
  | EMsg pos m => {| o_node := OPos pos; o_payload := p_payload m |}
  | EZero => {| o_node := ONil; o_payload := 0 |}
  end.

Definition proj_deliv (inst : nat) (d : delivery) : odeliv :=
  {| od_inst := inst; od_type := d_type d; od_agg := d_agg d; od_elems := map proj_elem (d_batch d) |}.

(* deliveries in order, each tagged with the instance of the message that caused it *)
Fixpoint project (l : list inj) (rs : list sres) : list odeliv :=
  match l, rs with
  | x :: l', r :: rs' => map (proj_deliv (i_inst x)) (deliveries_of r) ++ project l' rs'
  | _, _ => []
  end.

Definition onode_eqb (a b : onode) : bool :=
  match a, b with
  | ONil, ONil => true
  | OForeign, OForeign => true
  | OPos p, OPos q => p =? q
  | _, _ => false
  end.

Definition oelem_eqb (a b : oelem) : bool :=
  onode_eqb (o_node a) (o_node b) && (o_payload a =? o_payload b).

Fixpoint list_eqb {A} (e : A -> A -> bool) (a b : list A) : bool :=
  match a, b with
  | [], [] => true
  | x :: a', y :: b' => e x y && list_eqb e a' b'
  | _, _ => false
  end.

Definition odeliv_eqb (a b : odeliv) : bool :=
  (od_inst a =? od_inst b) && (od_type a =? od_type b) && Bool.eqb (od_agg a) (od_agg b) &&
  list_eqb oelem_eqb (od_elems a) (od_elems b).

Definition ofinal_eqb (a b : ofinal) : bool :=
  match a, b with
  | FAlive, FAlive | FCrashed, FCrashed | FHung, FHung => true
  | _, _ => false
  end.

(* model = observation, on what can be observed: the deliveries in order and
   whether the process survived *)
Definition agree_obs (f : fixes) (c : config) (l : list inj) (obs : list odeliv) (fin : ofinal) : bool :=
  let rs := run f c l in
  negb (bad_config rs) &&
  list_eqb odeliv_eqb (project l rs) obs &&
  ofinal_eqb (if crashed rs then FCrashed else FAlive) fin.
