(* C05 -- per-instance message dispatch of treenode.go as a transition system.

   Go code mirrored (treenode.go):
     ProcessProtocolMsg : lock; if closing return; queue = append(queue, m); notifyDispatch; unlock
     notifyDispatch     : non-blocking send on msgDispatchQueueWait (capacity 1)
     dispatchMsgReader  : for { lock; if closing {unlock; return};
                                if len(queue)>0 { m = queue[0]; queue = queue[1:]; unlock; dispatch(m) }
                                else { unlock; <-msgDispatchQueueWait } }
     closeDispatch      : lock; closing = true; close(msgDispatchQueueWait); unlock
   One action = one critical section / one channel operation / one handler run.
   A send on the closed wake-up channel or a second close is the explicit
   outcome [crashed]. Several instances = a list of these records; every action
   names the instance it touches. *)
From Coq Require Import List Arith Bool Lia.
Import ListNotations.

Inductive rstate :=
| RIdle                    (* at the top of the loop, about to take the lock *)
| RWaiting                 (* blocked in  <-msgDispatchQueueWait *)
| RRunning (m : nat)       (* inside dispatchMsgToProtocol for m *)
| RExited.

Record inst := {
  queue : list nat;        (* msgDispatchQueue *)
  tok : bool;              (* the capacity-1 channel holds a value *)
  chclosed : bool;         (* channel closed *)
  closing : bool;
  reader : rstate;
  accepted : list nat;     (* history: messages appended, in order *)
  started : list nat;      (* history: handler starts, in order *)
  ended : list nat;        (* history: handler ends, in order *)
  crashed : bool }.

Definition inst0 : inst :=
  {| queue := []; tok := false; chclosed := false; closing := false; reader := RIdle;
     accepted := []; started := []; ended := []; crashed := false |}.

Inductive action :=
| AAccept (m : nat)        (* ProcessProtocolMsg m *)
| ACheck                   (* reader: one pass through the locked section *)
| AWake                    (* reader: the channel receive completes *)
| AEnd                     (* reader: the handler returns *)
| AClose.                  (* closeDispatch *)

Definition set_reader (s : inst) (r : rstate) : inst :=
  {| queue := queue s; tok := tok s; chclosed := chclosed s; closing := closing s; reader := r;
     accepted := accepted s; started := started s; ended := ended s; crashed := crashed s |}.

(* [istep s a] = None when [a] is not enabled in [s] *)
Definition istep (s : inst) (a : action) : option inst :=
  match a with
  | AAccept m =>
      if closing s then Some s            (* dropped: "Received message for closed protocol" *)
      else
        Some {| queue := queue s ++ [m];
                tok := true;                                   (* non-blocking send: full stays full *)
                chclosed := chclosed s; closing := closing s; reader := reader s;
                accepted := accepted s ++ [m]; started := started s; ended := ended s;
                crashed := crashed s || chclosed s |}          (* send on closed channel panics *)
  | ACheck =>
      match reader s with
      | RIdle =>
          if closing s then Some (set_reader s RExited)
          else match queue s with
               | m :: q =>
                   Some {| queue := q; tok := tok s; chclosed := chclosed s; closing := closing s;
                           reader := RRunning m; accepted := accepted s;
                           started := started s ++ [m]; ended := ended s; crashed := crashed s |}
               | [] => Some (set_reader s RWaiting)
               end
      | _ => None
      end
  | AWake =>
      match reader s with
      | RWaiting =>
          if tok s then
            Some {| queue := queue s; tok := false; chclosed := chclosed s; closing := closing s;
                    reader := RIdle; accepted := accepted s; started := started s; ended := ended s;
                    crashed := crashed s |}
          else if chclosed s then Some (set_reader s RIdle)
          else None                                            (* blocked *)
      | _ => None
      end
  | AEnd =>
      match reader s with
      | RRunning m =>
          Some {| queue := queue s; tok := tok s; chclosed := chclosed s; closing := closing s;
                  reader := RIdle; accepted := accepted s; started := started s;
                  ended := ended s ++ [m]; crashed := crashed s |}
      | _ => None
      end
  | AClose =>
      (* overlay.nodeDelete looks the instance up in o.instances under instancesLock and
         deletes it afterwards, so closeDispatch runs at most once per instance: a second
         close is not an enabled action *)
      if closing s then None else
      Some {| queue := queue s; tok := tok s; chclosed := true; closing := true; reader := reader s;
              accepted := accepted s; started := started s; ended := ended s;
              crashed := crashed s || chclosed s |}            (* close of closed channel panics *)
  end.

(* ---- several instances on one server ------------------------------------- *)

Definition sys := list inst.

Fixpoint upd {A} (l : list A) (i : nat) (x : A) : list A :=
  match l, i with
  | [], _ => []
  | _ :: r, 0 => x :: r
  | y :: r, S j => y :: upd r j x
  end.

Definition step (s : sys) (ia : nat * action) : option sys :=
  match nth_error s (fst ia) with
  | None => None
  | Some c => match istep c (snd ia) with
              | None => None
              | Some c' => Some (upd s (fst ia) c')
              end
  end.

Fixpoint run (s : sys) (acts : list (nat * action)) : option sys :=
  match acts with
  | [] => Some s
  | a :: r => match step s a with None => None | Some s' => run s' r end
  end.

Definition init (n : nat) : sys := repeat inst0 n.

(* ---- trace validation: observable events of the implementation ----------- *)

Inductive okind := OAccept | OStart | OEnd | OClose | ORelease.   (* ORelease: harness marker, no model step *)

(* (instance, kind, message id) in the global order of the implementation's stamps *)
Definition oevent := (nat * okind * nat)%type.

(* perform the internal reader steps needed to explain a visible event *)
Definition explain1 (c : inst) (k : okind) (m : nat) : option inst :=
  match k with
  | OAccept => istep c (AAccept m)
  | ORelease => Some c
  | OClose => istep c AClose
  | OEnd => match reader c with
            | RRunning m' => if m' =? m then istep c AEnd else None
            | _ => None
            end
  | OStart =>
      (* the reader is idle, or waiting with a wake-up available *)
      let c1 := match reader c with
                | RWaiting => istep c AWake
                | RIdle => Some c
                | _ => None
                end in
      match c1 with
      | None => None
      | Some c1 =>
          (* a reader that found the queue empty goes waiting and is woken again *)
          let c2 := match queue c1 with
                    | [] => None
                    | _ => istep c1 ACheck
                    end in
          match c2 with
          | Some c2 => match reader c2 with
                       | RRunning m' => if m' =? m then Some c2 else None
                       | _ => None
                       end
          | None => None
          end
      end
  end.

(* between visible events the reader may have gone from Idle to Waiting on an
   empty queue; normalise so that explain1 sees a canonical state *)
Definition settle (c : inst) : inst :=
  match reader c, queue c with
  | RIdle, [] => if closing c then c else set_reader c RWaiting
  | _, _ => c
  end.

Fixpoint explain (s : sys) (evs : list oevent) : option sys :=
  match evs with
  | [] => Some s
  | (i, k, m) :: r =>
      match nth_error s i with
      | None => None
      | Some c =>
          match explain1 c k m with
          | None =>
              (* second chance: the reader had already gone to sleep *)
              match explain1 (settle c) k m with
              | None => None
              | Some c' => explain (upd s i c') r
              end
          | Some c' => explain (upd s i c') r
          end
      end
  end.
