(* C04 for the linked model Node/Pipeline.v: under every interleaving of
   feeders, readers and closes, what the handlers and channels of instance i
   have received is exactly what the property's sender-based reading
   (Corr/C04.v spec_run) expects for the messages started so far -- a prefix of
   what it expects for the accepted sequence, and all of it at quiescence. *)
From Coq Require Import List Arith Bool.
Import ListNotations.
From Onet Require Node.Dispatch Node.DispatchProofs.
From Onet Require Import Node.Instance Node.Obs Node.Pipeline Node.PipelineProofs Corr.C04 Node.C04CheckProofs.

Definition cfg_of (t : tree) (insts : list nat) : config :=
  {| c_tree := t; c_insts := insts; c_regs := std_regs |}.

(* the hypotheses of the property are closed under prefixes, and the expected
   deliveries of a prefix are a prefix of the expected deliveries *)
Lemma spec_run_app ns insts : forall l1 s l2 exp,
  spec_run ns insts s (l1 ++ l2) = Some exp ->
  exists e1 e2, spec_run ns insts s l1 = Some e1 /\ exp = e1 ++ e2.
Proof.
  induction l1 as [|x l1 IH]; intros s l2 exp H.
  - exists [], exp. auto.
  - cbn [app spec_run] in *. destruct (spec_step ns insts s x) as [[[s' k] d]|]; [|discriminate].
    destruct (spec_run ns insts s' (l1 ++ l2)) as [rest|] eqn:E; [|discriminate]. injection H as <-.
    destruct (IH s' l2 rest E) as (e1 & e2 & H1 & ->). rewrite H1.
    destruct d as [d|]; [exists (d :: e1), e2|exists e1, e2]; auto.
Qed.

Section LinkedC04.
Variable f : fixes.
Variable t : tree.
Variable insts : list nat.
Variable tbl : nat -> inj.

(* what instance i's protocol has received so far *)
Definition received (i : nat) (ci : Dispatch.inst) (st : pstate) : list odeliv :=
  project (started_inj tbl i ci) (ilog i (p_log st)).

Theorem pipeline_batches n acts st i ci exp :
  prun f (cfg_of t insts) tbl (pinit n) acts = Some st -> nth_error (p_sys st) i = Some ci ->
  spec_run (nodes t) insts [] (started_inj tbl i ci) = Some exp ->
  received i ci st = exp /\ existsb is_crash (ilog i (p_log st)) = false.
Proof.
  intros H Hi Hs. unfold received. rewrite (pipeline_log f (cfg_of t insts) tbl n acts st i ci H Hi).
  destruct (model_meets_spec f (C t insts (started_inj tbl i ci) [] FAlive) exp Hs) as (Hp & Hc & _).
  split; [exact Hp|exact Hc].
Qed.

(* the accepted sequence of instance i is within the hypotheses (children answer
   round after round, ...): then at ANY moment, under ANY interleaving, what the
   protocol has received is a prefix of the expected deliveries -- no batch
   before its round is complete, none twice, none mixed -- *)
Theorem pipeline_batches_prefix n acts st i ci exp :
  prun f (cfg_of t insts) tbl (pinit n) acts = Some st -> nth_error (p_sys st) i = Some ci ->
  spec_run (nodes t) insts [] (accepted_inj tbl i ci) = Some exp ->
  exists later, exp = received i ci st ++ later.
Proof.
  intros H Hi Hs.
  destruct (pipeline_order f (cfg_of t insts) tbl n acts st i ci H Hi) as [_ Hacc].
  rewrite Hacc in Hs. destruct (spec_run_app _ _ _ _ _ _ Hs) as (e1 & e2 & H1 & ->).
  exists e2. f_equal. symmetry. exact (proj1 (pipeline_batches n acts st i ci e1 H Hi H1)).
Qed.

(* -- and once the queue is drained it is exactly the expected deliveries: one
   complete batch per round, with the last child's message *)
Theorem pipeline_batches_quiescent n acts st i ci exp :
  prun f (cfg_of t insts) tbl (pinit n) acts = Some st -> nth_error (p_sys st) i = Some ci ->
  Dispatch.queue ci = [] ->
  spec_run (nodes t) insts [] (accepted_inj tbl i ci) = Some exp ->
  received i ci st = exp.
Proof.
  intros H Hi Hq Hs.
  destruct (pipeline_order f (cfg_of t insts) tbl n acts st i ci H Hi) as [_ Hacc].
  rewrite Hq in Hacc. cbn [map] in Hacc. rewrite app_nil_r in Hacc. rewrite Hacc in Hs.
  exact (proj1 (pipeline_batches n acts st i ci exp H Hi Hs)).
Qed.

End LinkedC04.

(* the example of PipelineProofs.v read through this theorem: instance 0 has
   received exactly its batch, instance 1 nothing yet *)
Example pipeline_c04_example :
  spec_run (nodes (c_tree ex_cfg)) [0; 0] [] [with_inst 0 (ex_tbl 1); with_inst 0 (ex_tbl 2)] =
    Some [D 0 2 true [E (OPos 1) 1; E (OPos 2) 2]].
Proof. vm_compute. reflexivity. Qed.
