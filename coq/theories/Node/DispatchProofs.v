(* C05 -- invariants of the dispatch transition system of Node/Dispatch.v *)
From Coq Require Import List Arith Bool Lia.
Import ListNotations.
From Onet Require Import Node.Dispatch.

Definition running (c : inst) : list nat :=
  match reader c with RRunning m => [m] | _ => [] end.

Record IInv (c : inst) : Prop := {
  i_wake : reader c = RWaiting -> queue c <> [] -> tok c = true \/ chclosed c = true;
  i_fifo : accepted c = started c ++ queue c;
  i_excl : started c = ended c ++ running c;
  i_closed : chclosed c = closing c;
  i_nocrash : crashed c = false;
  i_exit : reader c = RExited -> closing c = true }.

Lemma IInv0 : IInv inst0.
Proof. constructor; cbn; auto; try discriminate. Qed.

Ltac fin :=
  unfold running in *; cbn in *; intros;
  repeat match goal with
  | E : reader ?c = _, H : context[match reader ?c with _ => _ end] |- _ => rewrite E in H
  end; cbn in *; rewrite ?app_nil_r in *;
  repeat match goal with
  | H : ?x = ?x -> _ |- _ => specialize (H eq_refl)
  end;
  try discriminate; try congruence; auto;
  try (rewrite <- ?app_assoc; cbn; congruence);
  try (rewrite ?app_nil_r in *; congruence).

Lemma istep_inv c a c' : IInv c -> istep c a = Some c' -> IInv c'.
Proof.
  intros [Hw Hf He Hc Hn Hx] H. destruct a as [m| | | |]; cbn in H.
  - destruct (closing c) eqn:Ecl; inversion H; subst; clear H; constructor; fin.
    + rewrite Hf. now rewrite app_assoc.
    + rewrite Hn, Hc. reflexivity.
  - destruct (reader c) eqn:Er; try discriminate.
    destruct (closing c) eqn:Ecl; [|destruct (queue c) as [|m q] eqn:Eq];
      inversion H; subst; clear H; constructor; fin.
    all: try (rewrite Hf; now rewrite <- app_assoc).
    all: try (rewrite app_nil_r in He; now rewrite He). all: try (rewrite Eq, app_nil_r; congruence).
  - destruct (reader c) eqn:Er; try discriminate.
    destruct (tok c) eqn:Et; [|destruct (chclosed c) eqn:Ech; [|discriminate]];
      inversion H; subst; clear H; constructor; fin.
  - destruct (reader c) eqn:Er; try discriminate.
    inversion H; subst; clear H; constructor; fin.
    all: try (rewrite app_nil_r; auto).
  - destruct (closing c) eqn:Ecl; [discriminate|].
    inversion H; subst; clear H; constructor; fin.
    rewrite Hn, Hc. reflexivity.
Qed.

(* ---- lifting to several instances ---------------------------------------- *)

Lemma nth_error_upd_same {A} (l : list A) i x :
  i < length l -> nth_error (upd l i x) i = Some x.
Proof.
  revert i; induction l as [|y r IH]; intros [|i] H; cbn in *; try lia; auto.
  apply IH. lia.
Qed.

Lemma nth_error_upd_other {A} (l : list A) i j x :
  i <> j -> nth_error (upd l i x) j = nth_error l j.
Proof.
  revert i j; induction l as [|y r IH]; intros [|i] [|j] H; cbn; auto; try congruence.
Qed.

Lemma upd_length {A} (l : list A) i x : length (upd l i x) = length l.
Proof. revert i; induction l as [|y r IH]; intros [|i]; cbn; auto. Qed.

Definition SInv (s : sys) : Prop := forall i c, nth_error s i = Some c -> IInv c.

Lemma SInv_init n : SInv (init n).
Proof.
  intros i c H. unfold init in H. apply nth_error_In in H. apply repeat_spec in H. subst. apply IInv0.
Qed.

Lemma step_inv s a s' : SInv s -> step s a = Some s' -> SInv s'.
Proof.
  intros Hs H. unfold step in H. destruct a as [i a]. cbn [fst snd] in H.
  destruct (nth_error s i) as [c|] eqn:Ec; [|discriminate].
  destruct (istep c a) as [c'|] eqn:Est; [|discriminate]. inversion H; subst; clear H.
  intros j d Hj. destruct (Nat.eq_dec i j) as [<-|Hne].
  - rewrite nth_error_upd_same in Hj by (apply nth_error_Some; congruence).
    inversion Hj; subst. eapply istep_inv; eauto.
  - rewrite nth_error_upd_other in Hj by assumption. eauto.
Qed.

Lemma run_inv acts : forall s s', SInv s -> run s acts = Some s' -> SInv s'.
Proof.
  induction acts as [|a r IH]; intros s s' Hs H; cbn in H.
  - now inversion H; subst.
  - destruct (step s a) as [s1|] eqn:E; [|discriminate]. eapply IH; [|exact H]. eapply step_inv; eauto.
Qed.

Theorem reachable_inv n acts s : run (init n) acts = Some s -> SInv s.
Proof. apply run_inv, SInv_init. Qed.

(* ---- isolation: an action touches one component only ---------------------- *)

Lemma step_other s i a s' j : step s (i, a) = Some s' -> i <> j -> nth_error s' j = nth_error s j.
Proof.
  unfold step. cbn [fst snd]. destruct (nth_error s i) as [c|]; [|discriminate].
  destruct (istep c a) as [c'|]; [|discriminate]. intros H Hne. inversion H; subst.
  now apply nth_error_upd_other.
Qed.

(* enabledness and effect of an action on i depend on component i alone *)
Lemma step_local s t i a c :
  nth_error s i = Some c -> nth_error t i = Some c ->
  match step s (i, a), step t (i, a) with
  | Some s', Some t' => nth_error s' i = nth_error t' i
  | None, None => True
  | _, _ => False
  end.
Proof.
  intros Hs Ht. unfold step. cbn [fst snd]. rewrite Hs, Ht.
  destruct (istep c a) as [c'|]; [|exact I].
  rewrite !nth_error_upd_same; auto; apply nth_error_Some; congruence.
Qed.

(* ---- progress of one instance by its own reader actions ------------------- *)

Fixpoint irun (c : inst) (acts : list action) : option inst :=
  match acts with
  | [] => Some c
  | a :: r => match istep c a with None => None | Some c' => irun c' r end
  end.

Definition reader_action (a : action) : Prop := a = ACheck \/ a = AWake \/ a = AEnd.

Lemma irun_app c a1 a2 c1 : irun c a1 = Some c1 -> irun c (a1 ++ a2) = irun c1 a2.
Proof.
  revert c; induction a1 as [|a r IH]; intros c H; cbn in *.
  - now inversion H.
  - destruct (istep c a); [|discriminate]. now apply IH.
Qed.

Ltac ra := repeat (apply Forall_cons; [unfold reader_action; auto|]); apply Forall_nil.

(* bring the reader to the top of its loop *)
Lemma to_idle c : IInv c -> closing c = false -> queue c <> [] ->
  exists acts c', Forall reader_action acts /\ irun c acts = Some c' /\
                  reader c' = RIdle /\ queue c' = queue c /\ closing c' = false /\
                  (forall m, In m (started c) -> In m (started c')).
Proof.
  intros Hinv Hcl Hq. destruct (reader c) eqn:Er.
  - exists [], c. cbn. repeat split; auto.
  - destruct (i_wake c Hinv Er Hq) as [Ht|Hch].
    + exists [AWake]. eexists. split; [ra|].
      cbn [irun]. unfold istep. rewrite Er, Ht. split; [reflexivity|]. cbn. auto.
    + rewrite (i_closed c Hinv) in Hch. congruence.
  - exists [AEnd]. eexists. split; [ra|].
    cbn [irun]. unfold istep. rewrite Er. split; [reflexivity|]. cbn. auto.
  - apply (i_exit c Hinv) in Er. congruence.
Qed.

Lemma irun_inv acts : forall c c', IInv c -> irun c acts = Some c' -> IInv c'.
Proof.
  induction acts as [|a r IH]; intros c c' Hc H; cbn in H.
  - now inversion H; subst.
  - destruct (istep c a) eqn:E; [|discriminate]. eapply IH; [|exact H]. eapply istep_inv; eauto.
Qed.

Lemma progress_queue q1 : forall c m q2,
  IInv c -> closing c = false -> queue c = q1 ++ m :: q2 ->
  exists acts c', Forall reader_action acts /\ irun c acts = Some c' /\ In m (started c').
Proof.
  induction q1 as [|x q1 IH]; intros c m q2 Hinv Hcl Hq.
  - destruct (to_idle c Hinv Hcl) as (a1 & c1 & Hf1 & Hr1 & Hid & Hq1 & Hcl1 & _).
    { rewrite Hq. discriminate. }
    exists (a1 ++ [ACheck]). eexists. split.
    { apply Forall_app. split; auto. ra. }
    rewrite (irun_app _ _ _ _ Hr1). cbn [irun]. unfold istep. rewrite Hid, Hcl1, Hq1, Hq. cbn. split; [reflexivity|].
    cbn. apply in_or_app. right. cbn. auto.
  - destruct (to_idle c Hinv Hcl) as (a1 & c1 & Hf1 & Hr1 & Hid & Hq1 & Hcl1 & _).
    { rewrite Hq. discriminate. }
    assert (Hinv1 : IInv c1) by (eapply irun_inv; eauto).
    set (c2 := {| queue := q1 ++ m :: q2; tok := tok c1; chclosed := chclosed c1; closing := false;
                  reader := RRunning x; accepted := accepted c1;
                  started := started c1 ++ [x]; ended := ended c1; crashed := crashed c1 |}).
    assert (Hs2 : istep c1 ACheck = Some c2).
    { unfold istep. rewrite Hid, Hcl1, Hq1, Hq. cbn. reflexivity. }
    assert (Hinv2 : IInv c2) by (eapply istep_inv; eauto).
    destruct (IH c2 m q2 Hinv2) as (a3 & c3 & Hf3 & Hr3 & Hin3); [reflexivity|reflexivity|].
    exists (a1 ++ ACheck :: a3), c3. split.
    { apply Forall_app. split; auto. apply Forall_cons; auto. unfold reader_action; auto. }
    rewrite (irun_app _ _ _ _ Hr1). cbn [irun]. rewrite Hs2. auto.
Qed.

(* lifting an instance-local run to the system *)
Lemma run_local acts : forall s i c c',
  nth_error s i = Some c -> irun c acts = Some c' ->
  exists s', run s (map (pair i) acts) = Some s' /\ nth_error s' i = Some c' /\
             forall j, j <> i -> nth_error s' j = nth_error s j.
Proof.
  induction acts as [|a r IH]; intros s i c c' Hs H; cbn in H.
  - inversion H; subst. exists s. cbn. auto.
  - destruct (istep c a) as [c1|] eqn:E; [|discriminate].
    assert (Hlen : i < length s) by (apply nth_error_Some; congruence).
    destruct (IH (upd s i c1) i c1 c' (nth_error_upd_same s i c1 Hlen) H) as (s' & Hr & Hi & Ho).
    exists s'. cbn [map run]. unfold step. cbn [fst snd]. rewrite Hs, E. split; [exact Hr|].
    split; [exact Hi|]. intros j Hj. rewrite Ho by assumption. apply nth_error_upd_other. congruence.
Qed.

(* ---- statements used by Properties/C05.v ---------------------------------- *)

Lemma mutual_exclusion n acts s i c :
  run (init n) acts = Some s -> nth_error s i = Some c ->
  started c = ended c ++ running c /\ length (started c) - length (ended c) <= 1.
Proof.
  intros Hr Hc. pose proof (reachable_inv n acts s Hr i c Hc) as Hinv.
  split; [apply (i_excl c Hinv)|]. rewrite (i_excl c Hinv), app_length.
  unfold running. destruct (reader c); cbn; lia.
Qed.

Lemma fifo n acts s i c :
  run (init n) acts = Some s -> nth_error s i = Some c ->
  accepted c = started c ++ queue c.
Proof. intros Hr Hc. apply (i_fifo c (reachable_inv n acts s Hr i c Hc)). Qed.

Lemma no_lost_wakeup n acts s i c :
  run (init n) acts = Some s -> nth_error s i = Some c ->
  reader c = RWaiting -> queue c <> [] -> exists c', istep c AWake = Some c'.
Proof.
  intros Hr Hc Hw Hq. pose proof (reachable_inv n acts s Hr i c Hc) as Hinv.
  unfold istep. rewrite Hw. destruct (i_wake c Hinv Hw Hq) as [->|Hch]; [eauto|].
  destruct (tok c); eauto. rewrite Hch. eauto.
Qed.

Lemma close_safe n acts s i c :
  run (init n) acts = Some s -> nth_error s i = Some c -> crashed c = false.
Proof. intros Hr Hc. apply (i_nocrash c (reachable_inv n acts s Hr i c Hc)). Qed.

(* whatever state the other instances are in (e.g. a handler that never returns),
   an accepted, not yet started message of a live instance is started by that
   instance's own reader steps, which leave every other instance untouched *)
Lemma isolation_progress n acts s i c m :
  run (init n) acts = Some s -> nth_error s i = Some c ->
  closing c = false -> In m (queue c) ->
  exists racts s' c',
    Forall reader_action racts /\
    run s (map (pair i) racts) = Some s' /\ nth_error s' i = Some c' /\ In m (started c') /\
    forall j, j <> i -> nth_error s' j = nth_error s j.
Proof.
  intros Hr Hc Hcl Hin. pose proof (reachable_inv n acts s Hr i c Hc) as Hinv.
  apply in_split in Hin as (q1 & q2 & Hq).
  destruct (progress_queue q1 c m q2 Hinv Hcl Hq) as (racts & c' & Hf & Hrun & Hm).
  destruct (run_local racts s i c c' Hc Hrun) as (s' & H1 & H2 & H3).
  exists racts, s', c'. auto.
Qed.

Lemma done_drops n acts s i c m c' :
  run (init n) acts = Some s -> nth_error s i = Some c -> closing c = true ->
  istep c (AAccept m) = Some c' -> c' = c.
Proof. intros _ _ Hcl H. cbn in H. rewrite Hcl in H. now inversion H. Qed.

(* non-vacuity: a reachable two-instance state where instance 0 is stuck in a
   handler and instance 1 has a queued message *)
Example c05_example :
  exists s c0 c1, run (init 2) [(0, AAccept 1); (0, ACheck); (1, AAccept 7); (1, ACheck); (1, AAccept 8)] = Some s /\
    nth_error s 0 = Some c0 /\ reader c0 = RRunning 1 /\
    nth_error s 1 = Some c1 /\ queue c1 = [8] /\ closing c1 = false.
Proof. eexists. eexists. eexists. vm_compute. repeat split. Qed.
