(* The boolean checker of Corr/C02.v says exactly what its Prop reading says. *)
From Coq Require Import List Arith Bool Lia.
Import ListNotations.
From Onet Require Import Base.Corr Node.Instance Node.Obs Node.VerifyProofs Corr.C02.

Lemma clause_nil n b : clause n b = [] <-> b = true.
Proof. unfold clause. destruct b; split; congruence. Qed.

Lemma existsb_false {A} (p : A -> bool) l :
  existsb p l = false <-> forall x, In x l -> p x = false.
Proof.
  induction l as [|a r IH]; cbn [existsb].
  - split; [intros _ x []|reflexivity].
  - rewrite orb_false_iff, IH. split.
    + intros [Ha Hr] x [<-|Hx]; auto.
    + intros H. split; [apply H; now left|]. intros x Hx. apply H. now right.
Qed.

Lemma invalid_b_spec ns from env :
  invalid_b ns from env = true <-> invalid_sender ns from env.
Proof.
  unfold invalid_b, invalid_sender. destruct from as [id|]; [|tauto].
  rewrite orb_true_iff, negb_true_iff, existsb_false.
  assert (H1 : (forall n, In n ns -> (n_id n =? id) = false) <-> forall n, In n ns -> n_id n <> id).
  { split; intros H n Hn; specialize (H n Hn); now apply Nat.eqb_neq. }
  rewrite H1. destruct env as [| |k].
  - split; intros [H|H]; auto; discriminate.
  - tauto.
  - rewrite negb_true_iff, existsb_false.
    assert (H2 : (forall n, In n ns -> (n_id n =? id) && (n_srv n =? k) = false) <->
                 forall n, In n ns -> n_id n = id -> n_srv n <> k).
    { split.
      - intros H n Hn Hid Hs. specialize (H n Hn). apply andb_false_iff in H as [H|H];
          apply Nat.eqb_neq in H; contradiction.
      - intros H n Hn. destruct (n_id n =? id) eqn:E1; [|reflexivity].
        apply Nat.eqb_eq in E1. cbn. apply Nat.eqb_neq. exact (H n Hn E1). }
    rewrite H2. tauto.
Qed.

(* the property, read on one observed (node, message) pair of an instance *)
Definition elem_good (ns : list ninfo) (msgs : list inj) (inst : nat) (e : oelem) : Prop :=
  exists p n x, o_node e = OPos p /\ nth_error ns p = Some n /\
    find_msg msgs inst (o_payload e) = Some x /\
    (i_env x = PNone \/ i_env x = PKey (n_srv n)) /\
    ~ invalid_sender ns (w_from (i_wire x)) (i_env x).

(* ... and on a whole observation *)
Definition obs_good (c : case) : Prop :=
  k_final c <> FCrashed /\
  forall d e, In d (k_obs c) -> In e (od_elems d) ->
    elem_good (nodes (k_tree c)) (k_msgs c) (od_inst d) e.

Lemma elem_clauses_spec ns msgs inst e :
  elem_clauses ns msgs inst e = [] <-> elem_good ns msgs inst e.
Proof.
  unfold elem_clauses, elem_good. destruct (o_node e) as [| |p] eqn:En.
  - split; [discriminate|]. intros (p & n & x & H & _). discriminate.
  - split; [discriminate|]. intros (p & n & x & H & _). discriminate.
  - destruct (nth_error ns p) as [n|] eqn:Enth.
    + destruct (find_msg msgs inst (o_payload e)) as [x|] eqn:Ef.
      * split.
        -- intros H. apply app_eq_nil in H as [H3 H4]. apply clause_nil in H3, H4.
           exists p, n, x. split; [reflexivity|]. split; [exact Enth|]. split; [reflexivity|]. split.
           ++ unfold peer_hosts in H3. destruct (i_env x) as [| |k]; [now left|discriminate|].
              apply Nat.eqb_eq in H3. subst k. now right.
           ++ rewrite <- invalid_b_spec. apply negb_true_iff in H4. congruence.
        -- intros (p' & n' & y & Hp & Hn & Hy & Hpeer & Hinv). injection Hp as <-. rewrite Enth in Hn.
           injection Hn as <-. injection Hy as <-.
           assert (H3 : peer_hosts (i_env x) n = true).
           { unfold peer_hosts. destruct Hpeer as [-> | ->]; [reflexivity|apply Nat.eqb_refl]. }
           assert (H4 : negb (invalid_b ns (w_from (i_wire x)) (i_env x)) = true).
           { apply negb_true_iff. destruct (invalid_b ns _ _) eqn:E; [|reflexivity].
             apply invalid_b_spec in E. contradiction. }
           rewrite H3, H4. reflexivity.
      * split; [discriminate|]. intros (p' & n' & y & _ & _ & Hy & _). discriminate.
    + split; [discriminate|]. intros (p' & n' & y & Hp & Hn & _). injection Hp as <-. congruence.
Qed.

Lemma flat_map_nil {A B} (f : A -> list B) l :
  flat_map f l = [] <-> forall x, In x l -> f x = [].
Proof.
  induction l as [|a r IH]; cbn [flat_map].
  - split; [intros _ x []|reflexivity].
  - split.
    + intros H. apply app_eq_nil in H as [H1 H2]. intros x [<-|Hx]; [exact H1|]. now apply IH.
    + intros H. rewrite (H a (or_introl eq_refl)). cbn. apply IH. intros x Hx. apply H. now right.
Qed.

Theorem check_spec c : check c = [] <-> obs_good c.
Proof.
  unfold check, obs_good. split.
  - intros H. apply app_eq_nil in H as [H1 H5]. apply clause_nil in H5. split.
    + destruct (k_final c); cbn in H5; congruence.
    + intros d e Hd He. rewrite flat_map_nil in H1. specialize (H1 d Hd).
      rewrite flat_map_nil in H1. apply elem_clauses_spec. exact (H1 e He).
  - intros [Hf H]. assert (H5 : negb (ofinal_eqb (k_final c) FCrashed) = true).
    { destruct (k_final c); cbn; congruence. }
    rewrite H5. cbn [clause]. rewrite app_nil_r. apply flat_map_nil. intros d Hd.
    apply flat_map_nil. intros e He. apply elem_clauses_spec. exact (H d e Hd He).
Qed.

(* whatever the model delivers, in either variant, satisfies the per-element
   part of the property; placeholders are the only other thing it can deliver *)
Theorem model_elems_good f c d e :
  In d (all_deliveries (run f (config_of c) (k_msgs c))) -> In e (d_batch d) ->
  e = EZero \/
  exists pos m n, e = EMsg pos m /\ nth_error (nodes (k_tree c)) pos = Some n /\
      (p_peer m = PNone \/ p_peer m = PKey (n_srv n)) /\
      ~ invalid_sender (nodes (k_tree c)) (p_from m) (p_peer m).
Proof.
  intros Hd He. destruct e as [pos m|]; [right|now left].
  destruct (authentic_delivery f (config_of c) (k_msgs c) d pos m Hd He) as [(n & Hn & Hf & Hp) _].
  exists pos, m, n. split; [reflexivity|]. split; [exact Hn|]. split; [exact Hp|].
  exact (invalid_never_delivered f (config_of c) (k_msgs c) d pos m Hd He).
Qed.

(* ========================================================================
   FROM AGREEMENT TO THE PROPERTY.  If the implementation's observation agrees
   with the model of variant [f] on a scenario whose payloads identify the
   injected messages, then the only clauses the property checker can report
   are those of the two known defects -- clause 1 (placeholder) only when
   fix_f02 is off, clause 5 (crash) only when fix_f03 is off.  In particular
   agreement with the repaired variant implies [check c = []].
   ======================================================================== *)

(* where a waiting / delivered message of instance [i] came from *)
Definition origin_i (l : list inj) (i : nat) (m : pmsg) : Prop :=
  exists x, In x l /\ i_inst x = i /\ p_from m = w_from (i_wire x) /\ p_peer m = i_env x /\
            p_payload m = w_payload (i_wire x).

Definition sall_i (P : nat -> pmsg -> Prop) (s : qstate) : Prop := forall i, qall (P i) (sget s i).

Lemma sall_i_sset P s i q : sall_i P s -> qall (P i) q -> sall_i P (sset s i q).
Proof.
  intros Hs Hq j. rewrite sget_sset. destruct (j =? i) eqn:E; [|apply Hs].
  apply Nat.eqb_eq in E. subst j. exact Hq.
Qed.

Lemma project_nil_r l : project l [] = [].
Proof. destruct l; reflexivity. Qed.

Lemma project_ok f c L : forall l s,
  (forall x, In x l -> In x L) -> sall_i (origin_i L) s ->
  forall od, In od (project l (run_from f c s l)) ->
    exists d, In d (all_deliveries (run_from f c s l)) /\ od = proj_deliv (od_inst od) d /\
      Forall (elem_ok (origin_i L (od_inst od)) (nodes (c_tree c))) (d_batch d).
Proof.
  induction l as [|x l IH]; intros s Hsub Hs od Hod; [destruct Hod|].
  cbn [run_from] in *. destruct (step_inj f c s x) as [s' res] eqn:Est.
  assert (Hx : origin_i L (i_inst x) (process (i_env x) (i_wire x))).
  { exists x. cbn. repeat split; auto. apply Hsub. now left. }
  assert (Hres : sall_i (origin_i L) s' /\
                 Forall (deliv_ok (origin_i L (i_inst x)) (nodes (c_tree c))) (deliveries_of res)).
  { revert Est. unfold step_inj.
    destruct (nth_error (c_insts c) (i_inst x)) as [toid|];
      [|intros H; injection H as <- <-; split; [exact Hs|constructor]].
    destruct (search (nodes (c_tree c)) toid) as [[mepos me]|];
      [|intros H; injection H as <- <-; split; [exact Hs|constructor]].
    destruct (step (fix_f02 f) (fix_f03 f) (nodes (c_tree c)) me (c_regs c) (sget s (i_inst x))
                (process (i_env x) (i_wire x))) as [q' [ds st]] eqn:Es.
    intros H. injection H as <- <-.
    destruct (step_ok (origin_i L (i_inst x)) _ _ _ _ _ _ _ _ _ _ (Hs (i_inst x)) Hx Es) as [Hq' Hds].
    split; [apply sall_i_sset; assumption|exact Hds]. }
  destruct Hres as [Hs' Hds].
  assert (Hhere : forall od0, In od0 (map (proj_deliv (i_inst x)) (deliveries_of res)) ->
            exists d, In d (deliveries_of res) /\ od0 = proj_deliv (od_inst od0) d /\
              Forall (elem_ok (origin_i L (od_inst od0)) (nodes (c_tree c))) (d_batch d)).
  { intros od0 H0. apply in_map_iff in H0 as (d & <- & Hd). exists d. split; [exact Hd|].
    split; [reflexivity|]. cbn [proj_deliv od_inst]. rewrite Forall_forall in Hds. exact (Hds d Hd). }
  destruct (is_crash res).
  - cbn [project] in Hod. rewrite project_nil_r, app_nil_r in Hod.
    destruct (Hhere od Hod) as (d & Hd & He & Hok). exists d. split; [|auto].
    unfold all_deliveries. cbn [flat_map]. rewrite app_nil_r. exact Hd.
  - cbn [project] in Hod. apply in_app_or in Hod as [Hod|Hod].
    + destruct (Hhere od Hod) as (d & Hd & He & Hok). exists d. split; [|auto].
      unfold all_deliveries. cbn [flat_map]. apply in_or_app. now left.
    + destruct (IH s' (fun y Hy => Hsub y (or_intror Hy)) Hs' od Hod) as (d & Hd & He & Hok).
      exists d. split; [|auto]. unfold all_deliveries. cbn [flat_map]. apply in_or_app. now right.
Qed.

Lemma list_eqb_eq {A} (e : A -> A -> bool) (He : forall a b, e a b = true -> a = b) :
  forall l1 l2, list_eqb e l1 l2 = true -> l1 = l2.
Proof.
  induction l1 as [|a l1 IH]; intros [|b l2] H; cbn in H; try discriminate; [reflexivity|].
  apply andb_true_iff in H as [H1 H2]. f_equal; [apply He; exact H1|apply IH; exact H2].
Qed.

Lemma oelem_eqb_eq a b : oelem_eqb a b = true -> a = b.
Proof.
  unfold oelem_eqb. intros H. apply andb_true_iff in H as [H1 H2]. apply Nat.eqb_eq in H2.
  destruct a as [na pa], b as [nb pb]. cbn in *. subst pb. f_equal.
  destruct na, nb; cbn in H1; try discriminate; try reflexivity. apply Nat.eqb_eq in H1. now subst.
Qed.

Lemma odeliv_eqb_eq a b : odeliv_eqb a b = true -> a = b.
Proof.
  unfold odeliv_eqb. intros H.
  apply andb_true_iff in H as [H H4]. apply andb_true_iff in H as [H H3]. apply andb_true_iff in H as [H1 H2].
  apply Nat.eqb_eq in H1, H2. apply Bool.eqb_prop in H3. apply (list_eqb_eq _ oelem_eqb_eq) in H4.
  destruct a, b. cbn in *. now subst.
Qed.

Lemma NoDup_map_inj {A B} (g : A -> B) : forall l a b,
  NoDup (map g l) -> In a l -> In b l -> g a = g b -> a = b.
Proof.
  induction l as [|x l IH]; intros a b Hnd Ha Hb Hg; [destruct Ha|].
  cbn in Hnd. inversion Hnd as [|? ? Hnin Hnd']; subst.
  destruct Ha as [<-|Ha]; destruct Hb as [<-|Hb]; [reflexivity| | |eapply IH; eauto].
  - exfalso. apply Hnin. rewrite Hg. now apply in_map.
  - exfalso. apply Hnin. rewrite <- Hg. now apply in_map.
Qed.

Definition msg_key (x : inj) : nat * nat := (i_inst x, w_payload (i_wire x)).

Lemma find_msg_unique msgs x :
  NoDup (map msg_key msgs) -> In x msgs ->
  find_msg msgs (i_inst x) (w_payload (i_wire x)) = Some x.
Proof.
  intros Hnd Hx. unfold find_msg.
  destruct (find _ msgs) as [y|] eqn:E.
  - apply find_some in E as [Hy Hp]. apply andb_true_iff in Hp as [H1 H2]. apply Nat.eqb_eq in H1, H2.
    f_equal. apply (NoDup_map_inj msg_key msgs y x Hnd Hy Hx). unfold msg_key. congruence.
  - exfalso. pose proof (find_none _ _ E x Hx) as H. cbn in H. rewrite !Nat.eqb_refl in H. discriminate.
Qed.

Theorem agree_check f c :
  NoDup (map msg_key (k_msgs c)) ->
  agree_obs f (config_of c) (k_msgs c) (k_obs c) (k_final c) = true ->
  forall cl, In cl (check c) ->
    (cl = 1 /\ fix_f02 f = false) \/ (cl = 5 /\ fix_f03 f = false).
Proof.
  intros Hnd Hag cl Hcl. unfold agree_obs in Hag.
  apply andb_true_iff in Hag as [Hag Hfin]. apply andb_true_iff in Hag as [_ Hobs].
  apply (list_eqb_eq _ odeliv_eqb_eq) in Hobs.
  set (cfg := config_of c) in *. set (msgs := k_msgs c) in *.
  unfold check in Hcl. apply in_app_or in Hcl as [Hcl|Hcl].
  - (* a clause about a delivered element *)
    apply in_flat_map in Hcl as (od & Hod & Hcl). apply in_flat_map in Hcl as (oe & Hoe & Hcl).
    rewrite <- Hobs in Hod. unfold run in Hod.
    destruct (project_ok f cfg msgs msgs [] (fun x H => H) (fun i => qall_nil _) od Hod)
      as (d & Hd & Hproj & Hok).
    rewrite Hproj in Hoe. cbn [proj_deliv od_elems] in Hoe. apply in_map_iff in Hoe as (e0 & <- & He0).
    rewrite Forall_forall in Hok. specialize (Hok e0 He0).
    destruct e0 as [pos m|].
    + (* a real message: the checker has nothing to say *)
      exfalso. destruct Hok as [(x & Hx & Hinst & Hfrom & Hpeer & Hpl) (n & Hn & Hf & Hp)].
      fold (run f cfg msgs) in Hd.
      pose proof (invalid_never_delivered f cfg msgs d pos m Hd He0) as Hinv.
      unfold elem_clauses in Hcl. cbn [proj_elem o_node o_payload] in Hcl.
      change (nodes (k_tree c)) with (nodes (c_tree cfg)) in Hcl. rewrite Hn in Hcl.
      rewrite <- Hinst, Hpl in Hcl. fold msgs in Hcl. rewrite (find_msg_unique msgs x Hnd Hx) in Hcl.
      assert (H3 : peer_hosts (i_env x) n = true).
      { unfold peer_hosts. rewrite <- Hpeer. destruct Hp as [-> | ->]; [reflexivity|apply Nat.eqb_refl]. }
      assert (H4 : invalid_b (nodes (c_tree cfg)) (w_from (i_wire x)) (i_env x) = false).
      { destruct (invalid_b _ _ _) eqn:E; [|reflexivity]. apply invalid_b_spec in E.
        rewrite <- Hfrom, <- Hpeer in E. contradiction. }
      rewrite H3, H4 in Hcl. destruct Hcl.
    + (* the placeholder: clause 1, and only the variant without the F02 repair produces it *)
      cbn in Hcl. destruct Hcl as [<-|[]]. left. split; [reflexivity|].
      destruct (fix_f02 f) eqn:E2; [|reflexivity]. exfalso.
      fold (run f cfg msgs) in Hd.
      pose proof (no_placeholder f cfg msgs (or_introl E2)) as Hnz.
      rewrite Forall_forall in Hnz. exact (Hnz d Hd He0).
  - (* clause 5: the crash, and only the variant without the F03 repair produces it *)
    unfold clause in Hcl. destruct (negb (ofinal_eqb (k_final c) FCrashed)) eqn:E5; [destruct Hcl|].
    destruct Hcl as [<-|[]]. right. split; [reflexivity|].
    destruct (fix_f03 f) eqn:E3; [|reflexivity]. exfalso.
    destruct (no_crash f cfg msgs (or_introl E3)) as [Hnc _]. rewrite Hnc in Hfin.
    apply negb_false_iff in E5. destruct (k_final c); cbn in *; discriminate.
Qed.

Corollary agree_repaired_check c :
  NoDup (map msg_key (k_msgs c)) ->
  agree_obs repaired (config_of c) (k_msgs c) (k_obs c) (k_final c) = true ->
  check c = [].
Proof.
  intros Hnd Hag. destruct (check c) as [|cl r] eqn:E; [reflexivity|]. exfalso.
  destruct (agree_check repaired c Hnd Hag cl) as [[_ H]|[_ H]]; [rewrite E; now left|discriminate|discriminate].
Qed.
