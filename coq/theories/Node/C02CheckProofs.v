(* The boolean checker of Corr/C02.v says exactly what its Prop reading says. *)
From Coq Require Import List Arith Bool Lia.
Import ListNotations.
From Onet Require Import Base.Corr Node.Instance Node.Obs Node.VerifyProofs Corr.C02.

Lemma clause_nil n b : clause n b = [] <-> b = true.
Proof. unfold clause. destruct b; split; congruence. Qed.

Lemma existsb_false {A} (p : A -> bool) l :
  existsb p l = false <-> forall x, In x l -> p x = false.
Proof.
  induction l as [|a r IH]; cbn [existsb].
  - split; [intros _ x []|reflexivity].
  - rewrite orb_false_iff, IH. split.
    + intros [Ha Hr] x [<-|Hx]; auto.
    + intros H. split; [apply H; now left|]. intros x Hx. apply H. now right.
Qed.

Lemma invalid_b_spec ns from env :
  invalid_b ns from env = true <-> invalid_sender ns from env.
Proof.
  unfold invalid_b, invalid_sender. destruct from as [id|]; [|tauto].
  rewrite orb_true_iff, negb_true_iff, existsb_false.
  assert (H1 : (forall n, In n ns -> (n_id n =? id) = false) <-> forall n, In n ns -> n_id n <> id).
  { split; intros H n Hn; specialize (H n Hn); now apply Nat.eqb_neq. }
  rewrite H1. destruct env as [| |k].
  - split; intros [H|H]; auto; discriminate.
  - tauto.
  - rewrite negb_true_iff, existsb_false.
    assert (H2 : (forall n, In n ns -> (n_id n =? id) && (n_srv n =? k) = false) <->
                 forall n, In n ns -> n_id n = id -> n_srv n <> k).
    { split.
      - intros H n Hn Hid Hs. specialize (H n Hn). apply andb_false_iff in H as [H|H];
          apply Nat.eqb_neq in H; contradiction.
      - intros H n Hn. destruct (n_id n =? id) eqn:E1; [|reflexivity].
        apply Nat.eqb_eq in E1. cbn. apply Nat.eqb_neq. exact (H n Hn E1). }
    rewrite H2. tauto.
Qed.

(* the property, read on one observed (node, message) pair of an instance *)
Definition elem_good (ns : list ninfo) (msgs : list inj) (inst : nat) (e : oelem) : Prop :=
  exists p n, o_node e = OPos p /\ nth_error ns p = Some n /\
    forall x, find_msg msgs inst (o_payload e) = Some x ->
      (i_env x = PNone \/ i_env x = PKey (n_srv n)) /\
      ~ invalid_sender ns (w_from (i_wire x)) (i_env x).

(* ... and on a whole observation *)
Definition obs_good (c : case) : Prop :=
  k_final c <> FCrashed /\
  forall d e, In d (k_obs c) -> In e (od_elems d) ->
    elem_good (nodes (k_tree c)) (k_msgs c) (od_inst d) e.

Lemma elem_clauses_spec ns msgs inst e :
  elem_clauses ns msgs inst e = [] <-> elem_good ns msgs inst e.
Proof.
  unfold elem_clauses, elem_good. destruct (o_node e) as [| |p] eqn:En.
  - split; [discriminate|]. intros (p & n & H & _). discriminate.
  - split; [discriminate|]. intros (p & n & H & _). discriminate.
  - destruct (nth_error ns p) as [n|] eqn:Enth.
    + destruct (find_msg msgs inst (o_payload e)) as [x|] eqn:Ef.
      * split.
        -- intros H. apply app_eq_nil in H as [H3 H4]. apply clause_nil in H3, H4.
           exists p, n. split; [reflexivity|]. split; [exact Enth|].
           intros y Hy. injection Hy as <-. split.
           ++ unfold peer_hosts in H3. destruct (i_env x) as [| |k]; [now left|discriminate|].
              apply Nat.eqb_eq in H3. subst k. now right.
           ++ rewrite <- invalid_b_spec. apply negb_true_iff in H4. congruence.
        -- intros (p' & n' & Hp & Hn & H). injection Hp as <-. rewrite Enth in Hn. injection Hn as <-.
           destruct (H x eq_refl) as [Hpeer Hinv].
           assert (H3 : peer_hosts (i_env x) n = true).
           { unfold peer_hosts. destruct Hpeer as [-> | ->]; [reflexivity|apply Nat.eqb_refl]. }
           assert (H4 : negb (invalid_b ns (w_from (i_wire x)) (i_env x)) = true).
           { apply negb_true_iff. destruct (invalid_b ns _ _) eqn:E; [|reflexivity].
             apply invalid_b_spec in E. contradiction. }
           rewrite H3, H4. reflexivity.
      * split; [|reflexivity]. intros _. exists p, n. split; [reflexivity|]. split; [exact Enth|].
        intros x Hx. discriminate.
    + split; [discriminate|]. intros (p' & n' & Hp & Hn & _). injection Hp as <-. congruence.
Qed.

Lemma flat_map_nil {A B} (f : A -> list B) l :
  flat_map f l = [] <-> forall x, In x l -> f x = [].
Proof.
  induction l as [|a r IH]; cbn [flat_map].
  - split; [intros _ x []|reflexivity].
  - split.
    + intros H. apply app_eq_nil in H as [H1 H2]. intros x [<-|Hx]; [exact H1|]. now apply IH.
    + intros H. rewrite (H a (or_introl eq_refl)). cbn. apply IH. intros x Hx. apply H. now right.
Qed.

Theorem check_spec c : check c = [] <-> obs_good c.
Proof.
  unfold check, obs_good. split.
  - intros H. apply app_eq_nil in H as [H1 H5]. apply clause_nil in H5. split.
    + destruct (k_final c); cbn in H5; congruence.
    + intros d e Hd He. rewrite flat_map_nil in H1. specialize (H1 d Hd).
      rewrite flat_map_nil in H1. apply elem_clauses_spec. exact (H1 e He).
  - intros [Hf H]. assert (H5 : negb (ofinal_eqb (k_final c) FCrashed) = true).
    { destruct (k_final c); cbn; congruence. }
    rewrite H5. cbn [clause]. rewrite app_nil_r. apply flat_map_nil. intros d Hd.
    apply flat_map_nil. intros e He. apply elem_clauses_spec. exact (H d e Hd He).
Qed.

(* whatever the model delivers, in either variant, satisfies the per-element
   part of the property; placeholders are the only other thing it can deliver *)
Theorem model_elems_good f c d e :
  In d (all_deliveries (run f (config_of c) (k_msgs c))) -> In e (d_batch d) ->
  e = EZero \/
  exists pos m n, e = EMsg pos m /\ nth_error (nodes (k_tree c)) pos = Some n /\
      (p_peer m = PNone \/ p_peer m = PKey (n_srv n)) /\
      ~ invalid_sender (nodes (k_tree c)) (p_from m) (p_peer m).
Proof.
  intros Hd He. destruct e as [pos m|]; [right|now left].
  destruct (authentic_delivery f (config_of c) (k_msgs c) d pos m Hd He) as [(n & Hn & Hf & Hp) _].
  exists pos, m, n. split; [reflexivity|]. split; [exact Hn|]. split; [exact Hp|].
  exact (invalid_never_delivered f (config_of c) (k_msgs c) d pos m Hd He).
Qed.
