(* MODEL (executable Gallina only, no proofs): the C05 reader/queue transition
   system of Node/Dispatch.v LINKED with the per-instance message semantics of
   Node/Instance.v (aggregate / createValueAndVerify / handlers and channels).

   The combined state is (Dispatch.sys, the msgQueue state of every instance,
   a log).  It takes the same actions as Dispatch.step -- feeders appending to
   an instance's dispatch queue, the instance's reader checking / waking /
   ending a handler, closes -- in ANY interleaving.  Exactly when the reader of
   instance i pops message id m (Dispatch moves it to [RRunning m]) the
   injection [tbl m] is handed to dispatchMsgToProtocol of instance i
   ([step_inj]) and the outcome is appended to the log; every other action
   leaves the msgQueue state and the log alone.  A panic in an instance's
   dispatch goroutine ends the process: no further action is enabled.

   C02 and C04 are stated about [run f c l] for a GIVEN sequence l.  The
   theorems of Node/PipelineProofs.v show that in every reachable state of this
   system the log of instance i IS that sequential semantics on the messages
   its reader has started, a prefix of what was accepted, whatever the
   interleaving. *)
From Coq Require Import List Arith Bool.
Import ListNotations.
From Onet Require Node.Dispatch.
From Onet Require Import Node.Instance.

(* the message id -> injection table names the wire content, the envelope
   identity ...; the instance is the one whose queue the message sits in *)
Definition with_inst (i : nat) (x : inj) : inj :=
  {| i_inst := i; i_env := i_env x; i_decl := i_decl x; i_wire := i_wire x |}.

Record pstate := {
  p_sys : Dispatch.sys;            (* C05: queues, wake-up tokens, readers, histories *)
  p_q : qstate;                    (* msgQueue of every instance *)
  p_log : list (nat * sres);       (* (instance, outcome of dispatchMsgToProtocol), in global order *)
  p_dead : bool }.                 (* a dispatch goroutine panicked: the process is gone *)

Definition pinit (n : nat) : pstate :=
  {| p_sys := Dispatch.init n; p_q := []; p_log := []; p_dead := false |}.

(* the message the reader takes out of the queue with this action, if any *)
Definition popped (c : Dispatch.inst) (a : Dispatch.action) : option nat :=
  match a with
  | Dispatch.ACheck =>
      match Dispatch.reader c with
      | Dispatch.RIdle =>
          if Dispatch.closing c then None
          else match Dispatch.queue c with
               | m :: _ => Some m
               | [] => None
               end
      | _ => None
      end
  | _ => None
  end.

Definition pstep (f : fixes) (c : config) (tbl : nat -> inj) (st : pstate) (ia : nat * Dispatch.action)
  : option pstate :=
  if p_dead st then None else
  match nth_error (p_sys st) (fst ia) with
  | None => None
  | Some ci =>
      match Dispatch.step (p_sys st) ia with
      | None => None
      | Some sys' =>
          match popped ci (snd ia) with
          | None => Some {| p_sys := sys'; p_q := p_q st; p_log := p_log st; p_dead := false |}
          | Some m =>
              let (q', res) := step_inj f c (p_q st) (with_inst (fst ia) (tbl m)) in
              Some {| p_sys := sys'; p_q := q'; p_log := p_log st ++ [(fst ia, res)];
                      p_dead := is_crash res |}
          end
      end
  end.

Fixpoint prun (f : fixes) (c : config) (tbl : nat -> inj) (st : pstate) (acts : list (nat * Dispatch.action))
  : option pstate :=
  match acts with
  | [] => Some st
  | a :: r => match pstep f c tbl st a with None => None | Some st' => prun f c tbl st' r end
  end.

(* the log of one instance *)
Definition ilog (i : nat) (l : list (nat * sres)) : list sres :=
  map snd (filter (fun p => fst p =? i) l).

(* the injections instance i's reader has started, in order *)
Definition started_inj (tbl : nat -> inj) (i : nat) (ci : Dispatch.inst) : list inj :=
  map (fun m => with_inst i (tbl m)) (Dispatch.started ci).

Definition accepted_inj (tbl : nat -> inj) (i : nat) (ci : Dispatch.inst) : list inj :=
  map (fun m => with_inst i (tbl m)) (Dispatch.accepted ci).

(* the msgQueue state after a sequence (for a sequence without crash) *)
Definition state_after (f : fixes) (c : config) (s : qstate) (l : list inj) : qstate :=
  fold_left (fun s x => fst (step_inj f c s x)) l s.
