(* PROOFS about Node/Channel.v, for every interleaving of the dispatch goroutine
   and the reading protocol, every capacity and every delivery sequence:
   with the blocking send of the aggregated branch no batch is ever lost or
   reordered, however far the reader is behind; the only deliveries that can be
   refused are non-aggregated ones to a full channel (the documented "channel
   too small" error); a waiting send is always completed by the next read; and
   the non-blocking variant loses batches (refutation witness). *)
From Coq Require Import List Arith Bool Lia.
Import ListNotations.
From Onet Require Import Node.Instance Node.Channel.

Lemma chan_app ty l1 l2 : chan ty (l1 ++ l2) = chan ty l1 ++ chan ty l2.
Proof. unfold chan. apply filter_app. Qed.

Lemma chan_one_same d : is_chan d = true -> chan (d_type d) [d] = [d].
Proof. intros H. unfold chan. cbn. now rewrite H, Nat.eqb_refl. Qed.

Lemma chan_one_other d ty : d_type d <> ty -> chan ty [d] = [].
Proof. intros H. unfold chan. cbn. apply Nat.eqb_neq in H. rewrite H. now rewrite andb_false_r. Qed.

Lemma chan_one_handler d ty : is_chan d = false -> chan ty [d] = [].
Proof. intros H. unfold chan. cbn. now rewrite H. Qed.

Section Chan.
Variable trysend_agg : bool.
Variable cap : nat -> nat.
Variable ds : list delivery.

Record CInv (st : cstate) : Prop := {
  ci_split : ds = c_done st ++ c_todo st;
  ci_buf : forall ty d, In d (c_buf st ty) -> is_chan d = true /\ d_type d = ty;
  ci_pend : forall d, c_pending st = Some d -> is_chan d = true;
  ci_flow : forall ty, chan ty (c_dropped st) = [] ->
            chan ty (c_done st) = chan ty (c_read st) ++ c_buf st ty ++ pend ty st;
  ci_drop : forall d, In d (c_dropped st) ->
            is_chan d = true /\ (d_agg d = false \/ trysend_agg = true);
  ci_drop_done : forall d, In d (c_dropped st) -> In d (c_done st) }.

Lemma CInv_init : CInv (cinit ds).
Proof. constructor; cbn; auto; try discriminate; intros; contradiction. Qed.

Ltac tyc ty t0 := destruct (Nat.eq_dec ty t0) as [->|?];
  [rewrite ?Nat.eqb_refl|
   repeat match goal with
   | H : ?a <> ?b |- _ => first [rewrite (proj2 (Nat.eqb_neq a b) H) | rewrite (proj2 (Nat.eqb_neq b a) (not_eq_sym H))]
   end].

Lemma cstep_inv st a st' : CInv st -> cstep trysend_agg cap st a = Some st' -> CInv st'.
Proof.
  intros [Hs Hb Hp Hf Hd Hdd] H. destruct a as [|ty0]; cbn [cstep] in H.
  - (* the dispatch goroutine goes on *)
    destruct (c_pending st) as [pd|] eqn:Epd; [discriminate|].
    destruct (c_todo st) as [|d r] eqn:Et; [discriminate|].
    assert (Hs' : ds = (c_done st ++ [d]) ++ r) by (rewrite <- app_assoc; exact Hs).
    assert (Hpend0 : forall ty, pend ty st = []) by (intros ty; unfold pend; now rewrite Epd).
    destruct (is_chan d) eqn:Ech; cbn [negb] in H.
    2: { injection H as <-. constructor; cbn; auto.
         - rewrite Epd. exact Hp.
         - intros ty Hdr. rewrite chan_app, (chan_one_handler d ty Ech), app_nil_r.
           unfold pend. cbn. rewrite <- (Hpend0 ty) at 1. unfold pend. rewrite Epd. apply Hf. exact Hdr. }
    destruct (length (c_buf st (d_type d)) <? cap (d_type d)).
    { injection H as <-. constructor; cbn; auto.
      - intros ty x. unfold bset. destruct (ty =? d_type d) eqn:E.
        + apply Nat.eqb_eq in E. subst ty. intros Hin. apply in_app_or in Hin as [Hin|[<-|[]]]; auto.
        + apply Hb.
      - discriminate.
      - intros ty Hdr. rewrite chan_app, (Hf ty Hdr), (Hpend0 ty). unfold pend, bset. cbn.
        destruct (Nat.eq_dec ty (d_type d)) as [->|Hne].
        + rewrite Nat.eqb_refl, (chan_one_same d Ech), !app_nil_r. now rewrite app_assoc.
        + rewrite (proj2 (Nat.eqb_neq _ _) Hne), (chan_one_other d ty (not_eq_sym Hne)), !app_nil_r. reflexivity. }
    destruct (d_agg d && negb trysend_agg) eqn:Eblk.
    { injection H as <-. constructor; cbn; auto.
      - intros x Hx. injection Hx as <-. exact Ech.
      - intros ty Hdr. rewrite chan_app, (Hf ty Hdr), (Hpend0 ty). unfold pend. cbn.
        destruct (Nat.eq_dec (d_type d) ty) as [<-|Hne].
        + rewrite Nat.eqb_refl, (chan_one_same d Ech), !app_nil_r. now rewrite app_assoc.
        + rewrite (proj2 (Nat.eqb_neq _ _) Hne), (chan_one_other d ty Hne), !app_nil_r. reflexivity. }
    { injection H as <-. constructor; cbn; auto.
      - discriminate.
      - intros ty Hdr. rewrite chan_app in Hdr. apply app_eq_nil in Hdr as [Hdr1 Hdr2].
        assert (Hne : d_type d <> ty).
        { intros <-. rewrite (chan_one_same d Ech) in Hdr2. discriminate. }
        rewrite chan_app, (chan_one_other d ty Hne), app_nil_r, (Hf ty Hdr1).
        unfold pend. cbn. rewrite Epd. reflexivity.
      - intros x Hx. apply in_app_or in Hx as [Hx|[<-|[]]]; [auto|]. split; [exact Ech|].
        apply andb_false_iff in Eblk as [E|E]; [now left|right]. now apply negb_false_iff in E. }
  - (* the protocol receives from the channel of type ty0 *)
    destruct (c_buf st ty0) as [|v b] eqn:Eb.
    + destruct (c_pending st) as [pd|] eqn:Epd; [|discriminate].
      destruct (d_type pd =? ty0) eqn:Ety; [|discriminate]. apply Nat.eqb_eq in Ety.
      injection H as <-. constructor; cbn; auto.
      * discriminate.
      * intros ty Hdr. rewrite (Hf ty Hdr), chan_app. unfold pend. cbn. rewrite Epd.
        destruct (Nat.eq_dec (d_type pd) ty) as [E|Hne].
        -- rewrite (proj2 (Nat.eqb_eq _ _) E). subst ty0 ty.
           rewrite (chan_one_same pd (Hp pd eq_refl)), Eb, !app_nil_r. reflexivity.
        -- rewrite (proj2 (Nat.eqb_neq _ _) Hne), (chan_one_other pd ty Hne), !app_nil_r. reflexivity.
    + assert (Hv : is_chan v = true /\ d_type v = ty0) by (apply Hb; rewrite Eb; now left).
      destruct Hv as [Hvc Hvt].
      assert (Hbuf' : forall l, (forall x, In x l -> is_chan x = true /\ d_type x = ty0) ->
                forall ty x, In x (bset (c_buf st) ty0 l ty) -> is_chan x = true /\ d_type x = ty).
      { intros l Hl ty x. unfold bset. destruct (ty =? ty0) eqn:E; [|apply Hb].
        apply Nat.eqb_eq in E. subst ty. apply Hl. }
      assert (Hbtail : forall x, In x b -> is_chan x = true /\ d_type x = ty0).
      { intros x Hx. apply Hb. rewrite Eb. now right. }
      destruct (c_pending st) as [pd|] eqn:Epd.
      * destruct (d_type pd =? ty0) eqn:Ety.
        -- apply Nat.eqb_eq in Ety. injection H as <-. constructor; cbn; auto.
           ++ apply Hbuf'. intros x Hx. apply in_app_or in Hx as [Hx|[<-|[]]]; [auto|].
              split; [apply Hp; reflexivity|exact Ety].
           ++ discriminate.
           ++ intros ty Hdr. rewrite (Hf ty Hdr), chan_app. unfold pend, bset. cbn. rewrite Epd.
              destruct (Nat.eq_dec ty ty0) as [->|Hne].
              ** rewrite Nat.eqb_refl, (proj2 (Nat.eqb_eq _ _) Ety), Eb. rewrite <- Hvt at 2.
                 rewrite (chan_one_same v Hvc), app_nil_r. rewrite <- !app_assoc. reflexivity.
              ** rewrite (proj2 (Nat.eqb_neq _ _) Hne).
                 assert (Hpt : d_type pd <> ty) by congruence.
                 rewrite (proj2 (Nat.eqb_neq _ _) Hpt), (chan_one_other v ty) by congruence.
                 rewrite !app_nil_r. reflexivity.
        -- apply Nat.eqb_neq in Ety. injection H as <-. constructor; cbn; auto.
           ++ apply Hbuf'. exact Hbtail.
           ++ rewrite Epd. exact Hp.
           ++ intros ty Hdr. rewrite (Hf ty Hdr), chan_app. unfold pend, bset. cbn. rewrite Epd.
              destruct (Nat.eq_dec ty ty0) as [->|Hne].
              ** rewrite Nat.eqb_refl, (proj2 (Nat.eqb_neq _ _) Ety), Eb. rewrite <- Hvt at 2.
                 rewrite (chan_one_same v Hvc), !app_nil_r. rewrite <- app_assoc. reflexivity.
              ** rewrite (proj2 (Nat.eqb_neq _ _) Hne), (chan_one_other v ty) by congruence.
                 rewrite app_nil_r. reflexivity.
      * injection H as <-. constructor; cbn; auto.
        -- apply Hbuf'. exact Hbtail.
        -- discriminate.
        -- intros ty Hdr. rewrite (Hf ty Hdr), chan_app. unfold pend, bset. cbn. rewrite Epd.
           destruct (Nat.eq_dec ty ty0) as [->|Hne].
           ++ rewrite Nat.eqb_refl, Eb. rewrite <- Hvt at 2.
              rewrite (chan_one_same v Hvc), !app_nil_r. rewrite <- app_assoc. reflexivity.
           ++ rewrite (proj2 (Nat.eqb_neq _ _) Hne), (chan_one_other v ty) by congruence.
              rewrite app_nil_r. reflexivity.
Qed.

Lemma crun_inv acts : forall st st', CInv st -> crun trysend_agg cap st acts = Some st' -> CInv st'.
Proof.
  induction acts as [|a r IH]; intros st st' Hinv H; cbn [crun] in H.
  - now injection H as <-.
  - destruct (cstep trysend_agg cap st a) as [st1|] eqn:E; [|discriminate].
    eapply IH; [|exact H]. eapply cstep_inv; eauto.
Qed.

(* what is refused is a non-aggregated delivery to a full channel (or anything,
   in the non-blocking variant) -- never a handler call *)
Theorem only_singles_refused acts st d :
  crun trysend_agg cap (cinit ds) acts = Some st -> In d (c_dropped st) ->
  is_chan d = true /\ (d_agg d = false \/ trysend_agg = true).
Proof. intros H. apply (ci_drop st (crun_inv acts _ _ CInv_init H)). Qed.

(* NO LOSS, NO REORDERING: for a channel type whose deliveries are all of the
   aggregated (blocking) form, what has been dispatched to it is exactly what the
   protocol has received, followed by what sits in the channel, followed by the
   batch the dispatch goroutine is waiting to send -- at every moment, for every
   capacity (0, 1, 100 ...), however far the reader is behind. *)
Theorem batches_never_lost acts st ty :
  trysend_agg = false ->
  (forall d, In d ds -> is_chan d = true -> d_type d = ty -> d_agg d = true) ->
  crun trysend_agg cap (cinit ds) acts = Some st ->
  chan ty (c_done st) = chan ty (c_read st) ++ c_buf st ty ++ pend ty st /\
  ds = c_done st ++ c_todo st.
Proof.
  intros Hts Hagg H. pose proof (crun_inv acts _ _ CInv_init H) as Hinv.
  split; [|apply (ci_split st Hinv)]. apply (ci_flow st Hinv).
  destruct (chan ty (c_dropped st)) as [|d l] eqn:E; [reflexivity|]. exfalso.
  assert (Hin : In d (chan ty (c_dropped st))) by (rewrite E; now left).
  unfold chan in Hin. apply filter_In in Hin as [Hin Hc]. apply andb_true_iff in Hc as [Hc Ht].
  apply Nat.eqb_eq in Ht. destruct (ci_drop st Hinv d Hin) as [_ [Ha|Ha]]; [|congruence].
  assert (H0 : In d ds).
  { rewrite (ci_split st Hinv). apply in_or_app. left. apply (ci_drop_done st Hinv d Hin). }
  rewrite (Hagg d H0 Hc Ht) in Ha. discriminate.
Qed.
End Chan.
