(* PROOFS about Node/Channel.v, for every interleaving of the dispatch goroutine
   and the reading protocol, every capacity and every delivery sequence:
   with the blocking send of the aggregated branch no batch is ever lost or
   reordered, however far the reader is behind; the only deliveries that can be
   refused are non-aggregated ones to a full channel (the documented "channel
   too small" error); a waiting send is always completed by the next read; and
   the non-blocking variant loses batches (refutation witness). *)
From Coq Require Import List Arith Bool Lia.
Import ListNotations.
From Onet Require Import Node.Instance Node.Channel.

Lemma chan_app ty l1 l2 : chan ty (l1 ++ l2) = chan ty l1 ++ chan ty l2.
Proof. unfold chan. apply filter_app. Qed.

Lemma chan_one_same d : is_chan d = true -> chan (d_type d) [d] = [d].
Proof. intros H. unfold chan. cbn. now rewrite H, Nat.eqb_refl. Qed.

Lemma chan_one_other d ty : d_type d <> ty -> chan ty [d] = [].
Proof. intros H. unfold chan. cbn. apply Nat.eqb_neq in H. rewrite H. now rewrite andb_false_r. Qed.

Lemma chan_one_handler d ty : is_chan d = false -> chan ty [d] = [].
Proof. intros H. unfold chan. cbn. now rewrite H. Qed.

Section Chan.
Variable trysend_agg : bool.
Variable cap : nat -> nat.
Variable ds : list delivery.

Record CInv (st : cstate) : Prop := {
  ci_split : ds = c_done st ++ c_todo st;
  ci_buf : forall ty d, In d (c_buf st ty) -> is_chan d = true /\ d_type d = ty;
  ci_pend : forall d, c_pending st = Some d -> is_chan d = true;
  ci_flow : forall ty, chan ty (c_dropped st) = [] ->
            chan ty (c_done st) = chan ty (c_read st) ++ c_buf st ty ++ pend ty st;
  ci_drop : forall d, In d (c_dropped st) ->
            is_chan d = true /\ (d_agg d = false \/ trysend_agg = true);
  ci_drop_done : forall d, In d (c_dropped st) -> In d (c_done st) }.

Lemma CInv_init : CInv (cinit ds).
Proof. constructor; cbn; auto; try discriminate; intros; contradiction. Qed.

Ltac mk := constructor; cbn [c_todo c_done c_buf c_pending c_read c_handled c_dropped].

Lemma pend_none st ty : c_pending st = None -> pend ty st = [].
Proof. intros H. unfold pend. now rewrite H. Qed.

Lemma cstep_inv st a st' : CInv st -> cstep trysend_agg cap st a = Some st' -> CInv st'.
Proof.
  intros [Hs Hb Hp Hf Hd Hdd] H. destruct a as [|ty0]; cbn [cstep] in H.
  - (* the dispatch goroutine goes on *)
    destruct (c_pending st) as [pd|] eqn:Epd; [discriminate|].
    destruct (c_todo st) as [|d r] eqn:Et; [discriminate|].
    assert (Hs' : ds = (c_done st ++ [d]) ++ r) by (rewrite <- app_assoc; exact Hs).
    assert (Hdd' : forall x, In x (c_dropped st) -> In x (c_done st ++ [d]))
      by (intros x Hx; apply in_or_app; left; now apply Hdd).
    destruct (is_chan d) eqn:Ech; cbn [negb] in H.
    2: { injection H as <-. mk.
         - exact Hs'.
         - exact Hb.
         - discriminate.
         - intros ty Hdr. rewrite chan_app, (chan_one_handler d ty Ech), app_nil_r, (Hf ty Hdr).
           unfold pend; cbn [c_pending c_buf]. now rewrite Epd.
         - exact Hd.
         - exact Hdd'. }
    destruct (length (c_buf st (d_type d)) <? cap (d_type d)).
    { injection H as <-. mk.
      - exact Hs'.
      - intros ty x. unfold bset. destruct (ty =? d_type d) eqn:E.
        + apply Nat.eqb_eq in E. subst ty. intros Hin. apply in_app_or in Hin as [Hin|[<-|[]]]; auto.
        + apply Hb.
      - discriminate.
      - intros ty Hdr. rewrite chan_app, (Hf ty Hdr), (pend_none st ty Epd). unfold pend, bset; cbn [c_pending c_buf].
        destruct (Nat.eq_dec ty (d_type d)) as [->|Hne].
        + rewrite Nat.eqb_refl, (chan_one_same d Ech), !app_nil_r. now rewrite app_assoc.
        + rewrite (proj2 (Nat.eqb_neq _ _) Hne), (chan_one_other d ty (not_eq_sym Hne)), !app_nil_r. reflexivity.
      - exact Hd.
      - exact Hdd'. }
    destruct (d_agg d && negb trysend_agg) eqn:Eblk.
    { injection H as <-. mk.
      - exact Hs'.
      - exact Hb.
      - intros x Hx. injection Hx as <-. exact Ech.
      - intros ty Hdr. rewrite chan_app, (Hf ty Hdr), (pend_none st ty Epd). unfold pend; cbn [c_pending c_buf].
        destruct (Nat.eq_dec (d_type d) ty) as [<-|Hne].
        + rewrite Nat.eqb_refl, (chan_one_same d Ech), !app_nil_r. now rewrite app_assoc.
        + rewrite (proj2 (Nat.eqb_neq _ _) Hne), (chan_one_other d ty Hne), !app_nil_r. reflexivity.
      - exact Hd.
      - exact Hdd'. }
    { injection H as <-. mk.
      - exact Hs'.
      - exact Hb.
      - discriminate.
      - intros ty Hdr. rewrite chan_app in Hdr. apply app_eq_nil in Hdr as [Hdr1 Hdr2].
        assert (Hne : d_type d <> ty).
        { intros <-. rewrite (chan_one_same d Ech) in Hdr2. discriminate. }
        rewrite chan_app, (chan_one_other d ty Hne), app_nil_r, (Hf ty Hdr1).
        unfold pend; cbn [c_pending c_buf]. now rewrite Epd.
      - intros x Hx. apply in_app_or in Hx as [Hx|[<-|[]]]; [auto|]. split; [exact Ech|].
        apply andb_false_iff in Eblk as [E|E]; [now left|right]. now apply negb_false_iff in E.
      - intros x Hx. apply in_or_app. apply in_app_or in Hx as [Hx|[<-|[]]]; [left; now apply Hdd|right; now left]. }
  - (* the protocol receives from the channel of type ty0 *)
    destruct (c_buf st ty0) as [|v b] eqn:Eb.
    + destruct (c_pending st) as [pd|] eqn:Epd; [|discriminate].
      destruct (d_type pd =? ty0) eqn:Ety; [|discriminate]. apply Nat.eqb_eq in Ety.
      injection H as <-. mk.
      * exact Hs.
      * exact Hb.
      * discriminate.
      * intros ty Hdr. rewrite (Hf ty Hdr), chan_app. unfold pend; cbn [c_pending c_buf]. rewrite Epd.
        destruct (Nat.eq_dec (d_type pd) ty) as [E|Hne].
        -- rewrite (proj2 (Nat.eqb_eq _ _) E). subst ty0 ty.
           rewrite (chan_one_same pd (Hp pd eq_refl)), Eb, !app_nil_r. reflexivity.
        -- rewrite (proj2 (Nat.eqb_neq _ _) Hne), (chan_one_other pd ty Hne), !app_nil_r. reflexivity.
      * exact Hd.
      * exact Hdd.
    + assert (Hv : is_chan v = true /\ d_type v = ty0) by (apply Hb; rewrite Eb; now left).
      destruct Hv as [Hvc Hvt].
      assert (Hbuf' : forall l, (forall x, In x l -> is_chan x = true /\ d_type x = ty0) ->
                forall ty x, In x (bset (c_buf st) ty0 l ty) -> is_chan x = true /\ d_type x = ty).
      { intros l Hl ty x. unfold bset. destruct (ty =? ty0) eqn:E; [|apply Hb].
        apply Nat.eqb_eq in E. subst ty. apply Hl. }
      assert (Hbtail : forall x, In x b -> is_chan x = true /\ d_type x = ty0).
      { intros x Hx. apply Hb. rewrite Eb. now right. }
      assert (Hv1 : chan ty0 [v] = [v]) by (rewrite <- Hvt; exact (chan_one_same v Hvc)).
      assert (Hv2 : forall ty, ty <> ty0 -> chan ty [v] = []).
      { intros ty Hne. apply chan_one_other. congruence. }
      destruct (c_pending st) as [pd|] eqn:Epd.
      * destruct (d_type pd =? ty0) eqn:Ety.
        -- apply Nat.eqb_eq in Ety. injection H as <-. mk.
           ++ exact Hs.
           ++ apply Hbuf'. intros x Hx. apply in_app_or in Hx as [Hx|[<-|[]]]; [auto|].
              split; [apply Hp; reflexivity|exact Ety].
           ++ discriminate.
           ++ intros ty Hdr. rewrite (Hf ty Hdr), chan_app. unfold pend, bset; cbn [c_pending c_buf]. rewrite Epd.
              destruct (Nat.eq_dec ty ty0) as [->|Hne].
              ** rewrite Nat.eqb_refl, (proj2 (Nat.eqb_eq _ _) Ety), Eb, Hv1, app_nil_r.
                 rewrite <- !app_assoc. reflexivity.
              ** rewrite (proj2 (Nat.eqb_neq _ _) Hne), (Hv2 ty Hne).
                 assert (Hpt : d_type pd <> ty) by congruence.
                 rewrite (proj2 (Nat.eqb_neq _ _) Hpt), !app_nil_r. reflexivity.
           ++ exact Hd.
           ++ exact Hdd.
        -- apply Nat.eqb_neq in Ety. injection H as <-. mk.
           ++ exact Hs.
           ++ apply Hbuf'. exact Hbtail.
           ++ exact Hp.
           ++ intros ty Hdr. rewrite (Hf ty Hdr), chan_app. unfold pend, bset; cbn [c_pending c_buf]. rewrite Epd.
              destruct (Nat.eq_dec ty ty0) as [->|Hne].
              ** rewrite Nat.eqb_refl, (proj2 (Nat.eqb_neq _ _) Ety), Eb, Hv1, !app_nil_r.
                 rewrite <- app_assoc. reflexivity.
              ** rewrite (proj2 (Nat.eqb_neq _ _) Hne), (Hv2 ty Hne), !app_nil_r. reflexivity.
           ++ exact Hd.
           ++ exact Hdd.
      * injection H as <-. mk.
        -- exact Hs.
        -- apply Hbuf'. exact Hbtail.
        -- discriminate.
        -- intros ty Hdr. rewrite (Hf ty Hdr), chan_app. unfold pend, bset; cbn [c_pending c_buf]. rewrite Epd.
           destruct (Nat.eq_dec ty ty0) as [->|Hne].
           ++ rewrite Nat.eqb_refl, Eb, Hv1, !app_nil_r. rewrite <- app_assoc. reflexivity.
           ++ rewrite (proj2 (Nat.eqb_neq _ _) Hne), (Hv2 ty Hne), !app_nil_r. reflexivity.
        -- exact Hd.
        -- exact Hdd.
Qed.

Lemma crun_inv acts : forall st st', CInv st -> crun trysend_agg cap st acts = Some st' -> CInv st'.
Proof.
  induction acts as [|a r IH]; intros st st' Hinv H; cbn [crun] in H.
  - now injection H as <-.
  - destruct (cstep trysend_agg cap st a) as [st1|] eqn:E; [|discriminate].
    eapply IH; [|exact H]. eapply cstep_inv; eauto.
Qed.

(* what is refused is a non-aggregated delivery to a full channel (or anything,
   in the non-blocking variant) -- never a handler call *)
Theorem only_singles_refused acts st d :
  crun trysend_agg cap (cinit ds) acts = Some st -> In d (c_dropped st) ->
  is_chan d = true /\ (d_agg d = false \/ trysend_agg = true).
Proof. intros H. apply (ci_drop st (crun_inv acts _ _ CInv_init H)). Qed.

Corollary only_singles_refused_blocking acts st d :
  trysend_agg = false ->
  crun trysend_agg cap (cinit ds) acts = Some st -> In d (c_dropped st) ->
  is_chan d = true /\ d_agg d = false.
Proof.
  intros Hts H Hd. destruct (only_singles_refused acts st d H Hd) as [Hc [Ha|Ha]]; [auto|congruence].
Qed.

(* NO LOSS, NO REORDERING: for a channel type whose deliveries are all of the
   aggregated (blocking) form, what has been dispatched to it is exactly what the
   protocol has received, followed by what sits in the channel, followed by the
   batch the dispatch goroutine is waiting to send -- at every moment, for every
   capacity (0, 1, 100 ...), however far the reader is behind. *)
Theorem batches_never_lost acts st ty :
  trysend_agg = false ->
  (forall d, In d ds -> is_chan d = true -> d_type d = ty -> d_agg d = true) ->
  crun trysend_agg cap (cinit ds) acts = Some st ->
  chan ty (c_done st) = chan ty (c_read st) ++ c_buf st ty ++ pend ty st /\
  ds = c_done st ++ c_todo st.
Proof.
  intros Hts Hagg H. pose proof (crun_inv acts _ _ CInv_init H) as Hinv.
  split; [|apply (ci_split st Hinv)]. apply (ci_flow st Hinv).
  destruct (chan ty (c_dropped st)) as [|d l] eqn:E; [reflexivity|]. exfalso.
  assert (Hin : In d (chan ty (c_dropped st))) by (rewrite E; now left).
  unfold chan in Hin. apply filter_In in Hin as [Hin Hc]. apply andb_true_iff in Hc as [Hc Ht].
  apply Nat.eqb_eq in Ht. destruct (ci_drop st Hinv d Hin) as [_ [Ha|Ha]]; [|congruence].
  assert (H0 : In d ds).
  { rewrite (ci_split st Hinv). apply in_or_app. left. apply (ci_drop_done st Hinv d Hin). }
  rewrite (Hagg d H0 Hc Ht) in Ha. discriminate.
Qed.

(* ... so when everything has been dispatched and the channel is empty, the
   protocol has received exactly the batches of that type, in order: one per
   round (Node/AggregateProofs.v) whatever the capacity *)
Corollary all_batches_received acts st ty :
  trysend_agg = false ->
  (forall d, In d ds -> is_chan d = true -> d_type d = ty -> d_agg d = true) ->
  crun trysend_agg cap (cinit ds) acts = Some st ->
  c_todo st = [] -> c_pending st = None -> c_buf st ty = [] ->
  chan ty (c_read st) = chan ty ds.
Proof.
  intros Hts Hagg H Ht Hp Hb. destruct (batches_never_lost acts st ty Hts Hagg H) as [Hf Hs].
  rewrite Hs, Ht, app_nil_r, Hf, Hb, (pend_none st ty Hp), !app_nil_r. reflexivity.
Qed.

(* a send that waits is completed by the very next read of that channel: the
   reader can never be refused while the dispatch goroutine waits for it *)
Theorem waiting_send_completes st d :
  c_pending st = Some d ->
  exists st', cstep trysend_agg cap st (CRead (d_type d)) = Some st' /\ c_pending st' = None.
Proof.
  intros Hp. cbn [cstep]. rewrite Hp, Nat.eqb_refl.
  destruct (c_buf st (d_type d)); eexists; split; reflexivity.
Qed.
End Chan.

(* ----------------------------------------------------------- witnesses -- *)

Definition batch (ty n : nat) : delivery :=
  {| d_type := ty; d_kind := Channel; d_agg := true;
     d_batch := [EMsg 1 {| p_from := Some 1; p_peer := PKey 1; p_type := ty; p_payload := n |}] |}.

(* capacity 1, three rounds dispatched before the protocol reads.  Blocking
   send (the code): the second batch waits, the third is not even dispatched;
   reading three times yields the three batches in order. *)
Example blocking_send_example :
  let cap := fun _ => 1 in
  (exists st, crun false cap (cinit [batch 8 1; batch 8 2; batch 8 3]) [CNext; CNext] = Some st /\
     c_buf st 8 = [batch 8 1] /\ c_pending st = Some (batch 8 2) /\ c_todo st = [batch 8 3] /\
     cstep false cap st CNext = None) /\
  (exists st, crun false cap (cinit [batch 8 1; batch 8 2; batch 8 3])
                [CNext; CNext; CRead 8; CNext; CRead 8; CRead 8] = Some st /\
     c_read st = [batch 8 1; batch 8 2; batch 8 3] /\ c_dropped st = []).
Proof. split; eexists; vm_compute; repeat split. Qed.

(* The non-blocking variant (TrySend in the aggregated branch) LOSES batches:
   the same history delivers only the first round. *)
Theorem trysend_loses_batches :
  exists cap ds acts st,
    crun true cap (cinit ds) acts = Some st /\ c_todo st = [] /\ c_pending st = None /\
    c_buf st 8 = [] /\ chan 8 (c_read st) <> chan 8 ds /\ c_dropped st = [batch 8 2; batch 8 3].
Proof.
  exists (fun _ => 1), [batch 8 1; batch 8 2; batch 8 3], [CNext; CNext; CNext; CRead 8].
  eexists. vm_compute. repeat split. discriminate.
Qed.

(* what the code documents for NON-aggregated types: a message to a full channel
   is refused ("channel too small ... please use RegisterChannelLength()") *)
Example single_refused_when_full :
  let single n := {| d_type := 3; d_kind := Channel; d_agg := false;
                     d_batch := [EMsg 1 {| p_from := Some 1; p_peer := PKey 1; p_type := 3; p_payload := n |}] |} in
  exists st, crun false (fun _ => 1) (cinit [single 1; single 2]) [CNext; CNext; CRead 3] = Some st /\
    c_read st = [single 1] /\ c_dropped st = [single 2].
Proof. eexists. vm_compute. repeat split. Qed.
