(* Soundness of the C04 checker of Corr/C04.v with respect to the expected
   deliveries computed by the property's reading of the input ([spec_run]). *)
From Coq Require Import List Arith Bool.
Import ListNotations.
From Onet Require Import Base.Corr Node.Instance Node.Obs Corr.C04.

Lemma walk_sound ns insts : forall l s obs exp,
  spec_run ns insts s l = Some exp -> walk ns insts s l obs = [] ->
  Forall2 (fun d o => deliv_equiv d o = true) exp obs.
Proof.
  induction l as [|x l IH]; intros s obs exp Hs Hw; cbn [spec_run walk] in *.
  - injection Hs as <-. destruct obs as [|o obs]; [constructor|].
    destruct (is_agg_type (od_type o)); discriminate.
  - destruct (spec_step ns insts s x) as [[[s' k] d]|]; [|discriminate].
    destruct (spec_run ns insts s' l) as [rest|] eqn:Er; [|discriminate].
    injection Hs as <-. destruct d as [d|].
    + destruct obs as [|o obs]; [discriminate|].
      destruct (deliv_equiv d o) eqn:Ed; [|discriminate].
      constructor; [exact Ed|]. eapply IH; eauto.
    + eapply IH; eauto.
Qed.

Theorem check_sound c exp :
  in_scope c = true ->
  spec_run (nodes (k_tree c)) (k_insts c) [] (k_msgs c) = Some exp ->
  check c = [] ->
  k_final c = FAlive /\ Forall2 (fun d o => deliv_equiv d o = true) exp (k_obs c).
Proof.
  intros Hin Hs Hc. unfold check in Hc. rewrite Hin in Hc.
  destruct (k_final c); try discriminate. split; [reflexivity|].
  eapply walk_sound; eauto.
Qed.

(* [deliv_equiv] is what it claims: same instance, type and form, and the two
   batches contain each other *)
Lemma deliv_equiv_spec d o :
  deliv_equiv d o = true ->
  od_inst d = od_inst o /\ od_type d = od_type o /\ od_agg d = od_agg o /\
  length (od_elems d) = length (od_elems o) /\
  (forall e, In e (od_elems d) -> exists e', In e' (od_elems o) /\ oelem_eqb e e' = true) /\
  (forall e, In e (od_elems o) -> exists e', In e' (od_elems d) /\ oelem_eqb e e' = true).
Proof.
  unfold deliv_equiv. intros H.
  apply andb_true_iff in H as [H Hel]. apply andb_true_iff in H as [H Hagg].
  apply andb_true_iff in H as [Hi Ht]. unfold elems_equiv in Hel.
  apply andb_true_iff in Hel as [Hel Hf2]. apply andb_true_iff in Hel as [Hlen Hf1].
  apply Nat.eqb_eq in Hi, Ht, Hlen. apply Bool.eqb_prop in Hagg.
  rewrite forallb_forall in Hf1, Hf2.
  repeat split; try assumption.
  - intros e He. specialize (Hf1 e He). apply existsb_exists in Hf1. exact Hf1.
  - intros e He. specialize (Hf2 e He). apply existsb_exists in Hf2. exact Hf2.
Qed.

(* ========================================================================
   THE MODEL MEETS THE PROPERTY'S READING.  For every tree, every instance
   table and every history that stays within the hypotheses (as decided by
   [spec_run]: known authenticated senders; per instance and aggregated type,
   the children answer round after round, each child once per round), the
   deliveries of the model -- of the pinned and of the repaired code -- are
   EXACTLY the deliveries the sender-based reading expects, in the same order,
   and the process does not crash.
   ======================================================================== *)
From Coq Require Import Lia.
From Onet Require Import Node.VerifyProofs Node.AggregateProofs.

Lemma rget_rdel s i ty j t :
  rget (rdel s i ty) j t = if (j =? i) && (t =? ty) then [] else rget s j t.
Proof.
  induction s as [|[[a b] l] r IH]; cbn [rdel rget].
  - now destruct ((j =? i) && (t =? ty)).
  - destruct ((a =? i) && (b =? ty)) eqn:E1.
    + rewrite IH. apply andb_true_iff in E1 as [Ea Eb]. apply Nat.eqb_eq in Ea, Eb. subst a b.
      destruct ((j =? i) && (t =? ty)) eqn:E2; [reflexivity|].
      rewrite (Nat.eqb_sym i j), (Nat.eqb_sym ty t), E2. reflexivity.
    + cbn [rget]. rewrite IH. destruct ((a =? j) && (b =? t)) eqn:E3; [|reflexivity].
      apply andb_true_iff in E3 as [Ea Eb]. apply Nat.eqb_eq in Ea, Eb. subst a b.
      rewrite E1. reflexivity.
Qed.

Lemma rget_rset s i ty l j t :
  rget (rset s i ty l) j t = if (j =? i) && (t =? ty) then l else rget s j t.
Proof.
  unfold rset. cbn [rget]. rewrite rget_rdel, (Nat.eqb_sym i j), (Nat.eqb_sym ty t).
  now destruct ((j =? i) && (t =? ty)).
Qed.

Lemma Forall2_len {A B} (R : A -> B -> Prop) l1 l2 : Forall2 R l1 l2 -> length l1 = length l2.
Proof. induction 1; cbn; congruence. Qed.

(* a waiting message of the model and its entry in the spec's round state *)
Definition entry_of (ns : list ninfo) (m : pmsg) (e : nat * oelem) : Prop :=
  exists pos n, p_from m = Some (fst e) /\ search ns (fst e) = Some (pos, n) /\
    snd e = {| o_node := OPos pos; o_payload := p_payload m |} /\
    (p_peer m = PNone \/ p_peer m = PKey (n_srv n)).

Definition inv (ns : list ninfo) (s : qstate) (rs : rstate) : Prop :=
  forall i ty, Forall2 (entry_of ns) (qget (sget s i) ty) (rget rs i ty).

Lemma verify_all_entries f ns : forall l es,
  Forall2 (entry_of ns) l es ->
  exists els, verify_all f ns l = (els, SOk) /\ map proj_elem els = map snd es.
Proof.
  induction 1 as [|m e l es (pos & n & Hf & Hs & He & Hp) _ (els & IH1 & IH2)].
  - exists []. auto.
  - exists (EMsg pos m :: els). cbn [verify_all].
    rewrite (verify_valid f ns m (fst e) pos n Hf Hs Hp), IH1. split; [reflexivity|].
    cbn [map proj_elem]. rewrite IH2, He. reflexivity.
Qed.

Lemma from_parent_opt me m f :
  p_from m = Some f -> from_parent me m = opt_eqb (n_par me) (Some f).
Proof.
  intros Hf. unfold from_parent, opt_eqb. rewrite Hf. destruct (n_par me); [apply Nat.eqb_sym|reflexivity].
Qed.

Lemma inv_same ns s rs i : inv ns s rs -> inv ns (sset s i (sget s i)) rs.
Proof. intros H j ty. rewrite sget_sset. destruct (j =? i) eqn:E; [apply Nat.eqb_eq in E; subst j|]; apply H. Qed.

Lemma spec_step_model f t insts s rs x rs' k d :
  let ns := nodes t in
  let cfg := {| c_tree := t; c_insts := insts; c_regs := std_regs |} in
  inv ns s rs ->
  spec_step ns insts rs x = Some (rs', k, d) ->
  exists s' ds st,
    step_inj f cfg s x = (s', RStep ds st) /\ st <> SCrash /\
    map (proj_deliv (i_inst x)) ds = (match d with Some d => [d] | None => [] end) /\
    inv ns s' rs'.
Proof.
  intros ns cfg Hinv. unfold spec_step, step_inj. cbn [c_tree c_insts c_regs cfg]. fold ns.
  destruct (nth_error insts (i_inst x)) as [toid|]; [|discriminate].
  destruct (w_from (i_wire x)) as [fr|] eqn:Efrom; [|discriminate].
  destruct (search ns toid) as [[mepos me]|]; [|discriminate].
  destruct (search ns fr) as [[pos n]|] eqn:Esearch; [|discriminate].
  set (m := process (i_env x) (i_wire x)).
  assert (Hmf : p_from m = Some fr) by exact Efrom.
  destruct (match i_env x with PNone => true | PNoKey => false | PKey k0 => k0 =? n_srv n end) eqn:Epeer;
    cbn [negb]; [|discriminate].
  assert (Hpeer : p_peer m = PNone \/ p_peer m = PKey (n_srv n)).
  { cbn. destruct (i_env x) as [| |k0]; [now left|discriminate|]. apply Nat.eqb_eq in Epeer. subst k0. now right. }
  assert (Hver : forall f2, verify f2 ns m = VOk (EMsg pos m)).
  { intros f2. exact (verify_valid f2 ns m fr pos n Hmf Esearch Hpeer). }
  assert (Hnn : p_from m <> None) by congruence.
  change (w_type (i_wire x)) with (p_type m). change (w_payload (i_wire x)) with (p_payload m).
  destruct (lookup std_regs (p_type m)) as [[kd agg]|] eqn:Ereg.
  2: { (* unregistered type *)
    intros H. injection H as <- <- <-.
    assert (Hflag : agg_flag std_regs (p_type m) = false) by (unfold agg_flag; now rewrite Ereg).
    pose proof (aggregate_bypass me (agg_flag std_regs (p_type m)) (sget s (i_inst x)) m
                  (or_intror Hnn) (or_intror Hflag)) as Ha.
    rewrite (step_of_aggregate (fix_f02 f) (fix_f03 f) ns me std_regs _ m _ _ Hnn Ha), Ereg.
    eexists _, _, _. split; [reflexivity|]. split; [discriminate|]. split; [reflexivity|].
    apply inv_same. exact Hinv. }
  destruct agg.
  2: { (* non-aggregated type *)
    intros H. injection H as <- <- <-.
    rewrite (single_bypass_delivered (fix_f02 f) (fix_f03 f) ns me std_regs (sget s (i_inst x)) m kd _ Hnn Ereg (Hver _)).
    eexists _, _, _. split; [reflexivity|]. split; [discriminate|]. split; [reflexivity|].
    apply inv_same. exact Hinv. }
  destruct (opt_eqb (n_par me) (Some fr)) eqn:Epar.
  { (* from the parent *)
    intros H. injection H as <- <- <-.
    assert (Hfp : from_parent me m = true) by (rewrite (from_parent_opt me m fr Hmf); exact Epar).
    rewrite (parent_bypass_delivered (fix_f02 f) (fix_f03 f) ns me std_regs (sget s (i_inst x)) m kd _ Hfp Ereg (Hver _)).
    eexists _, _, _. split; [reflexivity|]. split; [discriminate|]. split; [reflexivity|].
    apply inv_same. exact Hinv. }
  (* a child's message of an aggregated type *)
  assert (Hfp : from_parent me m = false) by (rewrite (from_parent_opt me m fr Hmf); exact Epar).
  assert (Hflag : agg_flag std_regs (p_type m) = true) by (unfold agg_flag; now rewrite Ereg).
  set (cs := children_ids ns me). set (cur := rget rs (i_inst x) (p_type m)).
  destruct (negb (existsb (Nat.eqb fr) cs) || existsb (Nat.eqb fr) (map fst cur) || negb (length cs =? n_nch me)) eqn:Escope;
    [discriminate|].
  apply orb_false_iff in Escope as [_ Ecs]. apply negb_false_iff, Nat.eqb_eq in Ecs.
  set (e := {| o_node := OPos pos; o_payload := p_payload m |}).
  set (q := sget s (i_inst x)).
  pose proof (Hinv (i_inst x) (p_type m)) as Hq. fold q cur in Hq.
  assert (Hent : entry_of ns m (fr, e)) by (exists pos, n; cbn; auto).
  assert (Hw : Forall2 (entry_of ns) (qget q (p_type m) ++ [m]) (cur ++ [(fr, e)])).
  { apply Forall2_app; [exact Hq|]. constructor; [exact Hent|constructor]. }
  pose proof (aggregate_collect me q m (or_intror Hnn) Hfp) as Ha. cbn zeta in Ha.
  assert (Hlen : length (qget q (p_type m) ++ [m]) = length (cur ++ [(fr, e)])).
  { rewrite !app_length. rewrite (Forall2_len _ _ _ Hq). reflexivity. }
  rewrite Hlen, <- Ecs in Ha.
  destruct (length (cur ++ [(fr, e)]) =? length cs) eqn:Efull.
  - (* the round is complete *)
    intros H. injection H as <- <- <-. rewrite <- Hflag in Ha at 1.
    rewrite (step_of_aggregate (fix_f02 f) (fix_f03 f) ns me std_regs q m _ _ Hnn Ha), Ereg.
    destruct (verify_all_entries (fix_f02 f) ns _ _ Hw) as (els & Hva & Hproj).
    unfold dispatch, dispatch_raw. rewrite Hva.
    eexists _, _, _. split; [destruct kd; reflexivity|]. split; [discriminate|]. split.
    + unfold proj_deliv. cbn [map d_type d_agg d_batch]. rewrite Hproj. reflexivity.
    + intros j ty. rewrite sget_sset, rget_rdel. destruct (j =? i_inst x) eqn:Ej; cbn [andb].
      * rewrite qget_qdel. change (w_type (i_wire x)) with (p_type m).
        destruct (ty =? p_type m); [constructor|].
        apply Nat.eqb_eq in Ej. subst j. apply Hinv.
      * apply Hinv.
  - (* still waiting *)
    intros H. injection H as <- <- <-. rewrite <- Hflag in Ha at 1.
    rewrite (step_of_aggregate (fix_f02 f) (fix_f03 f) ns me std_regs q m _ _ Hnn Ha).
    eexists _, _, _. split; [reflexivity|]. split; [discriminate|]. split; [reflexivity|].
    intros j ty. rewrite sget_sset, rget_rset. destruct (j =? i_inst x) eqn:Ej; cbn [andb].
    + rewrite qget_qset. change (w_type (i_wire x)) with (p_type m).
      destruct (ty =? p_type m); [exact Hw|].
      apply Nat.eqb_eq in Ej. subst j. apply Hinv.
    + apply Hinv.
Qed.

Lemma spec_run_model f t insts : forall l s rs exp,
  let ns := nodes t in
  let cfg := {| c_tree := t; c_insts := insts; c_regs := std_regs |} in
  inv ns s rs -> spec_run ns insts rs l = Some exp ->
  project l (run_from f cfg s l) = exp /\
  existsb is_crash (run_from f cfg s l) = false /\
  bad_config (run_from f cfg s l) = false.
Proof.
  induction l as [|x l IH]; intros s rs exp ns cfg Hinv Hs; cbn [spec_run run_from project] in *.
  - injection Hs as <-. auto.
  - destruct (spec_step ns insts rs x) as [[[rs' k] d]|] eqn:Est; [|discriminate].
    destruct (spec_run ns insts rs' l) as [rest|] eqn:Er; [|discriminate].
    injection Hs as <-.
    destruct (spec_step_model f t insts s rs x rs' k d Hinv Est) as (s' & ds & st & Hstep & Hnc & Hproj & Hinv').
    fold cfg in Hstep. rewrite Hstep.
    assert (Ec : is_crash (RStep ds st) = false) by (destruct st; try reflexivity; congruence).
    rewrite Ec. cbn [project deliveries_of existsb bad_config]. rewrite Ec.
    destruct (IH s' rs' rest Hinv' Er) as (IH1 & IH2 & IH3). fold ns cfg in IH1, IH2, IH3.
    unfold bad_config in *. cbn [existsb]. rewrite IH1, IH2, IH3, Hproj.
    split; [destruct d; reflexivity|auto].
Qed.

Theorem model_meets_spec f c exp :
  spec_run (nodes (k_tree c)) (k_insts c) [] (k_msgs c) = Some exp ->
  project (k_msgs c) (run f (config_of c) (k_msgs c)) = exp /\
  crashed (run f (config_of c) (k_msgs c)) = false /\
  bad_config (run f (config_of c) (k_msgs c)) = false.
Proof.
  intros Hs. unfold run, crashed, config_of.
  apply (spec_run_model f (k_tree c) (k_insts c) (k_msgs c) [] [] exp); [|exact Hs].
  intros i ty. cbn. constructor.
Qed.

(* hence: an implementation that agrees with the model on an in-scope scenario
   satisfies the checker's expectation exactly *)
Corollary agree_in_scope c exp :
  spec_run (nodes (k_tree c)) (k_insts c) [] (k_msgs c) = Some exp ->
  agree c = true ->
  list_eqb odeliv_eqb exp (k_obs c) = true /\ k_final c = FAlive.
Proof.
  intros Hs Ha. destruct (model_meets_spec code_variant c exp Hs) as (Hp & Hc & Hb).
  unfold agree, agree_obs in Ha. fold (config_of c) in Ha.
  rewrite Hp, Hc, Hb in Ha. cbn [negb andb] in Ha.
  apply andb_true_iff in Ha as [Ha1 Ha2]. split; [exact Ha1|].
  destruct (k_final c); cbn in Ha2; congruence.
Qed.

(* ========================================================================
   WHAT THE PINNED CODE DOES OUTSIDE THE HYPOTHESES, JUDGED BY THE TEXT.
   Three witnesses; in each the observation is the model's own run (so [agree]
   holds by construction) and the property checker, reading the text literally,
   reports a clause.  They are recorded as known findings of C04.
   ======================================================================== *)

Definition wit_tree : tree := T 0 0 [T 1 1 []; T 2 2 []; T 3 3 [T 4 4 []]].
Definition wit_msg (key from pl : nat) : inj := I 0 (PKey key) None (Some from) false None 2 pl.
Definition wit_case (t : tree) (l : list inj) : case :=
  C t [0] l (project l (run code_variant {| c_tree := t; c_insts := [0]; c_regs := std_regs |} l)) FAlive.
Definition two_children : tree := T 0 0 [T 1 1 []; T 2 2 []].

(* (i) rounds mix: child 1 sends its second message before child 2 has sent its
   first; completion by count delivers [11; 12] -- two messages of child 1,
   none of child 2 -- although the first batch due is {11, 21} *)
Theorem rounds_mix_refuted :
  let c := wit_case two_children [wit_msg 1 1 11; wit_msg 1 1 12; wit_msg 2 2 21; wit_msg 2 2 22] in
  agree c = true /\ in_scope c = false /\ check c = [4] /\
  k_obs c = [D 0 2 true [E (OPos 1) 11; E (OPos 1) 12]; D 0 2 true [E (OPos 2) 21; E (OPos 2) 22]].
Proof. vm_compute. repeat split. Qed.

(* (ii) a member that is not a child takes a child's place: node 4 (a grandchild)
   sends the type; the batch [11; 41] leaves before children 2 and 3 have answered *)
Theorem nonchild_refuted :
  let c := wit_case wit_tree [wit_msg 1 1 11; wit_msg 4 4 41; wit_msg 2 2 21; wit_msg 3 3 31] in
  agree c = true /\ in_scope c = false /\ check c = [4] /\
  k_obs c = [D 0 2 true [E (OPos 1) 11; E (OPos 4) 41; E (OPos 2) 21]].
Proof. vm_compute. repeat split. Qed.

(* (iii) a poisoned batch is dropped whole: server 2 sends a message claiming to
   be child 1; it is counted, the batch [spoof; 21] fails the sender check and is
   thrown away (C02 is respected), and the genuine message of child 1 then waits
   for ever: every child has sent one message and the handler received nothing *)
Theorem poisoned_refuted :
  let c := wit_case two_children [wit_msg 2 1 11; wit_msg 2 2 21; wit_msg 1 1 12] in
  agree c = true /\ in_scope c = false /\ check c = [1] /\ k_obs c = [].
Proof. vm_compute. repeat split. Qed.

(* the literal reading accepts a node that keeps the rounds apart although the
   children pipeline them (so the clause is not unsatisfiable) *)
Example text_reading_satisfiable :
  check (C two_children [0] [wit_msg 1 1 11; wit_msg 1 1 12; wit_msg 2 2 21; wit_msg 2 2 22]
           [D 0 2 true [E (OPos 1) 11; E (OPos 2) 21]; D 0 2 true [E (OPos 2) 22; E (OPos 1) 12]] FAlive) = [].
Proof. vm_compute. reflexivity. Qed.
