From Coq Require Import List Arith Bool Lia ZArith ZifyBool ZifyNat.
Import ListNotations.
From Onet Require Import Node.SendApi.
Ltac Zify.zify_post_hook ::= Z.div_mod_to_equations.

Lemma NoDup_filter : forall (A : Type) (f : A -> bool) (l : list A), NoDup l -> NoDup (filter f l).
Proof.
  intros A f l H; induction H as [|x l Hx Hl IH]; cbn [filter]; [constructor|].
  destruct (f x); [constructor; [|exact IH]|exact IH].
  intro Hin; apply filter_In in Hin; destruct Hin as [Hin _]; exact (Hx Hin).
Qed.

(* Broadcast reaches every node of the tree except the caller, each exactly once *)
Lemma broadcast_spec : forall N n me k,
  In k (dests N n me HBroadcast) <-> k < n /\ k <> me.
Proof.
  intros N n me k; cbn [dests]; rewrite filter_In, in_seq.
  destruct (Nat.eqb_spec k me) as [E|E]; cbn [negb]; split; intros H.
  - destruct H as [_ H]; discriminate.
  - destruct H as [_ H]; contradiction.
  - destruct H as [H _]; split; [lia|exact E].
  - destruct H as [H _]; split; [lia|reflexivity].
Qed.

Lemma broadcast_nodup : forall N n me, NoDup (dests N n me HBroadcast).
Proof. intros; cbn [dests]; apply NoDup_filter, seq_NoDup. Qed.

Lemma filter_all_id : forall (A : Type) (f : A -> bool) (l : list A),
  (forall x, In x l -> f x = true) -> filter f l = l.
Proof.
  intros A f l; induction l as [|x l IH]; intros H; cbn [filter]; [reflexivity|].
  rewrite (H x (or_introl eq_refl)), IH; [reflexivity|]. intros y Hy; apply H; right; exact Hy.
Qed.

Lemma filter_neq_length : forall me a len, a <= me < a + len ->
  length (filter (fun k => negb (k =? me)) (seq a len)) = len - 1.
Proof.
  intros me a len; revert a; induction len as [|len IH]; intros a H; [lia|].
  cbn [seq filter]. destruct (Nat.eqb_spec a me) as [E|E]; cbn [negb].
  - subst a. replace (filter (fun k => negb (k =? me)) (seq (S me) len)) with (seq (S me) len).
    + rewrite seq_length; lia.
    + symmetry; apply filter_all_id. intros x Hx; apply in_seq in Hx.
      destruct (Nat.eqb_spec x me); [lia|reflexivity].
  - cbn [length]. rewrite IH by lia. lia.
Qed.

Lemma broadcast_length : forall N n me, me < n -> length (dests N n me HBroadcast) = n - 1.
Proof. intros N n me H; cbn [dests]; apply filter_neq_length; lia. Qed.

(* SendToChildren reaches exactly the nodes whose parent the caller is *)
Lemma children_spec : forall N n k c, 1 <= N ->
  In c (children_of N n k) <-> c < n /\ parent_of N c = Some k.
Proof.
  intros N n k c HN; unfold children_of, parent_of; rewrite filter_In, in_seq.
  destruct (Nat.eqb_spec c 0) as [E|E].
  - subst c; split; intros H; [lia|destruct H as [_ H]; discriminate].
  - destruct (Nat.ltb_spec c n) as [L|L]; split; intros H.
    + destruct H as [H _]; split; [exact L|]. f_equal.
      symmetry; apply Nat.div_unique with (r := c - 1 - N * k); lia.
    + destruct H as [_ H]; injection H as H. split; [|reflexivity].
      pose proof (Nat.div_mod (c - 1) N ltac:(lia)) as D.
      pose proof (Nat.mod_upper_bound (c - 1) N ltac:(lia)) as U.
      rewrite H in D. lia.
    + destruct H as [_ H]; discriminate.
    + lia.
Qed.

(* SendToParent reaches the parent, and nobody when the caller is the root *)
Lemma parent_spec : forall N n me,
  dests N n me HParent = match parent_of N me with Some p => [p] | None => [] end.
Proof. reflexivity. Qed.

Lemma parent_root : forall N n, dests N n 0 HParent = [].
Proof. reflexivity. Qed.

Example dests_example :
  dests 2 5 1 HBroadcast = [0; 2; 3; 4] /\ dests 2 5 1 HChildren = [3; 4] /\
  dests 2 5 1 HParent = [0] /\ dests 2 5 2 HChildren = [] /\ dests 2 5 0 HParent = [].
Proof. vm_compute. repeat split. Qed.
