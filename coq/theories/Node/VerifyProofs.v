(* PROOFS for C02 over the model Node/Instance.v: whatever reaches a handler or
   a channel names a node of the instance's tree whose server is the envelope's
   peer; invalid senders are never delivered; placeholders and crashes exist in
   the pinned variant (F02, F03) and are impossible in the repaired one. *)
From Coq Require Import List Arith Bool Lia.
Import ListNotations.
From Onet Require Import Node.Instance.

(* ------------------------------------------------------------- search -- *)

Lemma search_aux_spec l : forall id pos acc p x,
  search_aux l id pos acc = Some (p, x) ->
  acc = Some (p, x) \/ (pos <= p /\ nth_error l (p - pos) = Some x /\ n_id x = id).
Proof.
  induction l as [|y r IH]; intros id pos acc p x H; cbn [search_aux] in H.
  - now left.
  - apply IH in H as [H|(Hle & Hn & Hid)].
    + destruct (n_id y =? id) eqn:E.
      * injection H as <- <-. right. rewrite Nat.sub_diag. cbn. apply Nat.eqb_eq in E. auto.
      * now left.
    + right. split; [lia|]. split; [|exact Hid].
      replace (p - pos) with (S (p - S pos)) by lia. exact Hn.
Qed.

Lemma search_sound l id p x :
  search l id = Some (p, x) -> nth_error l p = Some x /\ n_id x = id.
Proof.
  unfold search. intros H. apply search_aux_spec in H as [H|(_ & Hn & Hid)]; [discriminate|].
  rewrite Nat.sub_0_r in Hn. auto.
Qed.

Lemma search_aux_none l : forall id pos acc,
  search_aux l id pos acc = None <-> acc = None /\ forall x, In x l -> n_id x <> id.
Proof.
  induction l as [|y r IH]; intros id pos acc; cbn [search_aux].
  - split; [intros ->; split; [reflexivity|intros x []]|intros [H _]; exact H].
  - rewrite IH. destruct (n_id y =? id) eqn:E.
    + split; [intros [H _]; discriminate|]. intros [_ H]. exfalso.
      apply (H y (or_introl eq_refl)). now apply Nat.eqb_eq.
    + apply Nat.eqb_neq in E. split.
      * intros [-> H]. split; [reflexivity|]. intros x [<-|Hx]; auto.
      * intros [-> H]. split; [reflexivity|]. intros x Hx. apply H. now right.
Qed.

Lemma search_none l id :
  search l id = None <-> forall x, In x l -> n_id x <> id.
Proof.
  unfold search. rewrite search_aux_none. split; [intros [_ H]; exact H|auto].
Qed.

Lemma search_complete l id x :
  In x l -> n_id x = id -> exists p y, search l id = Some (p, y).
Proof.
  intros Hin Hid. destruct (search l id) as [[p y]|] eqn:E; [eauto|].
  rewrite search_none in E. exfalso. exact (E x Hin Hid).
Qed.

(* Tree.Search returns the LAST node of the visit carrying the id *)
Lemma search_aux_last l : forall id pos acc p x,
  search_aux l id pos acc = Some (p, x) ->
  forall k y, nth_error l k = Some y -> n_id y = id -> pos + k <= p.
Proof.
  induction l as [|z r IH]; intros id pos acc p x H k y Hk Hy.
  - destruct k; discriminate.
  - cbn [search_aux] in H. destruct k as [|k].
    + cbn in Hk. injection Hk as ->. rewrite <- Nat.eqb_eq in Hy. rewrite Hy in H.
      apply search_aux_spec in H as [H|(Hle & _)]; [injection H as <- _|]; lia.
    + cbn in Hk. specialize (IH _ _ _ _ _ H k y Hk Hy). lia.
Qed.

Lemma search_last l id p x k y :
  search l id = Some (p, x) -> nth_error l k = Some y -> n_id y = id -> k <= p.
Proof. intros H Hk Hy. exact (search_aux_last _ _ _ _ _ _ H _ _ Hk Hy). Qed.

Lemma search_spec l id p x :
  search l id = Some (p, x) ->
  nth_error l p = Some x /\ n_id x = id /\
  forall k y, nth_error l k = Some y -> n_id y = id -> k <= p.
Proof.
  intros H. destruct (search_sound l id p x H) as [H1 H2]. split; [exact H1|]. split; [exact H2|].
  intros k y. apply (search_last l id p x k y H).
Qed.

(* ------------------------------------------------------------- verify -- *)

(* the condition the property asks of a delivered (node, message) pair *)
Definition authentic (ns : list ninfo) (pos : nat) (m : pmsg) : Prop :=
  exists x, nth_error ns pos = Some x /\ p_from m = Some (n_id x) /\
            (p_peer m = PNone \/ p_peer m = PKey (n_srv x)).

Lemma verify_msg f ns m pos m' :
  verify f ns m = VOk (EMsg pos m') -> m' = m /\ authentic ns pos m.
Proof.
  unfold verify, authentic. destruct (p_from m) as [id|] eqn:Ef; [|discriminate].
  destruct (search ns id) as [[p x]|] eqn:Es; [|destruct f; discriminate].
  apply search_sound in Es as [Hn Hid]. subst id.
  destruct (p_peer m) as [| |k] eqn:Ep; try discriminate.
  - intros H. injection H as <- <-. split; [reflexivity|]. exists x. auto.
  - destruct (k =? n_srv x) eqn:Ek; [|discriminate]. apply Nat.eqb_eq in Ek. subst k.
    intros H. injection H as <- <-. split; [reflexivity|]. exists x. auto.
Qed.

Lemma verify_zero f ns m :
  verify f ns m = VOk EZero ->
  f = false /\ exists id, p_from m = Some id /\ forall x, In x ns -> n_id x <> id.
Proof.
  unfold verify. destruct (p_from m) as [id|]; [|discriminate].
  destruct (search ns id) as [[p x]|] eqn:Es.
  - destruct (p_peer m) as [| |k]; try discriminate. destruct (k =? n_srv x); discriminate.
  - destruct f; [discriminate|]. intros _. split; [reflexivity|]. exists id. split; [reflexivity|].
    now apply search_none.
Qed.

Lemma verify_panic f ns m : verify f ns m = VPanic <-> p_from m = None.
Proof.
  unfold verify. destruct (p_from m) as [id|]; [|tauto].
  split; [|discriminate].
  destruct (search ns id) as [[p x]|]; [|destruct f; discriminate].
  destruct (p_peer m) as [| |k]; try discriminate. destruct (k =? n_srv x); discriminate.
Qed.

(* a valid sender is accepted, and as itself *)
Lemma verify_valid f ns m id pos x :
  p_from m = Some id -> search ns id = Some (pos, x) ->
  (p_peer m = PNone \/ p_peer m = PKey (n_srv x)) ->
  verify f ns m = VOk (EMsg pos m).
Proof.
  intros Hf Hs Hp. unfold verify. rewrite Hf, Hs. destruct Hp as [-> | ->]; [reflexivity|].
  now rewrite Nat.eqb_refl.
Qed.

(* ------------------------------------------------- queues as finite maps -- *)

Lemma qget_qdel q ty ty' : qget (qdel q ty) ty' = if ty' =? ty then [] else qget q ty'.
Proof.
  induction q as [|[t l] r IH]; cbn [qdel qget].
  - now destruct (ty' =? ty).
  - destruct (t =? ty) eqn:E1.
    + rewrite IH. apply Nat.eqb_eq in E1. subst t.
      destruct (ty' =? ty) eqn:E2; [reflexivity|]. rewrite Nat.eqb_sym, E2. reflexivity.
    + cbn [qget]. rewrite IH. destruct (t =? ty') eqn:E3; [|reflexivity].
      apply Nat.eqb_eq in E3. subst t. rewrite E1. reflexivity.
Qed.

Lemma qget_qset q ty l ty' : qget (qset q ty l) ty' = if ty' =? ty then l else qget q ty'.
Proof.
  unfold qset. cbn [qget]. rewrite qget_qdel, (Nat.eqb_sym ty ty').
  now destruct (ty' =? ty).
Qed.

Lemma sget_sdel s i j : sget (sdel s i) j = if j =? i then [] else sget s j.
Proof.
  induction s as [|[t l] r IH]; cbn [sdel sget].
  - now destruct (j =? i).
  - destruct (t =? i) eqn:E1.
    + rewrite IH. apply Nat.eqb_eq in E1. subst t.
      destruct (j =? i) eqn:E2; [reflexivity|]. rewrite Nat.eqb_sym, E2. reflexivity.
    + cbn [sget]. rewrite IH. destruct (t =? j) eqn:E3; [|reflexivity].
      apply Nat.eqb_eq in E3. subst t. rewrite E1. reflexivity.
Qed.

Lemma sget_sset s i q j : sget (sset s i q) j = if j =? i then q else sget s j.
Proof.
  unfold sset. cbn [sget]. rewrite sget_sdel, (Nat.eqb_sym i j).
  now destruct (j =? i).
Qed.

(* every message waiting in a queue / in any instance's queue satisfies P *)
Definition qall (P : pmsg -> Prop) (q : queue) : Prop := forall ty m, In m (qget q ty) -> P m.
Definition sall (P : pmsg -> Prop) (s : qstate) : Prop := forall i, qall P (sget s i).

Lemma qall_nil P : qall P []. Proof. intros ty m []. Qed.
Lemma sall_nil P : sall P []. Proof. intros i. apply qall_nil. Qed.

Lemma aggregate_inv P me agg q m q' r :
  qall P q -> P m -> aggregate me agg q m = (q', r) ->
  qall P q' /\ (forall l, r = ABatch l -> Forall P l).
Proof.
  intros Hq Hm. unfold aggregate.
  destruct (n_par me) as [pid|] eqn:Epar; destruct (p_from m) as [f|] eqn:Ef.
  all: try (intros H; injection H as <- <-; split; [exact Hq|intros l; discriminate]).
  all: match goal with |- context [if ?c then _ else _] => destruct c end;
       try (intros H; injection H as <- <-; split; [exact Hq|];
            intros l H; injection H as <-; constructor; [exact Hm|constructor]).
  all: match goal with |- context [if ?c then _ else _] => destruct c end;
       intros H; injection H as <- <-.
  all: try (split; [|intros l; discriminate]; intros ty x; rewrite qget_qset;
            destruct (ty =? p_type m); [|apply Hq];
            intros Hx; apply in_app_or in Hx as [Hx|[<-|[]]]; [eapply Hq; exact Hx|exact Hm]).
  all: split; [intros ty x; rewrite qget_qdel; destruct (ty =? p_type m); [intros []|apply Hq]|].
  all: intros l H; injection H as <-; apply Forall_forall; intros x Hx;
       apply in_app_or in Hx as [Hx|[<-|[]]]; [eapply Hq; exact Hx|exact Hm].
Qed.

(* ------------------------------------------------- one dispatched batch -- *)

(* facts about one element a handler / channel receives *)
Definition elem_ok (P : pmsg -> Prop) (ns : list ninfo) (e : elem) : Prop :=
  match e with
  | EMsg pos m => P m /\ authentic ns pos m
  | EZero => True
  end.

Lemma verify_all_ok P f ns l es st :
  Forall P l -> verify_all f ns l = (es, st) -> Forall (elem_ok P ns) es.
Proof.
  revert es st. induction l as [|m r IH]; intros es st HP; cbn [verify_all].
  - intros H. injection H as <- _. constructor.
  - inversion HP as [|? ? Hm Hr]; subst. destruct (verify f ns m) as [e| |] eqn:Ev.
    + destruct (verify_all f ns r) as [es' st'] eqn:Er. intros H. injection H as <- <-.
      constructor; [|eapply IH; eauto]. destruct e as [pos m'|]; [|exact I].
      apply verify_msg in Ev as [-> Ha]. split; assumption.
    + intros H. injection H as <- _. constructor.
    + intros H. injection H as <- _. constructor.
Qed.

Definition deliv_ok (P : pmsg -> Prop) (ns : list ninfo) (d : delivery) : Prop :=
  Forall (elem_ok P ns) (d_batch d).

Lemma deliver_each_ok P f ns ty k l ds st :
  Forall P l -> deliver_each f ns ty k l = (ds, st) -> Forall (deliv_ok P ns) ds.
Proof.
  revert ds st. induction l as [|m r IH]; intros ds st HP; cbn [deliver_each].
  - intros H. injection H as <- _. constructor.
  - inversion HP as [|? ? Hm Hr]; subst. destruct (verify f ns m) as [e| |] eqn:Ev.
    + destruct (deliver_each f ns ty k r) as [ds' st'] eqn:Er. intros H. injection H as <- <-.
      constructor; [|eapply IH; eauto]. unfold deliv_ok. cbn. constructor; [|constructor].
      destruct e as [pos m'|]; [|exact I]. apply verify_msg in Ev as [-> Ha]. split; assumption.
    + intros H. injection H as <- _. constructor.
    + intros H. injection H as <- _. constructor.
Qed.

Lemma dispatch_raw_ok P f ns ty k agg l ds st :
  Forall P l -> dispatch_raw f ns ty k agg l = (ds, st) -> Forall (deliv_ok P ns) ds.
Proof.
  intros HP. unfold dispatch_raw. destruct agg.
  - destruct (verify_all f ns l) as [es st1] eqn:Ev.
    pose proof (verify_all_ok P f ns l es st1 HP Ev) as Hes.
    destruct st1; intros H; injection H as <- _; try constructor; [exact Hes|constructor].
  - apply deliver_each_ok; assumption.
Qed.

Lemma dispatch_ok P f ns ty k agg l ds st :
  Forall P l -> dispatch f ns ty k agg l = (ds, st) -> Forall (deliv_ok P ns) ds.
Proof.
  intros HP. unfold dispatch. destruct (dispatch_raw f ns ty k agg l) as [ds0 st0] eqn:E.
  pose proof (dispatch_raw_ok P f ns ty k agg l ds0 st0 HP E) as H0.
  destruct k; destruct st0; intros H; injection H as <- _; exact H0.
Qed.

Lemma step_core_ok P f ns me r q m q' ds st :
  qall P q -> P m -> step_core f ns me r q m = (q', (ds, st)) ->
  qall P q' /\ Forall (deliv_ok P ns) ds.
Proof.
  intros Hq Hm. unfold step_core.
  destruct (aggregate me (agg_flag r (p_type m)) q m) as [q1 a] eqn:Ea.
  destruct (aggregate_inv P _ _ _ _ _ _ Hq Hm Ea) as [Hq1 Hb].
  destruct a as [l| |].
  - destruct (lookup r (p_type m)) as [[k agg]|].
    + intros H. injection H as <- H. split; [exact Hq1|]. eapply dispatch_ok; [apply Hb; reflexivity|exact H].
    + intros H. injection H as <- <- _. split; [exact Hq1|constructor].
  - intros H. injection H as <- <- _. split; [exact Hq1|constructor].
  - intros H. injection H as <- <- _. split; [exact Hq1|constructor].
Qed.

(* ------------------------------------------------------------ histories -- *)

Lemma step_ok P f2 f3 ns me r q m q' ds st :
  qall P q -> P m -> step f2 f3 ns me r q m = (q', (ds, st)) ->
  qall P q' /\ Forall (deliv_ok P ns) ds.
Proof.
  intros Hq Hm. unfold step. destruct (f3 && is_none (p_from m)).
  - intros H. injection H as <- <- _. split; [exact Hq|constructor].
  - apply step_core_ok; assumption.
Qed.

Lemma sall_sset P s i q : sall P s -> qall P q -> sall P (sset s i q).
Proof. intros Hs Hq j. rewrite sget_sset. destruct (j =? i); [exact Hq|apply Hs]. Qed.

Lemma step_inj_ok P f c s x s' res :
  sall P s ->
  P (process (i_env x) (i_wire x)) ->
  step_inj f c s x = (s', res) ->
  sall P s' /\ Forall (deliv_ok P (nodes (c_tree c))) (deliveries_of res).
Proof.
  intros Hs Hp. unfold step_inj.
  destruct (nth_error (c_insts c) (i_inst x)) as [toid|];
    [|intros H; injection H as <- <-; split; [exact Hs|constructor]].
  destruct (search (nodes (c_tree c)) toid) as [[mepos me]|];
    [|intros H; injection H as <- <-; split; [exact Hs|constructor]].
  destruct (step (fix_f02 f) (fix_f03 f) (nodes (c_tree c)) me (c_regs c) (sget s (i_inst x))
              (process (i_env x) (i_wire x))) as [q' [ds st]] eqn:Est.
  intros H. injection H as <- <-.
  destruct (step_ok P _ _ _ _ _ _ _ _ _ _ (Hs (i_inst x)) Hp Est) as [Hq' Hds].
  split; [apply sall_sset; assumption|exact Hds].
Qed.

Lemma run_from_ok P f c : forall l s,
  sall P s ->
  (forall x, In x l -> P (process (i_env x) (i_wire x))) ->
  Forall (deliv_ok P (nodes (c_tree c))) (all_deliveries (run_from f c s l)).
Proof.
  induction l as [|x r IH]; intros s Hs Hp; cbn [run_from].
  - constructor.
  - destruct (step_inj f c s x) as [s' res] eqn:Est.
    destruct (step_inj_ok P f c s x s' res Hs (Hp x (or_introl eq_refl)) Est) as [Hs' Hd].
    destruct (is_crash res).
    + unfold all_deliveries. cbn [flat_map]. rewrite app_nil_r. exact Hd.
    + unfold all_deliveries. cbn [flat_map]. apply Forall_app. split; [exact Hd|].
      apply IH; [exact Hs'|]. intros y Hy. apply Hp. now right.
Qed.

(* where a message came from: one of the injected ones, carrying the peer
   identity of ITS envelope and the sender token of ITS wire content *)
Definition origin (l : list inj) (m : pmsg) : Prop :=
  exists x, In x l /\ p_from m = w_from (i_wire x) /\ p_peer m = i_env x /\
            p_type m = w_type (i_wire x) /\ p_payload m = w_payload (i_wire x).

Lemma process_origin l x : In x l -> origin l (process (i_env x) (i_wire x)).
Proof. intros Hx. exists x. cbn. auto. Qed.

(* C02, first sentence, for every history, every tree, every registration and
   BOTH variants of the code *)
Theorem authentic_delivery f c l d pos m :
  In d (all_deliveries (run f c l)) -> In (EMsg pos m) (d_batch d) ->
  authentic (nodes (c_tree c)) pos m /\ origin l m.
Proof.
  intros Hd He.
  pose proof (run_from_ok (origin l) f c l [] (sall_nil _) (process_origin l)) as H.
  rewrite Forall_forall in H. specialize (H d Hd). unfold deliv_ok in H.
  rewrite Forall_forall in H. specialize (H _ He). cbn in H. tauto.
Qed.

(* the same, spelled out against the injected message: the node handed to the
   handler is a node of the tree, it is the node the message names, and it is
   hosted by the peer of the connection the message arrived on (or the message
   was injected inside the process, without any connection) *)
Corollary authentic_delivery_spelled f c l d pos m :
  In d (all_deliveries (run f c l)) -> In (EMsg pos m) (d_batch d) ->
  exists x n, In x l /\ nth_error (nodes (c_tree c)) pos = Some n /\
    w_from (i_wire x) = Some (n_id n) /\
    (i_env x = PNone \/ i_env x = PKey (n_srv n)) /\
    p_payload m = w_payload (i_wire x) /\ p_type m = w_type (i_wire x).
Proof.
  intros Hd He. destruct (authentic_delivery f c l d pos m Hd He) as [(n & Hn & Hf & Hp) (x & Hx & Ef & Ep & Et & Epl)].
  exists x, n. rewrite <- Ef, <- Ep. auto 10.
Qed.

(* C02, second sentence: an injected message whose claimed sender is absent, is
   not a node of the tree, or is hosted by another server than the envelope's
   peer (or whose envelope identity has no key) is never delivered in whole *)
Definition invalid_sender (ns : list ninfo) (from : option nat) (env : peer) : Prop :=
  match from with
  | None => True
  | Some id =>
      (forall n, In n ns -> n_id n <> id) \/
      match env with
      | PNone => False
      | PNoKey => True
      | PKey k => forall n, In n ns -> n_id n = id -> n_srv n <> k
      end
  end.

Theorem invalid_never_delivered f c l d pos m :
  In d (all_deliveries (run f c l)) -> In (EMsg pos m) (d_batch d) ->
  ~ invalid_sender (nodes (c_tree c)) (p_from m) (p_peer m).
Proof.
  intros Hd He Hinv.
  destruct (authentic_delivery f c l d pos m Hd He) as [(n & Hn & Hf & Hp) _].
  apply nth_error_In in Hn. rewrite Hf in Hinv. cbn in Hinv.
  destruct Hinv as [H|H]; [exact (H n Hn eq_refl)|].
  destruct Hp as [Hp|Hp]; rewrite Hp in H; [exact H|]. exact (H n Hn eq_refl eq_refl).
Qed.

(* ------------------------------------------- placeholders and crashes -- *)

Definition no_zero (d : delivery) : Prop := ~ In EZero (d_batch d).

Lemma verify_all_nozero f ns l es st :
  (f = true \/ Forall (fun m => forall id, p_from m = Some id -> exists n, In n ns /\ n_id n = id) l) ->
  verify_all f ns l = (es, st) -> ~ In EZero es.
Proof.
  revert es st. induction l as [|m r IH]; intros es st Hc; cbn [verify_all].
  - intros H. injection H as <- _. intros [].
  - destruct (verify f ns m) as [e| |] eqn:Ev.
    + destruct (verify_all f ns r) as [es' st'] eqn:Er. intros H. injection H as <- <-.
      intros [->|Hin].
      * apply verify_zero in Ev as (Hf & id & Hfrom & Hno).
        destruct Hc as [Hc|Hc]; [congruence|]. inversion Hc as [|? ? Hm _]; subst.
        destruct (Hm id Hfrom) as (n & Hn & Hid). exact (Hno n Hn Hid).
      * eapply IH; [|reflexivity|exact Hin]. destruct Hc as [Hc|Hc]; [now left|right].
        now inversion Hc.
    + intros H. injection H as <- _. intros [].
    + intros H. injection H as <- _. intros [].
Qed.

Definition known_sender (ns : list ninfo) (m : pmsg) : Prop :=
  forall id, p_from m = Some id -> exists n, In n ns /\ n_id n = id.

Lemma deliver_each_nozero f ns ty k l ds st :
  (f = true \/ Forall (known_sender ns) l) ->
  deliver_each f ns ty k l = (ds, st) -> Forall no_zero ds.
Proof.
  revert ds st. induction l as [|m r IH]; intros ds st Hc; cbn [deliver_each].
  - intros H. injection H as <- _. constructor.
  - destruct (verify f ns m) as [e| |] eqn:Ev.
    + destruct (deliver_each f ns ty k r) as [ds' st'] eqn:Er. intros H. injection H as <- <-.
      constructor.
      * unfold no_zero. cbn. intros [->|[]].
        apply verify_zero in Ev as (Hf & id & Hfrom & Hno).
        destruct Hc as [Hc|Hc]; [congruence|]. inversion Hc as [|? ? Hm _]; subst.
        destruct (Hm id Hfrom) as (n & Hn & Hid). exact (Hno n Hn Hid).
      * eapply IH; [|reflexivity]. destruct Hc as [Hc|Hc]; [now left|right]. now inversion Hc.
    + intros H. injection H as <- _. constructor.
    + intros H. injection H as <- _. constructor.
Qed.

Lemma dispatch_raw_nozero f ns ty k agg l ds st :
  (f = true \/ Forall (known_sender ns) l) ->
  dispatch_raw f ns ty k agg l = (ds, st) -> Forall no_zero ds.
Proof.
  intros Hc. unfold dispatch_raw. destruct agg.
  - destruct (verify_all f ns l) as [es st1] eqn:Ev.
    pose proof (verify_all_nozero f ns l es st1 Hc Ev) as Hes.
    destruct st1; intros H; injection H as <- _; try constructor; [exact Hes|constructor].
  - apply deliver_each_nozero; assumption.
Qed.

Lemma dispatch_nozero f ns ty k agg l ds st :
  (f = true \/ Forall (known_sender ns) l) ->
  dispatch f ns ty k agg l = (ds, st) -> Forall no_zero ds.
Proof.
  intros Hc. unfold dispatch. destruct (dispatch_raw f ns ty k agg l) as [ds0 st0] eqn:E.
  pose proof (dispatch_raw_nozero f ns ty k agg l ds0 st0 Hc E) as H0.
  destruct k; destruct st0; intros H; injection H as <- _; exact H0.
Qed.

(* no placeholder: in the repaired variant always; in the pinned variant as long
   as every injected message names a node of the tree (or nothing at all) *)
Theorem no_placeholder f c l :
  (fix_f02 f = true \/
   forall x, In x l -> forall id, w_from (i_wire x) = Some id ->
     exists n, In n (nodes (c_tree c)) /\ n_id n = id) ->
  Forall no_zero (all_deliveries (run f c l)).
Proof.
  intros Hc. set (ns := nodes (c_tree c)).
  set (P := fun m : pmsg => fix_f02 f = true \/ known_sender ns m).
  assert (Hstep : forall me r q m q' ds st, qall P q -> P m ->
            step (fix_f02 f) (fix_f03 f) ns me r q m = (q', (ds, st)) -> qall P q' /\ Forall no_zero ds).
  { intros me r q m q' ds st Hq Hm. unfold step. destruct (fix_f03 f && is_none (p_from m)).
    { intros H. injection H as <- <- _. split; [exact Hq|constructor]. }
    unfold step_core.
    destruct (aggregate me (agg_flag r (p_type m)) q m) as [q1 a] eqn:Ea.
    destruct (aggregate_inv P _ _ _ _ _ _ Hq Hm Ea) as [Hq1 Hb].
    destruct a as [b| |].
    - destruct (lookup r (p_type m)) as [[k agg]|].
      + intros H. injection H as <- H. split; [exact Hq1|].
        eapply dispatch_nozero; [|exact H]. specialize (Hb b eq_refl).
        destruct (fix_f02 f) eqn:Ef; [now left|right].
        eapply Forall_impl; [|exact Hb]. intros y [Hy|Hy]; [discriminate|exact Hy].
      + intros H. injection H as <- <- _. split; [exact Hq1|constructor].
    - intros H. injection H as <- <- _. split; [exact Hq1|constructor].
    - intros H. injection H as <- <- _. split; [exact Hq1|constructor]. }
  assert (Hrun : forall l0 s, (forall x, In x l0 -> In x l) -> sall P s ->
            Forall no_zero (all_deliveries (run_from f c s l0))).
  { induction l0 as [|x r IH]; intros s Hsub Hs; cbn [run_from]; [constructor|].
    destruct (step_inj f c s x) as [s' res] eqn:Est.
    assert (Hres : sall P s' /\ Forall no_zero (deliveries_of res)).
    { revert Est. unfold step_inj.
      destruct (nth_error (c_insts c) (i_inst x)) as [toid|];
        [|intros H; injection H as <- <-; split; [exact Hs|constructor]].
      fold ns. destruct (search ns toid) as [[mepos me]|];
        [|intros H; injection H as <- <-; split; [exact Hs|constructor]].
      destruct (step (fix_f02 f) (fix_f03 f) ns me (c_regs c) (sget s (i_inst x))
                  (process (i_env x) (i_wire x))) as [q' [ds st]] eqn:Es.
      intros H. injection H as <- <-.
      assert (Pm : P (process (i_env x) (i_wire x))).
      { unfold P. destruct Hc as [Hc|Hc]; [now left|right]. intros id Hid.
        cbn in Hid. exact (Hc x (Hsub x (or_introl eq_refl)) id Hid). }
      destruct (Hstep _ _ _ _ _ _ _ (Hs (i_inst x)) Pm Es) as [Hq' Hds].
      split; [apply sall_sset; assumption|exact Hds]. }
    destruct Hres as [Hs' Hd]. destruct (is_crash res).
    - unfold all_deliveries. cbn [flat_map]. rewrite app_nil_r. exact Hd.
    - unfold all_deliveries. cbn [flat_map]. apply Forall_app. split; [exact Hd|].
      apply IH; [|exact Hs']. intros y Hy. apply Hsub. now right. }
  apply Hrun; [auto|apply sall_nil].
Qed.

(* no crash: in the repaired variant always; in the pinned variant as long as
   every injected message carries a sender token *)
Lemma verify_all_nocrash f ns l es st :
  Forall (fun m => p_from m <> None) l -> verify_all f ns l = (es, st) -> st <> SCrash.
Proof.
  revert es st. induction l as [|m r IH]; intros es st HP; cbn [verify_all].
  - intros H. injection H as _ <-. discriminate.
  - inversion HP as [|? ? Hm Hr]; subst. destruct (verify f ns m) as [e| |] eqn:Ev.
    + destruct (verify_all f ns r) as [es' st'] eqn:Er. intros H. injection H as _ <-. eapply IH; eauto.
    + intros H. injection H as _ <-. discriminate.
    + apply verify_panic in Ev. contradiction.
Qed.

Lemma deliver_each_nocrash f ns ty k l ds st :
  Forall (fun m => p_from m <> None) l -> deliver_each f ns ty k l = (ds, st) -> st <> SCrash.
Proof.
  revert ds st. induction l as [|m r IH]; intros ds st HP; cbn [deliver_each].
  - intros H. injection H as _ <-. discriminate.
  - inversion HP as [|? ? Hm Hr]; subst. destruct (verify f ns m) as [e| |] eqn:Ev.
    + destruct (deliver_each f ns ty k r) as [ds' st'] eqn:Er. intros H. injection H as _ <-. eapply IH; eauto.
    + intros H. injection H as _ <-. discriminate.
    + apply verify_panic in Ev. contradiction.
Qed.

Lemma verify_all_status f ns l es st :
  verify_all f ns l = (es, st) -> st = SOk \/ st = SErr \/ st = SCrash.
Proof.
  revert es st. induction l as [|m r IH]; intros es st; cbn [verify_all].
  - intros H. injection H as _ <-. auto.
  - destruct (verify f ns m).
    + destruct (verify_all f ns r) as [es' st'] eqn:Er. intros H. injection H as _ <-. eapply IH; eauto.
    + intros H. injection H as _ <-. auto.
    + intros H. injection H as _ <-. auto.
Qed.

Lemma deliver_each_status f ns ty k l ds st :
  deliver_each f ns ty k l = (ds, st) -> st = SOk \/ st = SErr \/ st = SCrash.
Proof.
  revert ds st. induction l as [|m r IH]; intros ds st; cbn [deliver_each].
  - intros H. injection H as _ <-. auto.
  - destruct (verify f ns m).
    + destruct (deliver_each f ns ty k r) as [ds' st'] eqn:Er. intros H. injection H as _ <-. eapply IH; eauto.
    + intros H. injection H as _ <-. auto.
    + intros H. injection H as _ <-. auto.
Qed.

Lemma dispatch_raw_nocrash f ns ty k agg l ds st :
  Forall (fun m => p_from m <> None) l -> dispatch_raw f ns ty k agg l = (ds, st) ->
  st = SOk \/ st = SErr.
Proof.
  intros HP. unfold dispatch_raw. destruct agg.
  - destruct (verify_all f ns l) as [es st1] eqn:Ev.
    pose proof (verify_all_nocrash f ns l es st1 HP Ev) as Hst.
    destruct (verify_all_status _ _ _ _ _ Ev) as [-> | [-> | ->]]; intros H; injection H as _ <-; auto.
    congruence.
  - intros H. pose proof (deliver_each_nocrash _ _ _ _ _ _ _ HP H) as Hst.
    destruct (deliver_each_status _ _ _ _ _ _ _ H) as [-> | [-> | ->]]; auto. congruence.
Qed.

Lemma dispatch_nocrash f ns ty k agg l ds st :
  Forall (fun m => p_from m <> None) l -> dispatch f ns ty k agg l = (ds, st) ->
  st <> SCrash /\ st <> SRecovered.
Proof.
  intros HP. unfold dispatch. destruct (dispatch_raw f ns ty k agg l) as [ds0 st0] eqn:E.
  destruct (dispatch_raw_nocrash f ns ty k agg l ds0 st0 HP E) as [-> | ->];
    destruct k; intros H; injection H as _ <-; split; discriminate.
Qed.

Definition has_sender (m : pmsg) : Prop := p_from m <> None.

Lemma step_core_nocrash f ns me r q m q' ds st :
  qall has_sender q -> has_sender m -> step_core f ns me r q m = (q', (ds, st)) ->
  qall has_sender q' /\ st <> SCrash /\ st <> SRecovered.
Proof.
  intros Hq Hm. unfold step_core.
  destruct (aggregate me (agg_flag r (p_type m)) q m) as [q1 a] eqn:Ea.
  destruct (aggregate_inv has_sender _ _ _ _ _ _ Hq Hm Ea) as [Hq1 Hb].
  destruct a as [b| |].
  - destruct (lookup r (p_type m)) as [[k agg]|].
    + intros H. injection H as <- H. split; [exact Hq1|].
      eapply dispatch_nocrash; [|exact H]. apply Hb. reflexivity.
    + intros H. injection H as <- _ <-. split; [exact Hq1|split; discriminate].
  - intros H. injection H as <- _ <-. split; [exact Hq1|split; discriminate].
  - exfalso. revert Ea. unfold aggregate. unfold has_sender in Hm.
    destruct (n_par me); destruct (p_from m); try congruence.
    all: repeat match goal with |- context [if ?c then _ else _] => destruct c end; discriminate.
Qed.

(* the queues only ever hold messages with a sender token when either the guard
   of the repaired code is on or every injected message has one *)
Lemma step_nocrash f2 f3 ns me r q m q' ds st :
  qall has_sender q -> (f3 = true \/ has_sender m) -> step f2 f3 ns me r q m = (q', (ds, st)) ->
  qall has_sender q' /\ st <> SCrash /\ st <> SRecovered.
Proof.
  intros Hq Hm. unfold step. destruct (f3 && is_none (p_from m)) eqn:Eg.
  - intros H. injection H as <- _ <-. split; [exact Hq|split; discriminate].
  - apply step_core_nocrash; [exact Hq|]. destruct Hm as [-> |Hm]; [|exact Hm].
    cbn in Eg. unfold has_sender. destruct (p_from m); [discriminate|discriminate].
Qed.

Theorem no_crash f c l :
  (fix_f03 f = true \/ forall x, In x l -> w_from (i_wire x) <> None) ->
  crashed (run f c l) = false /\
  forall r, In r (run f c l) -> forall ds, r <> RStep ds SRecovered.
Proof.
  intros Hc.
  assert (Hrun : forall l0 s, (forall x, In x l0 -> In x l) -> sall has_sender s ->
            forall r, In r (run_from f c s l0) -> is_crash r = false /\ forall ds, r <> RStep ds SRecovered).
  { induction l0 as [|x r0 IH]; intros s Hsub Hs r; cbn [run_from]; [intros []|].
    destruct (step_inj f c s x) as [s' res] eqn:Est.
    assert (Hres : sall has_sender s' /\ is_crash res = false /\ forall ds, res <> RStep ds SRecovered).
    { revert Est. unfold step_inj.
      destruct (nth_error (c_insts c) (i_inst x)) as [toid|];
        [|intros H; injection H as <- <-; split; [exact Hs|split; [reflexivity|discriminate]]].
      destruct (search (nodes (c_tree c)) toid) as [[mepos me]|];
        [|intros H; injection H as <- <-; split; [exact Hs|split; [reflexivity|discriminate]]].
      destruct (step (fix_f02 f) (fix_f03 f) (nodes (c_tree c)) me (c_regs c) (sget s (i_inst x))
                  (process (i_env x) (i_wire x))) as [q' [ds st]] eqn:Es.
      intros H. injection H as <- <-.
      assert (Hm : fix_f03 f = true \/ has_sender (process (i_env x) (i_wire x))).
      { destruct Hc as [Hc|Hc]; [now left|right]. unfold has_sender. cbn.
        exact (Hc x (Hsub x (or_introl eq_refl))). }
      destruct (step_nocrash _ _ _ _ _ _ _ _ _ _ (Hs (i_inst x)) Hm Es) as (Hq' & Hst1 & Hst2).
      split; [apply sall_sset; assumption|]. split; [destruct st; try reflexivity; congruence|].
      intros ds0 H. injection H as _ ->. congruence. }
    destruct Hres as (Hs' & Hnc & Hnr). rewrite Hnc. intros [<-|Hin]; [auto|].
    eapply IH; [|exact Hs'|exact Hin]. intros y Hy. apply Hsub. now right. }
  split.
  - unfold crashed. destruct (existsb is_crash (run f c l)) eqn:E; [|reflexivity].
    apply existsb_exists in E as (r & Hr & Hcr).
    destruct (Hrun l [] (fun x H => H) (sall_nil _) r Hr) as [H _]. congruence.
  - intros r Hr. destruct (Hrun l [] (fun x H => H) (sall_nil _) r Hr) as [_ H]. exact H.
Qed.

(* ---------------------------------------- what a valid message achieves -- *)

(* a single message of a non-aggregated registered type from a valid sender is
   handed over at once, alone and unchanged (so the theorems above are not
   satisfied by a model that rejects everything) *)
Lemma guard_off f3 m id : p_from m = Some id -> f3 && is_none (p_from m) = false.
Proof. intros ->. cbn. apply andb_false_r. Qed.

Theorem valid_single_delivered f f3 ns me r q m id pos x k :
  p_from m = Some id -> search ns id = Some (pos, x) ->
  (p_peer m = PNone \/ p_peer m = PKey (n_srv x)) ->
  lookup r (p_type m) = Some (k, false) ->
  step f f3 ns me r q m =
    (q, ([{| d_type := p_type m; d_kind := k; d_agg := false; d_batch := [EMsg pos m] |}], SOk)).
Proof.
  intros Hf Hs Hp Hl. unfold step. rewrite (guard_off f3 m id Hf). unfold step_core, agg_flag. rewrite Hl.
  assert (Ha : aggregate me false q m = (q, ABatch [m])).
  { unfold aggregate. rewrite Hf. destruct (n_par me) as [pid|].
    - cbn. now rewrite orb_true_r.
    - reflexivity. }
  rewrite Ha. unfold dispatch, dispatch_raw. cbn [deliver_each].
  rewrite (verify_valid f ns m id pos x Hf Hs Hp). now destruct k.
Qed.

(* local injection (no envelope identity): delivered iff the claimed node exists;
   no authentication is claimed for this entry point *)
Theorem local_injection f f3 ns me r q m id k :
  p_peer m = PNone -> p_from m = Some id -> lookup r (p_type m) = Some (k, false) ->
  (forall pos x, search ns id = Some (pos, x) ->
     step f f3 ns me r q m =
       (q, ([{| d_type := p_type m; d_kind := k; d_agg := false; d_batch := [EMsg pos m] |}], SOk))) /\
  (search ns id = None ->
     step f f3 ns me r q m =
       (q, if f then ([], SErr)
           else ([{| d_type := p_type m; d_kind := k; d_agg := false; d_batch := [EZero] |}], SOk))).
Proof.
  intros Hp Hf Hl. split.
  - intros pos x Hs. eapply valid_single_delivered; eauto.
  - intros Hs. unfold step. rewrite (guard_off f3 m id Hf). unfold step_core, agg_flag. rewrite Hl.
    assert (Ha : aggregate me false q m = (q, ABatch [m])).
    { unfold aggregate. rewrite Hf. destruct (n_par me) as [pid|].
      - cbn. now rewrite orb_true_r.
      - reflexivity. }
    rewrite Ha. unfold dispatch, dispatch_raw. cbn [deliver_each]. unfold verify. rewrite Hf, Hs.
    destruct f; destruct k; reflexivity.
Qed.

(* a network-borne message from a member that claims to be ANOTHER member is
   refused by every variant of the code *)
Theorem spoof_rejected f f3 ns me r q m id pos x k0 k agg :
  p_from m = Some id -> search ns id = Some (pos, x) -> p_peer m = PKey k0 -> k0 <> n_srv x ->
  lookup r (p_type m) = Some (k, agg) -> agg = false ->
  step f f3 ns me r q m = (q, ([], SErr)).
Proof.
  intros Hf Hs Hp Hne Hl ->. unfold step. rewrite (guard_off f3 m id Hf). unfold step_core, agg_flag. rewrite Hl.
  assert (Ha : aggregate me false q m = (q, ABatch [m])).
  { unfold aggregate. rewrite Hf. destruct (n_par me) as [pid|].
    - cbn. now rewrite orb_true_r.
    - reflexivity. }
  rewrite Ha. unfold dispatch, dispatch_raw. cbn [deliver_each]. unfold verify. rewrite Hf, Hs, Hp.
  apply Nat.eqb_neq in Hne. rewrite Hne. now destruct k.
Qed.

(* ------------------------------------- nothing else on the wire matters -- *)

(* the ServerIdentity field inside the wire message and the tree named by the
   sender token are never read *)
Theorem wire_identity_ignored env w si ot :
  process env {| w_from := w_from w; w_from_other_tree := ot; w_si := si;
                 w_type := w_type w; w_payload := w_payload w |} = process env w.
Proof. reflexivity. Qed.

Definition same_content (a b : inj) : Prop :=
  i_inst a = i_inst b /\ i_env a = i_env b /\ w_from (i_wire a) = w_from (i_wire b) /\
  w_type (i_wire a) = w_type (i_wire b) /\ w_payload (i_wire a) = w_payload (i_wire b).

Theorem run_wire_irrelevant f c : forall l l', Forall2 same_content l l' -> run f c l = run f c l'.
Proof.
  unfold run. generalize ([] : qstate) as s. intros s l l' H. revert s.
  induction H as [|a b l l' Hab Hl IH]; intros s; [reflexivity|].
  cbn [run_from].
  assert (E : step_inj f c s a = step_inj f c s b).
  { destruct Hab as (H1 & H2 & H3 & H4 & H5). unfold step_inj, process.
    rewrite H1, H2, H3, H4, H5. reflexivity. }
  rewrite E. destruct (step_inj f c s b) as [s' res]. destruct (is_crash res); [reflexivity|].
  now rewrite IH.
Qed.

(* ------------------------------------------------ the pinned code: F02, F03 -- *)

Definition regs_h1 : regs := [(1, (Handler, false))].
Definition two_nodes : tree := T 0 0 [T 1 1 []].

(* F02: member 1 sends, over its own connection, a message whose sender token
   names a node id (7) that is not in the tree: the handler is called with the
   zero value *)
Theorem placeholder_refuted :
  exists c l d,
    In d (all_deliveries (run pinned c l)) /\ In EZero (d_batch d) /\
    (forall x, In x l -> i_env x = PKey 1 /\ w_from (i_wire x) = Some 7).
Proof.
  exists {| c_tree := two_nodes; c_insts := [0]; c_regs := regs_h1 |}.
  exists [{| i_inst := 0; i_env := PKey 1; i_decl := None;
             i_wire := {| w_from := Some 7; w_from_other_tree := false; w_si := None;
                          w_type := 1; w_payload := 42 |} |}].
  eexists. split; [vm_compute; left; reflexivity|]. split; [left; reflexivity|].
  intros x [<-|[]]. split; reflexivity.
Qed.

(* F03: one message without sender token kills the process *)
Theorem nosender_refuted :
  exists c l, crashed (run pinned c l) = true /\ length l = 1.
Proof.
  exists {| c_tree := two_nodes; c_insts := [0]; c_regs := regs_h1 |}.
  exists [{| i_inst := 0; i_env := PKey 1; i_decl := None;
             i_wire := {| w_from := None; w_from_other_tree := false; w_si := None;
                          w_type := 1; w_payload := 42 |} |}].
  split; reflexivity.
Qed.

(* and the same two inputs on the repaired variant *)
Example repaired_on_witnesses :
  let c := {| c_tree := two_nodes; c_insts := [0]; c_regs := regs_h1 |} in
  let mk from := [{| i_inst := 0; i_env := PKey 1; i_decl := None;
             i_wire := {| w_from := from; w_from_other_tree := false; w_si := None;
                          w_type := 1; w_payload := 42 |} |}] in
  run repaired c (mk (Some 7)) = [RStep [] SErr] /\ run repaired c (mk None) = [RStep [] SErr].
Proof. split; reflexivity. Qed.

(* the hypotheses of the theorems are satisfiable: a legitimate message from
   member 1 to the root, over member 1's connection, is delivered as itself *)
Example authentic_example :
  let c := {| c_tree := two_nodes; c_insts := [0]; c_regs := regs_h1 |} in
  let l := [{| i_inst := 0; i_env := PKey 1; i_decl := None;
               i_wire := {| w_from := Some 1; w_from_other_tree := false; w_si := Some 0;
                            w_type := 1; w_payload := 42 |} |}] in
  all_deliveries (run pinned c l) =
    [{| d_type := 1; d_kind := Handler; d_agg := false;
        d_batch := [EMsg 1 {| p_from := Some 1; p_peer := PKey 1; p_type := 1; p_payload := 42 |}] |}].
Proof. reflexivity. Qed.

(* an aggregated batch is refused as a whole when one element is refused
   (both children of the root answer; the second answer really comes from
   member 1's server) *)
Example batch_refused_as_a_whole :
  let c := {| c_tree := T 0 0 [T 1 1 []; T 2 2 []]; c_insts := [0]; c_regs := [(2, (Handler, true))] |} in
  let mk from env pl := {| i_inst := 0; i_env := PKey env; i_decl := None;
               i_wire := {| w_from := Some from; w_from_other_tree := false; w_si := None;
                            w_type := 2; w_payload := pl |} |} in
  run pinned c [mk 1 1 10; mk 2 1 11] = [RStep [] SWait; RStep [] SErr] /\
  run pinned c [mk 1 1 10; mk 2 2 11] =
    [RStep [] SWait;
     RStep [{| d_type := 2; d_kind := Handler; d_agg := true;
               d_batch := [EMsg 1 {| p_from := Some 1; p_peer := PKey 1; p_type := 2; p_payload := 10 |};
                           EMsg 2 {| p_from := Some 2; p_peer := PKey 2; p_type := 2; p_payload := 11 |}] |}] SOk].
Proof. split; reflexivity. Qed.
