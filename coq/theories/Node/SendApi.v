(* C01: the group send calls of treenode.go (Broadcast, Multicast, SendToParent, SendToChildren)
   as functions from the caller's position to the list of destinations. Positions are the
   breadth-first positions of the N-ary tree over n members (Tree/Gen.v: node k >= 1 has parent
   (k - 1) / N), which for GenerateNaryTree are also the roster positions. *)
From Coq Require Import List Arith Bool Lia.
Import ListNotations.

Definition parent_of (N k : nat) : option nat :=
  if k =? 0 then None else Some ((k - 1) / N).

Definition children_of (N n k : nat) : list nat :=
  filter (fun c => c <? n) (seq (N * k + 1) N).

Inductive how :=
| HSendTo (k : nat)             (* SendTo(node k) *)
| HBroadcast                    (* Broadcast: every node of the tree but the caller *)
| HMulticast (ks : list nat)    (* Multicast(nodes...) *)
| HParent                       (* SendToParent: nothing when the caller is the root *)
| HChildren.                    (* SendToChildren: nothing when the caller is a leaf *)

Definition dests (N n me : nat) (h : how) : list nat :=
  match h with
  | HSendTo k => [k]
  | HBroadcast => filter (fun k => negb (k =? me)) (seq 0 n)
  | HMulticast ks => ks
  | HParent => match parent_of N me with Some p => [p] | None => [] end
  | HChildren => children_of N n me
  end.
