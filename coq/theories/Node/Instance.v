(* MODEL (executable Gallina only, no proofs) of the path a protocol message
   takes from the overlay to a protocol's handler or channel:

     overlay.go   Process (l.104-119): the ProtocolMsg handed to TransmitMsg gets
                  From/To from the wire and ServerIdentity from the ENVELOPE
     treenode.go  dispatchMsgToProtocol (l.556-586), aggregate (l.607-631),
                  dispatchHandler (l.387-424), dispatchChannel (l.447-496),
                  createValueAndVerify (l.426-444)
     tree.go      Tree.Search (l.212-221): depth-first visit, LAST match wins

   Used by C02 (sender authentication) and C04 (aggregation).

   Abstractions: a TreeNodeID is a [nat] (the harness numbers the real ids by
   first appearance), a server identity is the index [nat] of its public key
   (ServerIdentity.Equal compares public keys), a message body is its payload
   [nat] (0 = the zero value of the message struct), a message type is a [nat].
   A Go panic is an explicit outcome: [SCrash] when nothing recovers it (the
   instance's dispatch goroutine dies and with it the process), [SRecovered]
   when dispatchChannel's deferred recover catches it.

   The two defects of the pinned code with a planned repair are kept behind
   boolean parameters:
     fix_f02  createValueAndVerify returns an error when the claimed sender is
              not a node of the tree (pinned code: builds a zero value and
              delivers it)
     fix_f03  dispatchMsgToProtocol refuses a message without sender token
              before anything reads it (pinned code: the nil token is
              dereferenced in aggregate / createValueAndVerify) *)
From Coq Require Import List Arith Bool.
Import ListNotations.

(* ---------------------------------------------------------------- trees -- *)

Inductive tree := T (id srv : nat) (ch : list tree).

(* what the code reads from a TreeNode: its id, the server hosting it, the id
   of its parent (None for the root) and the number of its children *)
Record ninfo := { n_id : nat; n_srv : nat; n_par : option nat; n_nch : nat }.

(* TreeNode.Visit: the node, then its children left to right *)
Fixpoint flat (par : option nat) (t : tree) : list ninfo :=
  match t with
  | T id srv ch =>
      {| n_id := id; n_srv := srv; n_par := par; n_nch := length ch |} ::
      (fix go (l : list tree) : list ninfo :=
         match l with
         | [] => []
         | c :: r => flat (Some id) c ++ go r
         end) ch
  end.

Definition nodes (t : tree) : list ninfo := flat None t.

(* Tree.Search: visits every node and overwrites the result on each match *)
Fixpoint search_aux (l : list ninfo) (id pos : nat) (acc : option (nat * ninfo))
  : option (nat * ninfo) :=
  match l with
  | [] => acc
  | x :: r => search_aux r id (S pos) (if n_id x =? id then Some (pos, x) else acc)
  end.

Definition search (l : list ninfo) (id : nat) : option (nat * ninfo) :=
  search_aux l id 0 None.

(* ------------------------------------------------------------- messages -- *)

(* identity attached to the envelope by the router (network/router.go:474);
   PNone = nil (a message injected inside the process), PNoKey = an identity
   without public key *)
Inductive peer := PNone | PNoKey | PKey (k : nat).

(* what arrives: everything in it is chosen by the sender *)
Record wmsg := {
  w_from : option nat;        (* From token: None = nil, Some id = its TreeNodeID *)
  w_from_other_tree : bool;   (* From token names another tree *)
  w_si : option nat;          (* ServerIdentity field of the wire message *)
  w_type : nat;
  w_payload : nat }.

(* the ProtocolMsg built by Overlay.Process *)
Record pmsg := { p_from : option nat; p_peer : peer; p_type : nat; p_payload : nat }.

Definition is_none {A} (o : option A) : bool := match o with None => true | Some _ => false end.

(* Overlay.Process: From/To/type/body from the wire, identity from the envelope *)
Definition process (env : peer) (w : wmsg) : pmsg :=
  {| p_from := w_from w; p_peer := env; p_type := w_type w; p_payload := w_payload w |}.

(* ------------------------------------------------- createValueAndVerify -- *)

(* one (node, message) pair as the handler sees it; EZero is the zero value
   (nil node, zero message) *)
Inductive elem := EMsg (pos : nat) (m : pmsg) | EZero.

Inductive vres := VOk (e : elem) | VErr | VPanic.

Definition verify (fix_f02 : bool) (ns : list ninfo) (m : pmsg) : vres :=
  match p_from m with
  | None => VPanic                                   (* msg.From.TreeNodeID with From == nil *)
  | Some id =>
      match search ns id with
      | None => if fix_f02 then VErr else VOk EZero  (* tn == nil: fields never set *)
      | Some (pos, x) =>
          match p_peer m with
          | PNone => VOk (EMsg pos m)                (* msg.ServerIdentity == nil: no comparison *)
          | PNoKey => VErr                           (* Equal is false without a public key *)
          | PKey k => if k =? n_srv x then VOk (EMsg pos m) else VErr
          end
      end
  end.

(* ------------------------------------------------------------ aggregate -- *)

Definition queue := list (nat * list pmsg).           (* msgQueue: type -> waiting messages *)

Fixpoint qget (q : queue) (ty : nat) : list pmsg :=
  match q with
  | [] => []
  | (t, l) :: r => if t =? ty then l else qget r ty
  end.

Fixpoint qdel (q : queue) (ty : nat) : queue :=
  match q with
  | [] => []
  | (t, l) :: r => if t =? ty then qdel r ty else (t, l) :: qdel r ty
  end.

Definition qset (q : queue) (ty : nat) (l : list pmsg) : queue := (ty, l) :: qdel q ty.

Inductive ares := ABatch (l : list pmsg) | AWait | APanic.

(* [agg] = hasFlag(mt, AggregateMessages) *)
Definition aggregate (me : ninfo) (agg : bool) (q : queue) (m : pmsg) : queue * ares :=
  match n_par me, p_from m with
  | Some _, None => (q, APanic)                       (* !IsRoot() && onetMsg.From.TreeNodeID... *)
  | par, from =>
      let from_parent :=
        match par, from with
        | Some pid, Some f => f =? pid
        | _, _ => false
        end in
      if from_parent || negb agg then (q, ABatch [m])
      else
        let msgs := qget q (p_type m) ++ [m] in
        if length msgs =? n_nch me then (qdel q (p_type m), ABatch msgs)
        else (qset q (p_type m) msgs, AWait)
  end.

(* --------------------------------------- dispatchHandler / dispatchChannel -- *)

Inductive kind := Handler | Channel.

(* RegisterHandler / RegisterChannel: type -> (kind, aggregated?) *)
Definition regs := list (nat * (kind * bool)).

Fixpoint lookup (r : regs) (ty : nat) : option (kind * bool) :=
  match r with
  | [] => None
  | (t, v) :: r' => if t =? ty then Some v else lookup r' ty
  end.

(* one handler call / one value sent into a channel *)
Record delivery := { d_type : nat; d_kind : kind; d_agg : bool; d_batch : list elem }.

Inductive status :=
| SOk          (* dispatched without error *)
| SWait        (* aggregate: still waiting for children *)
| SErr         (* createValueAndVerify returned an error: logged, nothing delivered *)
| SUnhandled   (* message-type not handled by the protocol *)
| SRecovered   (* panic caught by dispatchChannel's recover *)
| SCrash       (* panic in the dispatch goroutine: the process exits *)
| SRefused.    (* refused by TransmitMsg: no such node in the tree, no instance *)

(* aggregated form: every element is built first, then ONE call / send *)
Fixpoint verify_all (fix_f02 : bool) (ns : list ninfo) (l : list pmsg) : list elem * status :=
  match l with
  | [] => ([], SOk)
  | m :: r =>
      match verify fix_f02 ns m with
      | VOk e => let (es, st) := verify_all fix_f02 ns r in (e :: es, st)
      | VErr => ([], SErr)
      | VPanic => ([], SCrash)
      end
  end.

(* non-aggregated form: build, deliver, next *)
Fixpoint deliver_each (fix_f02 : bool) (ns : list ninfo) (ty : nat) (k : kind) (l : list pmsg)
  : list delivery * status :=
  match l with
  | [] => ([], SOk)
  | m :: r =>
      match verify fix_f02 ns m with
      | VOk e =>
          let (ds, st) := deliver_each fix_f02 ns ty k r in
          ({| d_type := ty; d_kind := k; d_agg := false; d_batch := [e] |} :: ds, st)
      | VErr => ([], SErr)
      | VPanic => ([], SCrash)
      end
  end.

Definition dispatch_raw (fix_f02 : bool) (ns : list ninfo) (ty : nat) (k : kind) (agg : bool)
  (l : list pmsg) : list delivery * status :=
  if agg then
    match verify_all fix_f02 ns l with
    | (es, SOk) => ([{| d_type := ty; d_kind := k; d_agg := true; d_batch := es |}], SOk)
    | (_, st) => ([], st)
    end
  else deliver_each fix_f02 ns ty k l.

Definition dispatch (fix_f02 : bool) (ns : list ninfo) (ty : nat) (k : kind) (agg : bool)
  (l : list pmsg) : list delivery * status :=
  let (ds, st) := dispatch_raw fix_f02 ns ty k agg l in
  match k, st with
  | Channel, SCrash => (ds, SRecovered)     (* dispatchChannel defers a recover *)
  | _, _ => (ds, st)
  end.

(* ---------------------------------------------- dispatchMsgToProtocol -- *)

Definition agg_flag (r : regs) (ty : nat) : bool :=
  match lookup r ty with Some (_, a) => a | None => false end.

Definition step_core (fix_f02 : bool) (ns : list ninfo) (me : ninfo) (r : regs) (q : queue) (m : pmsg)
  : queue * (list delivery * status) :=
  match aggregate me (agg_flag r (p_type m)) q m with
  | (q', APanic) => (q', ([], SCrash))
  | (q', AWait) => (q', ([], SWait))
  | (q', ABatch l) =>
      match lookup r (p_type m) with
      | None => (q', ([], SUnhandled))
      | Some (k, agg) => (q', dispatch fix_f02 ns (p_type m) k agg l)
      end
  end.

(* the repaired dispatchMsgToProtocol starts with "if onetMsg.From == nil { return error }" *)
Definition step (fix_f02 fix_f03 : bool) (ns : list ninfo) (me : ninfo) (r : regs) (q : queue) (m : pmsg)
  : queue * (list delivery * status) :=
  if fix_f03 && is_none (p_from m) then (q, ([], SErr))
  else step_core fix_f02 ns me r q m.

(* -------------------------------------------- several instances, a history -- *)

Record fixes := { fix_f02 : bool; fix_f03 : bool }.

(* one injected message: which instance it is addressed to, the envelope's
   peer identity, the wire content *)
(* The identity on an envelope is a PAIR: the public key ([i_env], PKey k = the
   key of server k; what TLS authenticates and what ServerIdentity.Equal
   compares) and the deprecated, self-declared [ID] field of the identity the
   peer sent in the connection handshake ([i_decl]: None = the id derived from
   the key, Some j = the ID value of server j's identity, or any other number
   for a zero / random value).  The code decides on the KEY; [i_decl] is read
   by nothing below. *)
Record inj := { i_inst : nat; i_env : peer; i_decl : option nat; i_wire : wmsg }.

(* a scenario's static part: the tree, the TreeNodeID named by the To token of
   every instance (the instance is created on first use, on the node
   Tree.Search finds for that id), the registrations of the protocol *)
Record config := { c_tree : tree; c_insts : list nat; c_regs : regs }.

Definition qstate := list (nat * queue).               (* instance -> its msgQueue *)

Fixpoint sget (s : qstate) (i : nat) : queue :=
  match s with
  | [] => []
  | (j, q) :: r => if j =? i then q else sget r i
  end.

Fixpoint sdel (s : qstate) (i : nat) : qstate :=
  match s with
  | [] => []
  | (j, q) :: r => if j =? i then sdel r i else (j, q) :: sdel r i
  end.

Definition sset (s : qstate) (i : nat) (q : queue) : qstate := (i, q) :: sdel s i.

Inductive sres :=
| RStep (ds : list delivery) (st : status)
| RBadConfig.          (* the scenario names an instance that does not exist *)

Definition step_inj (f : fixes) (c : config) (s : qstate) (x : inj) : qstate * sres :=
  match nth_error (c_insts c) (i_inst x) with
  | None => (s, RBadConfig)
  | Some to_id =>
      let ns := nodes (c_tree c) in
      let m := process (i_env x) (i_wire x) in
      (* TransmitMsg: the instance sits on the node Tree.Search finds for
         To.TreeNodeID ("No TreeNode defined in this tree here" otherwise) *)
      match search ns to_id with
      | None => (s, RStep [] SRefused)
      | Some (_, me) =>
          let '(q', (ds, st)) :=
            step (fix_f02 f) (fix_f03 f) ns me (c_regs c) (sget s (i_inst x)) m in
          (sset s (i_inst x) q', RStep ds st)
      end
  end.

Definition is_crash (r : sres) : bool :=
  match r with RStep _ SCrash => true | _ => false end.

(* the history stops at the first crash: the process is gone *)
Fixpoint run_from (f : fixes) (c : config) (s : qstate) (l : list inj) : list sres :=
  match l with
  | [] => []
  | x :: r =>
      let (s', res) := step_inj f c s x in
      if is_crash res then [res] else res :: run_from f c s' r
  end.

Definition run (f : fixes) (c : config) (l : list inj) : list sres := run_from f c [] l.

Definition deliveries_of (r : sres) : list delivery :=
  match r with RStep ds _ => ds | RBadConfig => [] end.

Definition all_deliveries (rs : list sres) : list delivery := flat_map deliveries_of rs.

Definition crashed (rs : list sres) : bool := existsb is_crash rs.

Definition bad_config (rs : list sres) : bool :=
  existsb (fun r => match r with RBadConfig => true | _ => false end) rs.

Definition pinned : fixes := {| fix_f02 := false; fix_f03 := false |}.
Definition repaired : fixes := {| fix_f02 := true; fix_f03 := true |}.
