(* MODEL (executable, no proofs): what happens to the deliveries of ONE instance
   between dispatchHandler / dispatchChannel and the protocol that reads its
   channels -- the part of treenode.go the base model (Node/Instance.v) leaves
   out by treating every delivery as received.

     dispatchChannel, aggregated branch   reflect.ValueOf(ch).Send(out)   -- BLOCKS while the
                                          channel is full: the dispatch goroutine waits for the
                                          reader, the batch is never dropped (l.472)
     dispatchChannel, single branch       if out.Len() < out.Cap() { out.Send(m) } else
                                          error "channel too small ... RegisterChannelLength()"
                                          -- the message is REFUSED when the channel is full
                                          (documented behaviour, l.481-492)
     dispatchHandler                      the handler is called, nothing is buffered

   [c_todo] is the sequence of deliveries the instance produces (its log in
   Node/Instance.v / Node/Pipeline.v); [CNext] lets the dispatch goroutine go on
   with the next one, [CRead ty] is the protocol receiving from the channel of
   type ty.  Any interleaving of the two.  While a send is pending the dispatch
   goroutine does nothing else (that is the C05 "handler that has not returned").
   [trysend_agg] = the variant in which the aggregated branch also refuses
   instead of waiting (kept to show what the blocking send is for). *)
From Coq Require Import List Arith Bool.
Import ListNotations.
From Onet Require Import Node.Instance.

Record cstate := {
  c_todo : list delivery;            (* still to be dispatched *)
  c_done : list delivery;            (* dispatched so far (history) *)
  c_buf : nat -> list delivery;      (* content of the channel of each type, oldest first *)
  c_pending : option delivery;       (* the dispatch goroutine is blocked in Send with this value *)
  c_read : list delivery;            (* what the protocol has received from its channels (history) *)
  c_handled : list delivery;         (* handler calls (history) *)
  c_dropped : list delivery }.       (* refused: "channel too small" error logged *)

Definition cinit (ds : list delivery) : cstate :=
  {| c_todo := ds; c_done := []; c_buf := fun _ => []; c_pending := None;
     c_read := []; c_handled := []; c_dropped := [] |}.

Inductive cact := CNext | CRead (ty : nat).

Definition bset (b : nat -> list delivery) (ty : nat) (l : list delivery) : nat -> list delivery :=
  fun t => if t =? ty then l else b t.

Definition is_chan (d : delivery) : bool := match d_kind d with Channel => true | Handler => false end.

Definition cstep (trysend_agg : bool) (cap : nat -> nat) (st : cstate) (a : cact) : option cstate :=
  match a with
  | CNext =>
      match c_pending st, c_todo st with
      | Some _, _ => None                                  (* blocked in Send *)
      | None, [] => None
      | None, d :: r =>
          let done := c_done st ++ [d] in
          if negb (is_chan d) then
            Some {| c_todo := r; c_done := done; c_buf := c_buf st; c_pending := None; c_read := c_read st;
                    c_handled := c_handled st ++ [d]; c_dropped := c_dropped st |}
          else if length (c_buf st (d_type d)) <? cap (d_type d) then
            Some {| c_todo := r; c_done := done; c_buf := bset (c_buf st) (d_type d) (c_buf st (d_type d) ++ [d]);
                    c_pending := None; c_read := c_read st; c_handled := c_handled st; c_dropped := c_dropped st |}
          else if d_agg d && negb trysend_agg then
            Some {| c_todo := r; c_done := done; c_buf := c_buf st; c_pending := Some d; c_read := c_read st;
                    c_handled := c_handled st; c_dropped := c_dropped st |}
          else
            Some {| c_todo := r; c_done := done; c_buf := c_buf st; c_pending := None; c_read := c_read st;
                    c_handled := c_handled st; c_dropped := c_dropped st ++ [d] |}
      end
  | CRead ty =>
      match c_buf st ty with
      | v :: b =>
          (* the receiver takes the oldest value; a sender waiting on this channel completes *)
          match c_pending st with
          | Some d =>
              if d_type d =? ty then
                Some {| c_todo := c_todo st; c_done := c_done st; c_buf := bset (c_buf st) ty (b ++ [d]);
                        c_pending := None; c_read := c_read st ++ [v]; c_handled := c_handled st;
                        c_dropped := c_dropped st |}
              else
                Some {| c_todo := c_todo st; c_done := c_done st; c_buf := bset (c_buf st) ty b;
                        c_pending := c_pending st; c_read := c_read st ++ [v]; c_handled := c_handled st;
                        c_dropped := c_dropped st |}
          | None =>
              Some {| c_todo := c_todo st; c_done := c_done st; c_buf := bset (c_buf st) ty b;
                      c_pending := None; c_read := c_read st ++ [v]; c_handled := c_handled st;
                      c_dropped := c_dropped st |}
          end
      | [] =>
          (* empty channel: a receiver meets a waiting sender directly (capacity 0), else it would block *)
          match c_pending st with
          | Some d =>
              if d_type d =? ty then
                Some {| c_todo := c_todo st; c_done := c_done st; c_buf := c_buf st; c_pending := None;
                        c_read := c_read st ++ [d]; c_handled := c_handled st; c_dropped := c_dropped st |}
              else None
          | None => None
          end
      end
  end.

Fixpoint crun (trysend_agg : bool) (cap : nat -> nat) (st : cstate) (acts : list cact) : option cstate :=
  match acts with
  | [] => Some st
  | a :: r => match cstep trysend_agg cap st a with None => None | Some st' => crun trysend_agg cap st' r end
  end.

(* the channel deliveries of type ty in a history *)
Definition chan (ty : nat) (l : list delivery) : list delivery :=
  filter (fun d => is_chan d && (d_type d =? ty)) l.

Definition pend (ty : nat) (st : cstate) : list delivery :=
  match c_pending st with
  | Some d => if d_type d =? ty then [d] else []
  | None => []
  end.
