(* PROOFS for C04 over the model Node/Instance.v (aggregate, dispatch, step):
   what TreeNodeInstance.aggregate does with the arrival sequence of an
   aggregated message type, for every fan-out, every arrival order, every
   interleaving with other types, with parent messages and with other
   instances. *)
From Coq Require Import List Arith Bool Lia Permutation.
Import ListNotations.
From Onet Require Import Node.Instance Node.VerifyProofs.

Lemma map_fst_combine {A B} (a : list A) : forall (b : list B),
  length a = length b -> map fst (combine a b) = a.
Proof.
  induction a as [|x a IH]; intros [|y b] H; cbn in *; try discriminate; [reflexivity|].
  f_equal. apply IH. lia.
Qed.

Lemma map_snd_combine {A B} (a : list A) : forall (b : list B),
  length a = length b -> map snd (combine a b) = b.
Proof.
  induction a as [|x a IH]; intros [|y b] H; cbn in *; try discriminate; [reflexivity|].
  f_equal. apply IH. lia.
Qed.

(* ------------------------------------------------ one call of aggregate -- *)

Definition from_parent (me : ninfo) (m : pmsg) : bool :=
  match n_par me, p_from m with
  | Some pid, Some f => f =? pid
  | _, _ => false
  end.

(* aggregate dereferences the sender token only at a non-root node *)
Definition no_panic (me : ninfo) (m : pmsg) : Prop := n_par me = None \/ p_from m <> None.

(* parent messages and non-aggregated types: straight through, nothing stored *)
Lemma aggregate_bypass me flag q m :
  no_panic me m -> from_parent me m = true \/ flag = false ->
  aggregate me flag q m = (q, ABatch [m]).
Proof.
  intros Hnp Hb. unfold aggregate, from_parent in *.
  destruct (n_par me) as [pid|] eqn:Ep; destruct (p_from m) as [f|] eqn:Ef.
  - destruct Hb as [-> | ->]; [reflexivity|]. now rewrite orb_true_r.
  - destruct Hnp as [H|H]; congruence.
  - destruct Hb as [H| ->]; [discriminate|reflexivity].
  - destruct Hb as [H| ->]; [discriminate|reflexivity].
Qed.

(* a child's message of an aggregated type: appended; the batch leaves when the
   COUNT reaches the number of children *)
Lemma aggregate_collect me q m :
  no_panic me m -> from_parent me m = false ->
  aggregate me true q m =
    let w := qget q (p_type m) ++ [m] in
    if length w =? n_nch me then (qdel q (p_type m), ABatch w) else (qset q (p_type m) w, AWait).
Proof.
  intros Hnp Hfp. unfold aggregate, from_parent in *.
  destruct (n_par me) as [pid|] eqn:Ep; destruct (p_from m) as [f|] eqn:Ef.
  - rewrite Hfp. reflexivity.
  - destruct Hnp as [H|H]; congruence.
  - reflexivity.
  - reflexivity.
Qed.

(* only the queue of the message's own type is touched *)
Lemma aggregate_frame me flag q m q' a ty :
  aggregate me flag q m = (q', a) -> ty <> p_type m -> qget q' ty = qget q ty.
Proof.
  unfold aggregate. intros H Hne.
  destruct (n_par me) as [pid|]; destruct (p_from m) as [f|];
    repeat match type of H with context [if ?c then _ else _] => destruct c end;
    injection H as <- _; try reflexivity.
  all: try (rewrite qget_qdel); try (rewrite qget_qset);
       apply Nat.eqb_neq in Hne; rewrite Hne; reflexivity.
Qed.

(* ... and the outcome depends on the state only through that queue *)
Lemma aggregate_ext me flag q1 q2 m :
  qget q1 (p_type m) = qget q2 (p_type m) ->
  snd (aggregate me flag q1 m) = snd (aggregate me flag q2 m) /\
  qget (fst (aggregate me flag q1 m)) (p_type m) = qget (fst (aggregate me flag q2 m)) (p_type m).
Proof.
  intros H. unfold aggregate.
  destruct (n_par me) as [pid|]; destruct (p_from m) as [f|]; cbn [fst snd]; try (split; [reflexivity|exact H]).
  all: rewrite H;
       repeat match goal with |- context [if ?c then _ else _] => destruct c end; cbn [fst snd];
       try (split; [reflexivity|exact H]);
       split; try reflexivity; rewrite ?qget_qdel, ?qget_qset, ?Nat.eqb_refl; reflexivity.
Qed.

(* ------------------------------------------------ an arrival sequence -- *)

(* the outcomes of aggregate for an arrival sequence at one instance, paired
   with the message that caused them *)
Fixpoint agg_run (me : ninfo) (r : regs) (q : queue) (l : list pmsg) : list (pmsg * ares) * queue :=
  match l with
  | [] => ([], q)
  | m :: l' =>
      let (q', a) := aggregate me (agg_flag r (p_type m)) q m in
      let (outs, qf) := agg_run me r q' l' in
      ((m, a) :: outs, qf)
  end.

Definition outs_of (x : list (pmsg * ares) * queue) : list ares := map snd (fst x).

Lemma agg_run_app me r q l1 l2 :
  agg_run me r q (l1 ++ l2) =
    let (o1, q1) := agg_run me r q l1 in
    let (o2, q2) := agg_run me r q1 l2 in (o1 ++ o2, q2).
Proof.
  revert q. induction l1 as [|m l1 IH]; intros q; cbn [agg_run app].
  - now destruct (agg_run me r q l2).
  - destruct (aggregate me (agg_flag r (p_type m)) q m) as [q' a]. rewrite IH.
    destruct (agg_run me r q' l1) as [o1 q1]. destruct (agg_run me r q1 l2) as [o2 q2]. reflexivity.
Qed.

(* a message of an aggregated type from a child (i.e. not from the parent) *)
Definition collects (me : ninfo) (r : regs) (ty : nat) (m : pmsg) : Prop :=
  p_type m = ty /\ agg_flag r ty = true /\ from_parent me m = false /\ no_panic me m.

(* ONE round.  With [pre] already waiting, the messages [rest] of the same type
   arrive and together they are exactly as many as there are children: nothing
   comes out until the last one, then all of them in arrival order, and the
   queue of the type is empty again. *)
Lemma one_round me r ty : forall rest pre q,
  rest <> [] -> Forall (collects me r ty) rest ->
  qget q ty = pre -> length (pre ++ rest) = n_nch me ->
  exists q',
    agg_run me r q rest =
      (combine rest (repeat AWait (length rest - 1) ++ [ABatch (pre ++ rest)]), q') /\
    qget q' ty = [] /\ forall ty', ty' <> ty -> qget q' ty' = qget q ty'.
Proof.
  induction rest as [|m rest IH]; intros pre q Hne Hall Hq Hlen; [congruence|].
  inversion Hall as [|? ? (Hty & Hflag & Hfp & Hnp) Hall']; subst.
  cbn [agg_run]. rewrite Hflag. rewrite (aggregate_collect me q m Hnp Hfp). cbn zeta.
  destruct rest as [|m2 rest].
  - (* last message of the round *)
    rewrite app_length in Hlen. cbn [length] in Hlen.
    assert (E : length (qget q (p_type m) ++ [m]) =? n_nch me = true).
    { apply Nat.eqb_eq. rewrite app_length. cbn. lia. }
    rewrite E. cbn [agg_run length Nat.sub repeat app combine].
    eexists. split; [reflexivity|]. split.
    + rewrite qget_qdel, Nat.eqb_refl. reflexivity.
    + intros ty' Hne'. rewrite qget_qdel. apply Nat.eqb_neq in Hne'. now rewrite Hne'.
  - (* not the last one: wait *)
    assert (E : length (qget q (p_type m) ++ [m]) =? n_nch me = false).
    { apply Nat.eqb_neq. rewrite !app_length in *. cbn [length] in *. lia. }
    rewrite E.
    destruct (IH (qget q (p_type m) ++ [m]) (qset q (p_type m) (qget q (p_type m) ++ [m])))
      as (q' & Hrun & Hq' & Hframe).
    + discriminate.
    + exact Hall'.
    + rewrite qget_qset, Nat.eqb_refl. reflexivity.
    + rewrite <- app_assoc. exact Hlen.
    + rewrite Hrun. exists q'. split; [|split; [exact Hq'|]].
      * rewrite <- app_assoc. cbn [length Nat.sub app]. rewrite Nat.sub_0_r. reflexivity.
      * intros ty' Hne'. rewrite (Hframe ty' Hne'), qget_qset.
        apply Nat.eqb_neq in Hne'. now rewrite Hne'.
Qed.

(* what comes out of one complete round: (n-1) times nothing, then the batch *)
Definition round_outs (rd : list pmsg) : list ares :=
  repeat AWait (length rd - 1) ++ [ABatch rd].

(* ROUNDS BY COUNT.  Any concatenation of groups of exactly [n_nch me] child
   messages of an aggregated type, starting with an empty queue: the batches
   are exactly those groups, in order, each in arrival order, each delivered at
   the arrival of its last message and not before. *)
Theorem rounds_by_count me r ty : forall rounds q,
  1 <= n_nch me ->
  Forall (fun rd => length rd = n_nch me /\ Forall (collects me r ty) rd) rounds ->
  qget q ty = [] ->
  exists q',
    outs_of (agg_run me r q (concat rounds)) = flat_map round_outs rounds /\
    map fst (fst (agg_run me r q (concat rounds))) = concat rounds /\
    snd (agg_run me r q (concat rounds)) = q' /\
    qget q' ty = [] /\ forall ty', ty' <> ty -> qget q' ty' = qget q ty'.
Proof.
  induction rounds as [|rd rounds IH]; intros q Hn Hall Hq.
  - exists q. cbn. auto.
  - inversion Hall as [|? ? (Hlen & Hrd) Hall']; subst. cbn [concat flat_map].
    assert (Hne : rd <> []) by (destruct rd; [cbn in Hlen; lia|discriminate]).
    destruct (one_round me r ty rd [] q Hne Hrd Hq Hlen) as (q1 & Hrun & Hq1 & Hf1).
    destruct (IH q1 Hn Hall' Hq1) as (q2 & Ho & Hm & Hs & Hq2 & Hf2).
    exists q2. rewrite agg_run_app, Hrun.
    destruct (agg_run me r q1 (concat rounds)) as [o2 qq] eqn:E2.
    unfold outs_of in *. cbn [fst snd] in *. subst qq.
    assert (Hl : length rd = length (repeat AWait (length rd - 1) ++ [ABatch ([] ++ rd)])).
    { rewrite app_length, repeat_length. cbn. lia. }
    split; [|split; [|split; [reflexivity|split; [exact Hq2|]]]].
    + rewrite map_app, Ho. f_equal. rewrite (map_snd_combine _ _ Hl). reflexivity.
    + rewrite map_app, Hm. f_equal. exact (map_fst_combine _ _ Hl).
    + intros ty' Hne'. rewrite (Hf2 ty' Hne'). apply Hf1. exact Hne'.
Qed.

(* C04 in the property's own terms.  [cs] are the ids of the node's children
   (as many as the node has children); a round is one message of the type from
   every child, in any order; rounds arrive one after the other (a child sends
   for round k+1 only after round k was delivered).  Then the batches are
   exactly the rounds. *)
Definition is_round (me : ninfo) (r : regs) (ty : nat) (cs : list nat) (rd : list pmsg) : Prop :=
  Permutation (map p_from rd) (map Some cs) /\ Forall (collects me r ty) rd.

Theorem batches_are_rounds me r ty cs rounds q :
  1 <= n_nch me -> length cs = n_nch me ->
  Forall (is_round me r ty cs) rounds ->
  qget q ty = [] ->
  outs_of (agg_run me r q (concat rounds)) = flat_map round_outs rounds /\
  map fst (fst (agg_run me r q (concat rounds))) = concat rounds /\
  qget (snd (agg_run me r q (concat rounds))) ty = [] /\
  forall ty', ty' <> ty -> qget (snd (agg_run me r q (concat rounds))) ty' = qget q ty'.
Proof.
  intros Hn Hcs Hall Hq.
  assert (Hall' : Forall (fun rd => length rd = n_nch me /\ Forall (collects me r ty) rd) rounds).
  { eapply Forall_impl; [|exact Hall]. intros rd [Hp Hc]. split; [|exact Hc].
    apply Permutation_length in Hp. rewrite !map_length in Hp. lia. }
  destruct (rounds_by_count me r ty rounds q Hn Hall' Hq) as (q' & Ho & Hm & Hs & Hq' & Hf).
  rewrite Hs. auto.
Qed.

(* every batch that comes out is one of the rounds, and a permutation of the
   children: nothing is lost, duplicated or mixed *)
Corollary batches_partition me r ty cs rounds q :
  1 <= n_nch me -> length cs = n_nch me ->
  Forall (is_round me r ty cs) rounds -> qget q ty = [] ->
  forall b, In (ABatch b) (outs_of (agg_run me r q (concat rounds))) ->
    In b rounds /\ Permutation (map p_from b) (map Some cs).
Proof.
  intros Hn Hcs Hall Hq b Hb.
  destruct (batches_are_rounds me r ty cs rounds q Hn Hcs Hall Hq) as (Ho & _).
  rewrite Ho in Hb. apply in_flat_map in Hb as (rd & Hrd & Hin).
  unfold round_outs in Hin. apply in_app_or in Hin as [Hin|[Hin|[]]].
  - apply repeat_spec in Hin. discriminate.
  - injection Hin as ->. split; [exact Hrd|].
    rewrite Forall_forall in Hall. exact (proj1 (Hall b Hrd)).
Qed.

(* ------------------------------------- several types in flight at once -- *)

Definition of_type (ty : nat) (x : pmsg * ares) : bool := p_type (fst x) =? ty.

(* Interleave anything with the messages of type [ty]: what happens to the
   messages of type [ty] is what happens when they arrive alone. *)
Theorem types_independent me r ty : forall l q1 q2,
  qget q1 ty = qget q2 ty ->
  filter (of_type ty) (fst (agg_run me r q1 l)) =
  fst (agg_run me r q2 (filter (fun m => p_type m =? ty) l)) /\
  qget (snd (agg_run me r q1 l)) ty =
  qget (snd (agg_run me r q2 (filter (fun m => p_type m =? ty) l))) ty.
Proof.
  induction l as [|m l IH]; intros q1 q2 Hq; cbn [agg_run filter fst snd]; [auto|].
  destruct (p_type m =? ty) eqn:Ety.
  - apply Nat.eqb_eq in Ety. cbn [agg_run].
    destruct (aggregate me (agg_flag r (p_type m)) q1 m) as [q1' a1] eqn:E1.
    destruct (aggregate me (agg_flag r (p_type m)) q2 m) as [q2' a2] eqn:E2.
    assert (Hq' : qget q1 (p_type m) = qget q2 (p_type m)) by (rewrite Ety; exact Hq).
    destruct (aggregate_ext me (agg_flag r (p_type m)) q1 q2 m Hq') as [Ha Hqq].
    rewrite E1, E2 in Ha, Hqq. cbn [fst snd] in Ha, Hqq. subst a2. rewrite Ety in Hqq.
    destruct (IH q1' q2' Hqq) as [IH1 IH2].
    destruct (agg_run me r q1' l) as [o1 qf1]. 
    destruct (agg_run me r q2' (filter (fun m0 => p_type m0 =? ty) l)) as [o2 qf2].
    cbn [fst snd filter] in *. unfold of_type at 1. cbn [fst]. rewrite Ety, Nat.eqb_refl.
    split; [f_equal; exact IH1|exact IH2].
  - destruct (aggregate me (agg_flag r (p_type m)) q1 m) as [q1' a1] eqn:E1.
    assert (Hne : ty <> p_type m) by (apply Nat.eqb_neq in Ety; congruence).
    pose proof (aggregate_frame me _ q1 m q1' a1 ty E1 Hne) as Hfr.
    assert (Hqq : qget q1' ty = qget q2 ty) by congruence.
    destruct (IH q1' q2 Hqq) as [IH1 IH2].
    destruct (agg_run me r q1' l) as [o1 qf1]. cbn [fst snd filter] in *.
    unfold of_type at 1. cbn [fst]. rewrite Ety. split; [exact IH1|exact IH2].
Qed.

(* ------------------------------------------- what the hypothesis is for -- *)

Definition cm (from ty payload : nat) : pmsg :=
  {| p_from := Some from; p_peer := PKey from; p_type := ty; p_payload := payload |}.

Definition root2 : ninfo := {| n_id := 0; n_srv := 0; n_par := None; n_nch := 2 |}.
Definition regs_agg : regs := [(2, (Handler, true)); (4, (Channel, true)); (1, (Handler, false))].

(* Without round separation the batches are NOT the rounds: completion is by
   count, so two messages of a fast child (1) make a batch, and the slow
   child's (2) two messages make the next one. *)
Example unseparated_example :
  outs_of (agg_run root2 regs_agg [] [cm 1 2 11; cm 1 2 12; cm 2 2 21; cm 2 2 22]) =
    [AWait; ABatch [cm 1 2 11; cm 1 2 12]; AWait; ABatch [cm 2 2 21; cm 2 2 22]].
Proof. reflexivity. Qed.

(* ... and the same messages, round after round, in different orders *)
Example separated_example :
  outs_of (agg_run root2 regs_agg [] [cm 1 2 11; cm 2 2 21; cm 2 2 22; cm 1 2 12]) =
    [AWait; ABatch [cm 1 2 11; cm 2 2 21]; AWait; ABatch [cm 2 2 22; cm 1 2 12]].
Proof. reflexivity. Qed.

(* Nor does aggregate look at WHO sent: a message of the type from a tree member
   that is not a child (here node 7) takes a child's place in the batch. *)
Example nonchild_example :
  outs_of (agg_run root2 regs_agg [] [cm 1 2 11; cm 7 2 71; cm 2 2 21]) =
    [AWait; ABatch [cm 1 2 11; cm 7 2 71]; AWait].
Proof. reflexivity. Qed.

(* the hypotheses of [batches_are_rounds] are satisfiable *)
Example is_round_example :
  is_round root2 regs_agg 2 [1; 2] [cm 2 2 21; cm 1 2 11] /\ length [1; 2] = n_nch root2.
Proof.
  split; [|reflexivity]. split.
  - cbn. apply perm_swap.
  - repeat constructor; cbn; auto.
Qed.

(* ------------------------------------------------ down to the handlers -- *)

(* the outcomes of [step] for an arrival sequence at one instance *)
Fixpoint steps (f2 f3 : bool) (ns : list ninfo) (me : ninfo) (r : regs) (q : queue) (l : list pmsg)
  : list (list delivery * status) * queue :=
  match l with
  | [] => ([], q)
  | m :: l' =>
      let '(q', res) := step f2 f3 ns me r q m in
      let (outs, qf) := steps f2 f3 ns me r q' l' in
      (res :: outs, qf)
  end.

Lemma verify_all_valid f ns : forall l es,
  Forall2 (fun m e => verify f ns m = VOk e) l es -> verify_all f ns l = (es, SOk).
Proof.
  induction 1 as [|m e l es Hv _ IH]; cbn [verify_all]; [reflexivity|].
  rewrite Hv, IH. reflexivity.
Qed.

Lemma collects_guard f3 me r ty m : collects me r ty m -> p_from m <> None ->
  f3 && is_none (p_from m) = false.
Proof. intros _ H. destruct (p_from m); [apply andb_false_r|congruence]. Qed.

(* what [step] does, given what [aggregate] does *)
Lemma step_of_aggregate f2 f3 ns me r q m q' a :
  p_from m <> None ->
  aggregate me (agg_flag r (p_type m)) q m = (q', a) ->
  step f2 f3 ns me r q m =
    match a with
    | APanic => (q', ([], SCrash))
    | AWait => (q', ([], SWait))
    | ABatch l =>
        match lookup r (p_type m) with
        | None => (q', ([], SUnhandled))
        | Some (k, agg) => (q', dispatch f2 ns (p_type m) k agg l)
        end
    end.
Proof.
  intros Hf Ha. unfold step. destruct (p_from m) eqn:E; [|congruence].
  cbn [is_none]. rewrite andb_false_r. unfold step_core. rewrite Ha. reflexivity.
Qed.

(* ONE ROUND, DOWN TO THE HANDLER OR CHANNEL.  Every child sends one message of
   an aggregated type registered as (k, slice form); every message passes the
   sender check, yielding the elements [es].  Then for the first n-1 arrivals
   the protocol sees nothing, and with the last one it receives exactly ONE
   batch holding exactly [es], in arrival order; afterwards nothing of that
   type is left waiting. *)
Theorem round_delivered f2 f3 ns me r ty k rd es q :
  1 <= n_nch me -> length rd = n_nch me ->
  Forall (collects me r ty) rd -> Forall (fun m => p_from m <> None) rd ->
  lookup r ty = Some (k, true) ->
  Forall2 (fun m e => verify f2 ns m = VOk e) rd es ->
  qget q ty = [] ->
  exists q',
    steps f2 f3 ns me r q rd =
      (repeat ([], SWait) (length rd - 1) ++
       [([{| d_type := ty; d_kind := k; d_agg := true; d_batch := es |}], SOk)], q') /\
    qget q' ty = [] /\ forall ty', ty' <> ty -> qget q' ty' = qget q ty'.
Proof.
  intros Hn Hlen Hcol Hfrom Hreg Hver Hq.
  (* generalise over the part of the round already waiting *)
  assert (G : forall rest pre q0,
             rest <> [] -> Forall (collects me r ty) rest -> Forall (fun m => p_from m <> None) rest ->
             qget q0 ty = pre -> length (pre ++ rest) = n_nch me ->
             forall es0, verify_all f2 ns (pre ++ rest) = (es0, SOk) ->
             exists q',
               steps f2 f3 ns me r q0 rest =
                 (repeat ([], SWait) (length rest - 1) ++
                  [([{| d_type := ty; d_kind := k; d_agg := true; d_batch := es0 |}], SOk)], q') /\
               qget q' ty = [] /\ forall ty', ty' <> ty -> qget q' ty' = qget q0 ty').
  { induction rest as [|m rest IH]; intros pre q0 Hne Hc Hf Hq0 Hl es0 Hv; [congruence|].
    inversion Hc as [|? ? (Hty & Hflag & Hfp & Hnp) Hc']; subst.
    inversion Hf as [|? ? Hfm Hf']; subst.
    cbn [steps].
    pose proof (aggregate_collect me q0 m Hnp Hfp) as Ha. cbn zeta in Ha.
    destruct rest as [|m2 rest].
    - rewrite app_length in Hl. cbn [length] in Hl.
      assert (E : length (qget q0 (p_type m) ++ [m]) =? n_nch me = true).
      { apply Nat.eqb_eq. rewrite app_length. cbn. lia. }
      rewrite E in Ha. rewrite <- Hflag in Ha at 1.
      rewrite (step_of_aggregate f2 f3 ns me r q0 m _ _ Hfm Ha), Hreg.
      unfold dispatch, dispatch_raw. rewrite Hv. cbn [steps length Nat.sub repeat app].
      eexists. split; [destruct k; reflexivity|]. split.
      + rewrite qget_qdel, Nat.eqb_refl. reflexivity.
      + intros ty' Hne'. rewrite qget_qdel. apply Nat.eqb_neq in Hne'. now rewrite Hne'.
    - assert (E : length (qget q0 (p_type m) ++ [m]) =? n_nch me = false).
      { apply Nat.eqb_neq. rewrite !app_length in *. cbn [length] in *. lia. }
      rewrite E in Ha. rewrite <- Hflag in Ha at 1.
      rewrite (step_of_aggregate f2 f3 ns me r q0 m _ _ Hfm Ha).
      destruct (IH (qget q0 (p_type m) ++ [m]) (qset q0 (p_type m) (qget q0 (p_type m) ++ [m])))
        with (es0 := es0) as (q' & Hrun & Hq' & Hframe).
      + discriminate.
      + exact Hc'.
      + exact Hf'.
      + rewrite qget_qset, Nat.eqb_refl. reflexivity.
      + rewrite <- app_assoc. exact Hl.
      + rewrite <- app_assoc. exact Hv.
      + rewrite Hrun. exists q'. split; [|split; [exact Hq'|]].
        * cbn [length Nat.sub repeat app]. rewrite Nat.sub_0_r. reflexivity.
        * intros ty' Hne'. rewrite (Hframe ty' Hne'), qget_qset.
          apply Nat.eqb_neq in Hne'. now rewrite Hne'. }
  assert (Hne : rd <> []) by (destruct rd; [cbn in Hlen; lia|discriminate]).
  apply (G rd [] q Hne Hcol Hfrom Hq Hlen es). apply verify_all_valid. exact Hver.
Qed.

(* A message from the PARENT of an aggregated type is handed over at once, as a
   batch of one, and nothing is stored. *)
Theorem parent_bypass_delivered f2 f3 ns me r q m k e :
  from_parent me m = true -> lookup r (p_type m) = Some (k, true) ->
  verify f2 ns m = VOk e ->
  step f2 f3 ns me r q m =
    (q, ([{| d_type := p_type m; d_kind := k; d_agg := true; d_batch := [e] |}], SOk)).
Proof.
  intros Hfp Hreg Hv.
  assert (Hf : p_from m <> None).
  { unfold from_parent in Hfp. destruct (n_par me); destruct (p_from m); congruence. }
  assert (Hnp : no_panic me m) by (right; exact Hf).
  pose proof (aggregate_bypass me (agg_flag r (p_type m)) q m Hnp (or_introl Hfp)) as Ha.
  rewrite (step_of_aggregate f2 f3 ns me r q m _ _ Hf Ha), Hreg.
  unfold dispatch, dispatch_raw. cbn [verify_all]. rewrite Hv. now destruct k.
Qed.

(* A message of a NON-aggregated type is handed over at once, alone, whoever
   sent it (child or parent), and nothing is stored. *)
Theorem single_bypass_delivered f2 f3 ns me r q m k e :
  p_from m <> None -> lookup r (p_type m) = Some (k, false) ->
  verify f2 ns m = VOk e ->
  step f2 f3 ns me r q m =
    (q, ([{| d_type := p_type m; d_kind := k; d_agg := false; d_batch := [e] |}], SOk)).
Proof.
  intros Hf Hreg Hv.
  assert (Hflag : agg_flag r (p_type m) = false) by (unfold agg_flag; now rewrite Hreg).
  pose proof (aggregate_bypass me (agg_flag r (p_type m)) q m (or_intror Hf) (or_intror Hflag)) as Ha.
  rewrite (step_of_aggregate f2 f3 ns me r q m _ _ Hf Ha), Hreg.
  unfold dispatch, dispatch_raw. cbn [deliver_each]. rewrite Hv. now destruct k.
Qed.

(* ------------------------------------------- several instances at once -- *)

(* a message for another instance leaves this instance's queues alone *)
Theorem instances_frame f c s x s' res i :
  step_inj f c s x = (s', res) -> i <> i_inst x -> sget s' i = sget s i.
Proof.
  unfold step_inj. intros H Hne.
  destruct (nth_error (c_insts c) (i_inst x)) as [toid|]; [|injection H as <- _; reflexivity].
  destruct (search (nodes (c_tree c)) toid) as [[mepos me]|]; [|injection H as <- _; reflexivity].
  destruct (step _ _ _ _ _ _ _) as [q' [ds st]]. injection H as <- _.
  rewrite sget_sset. apply Nat.eqb_neq in Hne. now rewrite Hne.
Qed.

(* ... and what happens to a message depends on the state only through the
   queues of its own instance *)
Theorem instances_ext f c s1 s2 x :
  sget s1 (i_inst x) = sget s2 (i_inst x) ->
  snd (step_inj f c s1 x) = snd (step_inj f c s2 x) /\
  sget (fst (step_inj f c s1 x)) (i_inst x) = sget (fst (step_inj f c s2 x)) (i_inst x).
Proof.
  intros H. unfold step_inj.
  destruct (nth_error (c_insts c) (i_inst x)) as [toid|]; [|cbn; auto].
  destruct (search (nodes (c_tree c)) toid) as [[mepos me]|]; [|cbn; auto].
  rewrite H. destruct (step _ _ _ _ _ _ _) as [q' [ds st]]. cbn [fst snd].
  rewrite !sget_sset, Nat.eqb_refl. auto.
Qed.

(* Two instances on one server, any interleaving: restricted to the messages
   of instance [i], the run is the run of those messages alone -- as long as
   the process lives (no crash), which the repaired variant guarantees and the
   pinned variant guarantees for messages that carry a sender token. *)
Definition for_inst (i : nat) (x : inj) : bool := i_inst x =? i.

Theorem instances_independent f c i : forall l s1 s2,
  sget s1 i = sget s2 i ->
  existsb is_crash (run_from f c s1 l) = false ->
  map snd (filter (fun p => for_inst i (fst p)) (combine l (run_from f c s1 l))) =
  run_from f c s2 (filter (for_inst i) l).
Proof.
  induction l as [|x l IH]; intros s1 s2 Hs Hnc; [reflexivity|].
  cbn [run_from] in *. destruct (step_inj f c s1 x) as [s1' res1] eqn:E1.
  destruct (is_crash res1) eqn:Ec1.
  { cbn in Hnc. rewrite Ec1 in Hnc. discriminate. }
  cbn [existsb] in Hnc. rewrite Ec1 in Hnc. cbn [orb] in Hnc.
  cbn [combine filter fst]. destruct (for_inst i x) eqn:Ei; unfold for_inst in Ei.
  - apply Nat.eqb_eq in Ei. cbn [map snd run_from].
    assert (Hs' : sget s1 (i_inst x) = sget s2 (i_inst x)) by (rewrite Ei; exact Hs).
    destruct (instances_ext f c s1 s2 x Hs') as [Hres Hq]. rewrite E1 in Hres, Hq.
    destruct (step_inj f c s2 x) as [s2' res2]. cbn [fst snd] in Hres, Hq. subst res2.
    rewrite Ec1. f_equal. apply IH; [rewrite <- Ei; exact Hq|exact Hnc].
  - apply IH; [|exact Hnc].
    assert (Hne : i <> i_inst x) by (apply Nat.eqb_neq in Ei; congruence).
    rewrite (instances_frame f c s1 x s1' res1 i E1 Hne). exact Hs.
Qed.

Theorem bypass_delivered f2 f3 ns me r q m k e :
  verify f2 ns m = VOk e ->
  (from_parent me m = true -> lookup r (p_type m) = Some (k, true) ->
   step f2 f3 ns me r q m =
     (q, ([{| d_type := p_type m; d_kind := k; d_agg := true; d_batch := [e] |}], SOk))) /\
  (p_from m <> None -> lookup r (p_type m) = Some (k, false) ->
   step f2 f3 ns me r q m =
     (q, ([{| d_type := p_type m; d_kind := k; d_agg := false; d_batch := [e] |}], SOk))).
Proof.
  intros Hv. split.
  - intros Hfp Hreg. apply parent_bypass_delivered; assumption.
  - intros Hf Hreg. apply single_bypass_delivered; assumption.
Qed.

(* ------------------------------ the variants agree on known senders -- *)

Lemma verify_known f f' ns m : known_sender ns m -> p_from m <> None -> verify f ns m = verify f' ns m.
Proof.
  intros Hk Hf. unfold verify. destruct (p_from m) as [id|] eqn:E; [|congruence].
  destruct (search ns id) as [[p x]|] eqn:Es; [reflexivity|].
  exfalso. destruct (Hk id E) as (n & Hn & Hid). rewrite search_none in Es. exact (Es n Hn Hid).
Qed.

Definition known (ns : list ninfo) (m : pmsg) : Prop := known_sender ns m /\ p_from m <> None.

Lemma verify_all_known f f' ns l : Forall (known ns) l -> verify_all f ns l = verify_all f' ns l.
Proof.
  induction 1 as [|m l [Hk Hf] _ IH]; cbn [verify_all]; [reflexivity|].
  rewrite (verify_known f f' ns m Hk Hf), IH. reflexivity.
Qed.

Lemma deliver_each_known f f' ns ty k l : Forall (known ns) l -> deliver_each f ns ty k l = deliver_each f' ns ty k l.
Proof.
  induction 1 as [|m l [Hk Hf] _ IH]; cbn [deliver_each]; [reflexivity|].
  rewrite (verify_known f f' ns m Hk Hf), IH. reflexivity.
Qed.

Lemma step_known f2 f3 f2' f3' ns me r q m :
  qall (known ns) q -> known ns m ->
  step f2 f3 ns me r q m = step f2' f3' ns me r q m /\
  qall (known ns) (fst (step f2 f3 ns me r q m)).
Proof.
  intros Hq [Hk Hf]. unfold step.
  assert (G : forall b, b && is_none (p_from m) = false).
  { intros b. destruct (p_from m); [apply andb_false_r|congruence]. }
  rewrite !G. unfold step_core.
  destruct (aggregate me (agg_flag r (p_type m)) q m) as [q1 a] eqn:Ea.
  destruct (aggregate_inv (known ns) _ _ _ _ _ _ Hq (conj Hk Hf) Ea) as [Hq1 Hb].
  destruct a as [b| |]; cbn [fst]; try (split; [reflexivity|exact Hq1]).
  destruct (lookup r (p_type m)) as [[k agg]|]; cbn [fst]; [|split; [reflexivity|exact Hq1]].
  unfold dispatch, dispatch_raw. specialize (Hb b eq_refl).
  rewrite (verify_all_known f2 f2' ns b Hb), (deliver_each_known f2 f2' ns (p_type m) k b Hb).
  split; [reflexivity|exact Hq1].
Qed.

Theorem variants_agree f f' c l :
  (forall x, In x l -> exists id, w_from (i_wire x) = Some id /\
                        exists n, In n (nodes (c_tree c)) /\ n_id n = id) ->
  run f c l = run f' c l.
Proof.
  unfold run. set (ns := nodes (c_tree c)).
  assert (G : forall l0 s, (forall x, In x l0 -> In x l) -> sall (known ns) s ->
            (forall x, In x l -> known ns (process (i_env x) (i_wire x))) ->
            run_from f c s l0 = run_from f' c s l0).
  { induction l0 as [|x l0 IH]; intros s Hsub Hs Hk; [reflexivity|]. cbn [run_from].
    assert (E : step_inj f c s x = step_inj f' c s x /\ sall (known ns) (fst (step_inj f c s x))).
    { unfold step_inj. destruct (nth_error (c_insts c) (i_inst x)) as [toid|]; [|split; [reflexivity|exact Hs]].
      fold ns. destruct (search ns toid) as [[mepos me]|]; [|split; [reflexivity|exact Hs]].
      destruct (step_known (fix_f02 f) (fix_f03 f) (fix_f02 f') (fix_f03 f') ns me (c_regs c)
                  (sget s (i_inst x)) (process (i_env x) (i_wire x)) (Hs (i_inst x))
                  (Hk x (Hsub x (or_introl eq_refl)))) as [E1 E2].
      rewrite <- E1. destruct (step (fix_f02 f) (fix_f03 f) ns me (c_regs c) (sget s (i_inst x))
                                 (process (i_env x) (i_wire x))) as [q' [ds st]].
      cbn [fst] in *. split; [reflexivity|]. apply sall_sset; assumption. }
    destruct E as [E1 E2]. rewrite <- E1. destruct (step_inj f c s x) as [s' res]. cbn [fst] in E2.
    destruct (is_crash res); [reflexivity|]. f_equal. apply IH; [|exact E2|exact Hk].
    intros y Hy. apply Hsub. now right. }
  intros Hall. apply G; [auto|apply sall_nil|].
  intros x Hx. destruct (Hall x Hx) as (id & Hid & n & Hn & Hnid). split.
  - intros id' Hid'. cbn in Hid'. rewrite Hid in Hid'. injection Hid' as <-. exists n. auto.
  - cbn. congruence.
Qed.
