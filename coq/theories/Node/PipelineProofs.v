(* PROOFS for the linked model Node/Pipeline.v: for every interleaving of
   feeders, readers and closes over any number of instances,
   (1) the C05 component of the combined run is the C05 run;
   (2) the log of instance i is the sequential semantics [run_from f c []] of
       Node/Instance.v on the messages its reader has started;
   (3) which are a prefix of the accepted ones (all of them at quiescence);
   (4) so the C02 theorems hold for everything any handler or channel ever
       receives in the combined system.  (The C04 corollary, which needs the
       property's reading of Corr/C04.v, is in Node/PipelineC04Proofs.v.) *)
From Coq Require Import List Arith Bool Lia.
Import ListNotations.
From Onet Require Node.Dispatch Node.DispatchProofs.
From Onet Require Import Node.Instance Node.VerifyProofs Node.AggregateProofs Node.Pipeline.

(* ---------------------------------------- the sequential semantics, by snoc -- *)

Lemma state_after_app f c s l1 l2 :
  state_after f c s (l1 ++ l2) = state_after f c (state_after f c s l1) l2.
Proof. unfold state_after. apply fold_left_app. Qed.

Lemma run_from_app f c : forall l1 s l2,
  existsb is_crash (run_from f c s l1) = false ->
  run_from f c s (l1 ++ l2) = run_from f c s l1 ++ run_from f c (state_after f c s l1) l2.
Proof.
  induction l1 as [|x l1 IH]; intros s l2 Hnc; [reflexivity|].
  cbn [app run_from] in *. unfold state_after. cbn [fold_left].
  destruct (step_inj f c s x) as [s' res]. cbn [fst].
  destruct (is_crash res) eqn:E.
  - cbn in Hnc. rewrite E in Hnc. discriminate.
  - cbn [existsb] in Hnc. rewrite E in Hnc. cbn [orb] in Hnc. cbn [app]. f_equal.
    apply IH. exact Hnc.
Qed.

Lemma run_from_snoc f c s l x :
  existsb is_crash (run_from f c s l) = false ->
  run_from f c s (l ++ [x]) = run_from f c s l ++ [snd (step_inj f c (state_after f c s l) x)].
Proof.
  intros Hnc. rewrite (run_from_app f c l s [x] Hnc). f_equal. cbn [run_from].
  destruct (step_inj f c (state_after f c s l) x) as [s' res]. cbn [snd]. now destruct (is_crash res).
Qed.

(* ------------------------------------------------------ one C05 step -- *)

Lemma dstep_shape s i a s' ci :
  Dispatch.step s (i, a) = Some s' -> nth_error s i = Some ci ->
  exists ci', Dispatch.istep ci a = Some ci' /\ s' = Dispatch.upd s i ci'.
Proof.
  unfold Dispatch.step. cbn [fst snd]. intros H Hi. rewrite Hi in H.
  destruct (Dispatch.istep ci a) as [ci'|]; [|discriminate]. injection H as <-. eauto.
Qed.

(* what an action does to the history of handler starts *)
Lemma istep_started ci a ci' :
  Dispatch.istep ci a = Some ci' ->
  Dispatch.started ci' = Dispatch.started ci ++ match popped ci a with Some m => [m] | None => [] end.
Proof.
  unfold popped. destruct a as [m| | | |]; cbn [Dispatch.istep].
  - destruct (Dispatch.closing ci); intros H; injection H as <-; cbn; now rewrite app_nil_r.
  - destruct (Dispatch.reader ci); try discriminate.
    destruct (Dispatch.closing ci); [intros H; injection H as <-; cbn; now rewrite app_nil_r|].
    destruct (Dispatch.queue ci) as [|m q]; intros H; injection H as <-; cbn; [now rewrite app_nil_r|reflexivity].
  - destruct (Dispatch.reader ci); try discriminate.
    destruct (Dispatch.tok ci); [|destruct (Dispatch.chclosed ci); [|discriminate]];
      intros H; injection H as <-; cbn; now rewrite app_nil_r.
  - destruct (Dispatch.reader ci); try discriminate. intros H; injection H as <-; cbn; now rewrite app_nil_r.
  - destruct (Dispatch.closing ci); [discriminate|]. intros H; injection H as <-; cbn; now rewrite app_nil_r.
Qed.

Lemma popped_running ci a ci' m :
  Dispatch.istep ci a = Some ci' -> popped ci a = Some m -> Dispatch.reader ci' = Dispatch.RRunning m.
Proof.
  unfold popped. destruct a; try discriminate. cbn [Dispatch.istep].
  destruct (Dispatch.reader ci); try discriminate. destruct (Dispatch.closing ci); [discriminate|].
  destruct (Dispatch.queue ci) as [|m0 q]; [discriminate|]. intros H1 H2. injection H1 as <-. injection H2 as <-.
  reflexivity.
Qed.

(* ------------------------------------------------------- the invariant -- *)

Section Linked.
Variable f : fixes.
Variable c : config.
Variable tbl : nat -> inj.

Lemma ilog_app i l1 l2 : ilog i (l1 ++ l2) = ilog i l1 ++ ilog i l2.
Proof. unfold ilog. now rewrite filter_app, map_app. Qed.

Lemma ilog_one_same i r : ilog i [(i, r)] = [r].
Proof. unfold ilog. cbn. now rewrite Nat.eqb_refl. Qed.

Lemma ilog_one_other i j r : i <> j -> ilog j [(i, r)] = [].
Proof. intros H. unfold ilog. cbn. apply Nat.eqb_neq in H. now rewrite H. Qed.

Definition PInv (st : pstate) : Prop :=
  (forall i ci, nth_error (p_sys st) i = Some ci ->
     ilog i (p_log st) = run_from f c [] (started_inj tbl i ci)) /\
  (p_dead st = false -> forall i ci, nth_error (p_sys st) i = Some ci ->
     sget (p_q st) i = sget (state_after f c [] (started_inj tbl i ci)) i /\
     existsb is_crash (ilog i (p_log st)) = false).

Lemma PInv_init n : PInv (pinit n).
Proof.
  split.
  - intros i ci H. cbn in H. apply nth_error_In in H. apply repeat_spec in H. subst. reflexivity.
  - intros _ i ci H. cbn in H. apply nth_error_In in H. apply repeat_spec in H. subst. split; reflexivity.
Qed.

Lemma started_inj_app i ci ci' ms :
  Dispatch.started ci' = Dispatch.started ci ++ ms ->
  started_inj tbl i ci' = started_inj tbl i ci ++ map (fun m => with_inst i (tbl m)) ms.
Proof. intros H. unfold started_inj. now rewrite H, map_app. Qed.

Lemma pstep_inv st ia st' : PInv st -> pstep f c tbl st ia = Some st' -> PInv st'.
Proof.
  intros [Ha Hb] H. unfold pstep in H. destruct ia as [i a]. cbn [fst snd] in H.
  destruct (p_dead st) eqn:Ed; [discriminate|]. specialize (Hb eq_refl).
  destruct (nth_error (p_sys st) i) as [ci|] eqn:Eci; [|discriminate].
  destruct (Dispatch.step (p_sys st) (i, a)) as [sys'|] eqn:Est; [|discriminate].
  destruct (dstep_shape _ _ _ _ _ Est Eci) as (ci' & Hi & ->).
  assert (Hlen : i < length (p_sys st)) by (apply nth_error_Some; congruence).
  pose proof (istep_started ci a ci' Hi) as Hst.
  destruct (popped ci a) as [m|] eqn:Epop.
  - (* the reader of instance i pops m: dispatchMsgToProtocol runs *)
    set (x := with_inst i (tbl m)) in *.
    destruct (step_inj f c (p_q st) x) as [q' res] eqn:Estep.
    injection H as <-. unfold PInv. cbn [p_sys p_q p_log p_dead].
    destruct (Hb i ci Eci) as [Hq Hnc].
    assert (Hx : i_inst x = i) by reflexivity.
    assert (Hsq : sget (p_q st) (i_inst x) = sget (state_after f c [] (started_inj tbl i ci)) (i_inst x))
      by (rewrite Hx; exact Hq).
    destruct (instances_ext f c _ _ x Hsq) as [Hres Hq'].
    rewrite Estep in Hres, Hq'. cbn [fst snd] in Hres, Hq'. rewrite Hx in Hq'.
    assert (HL : started_inj tbl i ci' = started_inj tbl i ci ++ [x])
      by (rewrite (started_inj_app i ci ci' [m] Hst); reflexivity).
    assert (Hlog : ilog i (p_log st ++ [(i, res)]) = run_from f c [] (started_inj tbl i ci')).
    { rewrite ilog_app, ilog_one_same, HL, (Ha i ci Eci).
      rewrite run_from_snoc by (rewrite <- (Ha i ci Eci); exact Hnc). now rewrite Hres. }
    split.
    + intros j cj Hj. destruct (Nat.eq_dec i j) as [<-|Hne].
      * rewrite DispatchProofs.nth_error_upd_same in Hj by exact Hlen. injection Hj as <-. exact Hlog.
      * rewrite DispatchProofs.nth_error_upd_other in Hj by exact Hne.
        rewrite ilog_app, (ilog_one_other i j res Hne), app_nil_r. apply Ha. exact Hj.
    + intros Hdead j cj Hj. destruct (Nat.eq_dec i j) as [<-|Hne].
      * rewrite DispatchProofs.nth_error_upd_same in Hj by exact Hlen. injection Hj as <-. split.
        -- rewrite HL, state_after_app. unfold state_after at 1. cbn [fold_left]. exact Hq'.
        -- rewrite ilog_app, ilog_one_same, existsb_app, Hnc. cbn. now rewrite Hdead.
      * rewrite DispatchProofs.nth_error_upd_other in Hj by exact Hne.
        destruct (Hb j cj Hj) as [Hqj Hncj]. split.
        -- rewrite <- Hqj. apply (instances_frame f c (p_q st) x q' res j Estep). rewrite Hx. congruence.
        -- rewrite ilog_app, (ilog_one_other i j res Hne), app_nil_r. exact Hncj.
  - (* any other action: histories of starts, msgQueues and log unchanged *)
    injection H as <-. unfold PInv. cbn [p_sys p_q p_log p_dead]. rewrite app_nil_r in Hst.
    assert (HL : started_inj tbl i ci' = started_inj tbl i ci) by (unfold started_inj; now rewrite Hst).
    split.
    + intros j cj Hj. destruct (Nat.eq_dec i j) as [<-|Hne].
      * rewrite DispatchProofs.nth_error_upd_same in Hj by exact Hlen. injection Hj as <-.
        rewrite HL. apply Ha. exact Eci.
      * rewrite DispatchProofs.nth_error_upd_other in Hj by exact Hne. apply Ha. exact Hj.
    + intros _ j cj Hj. destruct (Nat.eq_dec i j) as [<-|Hne].
      * rewrite DispatchProofs.nth_error_upd_same in Hj by exact Hlen. injection Hj as <-.
        rewrite HL. apply Hb. exact Eci.
      * rewrite DispatchProofs.nth_error_upd_other in Hj by exact Hne. apply Hb. exact Hj.
Qed.

Lemma prun_inv acts : forall st st', PInv st -> prun f c tbl st acts = Some st' -> PInv st'.
Proof.
  induction acts as [|a r IH]; intros st st' Hinv H; cbn [prun] in H.
  - now injection H as <-.
  - destruct (pstep f c tbl st a) as [st1|] eqn:E; [|discriminate].
    eapply IH; [|exact H]. eapply pstep_inv; eauto.
Qed.

(* --------------------------------------------------- (1) projection -- *)

Lemma pstep_proj st ia st' :
  pstep f c tbl st ia = Some st' -> Dispatch.step (p_sys st) ia = Some (p_sys st').
Proof.
  unfold pstep. destruct (p_dead st); [discriminate|].
  destruct (nth_error (p_sys st) (fst ia)) as [ci|]; [|discriminate].
  destruct (Dispatch.step (p_sys st) ia) as [sys'|]; [|discriminate].
  destruct (popped ci (snd ia)).
  - destruct (step_inj f c (p_q st) _) as [q' res]. intros H. injection H as <-. reflexivity.
  - intros H. injection H as <-. reflexivity.
Qed.

Theorem pipeline_projection acts : forall st st',
  prun f c tbl st acts = Some st' -> Dispatch.run (p_sys st) acts = Some (p_sys st').
Proof.
  induction acts as [|a r IH]; intros st st' H; cbn [prun Dispatch.run] in *.
  - now injection H as <-.
  - destruct (pstep f c tbl st a) as [st1|] eqn:E; [|discriminate].
    rewrite (pstep_proj st a st1 E). apply IH. exact H.
Qed.

(* --------------------------------------------------- (2) the log -- *)

Theorem pipeline_log n acts st i ci :
  prun f c tbl (pinit n) acts = Some st -> nth_error (p_sys st) i = Some ci ->
  ilog i (p_log st) = run f c (started_inj tbl i ci).
Proof.
  intros H Hi. destruct (prun_inv acts (pinit n) st (PInv_init n) H) as [Ha _]. exact (Ha i ci Hi).
Qed.

(* the process is dead exactly when a panic has been logged *)
Lemma pstep_dead st ia st' :
  pstep f c tbl st ia = Some st' ->
  p_dead st = existsb is_crash (map snd (p_log st)) ->
  p_dead st' = existsb is_crash (map snd (p_log st')).
Proof.
  unfold pstep. destruct (p_dead st) eqn:Ed; [discriminate|]. intros H Hd.
  destruct (nth_error (p_sys st) (fst ia)) as [ci|]; [|discriminate].
  destruct (Dispatch.step (p_sys st) ia) as [sys'|]; [|discriminate].
  destruct (popped ci (snd ia)).
  - destruct (step_inj f c (p_q st) _) as [q' res]. injection H as <-. cbn [p_dead p_log].
    rewrite map_app, existsb_app, <- Hd. cbn. now rewrite orb_false_r.
  - injection H as <-. exact Hd.
Qed.

Theorem pipeline_dead n acts st :
  prun f c tbl (pinit n) acts = Some st -> p_dead st = existsb is_crash (map snd (p_log st)).
Proof.
  assert (G : forall acts st0 st1, prun f c tbl st0 acts = Some st1 ->
            p_dead st0 = existsb is_crash (map snd (p_log st0)) ->
            p_dead st1 = existsb is_crash (map snd (p_log st1))).
  { induction acts0 as [|a r IH]; intros st0 st1 H Hd; cbn [prun] in H.
    - now injection H as <-.
    - destruct (pstep f c tbl st0 a) as [st2|] eqn:E; [|discriminate].
      eapply IH; [exact H|]. eapply pstep_dead; eauto. }
  intros H. apply (G acts (pinit n) st H). reflexivity.
Qed.

(* --------------------------------------------------- (3) order -- *)

(* the started messages are a prefix of the accepted ones (C05 fifo), so the
   log is the sequential semantics on a prefix of the accepted sequence ... *)
Theorem pipeline_order n acts st i ci :
  prun f c tbl (pinit n) acts = Some st -> nth_error (p_sys st) i = Some ci ->
  ilog i (p_log st) = run f c (started_inj tbl i ci) /\
  accepted_inj tbl i ci =
    started_inj tbl i ci ++ map (fun m => with_inst i (tbl m)) (Dispatch.queue ci).
Proof.
  intros H Hi. split; [eapply pipeline_log; eauto|].
  pose proof (pipeline_projection acts (pinit n) st H) as Hp. cbn [pinit p_sys] in Hp.
  unfold accepted_inj, started_inj. rewrite (DispatchProofs.fifo n acts (p_sys st) i ci Hp Hi).
  apply map_app.
Qed.

(* ... and on exactly the accepted sequence once the queue is drained *)
Theorem pipeline_quiescent n acts st i ci :
  prun f c tbl (pinit n) acts = Some st -> nth_error (p_sys st) i = Some ci ->
  Dispatch.queue ci = [] ->
  ilog i (p_log st) = run f c (accepted_inj tbl i ci).
Proof.
  intros H Hi Hq. destruct (pipeline_order n acts st i ci H Hi) as [Hl Ha].
  rewrite Ha, Hq. cbn [map]. rewrite app_nil_r. exact Hl.
Qed.

(* the handler currently running is the last log entry's message: mutual
   exclusion and crash-freedom of the wake-up channel transfer as they are *)
Theorem pipeline_c05 n acts st i ci :
  prun f c tbl (pinit n) acts = Some st -> nth_error (p_sys st) i = Some ci ->
  Dispatch.accepted ci = Dispatch.started ci ++ Dispatch.queue ci /\
  Dispatch.started ci = Dispatch.ended ci ++ DispatchProofs.running ci /\
  Dispatch.crashed ci = false.
Proof.
  intros H Hi. pose proof (pipeline_projection acts (pinit n) st H) as Hp. cbn [pinit p_sys] in Hp.
  split; [exact (DispatchProofs.fifo n acts _ i ci Hp Hi)|].
  split; [exact (proj1 (DispatchProofs.mutual_exclusion n acts _ i ci Hp Hi))|].
  exact (DispatchProofs.close_safe n acts _ i ci Hp Hi).
Qed.

(* ------------------------------- (1') the other direction: no panic, no halt -- *)

Definition panic_free : Prop :=
  fix_f03 f = true \/ forall m, w_from (i_wire (tbl m)) <> None.

Lemma started_inj_senders i ci : panic_free ->
  fix_f03 f = true \/ forall x, In x (started_inj tbl i ci) -> w_from (i_wire x) <> None.
Proof.
  intros [H|H]; [now left|right]. intros x Hx. unfold started_inj in Hx.
  apply in_map_iff in Hx as (m & <- & _). cbn. apply H.
Qed.

Lemma pstep_alive st ia st' :
  panic_free -> PInv st -> pstep f c tbl st ia = Some st' -> p_dead st' = false.
Proof.
  intros Hpf Hinv H. pose proof (pstep_inv st ia st' Hinv H) as [Ha' _].
  revert H. unfold pstep. destruct (p_dead st); [discriminate|].
  destruct ia as [i a]. cbn [fst snd].
  destruct (nth_error (p_sys st) i) as [ci|] eqn:Eci; [|discriminate].
  destruct (Dispatch.step (p_sys st) (i, a)) as [sys'|] eqn:Est; [|discriminate].
  destruct (popped ci a) as [m|]; [|intros H; injection H as <-; reflexivity].
  destruct (step_inj f c (p_q st) _) as [q' res]. intros H. injection H as <-. cbn [p_dead].
  destruct (dstep_shape _ _ _ _ _ Est Eci) as (ci' & _ & ->).
  assert (Hlen : i < length (p_sys st)) by (apply nth_error_Some; congruence).
  cbn [p_sys p_log] in Ha'.
  specialize (Ha' i ci' (DispatchProofs.nth_error_upd_same _ _ _ Hlen)).
  destruct (no_crash f c (started_inj tbl i ci') (started_inj_senders i ci' Hpf)) as [Hnc _].
  unfold crashed, run in Hnc. rewrite <- Ha', ilog_app, ilog_one_same, existsb_app in Hnc.
  apply orb_false_iff in Hnc as [_ Hnc]. cbn in Hnc. now rewrite orb_false_r in Hnc.
Qed.

(* with the F03 repair (or when every message carries a sender token) the
   combined system does whatever the C05 system does: it never halts early *)
Theorem pipeline_total acts : forall st s,
  panic_free -> PInv st -> p_dead st = false ->
  Dispatch.run (p_sys st) acts = Some s ->
  exists st', prun f c tbl st acts = Some st' /\ p_sys st' = s /\ p_dead st' = false.
Proof.
  induction acts as [|[i a] r IH]; intros st s Hpf Hinv Hd H; cbn [Dispatch.run prun] in *.
  - injection H as <-. eauto.
  - destruct (Dispatch.step (p_sys st) (i, a)) as [s1|] eqn:Est; [|discriminate].
    assert (E : exists st1, pstep f c tbl st (i, a) = Some st1).
    { unfold pstep. rewrite Hd, Est. cbn [fst snd].
      destruct (nth_error (p_sys st) i) as [ci|] eqn:Eci.
      - destruct (popped ci a); [destruct (step_inj f c (p_q st) _)|]; eauto.
      - unfold Dispatch.step in Est. cbn [fst] in Est. rewrite Eci in Est. discriminate. }
    destruct E as [st1 E]. rewrite E.
    pose proof (pstep_proj st (i, a) st1 E) as Hp. rewrite Est in Hp. injection Hp as Hp.
    apply IH; [exact Hpf|eapply pstep_inv; eauto|eapply pstep_alive; eauto|]. rewrite <- Hp. exact H.
Qed.

(* ------------------------------------------- (4) C02 under every interleaving -- *)

(* Everything a handler or a channel of any instance ever receives, in any
   reachable state of the combined system: the node handed over is a node of
   the tree, it is the node the message names, it is hosted by the key on the
   envelope that message id arrived in (or the message was injected without an
   envelope identity), and the message is one that instance accepted. *)
Theorem pipeline_authentic n acts st i ci ds s0 d pos m :
  prun f c tbl (pinit n) acts = Some st -> nth_error (p_sys st) i = Some ci ->
  In (i, RStep ds s0) (p_log st) -> In d ds -> In (EMsg pos m) (d_batch d) ->
  exists mid nd,
    In mid (Dispatch.accepted ci) /\
    nth_error (nodes (c_tree c)) pos = Some nd /\
    w_from (i_wire (tbl mid)) = Some (n_id nd) /\
    (i_env (tbl mid) = PNone \/ i_env (tbl mid) = PKey (n_srv nd)) /\
    p_payload m = w_payload (i_wire (tbl mid)) /\ p_type m = w_type (i_wire (tbl mid)) /\
    ~ invalid_sender (nodes (c_tree c)) (p_from m) (p_peer m).
Proof.
  intros H Hi Hlog Hd He.
  pose proof (pipeline_log n acts st i ci H Hi) as Hl.
  assert (Hin : In (RStep ds s0) (ilog i (p_log st))).
  { unfold ilog. apply in_map_iff. exists (i, RStep ds s0). split; [reflexivity|].
    apply filter_In. split; [exact Hlog|]. cbn. apply Nat.eqb_refl. }
  rewrite Hl in Hin.
  assert (Hdel : In d (all_deliveries (run f c (started_inj tbl i ci)))).
  { unfold all_deliveries. apply in_flat_map. exists (RStep ds s0). split; [exact Hin|exact Hd]. }
  destruct (authentic_delivery_spelled f c _ d pos m Hdel He) as (x & nd & Hx & Hn & Hf & Hp & Hpl & Hty).
  unfold started_inj in Hx. apply in_map_iff in Hx as (mid & <- & Hmid).
  exists mid, nd. cbn in Hf, Hp, Hpl, Hty.
  destruct (pipeline_c05 n acts st i ci H Hi) as (Hfifo & _).
  repeat split; try assumption.
  - rewrite Hfifo. apply in_or_app. now left.
  - exact (invalid_never_delivered f c _ d pos m Hdel He).
Qed.

(* no empty placeholder and no panic, under every interleaving, for the
   repaired code *)
Theorem pipeline_no_placeholder n acts st i ds s0 d :
  fix_f02 f = true ->
  prun f c tbl (pinit n) acts = Some st ->
  In (i, RStep ds s0) (p_log st) -> In d ds -> ~ In EZero (d_batch d).
Proof.
  intros Hf2 H Hlog Hd.
  destruct (nth_error (p_sys st) i) as [ci|] eqn:Hi.
  - pose proof (pipeline_log n acts st i ci H Hi) as Hl.
    assert (Hin : In (RStep ds s0) (ilog i (p_log st))).
    { unfold ilog. apply in_map_iff. exists (i, RStep ds s0). split; [reflexivity|].
      apply filter_In. split; [exact Hlog|]. cbn. apply Nat.eqb_refl. }
    rewrite Hl in Hin.
    pose proof (no_placeholder f c (started_inj tbl i ci) (or_introl Hf2)) as Hnz.
    rewrite Forall_forall in Hnz. apply Hnz. unfold all_deliveries. apply in_flat_map.
    exists (RStep ds s0). split; [exact Hin|exact Hd].
  - (* an instance outside the system has no log *)
    exfalso. clear Hd. revert Hlog Hi.
    assert (G : forall acts0 st0 st1, prun f c tbl st0 acts0 = Some st1 ->
              (forall j r, In (j, r) (p_log st0) -> j < length (p_sys st0)) ->
              (forall j r, In (j, r) (p_log st1) -> j < length (p_sys st1))).
    { induction acts0 as [|a r IH]; intros st0 st1 Hr Hb; cbn [prun] in Hr.
      - now injection Hr as <-.
      - destruct (pstep f c tbl st0 a) as [st2|] eqn:E; [|discriminate].
        apply (IH st2 st1 Hr). clear IH Hr. unfold pstep in E.
        destruct (p_dead st0); [discriminate|].
        destruct (nth_error (p_sys st0) (fst a)) as [cj|] eqn:Ej; [|discriminate].
        destruct (Dispatch.step (p_sys st0) a) as [sys'|] eqn:Es; [|discriminate].
        destruct a as [j0 a0]. cbn [fst snd] in *.
        destruct (dstep_shape _ _ _ _ _ Es Ej) as (cj' & _ & ->).
        assert (Hl0 : j0 < length (p_sys st0)) by (apply nth_error_Some; congruence).
        destruct (popped cj a0).
        + destruct (step_inj f c (p_q st0) _) as [q' res]. injection E as <-. cbn [p_log p_sys].
          intros j r0 Hin. rewrite DispatchProofs.upd_length. apply in_app_or in Hin as [Hin|[Hin|[]]].
          * eapply Hb; eauto.
          * injection Hin as <- _. exact Hl0.
        + injection E as <-. cbn [p_log p_sys]. intros j r0 Hin. rewrite DispatchProofs.upd_length. eapply Hb; eauto. }
    intros Hlog Hi. apply nth_error_None in Hi.
    pose proof (G acts (pinit n) st H (fun j r (Hf : In (j, r) []) => match Hf with end) i _ Hlog). lia.
Qed.

Theorem pipeline_no_panic n acts st :
  panic_free -> prun f c tbl (pinit n) acts = Some st ->
  p_dead st = false /\ forall i r, In (i, r) (p_log st) -> is_crash r = false.
Proof.
  intros Hpf H.
  assert (G : forall acts0 st0 st1, PInv st0 -> p_dead st0 = false ->
            prun f c tbl st0 acts0 = Some st1 -> p_dead st1 = false).
  { induction acts0 as [|a r IH]; intros st0 st1 Hinv Hd Hr; cbn [prun] in Hr.
    - now injection Hr as <-.
    - destruct (pstep f c tbl st0 a) as [st2|] eqn:E; [|discriminate].
      apply (IH st2 st1); [eapply pstep_inv; eauto|eapply pstep_alive; eauto|exact Hr]. }
  pose proof (G acts (pinit n) st (PInv_init n) eq_refl H) as Hd. split; [exact Hd|].
  rewrite (pipeline_dead n acts st H) in Hd. intros i r Hin.
  destruct (is_crash r) eqn:E; [|reflexivity].
  assert (existsb is_crash (map snd (p_log st)) = true); [|congruence].
  apply existsb_exists. exists r. split; [|exact E]. apply in_map_iff. exists (i, r). auto.
Qed.

End Linked.

(* ------------------------------------------------------------ example -- *)

(* two instances on the root of a three-node tree; type 2 is registered as an
   aggregated handler; message ids 1,2 (children 1 and 2 -> instance 0) and 3,4
   (-> instance 1).  Feeders and readers interleave; instance 0 receives its
   batch, instance 1 still waits for its second child. *)
Definition ex_cfg : config :=
  {| c_tree := T 0 0 [T 1 1 []; T 2 2 []]; c_insts := [0; 0]; c_regs := [(2, (Handler, true))] |}.

Definition ex_tbl (m : nat) : inj :=
  let child := if Nat.odd m then 1 else 2 in
  {| i_inst := 0; i_env := PKey child; i_decl := None;
     i_wire := {| w_from := Some child; w_from_other_tree := false; w_si := None; w_type := 2; w_payload := m |} |}.

Example pipeline_example :
  exists st,
    prun repaired ex_cfg ex_tbl (pinit 2)
      [(0, Dispatch.AAccept 1); (1, Dispatch.AAccept 3); (0, Dispatch.ACheck); (1, Dispatch.ACheck);
       (0, Dispatch.AAccept 2); (0, Dispatch.AEnd); (1, Dispatch.AEnd); (0, Dispatch.ACheck)] = Some st /\
    p_dead st = false /\
    ilog 0 (p_log st) =
      [RStep [] SWait;
       RStep [{| d_type := 2; d_kind := Handler; d_agg := true;
                 d_batch := [EMsg 1 {| p_from := Some 1; p_peer := PKey 1; p_type := 2; p_payload := 1 |};
                             EMsg 2 {| p_from := Some 2; p_peer := PKey 2; p_type := 2; p_payload := 2 |}] |}] SOk] /\
    ilog 1 (p_log st) = [RStep [] SWait].
Proof. eexists. vm_compute. repeat split. Qed.
