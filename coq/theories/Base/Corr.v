(* Generic combinators used by every correspondence file (Corr/Cxx.v).
   A cases file produced by the Go harness holds [cases : list case]; the
   property's Corr file supplies
     agree  : case -> bool        (model output = implementation observation)
     check  : case -> list nat    (clause numbers of the verified property
                                    checker that the OBSERVATION violates)
   and the driver reads the index lists printed for [mism] and [viol]. *)
From Coq Require Import List Arith Bool.
Import ListNotations.

Fixpoint idx_where {A} (bad : A -> bool) (l : list A) (i : nat) : list nat :=
  match l with
  | [] => []
  | x :: r => if bad x then i :: idx_where bad r (S i) else idx_where bad r (S i)
  end.

Definition mism_idx {A} (agree : A -> bool) (l : list A) : list nat :=
  idx_where (fun x => negb (agree x)) l 0.

Fixpoint viol_idx {A} (check : A -> list nat) (l : list A) (i : nat) : list (nat * nat) :=
  match l with
  | [] => []
  | x :: r => map (fun c => (i, c)) (check x) ++ viol_idx check r (S i)
  end.

Definition viols {A} (check : A -> list nat) (l : list A) : list (nat * nat) :=
  viol_idx check l 0.

(* clause helper: [clause n b] is [] when b holds and [n] otherwise *)
Definition clause (n : nat) (b : bool) : list nat := if b then [] else [n].

Lemma idx_where_nil {A} (bad : A -> bool) l i :
  idx_where bad l i = [] <-> forall x, In x l -> bad x = false.
Proof.
  revert i; induction l as [|x r IH]; intros i; simpl.
  - split; [intros _ y []|reflexivity].
  - destruct (bad x) eqn:E.
    + split; [discriminate|]. intros H. specialize (H x (or_introl eq_refl)). congruence.
    + rewrite IH. split.
      * intros H y [<-|Hy]; auto.
      * intros H y Hy; apply H; auto.
Qed.

Lemma mism_idx_nil {A} (agree : A -> bool) l :
  mism_idx agree l = [] <-> forall x, In x l -> agree x = true.
Proof.
  unfold mism_idx. rewrite idx_where_nil. split; intros H x Hx; specialize (H x Hx).
  - now apply negb_false_iff in H.
  - now rewrite H.
Qed.

Lemma viol_idx_nil {A} (check : A -> list nat) l i :
  viol_idx check l i = [] <-> forall x, In x l -> check x = [].
Proof.
  revert i; induction l as [|x r IH]; intros i; simpl.
  - split; [intros _ y []|reflexivity].
  - split.
    + intros H. apply app_eq_nil in H as [H1 H2].
      apply map_eq_nil in H1. rewrite IH in H2. intros y [<-|Hy]; auto.
    + intros H. rewrite (H x (or_introl eq_refl)). simpl. apply IH. intros y Hy; apply H; auto.
Qed.
