(* Hex decoding for the C20 cases files: the Go harness passes every Go string
   (arbitrary bytes) as a lower-case hex literal; [unhex] turns it into the
   byte list the model works on.  A malformed literal (never produced by the
   harness) decodes to [None], which the correspondence reports as a mismatch. *)
From Coq Require Import List String Ascii NArith.
Import ListNotations.

Definition bytes := list ascii.

Definition hexval (c : ascii) : option N :=
  let n := N_of_ascii c in
  if ((48 <=? n) && (n <=? 57))%N%bool then Some (n - 48)%N
  else if ((97 <=? n) && (n <=? 102))%N%bool then Some (n - 87)%N
  else None.

Fixpoint unhex (s : string) : option bytes :=
  match s with
  | EmptyString => Some []
  | String a (String b r) =>
      match hexval a, hexval b, unhex r with
      | Some x, Some y, Some t => Some (ascii_of_N (16 * x + y) :: t)
      | _, _, _ => None
      end
  | String _ EmptyString => None
  end.

(* printable literals used inside the model and the grammar *)
Definition B (s : string) : bytes := list_ascii_of_string s.

Fixpoint bytes_eqb (a b : bytes) : bool :=
  match a, b with
  | [], [] => true
  | x :: a', y :: b' => Ascii.eqb x y && bytes_eqb a' b'
  | _, _ => false
  end.

Lemma bytes_eqb_eq a b : bytes_eqb a b = true <-> a = b.
Proof.
  revert b; induction a as [|x a IH]; destruct b as [|y b]; simpl; try (split; congruence).
  rewrite Bool.andb_true_iff, Ascii.eqb_eq, IH. split; [intros [-> ->]; reflexivity|intros H; inversion H; auto].
Qed.

Lemma bytes_eqb_refl a : bytes_eqb a a = true.
Proof. now apply bytes_eqb_eq. Qed.
